"""Regenerates coq/_CoqProject, MANIFEST.json and known_findings.json from the per-property fragments:
   coq/*/FILES, tools/checks/*.manifest.json, findings/*.json (+ findings/fixed.json)."""
import glob
import json
import os
import tempfile

V = os.path.dirname(os.path.dirname(os.path.abspath(__file__)))
ORDER = ["Base", "Writer", "Gql", "Ts", "Peg", "Gen"] + ["C%02d" % i for i in range(1, 21)]


def atomic_write(path, text):
    if os.path.exists(path) and open(path).read() == text:
        return
    fd, tmp = tempfile.mkstemp(dir=os.path.dirname(path))
    with os.fdopen(fd, "w") as f:
        f.write(text)
    os.chmod(tmp, 0o644)
    os.replace(tmp, path)


def coqproject():
    lines = ["-Q . V"]
    dirs = [d for d in ORDER if os.path.exists(os.path.join(V, "coq", d, "FILES"))]
    for d in dirs:
        for f in open(os.path.join(V, "coq", d, "FILES")).read().split():
            p = os.path.join(V, "coq", f)
            if os.path.exists(p) or "/Gen/" in p or f.startswith("Gen/"):
                lines.append(f)
    atomic_write(os.path.join(V, "coq", "_CoqProject"), "\n".join(lines) + "\n")


def manifest():
    ALL = ["C%02d" % i for i in range(1, 21)]
    frags = {}
    for p in sorted(glob.glob(os.path.join(V, "tools", "checks", "*.manifest.json"))):
        c = json.load(open(p))
        frags[c["property_id"]] = c
    extra = json.load(open(os.path.join(V, "tools", "manifest_extra.json")))
    man = {
        "version": 1,
        "setup_cmd": "./verify --setup",
        "hooks": {
            "guard": "nitrogql_verif",
            "enable": "RUSTFLAGS=\"--cfg nitrogql_verif\" (set by tools/vlib.py for every cargo build of the harness and of nitrogql-cli)",
            "baseline_off_cmd": "cd /repo && cargo test --workspace --no-fail-fast --offline",
            "source_commits": extra.get("hook_commits", []),
            "add_only": True,
        },
        "engines": [{
            "name": "coq-model+correspondence", "path": "/verif/verify",
            "serves_properties": sorted(frags),
            "kind_free_text": "Coq 8.16.1 theorems about hand-written Gallina models (coq/Cxx), tied to /repo by a Rust harness (harness/src/bin/cxx.rs) whose recorded implementation outputs are compared with the model by vm_compute inside coqc on every run; translators regenerate coq/Gen/*.v from /repo",
        }],
        "checks": [],
        "notes": extra.get("notes", ""),
        "not_applicable": [
            {"property_id": p, "reason": extra.get("unclaimed_reason", {}).get(
                p, "machinery for this property is not built yet (planned, DESIGN.md section 4); nothing is claimed for it")}
            for p in ALL if p not in frags],
    }
    for pid in sorted(frags):
        c = frags[pid]
        man["checks"].append({
            "property_id": pid,
            "quick_cmd": "./verify %s --tier quick" % pid,
            "thorough_cmd": "./verify %s --tier thorough" % pid,
            "evidence_file": "/verif/evidence/%s.json" % pid,
            "replay_cmd_template": "./verify %s --replay {path}" % pid,
            "engine": "coq-model+correspondence",
            "level_claimed": {"category": c.get("category", "proof"), "text": c["text"],
                              "design_ref": c.get("design_ref", "DESIGN.md section 4 (%s) and design/%s.md" % (pid, pid))},
            "level_note": c["note"],
            "technique": c["technique"],
        })
    atomic_write(os.path.join(V, "MANIFEST.json"), json.dumps(man, indent=1) + "\n")


def findings():
    fs, fixed = [], []
    for p in sorted(glob.glob(os.path.join(V, "findings", "C*.json"))):
        fs += json.load(open(p))
    fp = os.path.join(V, "findings", "fixed.json")
    if os.path.exists(fp):
        fixed = json.load(open(fp))
    atomic_write(os.path.join(V, "known_findings.json"), json.dumps({"findings": fs, "fixed": fixed}, indent=1, ensure_ascii=False) + "\n")


if __name__ == "__main__":
    coqproject()
    manifest()
    findings()
    print("assembled")
