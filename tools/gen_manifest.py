"""Writes MANIFEST.json from the table below (kept in one place so it is always valid)."""
import json
import os

V = os.path.dirname(os.path.dirname(os.path.abspath(__file__)))
CHECKS = json.load(open(os.path.join(V, "tools", "manifest_checks.json")))
ALL = ["C%02d" % i for i in range(1, 21)]
claimed = {c["property_id"] for c in CHECKS["checks"]}
man = {
    "version": 1,
    "setup_cmd": "./verify --setup",
    "hooks": {
        "guard": "nitrogql_verif",
        "enable": "RUSTFLAGS=\"--cfg nitrogql_verif\" (set by tools/vlib.py for every cargo build of the harness and of nitrogql-cli)",
        "baseline_off_cmd": "cd /repo && cargo test --workspace --no-fail-fast --offline",
        "source_commits": CHECKS.get("hook_commits", []),
        "add_only": True,
    },
    "engines": [{
        "name": "coq-model+correspondence", "path": "/verif/verify",
        "serves_properties": sorted(claimed),
        "kind_free_text": "Coq 8.16.1 theorems about hand-written Gallina models (coq/Cxx), tied to /repo by a Rust harness (harness/src/bin/cxx.rs) whose recorded implementation outputs are compared with the model by vm_compute inside coqc on every run",
    }],
    "checks": [],
    "notes": CHECKS.get("notes", ""),
    "not_applicable": [{"property_id": p, "reason": CHECKS["unclaimed_reason"].get(p, "machinery for this property is not built yet (planned, see DESIGN.md section 4); nothing is claimed")}
                       for p in ALL if p not in claimed],
}
for c in CHECKS["checks"]:
    pid = c["property_id"]
    man["checks"].append({
        "property_id": pid,
        "quick_cmd": "./verify %s --tier quick" % pid,
        "thorough_cmd": "./verify %s --tier thorough" % pid,
        "evidence_file": "/verif/evidence/%s.json" % pid,
        "replay_cmd_template": "./verify %s --replay {path}" % pid,
        "engine": "coq-model+correspondence",
        "level_claimed": {"category": "proof", "text": c["text"], "design_ref": c.get("design_ref", "DESIGN.md section 4, " + pid)},
        "level_note": c["note"],
        "technique": c["technique"],
    })
json.dump(man, open(os.path.join(V, "MANIFEST.json"), "w"), indent=1)
print("MANIFEST.json written:", len(man["checks"]), "checks,", len(man["not_applicable"]), "not claimed")
