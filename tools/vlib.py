"""Shared machinery for the /verif checks.

One check =
  1. regenerate coq/Gen/*.v from /repo (property-specific, optional)
  2. build the property's Coq files (full .vo build through coq_makefile's Makefile)
  3. audit: forbidden vernacular, pinned statements, Print Assumptions allow-list
  4. build the harness binary against /repo's working tree and run it -> case files
  5. evaluate the Coq model on the case files (coqc, vm_compute), read back
     corr_fail (model != implementation) and prop_fail (spec-side predicate false on the
     implementation's output)
  6. decide: known findings / VIOLATION lines / evidence file
"""
import concurrent.futures
import hashlib
import json
import os
import re
import shutil
import subprocess
import sys
import time

VERIF = os.path.dirname(os.path.dirname(os.path.abspath(__file__)))
COQ_SRC = os.path.join(VERIF, "coq")
COQ = COQ_SRC
BUILD = os.path.join(VERIF, ".build")
REPO = os.path.abspath(os.environ.get("VERIF_REPO", "/repo"))
GUARD = "nitrogql_verif"
if REPO == "/repo":
    HARNESS = os.path.join(VERIF, "harness")
    TARGET = os.path.join(BUILD, "cargo-target")
    CLI_TARGET = os.path.join(BUILD, "cli-target")
    CASES = os.path.join(BUILD, "cases")
    EVID = os.path.join(VERIF, "evidence")
    REPLAYS = os.path.join(VERIF, "replays")
else:
    # development aid: run the checks against a scratch worktree of /repo (VERIF_REPO=<dir>) without
    # touching /repo; uses a generated copy of the harness manifest with the paths rewritten.
    _tag = hashlib.sha1(REPO.encode()).hexdigest()[:10]
    _alt = os.path.join(BUILD, "alt-" + _tag)
    HARNESS = os.path.join(_alt, "harness")
    TARGET = os.path.join(_alt, "cargo-target")
    CLI_TARGET = os.path.join(_alt, "cli-target")
    CASES = os.path.join(_alt, "cases")
    EVID = os.path.join(_alt, "evidence")
    REPLAYS = os.path.join(_alt, "replays")
    # a private copy of the Coq development (sources and compiled files), so that translators which
    # regenerate coq/Gen/*.v from the scratch worktree never disturb the shared tree
    COQ = os.path.join(_alt, "coq")
CARGO_ENV = dict(os.environ, CARGO_NET_OFFLINE="true", RUSTFLAGS="--cfg " + GUARD, CARGO_TARGET_DIR=TARGET)


def _prepare_alt_harness():
    if REPO == "/repo":
        return
    src = os.path.join(VERIF, "harness")
    for root, dirs, files in os.walk(src):
        dirs[:] = [d for d in dirs if d not in ("target",)]
        rel = os.path.relpath(root, src)
        os.makedirs(os.path.join(HARNESS, rel), exist_ok=True)
        for f in files:
            if f == "Cargo.lock":
                continue
            data = open(os.path.join(root, f), "rb").read()
            if f.endswith(".toml"):
                data = data.replace(b"/repo/", REPO.encode() + b"/").replace(
                    b"/verif/.build/cargo-target", TARGET.encode())
            dst = os.path.join(HARNESS, rel, f)
            if not os.path.exists(dst) or open(dst, "rb").read() != data:
                open(dst, "wb").write(data)

FORBIDDEN = re.compile(
    r"\b(Admitted|admit|Axiom|Axioms|Parameter|Parameters|Conjecture|Conjectures|Admit\s+Obligations|"
    r"Unset\s+Guard\s+Checking|Unset\s+Positivity\s+Checking|Unset\s+Universe\s+Checking|bypass_check|"
    r"native_compute)\b")
# axioms of the standard library that a theorem may depend on (none is used at present)
ALLOWED_AXIOMS = set()


class Ctx:
    def __init__(self, pid, tier, seed):
        self.pid = pid
        self.tier = tier
        self.seed = seed
        self.t0 = time.time()
        self.violations = []      # (message, replay_path)
        self.known = []           # messages
        self.notes = []
        self.coverage = {}
        self.assumptions = []
        self.obligations = 0
        self.discharged = 0
        self.trusted = []
        self.checker_cmd = ""
        self.findings = load_known_findings()

    def log(self, *a):
        print("[%s %6.1fs]" % (self.pid, time.time() - self.t0), *a, flush=True)


def sh(cmd, cwd=None, env=None, timeout=None, stdin=None):
    p = subprocess.run(cmd, cwd=cwd, env=env, timeout=timeout, stdout=subprocess.PIPE,
                       stderr=subprocess.STDOUT, text=True, shell=isinstance(cmd, str), input=stdin)
    return p.returncode, p.stdout


def load_known_findings():
    p = os.path.join(VERIF, "known_findings.json")
    if not os.path.exists(p):
        return {"findings": [], "fixed": []}
    return json.load(open(p))


# ---------------------------------------------------------------- Coq side

def _prepare_alt_coq():
    if COQ == COQ_SRC:
        return
    os.makedirs(COQ, exist_ok=True)
    rc, out = sh(["rsync", "-a", "--delete", "--exclude", ".lia.cache", COQ_SRC + "/", COQ + "/"])
    if rc != 0:
        raise RuntimeError("cannot mirror the Coq development: " + out[-500:])


def gen_root():
    """directory whose `coq/Gen` the translators write to (for translators that take the /verif root)"""
    return os.path.dirname(COQ)


def coq_makefile():
    mk = os.path.join(COQ, "Makefile")
    cp = os.path.join(COQ, "_CoqProject")
    if not os.path.exists(mk) or os.path.getmtime(mk) < os.path.getmtime(cp):
        rc, out = sh(["coq_makefile", "-f", "_CoqProject", "-o", "Makefile"], cwd=COQ)
        if rc != 0:
            raise RuntimeError("coq_makefile failed:\n" + out)


def hold_lock(name):
    """blocking advisory lock (released when the process exits or the returned file is closed);
    keeps concurrent runs from writing the same case directory / the same .vo files"""
    import fcntl
    d = os.path.join(os.path.dirname(CASES), "locks")
    os.makedirs(d, exist_ok=True)
    f = open(os.path.join(d, name + ".lock"), "w")
    fcntl.flock(f, fcntl.LOCK_EX)
    return f


def coq_build(ctx, targets, timeout=1500):
    """make the given .vo targets; returns (ok, log)."""
    lock = hold_lock("coq-make")  # checks of different properties share .vo prerequisites
    try:
        coq_makefile()
        rc, out = sh(["timeout", str(timeout), "make", "-j16"] + targets, cwd=COQ)
    finally:
        lock.close()
    ok = rc == 0
    if not ok:
        ctx.log("coq build FAILED")
        ctx.log(out[-3000:])
    return ok, out


def vfiles_closure(targets):
    """source files (relative to coq/) the targets depend on, via coqdep's .Makefile.d"""
    dep = {}
    dfile = os.path.join(COQ, ".Makefile.d")
    if os.path.exists(dfile):
        for line in open(dfile):
            if ":" not in line:
                continue
            lhs, rhs = line.split(":", 1)
            outs = [x for x in lhs.split() if x.endswith(".vo")]
            deps = [x for x in rhs.split() if x.endswith(".vo") and not x.startswith("/")]
            for o in outs:
                dep.setdefault(o, set()).update(deps)
    seen = set()
    todo = list(targets)
    while todo:
        t = todo.pop()
        if t in seen:
            continue
        seen.add(t)
        todo.extend(dep.get(t, ()))
    return sorted(x[:-1] for x in seen)   # .vo -> .v


STMT = re.compile(r"^\s*(Lemma|Theorem|Corollary|Example|Fact|Proposition|Remark)\s+([A-Za-z0-9_']+)", re.M)


def count_obligations(vfiles):
    n = 0
    names = []
    for f in vfiles:
        p = os.path.join(COQ, f)
        if os.path.exists(p):
            for m in STMT.finditer(open(p).read()):
                n += 1
                names.append(f[:-2] + ":" + m.group(2))
    return n, names


def strip_comments(src):
    out = []
    depth = 0
    i = 0
    while i < len(src):
        if src.startswith("(*", i):
            depth += 1
            i += 2
        elif src.startswith("*)", i) and depth > 0:
            depth -= 1
            i += 2
        else:
            if depth == 0:
                out.append(src[i])
            i += 1
    return "".join(out)


def audit(ctx, vfiles, pinned_file):
    """grep for forbidden vernacular in the closure; compile the pinned-statement file (which
    Checks every property theorem against its stated type and prints its assumptions)."""
    problems = []
    for f in vfiles:
        src = strip_comments(open(os.path.join(COQ, f)).read())
        # string literals may legitimately contain words; drop them
        src = re.sub(r'"(?:[^"]|"")*"', '""', src)
        for m in FORBIDDEN.finditer(src):
            problems.append("%s: forbidden vernacular '%s'" % (f, m.group(0)))
    assumptions = {}
    if pinned_file:
        rc, out = sh(["timeout", "600", "coqc", "-Q", ".", "V", pinned_file], cwd=COQ)
        base = pinned_file[:-2]
        for ext in (".vo", ".glob", ".vok", ".vos"):
            try:
                os.remove(os.path.join(COQ, base + ext))
            except OSError:
                pass
        d, b = os.path.split(base)
        try:
            os.remove(os.path.join(COQ, d, "." + b + ".aux"))
        except OSError:
            pass
        if rc != 0:
            problems.append("pinned statements do not check: " + out[-1500:])
        # Print Assumptions output: either "Closed under the global context" or "Axioms:\n name : type"
        chunks = re.split(r"(?m)^(?=Closed under the global context|Axioms:)", out)
        n_closed = len(re.findall(r"(?m)^Closed under the global context", out))
        ax = re.findall(r"(?m)^([A-Za-z0-9_.']+)\s*:", "\n".join(c for c in chunks if c.startswith("Axioms:")))
        for a in ax:
            if a not in ALLOWED_AXIOMS:
                problems.append("theorem depends on non-allow-listed axiom " + a)
        assumptions = {"closed_theorems": n_closed, "axioms": sorted(set(ax))}
    return problems, assumptions


def coqchk(ctx, targets, timeout=3600):
    """thorough tier: re-check the compiled property files and everything they depend on with the
    independent checker, and read the axioms it reports for the whole context."""
    mods = ["V." + t[:-3].replace("/", ".") for t in targets if t.endswith(".vo")]
    t0 = time.time()
    rc, out = sh(["timeout", str(timeout), "coqchk", "-o", "-silent", "-Q", ".", "V"] + mods, cwd=COQ)
    info = {"modules": mods, "wall_s": round(time.time() - t0, 1)}
    problems = []
    if rc == 124:
        info["result"] = "timed out after %d s (not counted as a violation; coqc's kernel check stands)" % timeout
        ctx.coverage["coqchk"] = info
        return problems
    if rc != 0:
        problems.append("coqchk failed: " + out[-800:])
    m = re.search(r"\* Axioms:(.*?)\n\s*\n\* Constants/Inductives relying on type-in-type:(.*?)\n\s*\n\* Constants/Inductives relying on unsafe \(co\)fixpoints:(.*?)\n\s*\n\* Inductives whose positivity is assumed:(.*?)\n", out + "\n", re.S)
    if not m:
        if rc == 0:
            problems.append("coqchk context summary not understood: " + out[-500:])
    else:
        axioms, tit, unsafe_fix, pos = [x.strip() for x in m.groups()]
        info.update({"axioms": axioms, "type_in_type": tit, "unsafe_fixpoints": unsafe_fix, "assumed_positivity": pos})
        ax = [a for a in re.findall(r"(?m)^\s*([A-Za-z0-9_.']+)\s*$", axioms) if a != "<none>"] if axioms != "<none>" else []
        for a in ax:
            if a not in ALLOWED_AXIOMS:
                problems.append("context contains non-allow-listed axiom " + a)
        for label, v in (("type-in-type", tit), ("unsafe fixpoints", unsafe_fix), ("assumed positivity", pos)):
            if v != "<none>":
                problems.append("%s used: %s" % (label, v[:200]))
    info["result"] = "ok" if not problems else "problems"
    ctx.coverage["coqchk"] = info
    return problems


# ---------------------------------------------------------------- Rust side

def harness_build(ctx, binname, timeout=1500):
    _prepare_alt_harness()
    lock_src = os.path.join(REPO, "Cargo.lock")
    lock_dst = os.path.join(HARNESS, "Cargo.lock")
    if not os.path.exists(lock_dst):
        shutil.copyfile(lock_src, lock_dst)
    rc, out = sh(["timeout", str(timeout), "cargo", "build", "--offline", "--bin", binname],
                 cwd=HARNESS, env=CARGO_ENV)
    if rc != 0 and "Cargo.lock" in out:
        shutil.copyfile(lock_src, lock_dst)
        rc, out = sh(["timeout", str(timeout), "cargo", "build", "--offline", "--bin", binname],
                     cwd=HARNESS, env=CARGO_ENV)
    if rc != 0:
        ctx.log("harness build FAILED")
        ctx.log(out[-3000:])
    return rc == 0, out


def harness_run(ctx, binname, outdir, extra=(), timeout=3000):
    shutil.rmtree(outdir, ignore_errors=True)
    os.makedirs(outdir)
    exe = os.path.join(TARGET, "debug", binname)
    rc, out = sh(["timeout", str(timeout), exe, "--seed", str(ctx.seed), "--tier", ctx.tier, "--out", outdir]
                 + list(extra), cwd=outdir)
    if rc != 0:
        ctx.log("harness run FAILED rc=%d" % rc)
        ctx.log(out[-3000:])
    return rc == 0, out


def cli_build(ctx, timeout=1500):
    """the real nitrogql-cli binary, from the working tree, into a private target dir"""
    env = dict(CARGO_ENV, CARGO_TARGET_DIR=CLI_TARGET)
    rc, out = sh(["timeout", str(timeout), "cargo", "build", "--offline", "-p", "nitrogql-cli",
                  "--manifest-path", os.path.join(REPO, "Cargo.toml")], env=env)
    if rc != 0:
        ctx.log("cli build FAILED")
        ctx.log(out[-3000:])
    return rc == 0, os.path.join(CLI_TARGET, "debug", "nitrogql-cli")


# ---------------------------------------------------------------- evaluating case files

RES = {k: re.compile(k + r"\s*=\s*(\[.*?\])\s*:\s*list N", re.S) for k in ("corr_fail", "prop_fail")}


def _eval_shard(path):
    d, f = os.path.split(path)
    try:
        rc, out = sh(["timeout", "1200", "coqc", "-noglob", "-Q", COQ, "V", f], cwd=d)
    except Exception as e:  # noqa
        return path, None, str(e)
    if rc != 0:
        return path, None, out[-2000:]
    res = {}
    for k, rx in RES.items():
        m = rx.search(out)
        if not m:
            return path, None, "cannot read %s from coqc output: %s" % (k, out[-500:])
        res[k] = [int(x) for x in re.findall(r"(\d+)(?:%N)?", m.group(1))]
    for ext in (".vo", ".vok", ".vos"):
        try:
            os.remove(path[:-2] + ext)
        except OSError:
            pass
    return path, res, ""


def eval_cases(ctx, outdir):
    """returns (ok, corr_fail_ids, prop_fail_ids, errors) with global case ids"""
    meta = json.load(open(os.path.join(outdir, "shards.json")))
    shards = [os.path.join(outdir, "cases_%d.v" % k) for k in range(meta["shards"])]
    corr, prop, errs = [], [], []
    with concurrent.futures.ThreadPoolExecutor(max_workers=16) as ex:
        for path, res, err in ex.map(_eval_shard, shards):
            k = int(re.search(r"cases_(\d+)\.v$", path).group(1))
            if res is None:
                errs.append("%s: %s" % (os.path.basename(path), err))
                continue
            corr += [k * meta["shard_size"] + i for i in res["corr_fail"]]
            prop += [k * meta["shard_size"] + i for i in res["prop_fail"]]
    return (not errs), sorted(corr), sorted(prop), errs


# ---------------------------------------------------------------- verdicts

def write_replay(ctx, payload):
    d = os.path.join(REPLAYS, ctx.pid)
    os.makedirs(d, exist_ok=True)
    blob = json.dumps(payload, sort_keys=True, indent=1, ensure_ascii=False)
    h = hashlib.sha1(blob.encode()).hexdigest()[:12]
    p = os.path.join(d, h + ".json")
    open(p, "w").write(blob)
    return p


def violation(ctx, what, payload, found_input=True):
    payload = dict(payload, property=ctx.pid, what=what, seed=ctx.seed, tier=ctx.tier)
    p = write_replay(ctx, payload)
    ctx.violations.append((what, p, found_input))


def known_match(ctx, classes):
    """classes: set of failure-class strings attached to a failing case by the check; a case is a
    known finding iff one of its classes is listed for this property."""
    for f in ctx.findings.get("findings", []):
        if f["property"] == ctx.pid and f["class"] in classes:
            return f
    return None


def report_known(ctx, finding, detail=""):
    msg = "KNOWN-FINDING: property=%s %s%s" % (ctx.pid, finding["what"], (" [" + detail + "]") if detail else "")
    if msg not in ctx.known:
        ctx.known.append(msg)


def finish(ctx, level="proof"):
    wall = time.time() - ctx.t0
    cov = dict(ctx.coverage)
    cov.setdefault("obligations", ctx.obligations)
    cov.setdefault("discharged", ctx.discharged)
    cov.setdefault("checker_cmd", ctx.checker_cmd)
    cov.setdefault("trusted_base", ctx.trusted)
    cov["known_findings_reported"] = ctx.known
    cov["notes"] = ctx.notes
    ev = {
        "property_id": ctx.pid, "tier": ctx.tier, "seed": ctx.seed, "level": level,
        "coverage": cov, "assumptions": ctx.assumptions, "wall_s": round(wall, 1),
        "violations": len(ctx.violations),
    }
    os.makedirs(EVID, exist_ok=True)
    json.dump(ev, open(os.path.join(EVID, ctx.pid + ".json"), "w"), indent=1, ensure_ascii=False)
    for m in ctx.known:
        print(m)
    for what, p, found in ctx.violations:
        print("VIOLATION property=%s replay=%s %s%s" % (ctx.pid, p, what.replace("\n", " ")[:300],
                                                          "" if found else " no-failing-input-found"))
    ctx.log("done: %d violation(s), %d known finding(s), wall %.1fs" % (len(ctx.violations), len(ctx.known), wall))
    return 1 if ctx.violations else 0


BASE_TRUSTED = [
    "Coq 8.16.1 kernel (coqc, full .vo build); vm_compute used for case evaluation and finite obligations; native_compute not used",
    "no axioms: every property theorem is 'Closed under the global context' (checked by Print Assumptions on each run); thorough tier: coqchk -o -silent re-checks the compiled property files with their dependencies and must report 'Axioms: <none>', no type-in-type, no unsafe fixpoints, no assumed positivity (result in coverage.coqchk)",
    "hand-written Gallina model of the Rust code; tied to /repo by the correspondence run (same inputs through model and implementation)",
    "Rust harness (generators, canonical printing of inputs/outputs as Coq terms) and tools/vlib.py (parsing coqc output)",
]


def standard_check(ctx, *, targets, pinned, binname, gen=None, classify=None, search=None,
                   extra_trusted=(), assumptions=(), harness_extra=(), post_harness=None):
    """The common shape of a check; property modules supply the specifics.
    classify(case_descr, kind) -> set of known-finding class strings for a failing case."""
    ctx.trusted = BASE_TRUSTED + list(extra_trusted)
    ctx.assumptions = list(assumptions)
    ctx.checker_cmd = "cd coq && make -j16 %s && coqc -Q . V %s  (then coqc on generated case files)" % (" ".join(targets), pinned)
    proof_ok = True
    _prepare_alt_coq()
    if gen:
        try:
            gen(ctx)
        except Exception as e:  # translator failed closed
            proof_ok = False
            violation(ctx, "translator failed: %s" % e, {"stage": "translate", "error": str(e)}, found_input=False)
    ok, log = coq_build(ctx, targets)
    vfiles = vfiles_closure(targets)
    ctx.obligations, names = count_obligations(vfiles)
    if not ok:
        proof_ok = False
        m = re.search(r'File "([^"]+)", line (\d+)', log)
        violation(ctx, "proof obligation no longer checks (%s)" % (m.group(0) if m else "make failed"),
                  {"stage": "proof", "log_tail": log[-2500:]}, found_input=False)
        ctx.discharged = 0
    else:
        ctx.discharged = ctx.obligations
        problems, assum = audit(ctx, vfiles, pinned)
        ctx.coverage["print_assumptions"] = assum
        for pr in problems:
            proof_ok = False
            violation(ctx, "audit: " + pr, {"stage": "audit", "problem": pr}, found_input=False)
        if getattr(ctx, "tier", "quick") == "thorough" and not os.environ.get("VERIF_NO_COQCHK"):
            for pr in coqchk(ctx, targets):
                proof_ok = False
                violation(ctx, "coqchk: " + pr, {"stage": "coqchk", "problem": pr}, found_input=False)
    ctx.coverage["theorems"] = names[-40:]
    ok, out = harness_build(ctx, binname)
    if not ok:
        violation(ctx, "harness does not build against /repo (public API used by the tie changed)",
                  {"stage": "harness-build", "log_tail": out[-2500:]}, found_input=False)
        return finish(ctx)
    outdir = os.path.join(CASES, ctx.pid)
    ok, out = harness_run(ctx, binname, outdir, extra=harness_extra)
    if not ok:
        violation(ctx, "harness run failed (crash or abort of the implementation under the harness)",
                  {"stage": "harness-run", "log_tail": out[-2500:]}, found_input=False)
        return finish(ctx)
    if post_harness:
        # property-specific extra cases (e.g. observed on the real CLI binary), appended as further shards
        try:
            post_harness(ctx, outdir)
        except Exception as e:  # noqa
            violation(ctx, "end-to-end stage failed: %r" % (e,), {"stage": "post-harness", "error": repr(e)}, found_input=False)
    meta = json.load(open(os.path.join(outdir, "meta.json")))
    for k in ("evaluations", "distinct_nontrivial", "rule", "samples", "distribution"):
        if k in meta:
            ctx.coverage[k] = meta[k]
    for extra in meta.get("direct_failures", []):
        # property failures the harness itself observed on the implementation (e.g. a panic)
        cls = set(extra.get("classes", []))
        f = known_match(ctx, cls)
        if f:
            report_known(ctx, f)
        else:
            violation(ctx, extra.get("what", "property fails on the implementation"), extra)
    if proof_ok or os.path.exists(os.path.join(COQ, targets[0])):
        ok, corr, prop, errs = eval_cases(ctx, outdir)
        descr = json.load(open(os.path.join(outdir, "cases.json")))
        ctx.coverage["traces_validated_against_impl"] = len(descr) - len(corr)
        ctx.coverage["correspondence_disagreements"] = len(corr)
        ctx.coverage["spec_predicate_failures_on_impl"] = len(prop)
        for e in errs[:3]:
            violation(ctx, "model could not be evaluated on a case file: " + e[:200], {"stage": "eval", "error": e},
                      found_input=False)
        reported = 0
        unknown_prop = []
        for i in prop:
            cls = classify(descr[i], "prop") if classify else set()
            f = known_match(ctx, cls)
            if f:
                report_known(ctx, f)
            else:
                unknown_prop.append(i)
        for i in unknown_prop[:5]:
            violation(ctx, "property fails on the implementation for this input", {"stage": "spec-on-impl", "case": descr[i]})
        unknown_corr = []
        for i in corr:
            if i in prop:
                continue
            cls = classify(descr[i], "corr") if classify else set()
            f = known_match(ctx, cls)
            if f:
                report_known(ctx, f)
            else:
                unknown_corr.append(i)
        if unknown_corr and not unknown_prop:
            found = None
            if search:
                found = search(ctx, [descr[i] for i in unknown_corr])
            if found:
                violation(ctx, "model/implementation disagree and the property fails on this input", found)
            else:
                violation(ctx, "correspondence broken: model and implementation disagree on %d case(s), e.g. this one; "
                               "the property theorems no longer speak about this code" % len(unknown_corr),
                          {"stage": "correspondence", "case": descr[unknown_corr[0]],
                           "more_cases": [descr[i] for i in unknown_corr[1:5]],
                           "theorem_or_correspondence": "correspondence %s/Corr.v:agree" % ctx.pid},
                          found_input=False)
    return finish(ctx)


def generic_replay(ctx, path):
    """Replays a reported violation: prints the stored input and re-runs the property's check with the
    seed and tier recorded in the replay file (all random choices derive from the seed, so the same
    cases are regenerated); exit status is that of the check."""
    import importlib
    data = json.load(open(path))
    print(json.dumps(data, indent=1, ensure_ascii=False)[:6000])
    ctx.seed = int(data.get("seed", ctx.seed))
    ctx.tier = data.get("tier", ctx.tier)
    mod = importlib.import_module("checks." + ctx.pid.lower())
    return mod.run(ctx)


def append_shard(outdir, imports, case_type, agree_fn, holds_fn, terms, descrs):
    """adds one more cases_k.v (and its descriptions) to a harness output directory"""
    sj = os.path.join(outdir, "shards.json")
    meta = json.load(open(sj))
    descr = json.load(open(os.path.join(outdir, "cases.json")))
    k = meta["shards"]
    # pad the description list so that global ids (k * shard_size + i) stay valid
    while len(descr) < k * meta["shard_size"]:
        descr.append({"kind": "padding"})
    if len(terms) > meta["shard_size"]:
        raise RuntimeError("append_shard: too many cases for one shard")
    v = [imports, "Definition cases : list (%s) := [" % case_type, ";\n".join("  " + t for t in terms), "].",
         "Definition corr_fail := Eval vm_compute in (failing %s cases)." % agree_fn,
         "Definition prop_fail := Eval vm_compute in (failing %s cases)." % holds_fn,
         "Print corr_fail.", "Print prop_fail."]
    open(os.path.join(outdir, "cases_%d.v" % k), "w").write("\n".join(v) + "\n")
    descr += descrs
    meta["shards"] = k + 1
    meta["n"] = len(descr)
    json.dump(meta, open(sj, "w"))
    json.dump(descr, open(os.path.join(outdir, "cases.json"), "w"))


def coq_str(x):
    if all(" " <= c <= "~" for c in x) and len(x) < 2000:
        return '(s "%s")' % x.replace('"', '""')
    return "[" + ";".join(str(ord(c)) for c in x) + "]%N"
