#!/usr/bin/env python3
"""C08 translator T4: token-level scanner that lists every syntactic *panic site* in the non-test code of the
files C08 anchors (and of the files the models of those stages were written from):
  panic! / unreachable! / todo! / unimplemented!        (kind "panic")
  .expect(..) / .unwrap()                                (kind "expect" / "unwrap")
  assert! / assert_eq! / assert_ne! / debug_assert*      (kind "assert")
  indexing  e[..]                                        (kind "index")
  .split_at(..)                                          (kind "split_at")
  binary `-` / `-=`                                      (kind "sub")   (usize subtraction cannot be told from
                                                          other subtraction without types: every one is listed)
with file, enclosing function, and -- for panic!/expect/assert -- the first string literal of the argument
(the message), so that a site is recognisable.  Output: coq/Gen/C08_sites_gen.v (written only if changed).

No type information: `index` over-reports (array types `[T; n]` and attribute brackets are excluded
syntactically, slices of Vec/str are not distinguished from HashMap indexing); over-reports are entered in the
hand-maintained table coq/C08/Sites.v with status NoPanic and the reason.  Macros that hide a panic (`parts!`,
`parts_mod!`) are scanned at their definition (utils.rs).  The scanner fails closed: a file it cannot tokenise,
or a listed file that does not exist, raises; a planted self-test must be found exactly.
"""
import os
import re
import sys

FILES = [
    # the property's anchors
    "crates/parser/src/parser/builder/utils.rs",
    "crates/parser/src/parser/builder/value.rs",
    "crates/parser/src/parser/builder/operation.rs",
    "crates/semantics/src/operation_import_resolver/mod.rs",
    "crates/config-file/src/parse_config.rs",
    "crates/printer/src/operation_js_printer/printers.rs",
    "crates/printer/src/operation_type_printer/type_printer.rs",
    "crates/printer/src/operation_type_printer/deep_merge.rs",
    "crates/error/src/lib.rs",
    "crates/graphql-loader/src/loader.rs",
    "crates/cli/src/main.rs",
    # the rest of the builder (modelled by C07/Builder.v) and the helpers the anchored code calls
    "crates/parser/src/parser/builder.rs",
    "crates/parser/src/parser/mod.rs",
    "crates/parser/src/parser/builder/base.rs",
    "crates/parser/src/parser/builder/directives.rs",
    "crates/parser/src/parser/builder/selection_set.rs",
    "crates/parser/src/parser/builder/type.rs",
    "crates/parser/src/parser/builder/type_system/mod.rs",
    "crates/parser/src/parser/builder/type_system/type_definition.rs",
    "crates/parser/src/parser/builder/type_system/type_extension.rs",
    "crates/utils/src/chars.rs",
    "crates/printer/src/operation_type_printer/selection_set_visitor.rs",
    "crates/semantics/src/operation_extension_resolver/mod.rs",
]

TOKEN = re.compile(r"""
    (?P<ws>\s+)
  | (?P<lc>//[^\n]*)
  | (?P<rs>b?r(?P<h>\#*)"(?:.|\n)*?"(?P=h))
  | (?P<str>b?"(?:\\.|[^"\\])*")
  | (?P<chr>b?'(?:\\(?:x[0-9a-fA-F]{2}|u\{[0-9a-fA-F_]+\}|.)|[^'\\\n])')
  | (?P<life>'[A-Za-z_][A-Za-z0-9_]*)
  | (?P<id>(?:r\#)?[A-Za-z_][A-Za-z0-9_]*)
  | (?P<num>[0-9][0-9A-Za-z_.]*)
  | (?P<op>::|->|=>|==|!=|<=|>=|&&|\|\||-=|\+=|\.\.=|\.\.\.|\.\.|[-+*/%^!&|=<>@.,;:\#$?~(){}\[\]\\])
""", re.X)

PANIC_MACROS = {"panic", "unreachable", "todo", "unimplemented"}
ASSERT_MACROS = {"assert", "assert_eq", "assert_ne", "debug_assert", "debug_assert_eq", "debug_assert_ne"}


def tokenize(src, path):
    out = []
    i, n = 0, len(src)
    while i < n:
        if src.startswith("/*", i):
            depth = 1
            i += 2
            while i < n and depth:
                if src.startswith("/*", i):
                    depth += 1
                    i += 2
                elif src.startswith("*/", i):
                    depth -= 1
                    i += 2
                else:
                    i += 1
            continue
        m = TOKEN.match(src, i)
        if not m:
            raise RuntimeError("gen_c08: cannot tokenise %s at offset %d: %r" % (path, i, src[i:i + 30]))
        i = m.end()
        k = m.lastgroup
        if k == "h":
            k = "rs"
        if k in ("ws", "lc"):
            continue
        if k in ("rs", "str"):
            t = m.group(0)
            body = t[t.index('"') + 1:t.rindex('"')]
            out.append(("str", body))
        elif k == "chr":
            out.append(("chr", ""))
        else:
            out.append(({"life": "life", "id": "id", "num": "num", "op": "op"}[k], m.group(0)))
    return out


def strip_cfg_test(toks):
    """remove items annotated #[cfg(test)]"""
    out = []
    i, n = 0, len(toks)
    while i < n:
        if (toks[i] == ("op", "#") and i + 6 < n and toks[i + 1] == ("op", "[") and toks[i + 2] == ("id", "cfg")
                and toks[i + 3] == ("op", "(") and toks[i + 4] == ("id", "test") and toks[i + 5] == ("op", ")")
                and toks[i + 6] == ("op", "]")):
            j = i + 7
            depth = 0
            while j < n:
                t = toks[j][1] if toks[j][0] == "op" else None
                if t in ("{", "(", "["):
                    depth += 1
                elif t in ("}", ")", "]"):
                    depth -= 1
                    if depth == 0 and t == "}":
                        j += 1
                        break
                elif t == ";" and depth == 0:
                    j += 1
                    break
                j += 1
            i = j
            continue
        out.append(toks[i])
        i += 1
    return out


def first_string(toks, i):
    """first string literal inside the parenthesised group opening at toks[i] == '(' ; '' if none"""
    depth = 0
    j = i
    while j < len(toks):
        k, t = toks[j]
        if k == "op" and t in ("(", "[", "{"):
            depth += 1
        elif k == "op" and t in (")", "]", "}"):
            depth -= 1
            if depth == 0:
                return ""
        elif k == "str":
            return t
        j += 1
    return ""


def clean(msg):
    msg = re.sub(r"[^ -~]", "?", msg).replace('"', "'")
    return msg[:60]


def scan_tokens(rel, toks):
    """-> list of (fn, kind, detail)"""
    sites = []
    fn_stack = []      # (name, brace depth at which its body opened)
    depth = 0
    pending_fn = None
    in_attr = 0
    n = len(toks)
    i = 0
    macro_stack = []   # names of macro_rules! being defined, with depth
    while i < n:
        k, t = toks[i]
        prev = toks[i - 1] if i > 0 else ("", "")
        nxt = toks[i + 1] if i + 1 < n else ("", "")
        cur = fn_stack[-1][0] if fn_stack else (macro_stack[-1][0] if macro_stack else "<top>")
        if k == "id" and t == "fn" and nxt[0] == "id":
            pending_fn = nxt[1]
        elif k == "id" and t == "macro_rules" and nxt == ("op", "!") and i + 2 < n and toks[i + 2][0] == "id":
            pending_fn = "macro:" + toks[i + 2][1]
        if k == "op" and t == "{":
            depth += 1
            if pending_fn is not None:
                fn_stack.append((pending_fn, depth))
                pending_fn = None
        elif k == "op" and t == "}":
            if fn_stack and fn_stack[-1][1] == depth:
                fn_stack.pop()
            depth -= 1
        elif k == "op" and t == ";" and pending_fn is not None and not pending_fn.startswith("macro:"):
            pending_fn = None      # a declaration without body
        # --- attributes #[...] / #![...]: skip their brackets for the index rule
        if k == "op" and t == "#" and (nxt == ("op", "[") or (nxt == ("op", "!") and i + 2 < n and toks[i + 2] == ("op", "["))):
            j = i + 1
            while toks[j] != ("op", "["):
                j += 1
            d = 0
            while j < n:
                if toks[j] == ("op", "["):
                    d += 1
                elif toks[j] == ("op", "]"):
                    d -= 1
                    if d == 0:
                        break
                j += 1
            i = j + 1
            continue
        # --- macros
        if k == "id" and nxt == ("op", "!") and i + 2 < n and toks[i + 2][0] == "op" and toks[i + 2][1] in ("(", "[", "{"):
            if t in PANIC_MACROS:
                sites.append((cur, "panic", clean(first_string(toks, i + 2))))
            elif t in ASSERT_MACROS:
                sites.append((cur, "assert", clean(first_string(toks, i + 2))))
        # --- methods
        if k == "op" and t == "." and nxt[0] == "id" and i + 2 < n and toks[i + 2] == ("op", "("):
            name = nxt[1]
            if name == "expect":
                sites.append((cur, "expect", clean(first_string(toks, i + 2))))
            elif name == "unwrap":
                sites.append((cur, "unwrap", ""))
            elif name == "split_at":
                sites.append((cur, "split_at", ""))
        # --- indexing: `[` directly after an identifier, `)`, `]` or `?`  (not a type / array literal / attribute)
        if k == "op" and t == "[":
            is_kw = prev[0] == "id" and prev[1] in ("mut", "in", "return", "if", "else", "match", "as", "let", "const", "static", "dyn", "impl", "where", "move")
            if ((prev[0] == "id" and not is_kw) or prev in (("op", ")"), ("op", "]"), ("op", "?"))):
                # `vec![..]`, `matches![..]` are macro brackets: prev is '!' then, not reached here
                sites.append((cur, "index", prev[1] if prev[0] == "id" else ""))
        # --- binary minus
        if k == "op" and t in ("-", "-="):
            binary = t == "-=" or prev[0] in ("id", "num") or prev in (("op", ")"), ("op", "]"))
            if binary and not (prev[0] == "id" and prev[1] in ("return", "in", "if", "else", "match", "as")):
                lhs = prev[1] if prev[0] in ("id", "num") else ""
                sites.append((cur, "sub", clean(lhs)))
        i += 1
    return sites


SELFTEST_SRC = r'''
use x::y;
#[derive(Debug)]
struct S { a: [u8; 4] }
fn f(v: &[usize], s: &str) -> usize {
    let a = v[0];                       // index
    let b = v.len() - 1;                // sub
    let (_, r) = s.split_at(2);         // split_at
    let c: Option<u8> = None;
    c.expect("planted message");        // expect
    c.unwrap();                         // unwrap
    if a > 3 { panic!("boom {}", a); }  // panic
    assert_eq!(a, b, "eq");             // assert
    let z = vec![1, 2];                 // not an index
    -1 as isize as usize                // unary minus: not listed
}
#[cfg(test)]
mod tests { fn g() { None::<u8>.unwrap(); } }
macro_rules! m { ($e:expr) => { match $e { Some(x) => x, None => unreachable!("in macro") } }; }
'''
SELFTEST_EXPECT = sorted([
    ("f", "index", "v"), ("f", "sub", ""), ("f", "split_at", ""), ("f", "expect", "planted message"), ("f", "unwrap", ""),
    ("f", "panic", "boom {}"), ("f", "assert", "eq"), ("macro:m", "panic", "in macro"),
])


def selftest():
    got = sorted(scan_tokens("selftest.rs", strip_cfg_test(tokenize(SELFTEST_SRC, "selftest.rs"))))
    if got != SELFTEST_EXPECT:
        raise RuntimeError("gen_c08 self-test failed:\n got      %s\n expected %s" % (got, SELFTEST_EXPECT))


def scan(repo):
    res = {}
    for rel in FILES:
        p = os.path.join(repo, rel)
        if not os.path.exists(p):
            raise RuntimeError("gen_c08: anchored file %s does not exist any more" % rel)
        toks = strip_cfg_test(tokenize(open(p, encoding="utf-8").read(), rel))
        for (fn, kind, detail) in scan_tokens(rel, toks):
            key = (rel, fn, kind, detail)
            res[key] = res.get(key, 0) + 1
    return sorted(res.items())


def coq_s(x):
    assert all(32 <= ord(c) < 127 for c in x), x
    return '(s "%s")' % x.replace('"', '""')


def render(sites):
    L = ["(** GENERATED by tools/gen_c08.py from the Rust sources -- do not edit.",
         "    Every syntactic panic site (panic!/unreachable!, expect, unwrap, assert*, indexing, split_at, binary minus)",
         "    in the non-test code of the files C08 anchors.  (file, function, kind, message/receiver, occurrences) *)",
         "From V Require Import Base.Util C08.SiteType.", "",
         "Definition scanned_sites : list site := ["]
    rows = ["  mk_site %s %s %s %s %d%%N" % (coq_s(f), coq_s(fn), coq_s(k), coq_s(d), c) for (f, fn, k, d), c in sites]
    L.append(";\n".join(rows))
    L.append("].")
    L.append("")
    L.append("Definition scanned_files : list str := [")
    L.append(";\n".join("  " + coq_s(f) for f in FILES))
    L.append("].")
    return "\n".join(L) + "\n"


def generate(repo, verif):
    selftest()
    sites = scan(repo)
    text = render(sites)
    d = os.path.join(verif, "coq", "Gen")
    os.makedirs(d, exist_ok=True)
    p = os.path.join(d, "C08_sites_gen.v")
    if not os.path.exists(p) or open(p).read() != text:
        tmp = p + ".tmp%d" % os.getpid()
        open(tmp, "w").write(text)
        os.replace(tmp, p)
    return sites


if __name__ == "__main__":
    here = os.path.dirname(os.path.dirname(os.path.abspath(__file__)))
    repo = os.environ.get("VERIF_REPO", "/repo")
    if len(sys.argv) > 1 and sys.argv[1] == "--print":
        selftest()
        for (f, fn, k, d), c in scan(repo):
            print("%-62s %-44s %-9s %-40s x%d" % (f, fn, k, d, c))
    else:
        r = generate(repo, here)
        print("gen_c08: %d sites in %d files" % (len(r), len(FILES)))
