#!/bin/bash
# usage: seed_run.sh <seed-dir-name e.g. C11> <check id...>   -- runs checks against a scratch worktree with the seeded patch applied
set -u
S=$1; shift
WT=$(mktemp -d /tmp/seedrun-$S-XXXX); rmdir $WT
git -C /repo worktree add -q $WT HEAD || exit 2
git -C $WT apply /verif/seeded/$S/patch.diff || { echo "patch does not apply"; git -C /repo worktree remove --force $WT; exit 2; }
cd /verif
for c in "$@"; do
  echo "== $c against seeded/$S"
  VERIF_REPO=$WT ./verify $c "--tier" "${TIER:-quick}" 2>&1 | grep -E "VIOLATION|KNOWN-FINDING|done:" | cut -c1-400
done
git -C /repo worktree remove --force $WT
rm -rf /verif/.build/alt-$(python3 -c "import hashlib,sys;print(hashlib.sha1(sys.argv[1].encode()).hexdigest()[:10])" $WT)
