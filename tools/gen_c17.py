#!/usr/bin/env python3
"""C17 translator T3: token-level scanner over <repo>/crates/**/*.rs (non-test code) that lists every place where a
`HashMap` / `HashSet` is *iterated* (iter, iter_mut, into_iter, values, values_mut, into_values, keys, into_keys,
drain, retain, `for .. in <map>`, a map handed to an iterator adaptor such as extend/chain/zip/from_iter) with
file, enclosing function, binding and operation.  Output: coq/Gen/C17_sites_gen.v (written only if changed).

No type information is available: a binding counts as a hash container when
  * it is declared with a type that mentions HashMap/HashSet (or an alias of one): struct field, fn parameter,
    `let x: HashMap<..>`;
  * it is initialised by `HashMap::…`/`HashSet::…`, by an expression containing `collect::<HashMap…>`, by a call of
    a function whose declared return type mentions a hash container, or by another hash binding;
  * its name equals the name of a hash-typed struct field anywhere in the workspace (this deliberately
    over-reports: destructured fields and same-named locals are caught).
Over-reports are listed in the hand-maintained table (coq/C17/Proofs.v, `known_sites`) with the reason
"not a hash container".  The scanner fails closed: a file it cannot tokenise raises.
"""
import os
import re
import sys

ITER_METHODS = {"iter", "iter_mut", "into_iter", "values", "values_mut", "into_values", "keys", "into_keys",
                "drain", "retain", "par_iter"}
ADAPTORS = {"extend", "chain", "zip", "from_iter", "extend_from_slice", "join_all"}
TRANSPARENT = {"clone", "borrow", "borrow_mut", "as_ref", "as_mut", "unwrap", "to_owned", "by_ref"}
HASH = {"HashMap", "HashSet"}

TOKEN = re.compile(r"""
    (?P<ws>\s+)
  | (?P<lc>//[^\n]*)
  | (?P<rs>b?r(?P<h>\#*)"(?:.|\n)*?"(?P=h))
  | (?P<str>b?"(?:\\.|[^"\\])*")
  | (?P<chr>b?'(?:\\(?:x[0-9a-fA-F]{2}|u\{[0-9a-fA-F_]+\}|.)|[^'\\\n])')
  | (?P<life>'[A-Za-z_][A-Za-z0-9_]*)
  | (?P<id>(?:r\#)?[A-Za-z_][A-Za-z0-9_]*)
  | (?P<num>[0-9][0-9A-Za-z_.]*)
  | (?P<op>::|->|=>|==|!=|<=|>=|&&|\|\||\.\.=|\.\.\.|\.\.|[-+*/%^!&|=<>@.,;:\#$?~(){}\[\]\\])
""", re.X)


def tokenize(src, path):
    """-> list of (kind, text); comments/whitespace dropped, strings kept as ('str','')."""
    out = []
    i = 0
    n = len(src)
    while i < n:
        if src.startswith("/*", i):
            depth = 1
            i += 2
            while i < n and depth:
                if src.startswith("/*", i):
                    depth += 1
                    i += 2
                elif src.startswith("*/", i):
                    depth -= 1
                    i += 2
                else:
                    i += 1
            continue
        m = TOKEN.match(src, i)
        if not m:
            raise RuntimeError("gen_c17: cannot tokenise %s at offset %d: %r" % (path, i, src[i:i + 30]))
        i = m.end()
        k = m.lastgroup
        if k == "h":   # inner named group of raw string
            k = "rs"
        if k in ("ws", "lc"):
            continue
        if k in ("rs", "str", "chr"):
            out.append(("str", ""))
        elif k == "life":
            out.append(("life", m.group(0)))
        elif k == "id":
            out.append(("id", m.group(0)))
        elif k == "num":
            out.append(("num", m.group(0)))
        else:
            out.append(("op", m.group(0)))
    return out


def is_test_path(rel):
    parts = rel.split("/")
    return "tests" in parts or parts[-1] in ("tests.rs", "test.rs") or "benches" in parts or "examples" in parts


def rust_files(repo):
    root = os.path.join(repo, "crates")
    res = []
    for d, dirs, files in os.walk(root):
        dirs[:] = sorted(x for x in dirs if x not in ("target", "node_modules"))
        for f in sorted(files):
            if f.endswith(".rs"):
                p = os.path.join(d, f)
                rel = os.path.relpath(p, repo)
                if not is_test_path(rel):
                    res.append((rel, p))
    return res


def strip_cfg_test(toks):
    """remove items annotated #[cfg(test)] (the attribute and the following item up to its closing brace / `;`)."""
    out = []
    i = 0
    n = len(toks)
    while i < n:
        if (toks[i] == ("op", "#") and i + 6 < n and toks[i + 1] == ("op", "[") and toks[i + 2] == ("id", "cfg")
                and toks[i + 3] == ("op", "(") and toks[i + 4] == ("id", "test") and toks[i + 5] == ("op", ")")
                and toks[i + 6] == ("op", "]")):
            j = i + 7
            # skip further attributes
            depth = 0
            while j < n:
                t = toks[j][1]
                if t in ("{", "(", "["):
                    depth += 1
                elif t in ("}", ")", "]"):
                    depth -= 1
                    if depth == 0 and t == "}":
                        j += 1
                        break
                elif t == ";" and depth == 0:
                    j += 1
                    break
                j += 1
            i = j
            continue
        out.append(toks[i])
        i += 1
    return out


def type_span(toks, i):
    """toks[i] is the first token of a type; returns index just after the type (stops at , ; = ) { > at depth 0
    or `where`)."""
    depth = 0
    n = len(toks)
    while i < n:
        t = toks[i][1]
        if t in ("<", "(", "["):
            depth += 1
        elif t in (">", ")", "]"):
            if depth == 0:
                return i
            depth -= 1
        elif t == "->" and depth == 0:
            pass
        elif depth == 0 and (t in (",", ";", "=", "{", "}") or toks[i] == ("id", "where")):
            return i
        i += 1
    return i


def mentions_hash(toks, a, b, aliases):
    return any(k == "id" and (t in HASH or t in aliases) for k, t in toks[a:b])


def collect_globals(all_toks):
    """first pass: type aliases of hash containers, hash-typed struct fields, functions returning hash containers."""
    aliases, fields, fns = set(), {}, set()
    nonhash_fields = set()
    changed = True
    while changed:
        changed = False
        for toks in all_toks.values():
            n = len(toks)
            for i, (k, t) in enumerate(toks):
                if k == "id" and t == "type" and i + 2 < n and toks[i + 1][0] == "id":
                    # type Name<..> = TYPE ;
                    j = i + 2
                    while j < n and toks[j][1] != "=" and toks[j][1] != ";":
                        j += 1
                    if j < n and toks[j][1] == "=":
                        e = j + 1
                        while e < n and toks[e][1] != ";":
                            e += 1
                        if mentions_hash(toks, j + 1, e, aliases) and toks[i + 1][1] not in aliases:
                            aliases.add(toks[i + 1][1])
                            changed = True
    for toks in all_toks.values():
        n = len(toks)
        i = 0
        while i < n:
            k, t = toks[i]
            if k == "id" and t in ("struct", "union") and i + 1 < n and toks[i + 1][0] == "id":
                owner = toks[i + 1][1]
                # find body `{`
                j = i + 2
                depth = 0
                while j < n and not (toks[j][1] in ("{", ";", "(") and depth == 0):
                    if toks[j][1] == "<":
                        depth += 1
                    elif toks[j][1] == ">":
                        depth -= 1
                    j += 1
                if j < n and toks[j][1] == "{":
                    j += 1
                    bd = 1
                    while j < n and bd:
                        if toks[j][1] == "{":
                            bd += 1
                        elif toks[j][1] == "}":
                            bd -= 1
                        elif bd == 1 and toks[j][0] == "id" and j + 1 < n and toks[j + 1][1] == ":" and \
                                toks[j - 1][1] in ("{", ",", "pub", ")", "]"):
                            e = type_span(toks, j + 2)
                            if mentions_hash(toks, j + 2, e, aliases):
                                fields.setdefault(toks[j][1], set()).add(owner)
                            else:
                                nonhash_fields.add(toks[j][1])
                            j = e
                            continue
                        j += 1
                    i = j
                    continue
            if k == "id" and t == "fn" and i + 1 < n and toks[i + 1][0] == "id":
                name = toks[i + 1][1]
                j = i + 2
                # to the parameter list
                depth = 0
                while j < n and not (toks[j][1] == "(" and depth == 0):
                    if toks[j][1] == "<":
                        depth += 1
                    elif toks[j][1] == ">":
                        depth -= 1
                    j += 1
                pd = 0
                while j < n:
                    if toks[j][1] == "(":
                        pd += 1
                    elif toks[j][1] == ")":
                        pd -= 1
                        if pd == 0:
                            break
                    j += 1
                j += 1
                if j < n and toks[j][1] == "->":
                    e = j + 1
                    depth = 0
                    while e < n:
                        x = toks[e][1]
                        if x in ("<", "(", "["):
                            depth += 1
                        elif x in (">", ")", "]"):
                            depth -= 1
                        elif depth == 0 and (x in ("{", ";") or toks[e] == ("id", "where")):
                            break
                        e += 1
                    # `impl Iterator<Item = (&K, &V)>` over a hash map cannot be seen here; only literal mentions
                    if mentions_hash(toks, j + 1, e, aliases):
                        fns.add(name)
            i += 1
    return aliases, fields, fns, nonhash_fields


def scan_file(rel, toks, aliases, fields_all, fns, nonhash_fields):
    # a hash field name that is also the name of a non-hash field of another struct is *ambiguous*: it is only
    # considered in files that mention a hash container type/alias or a struct that owns it as a hash field.
    idents = set(t for k, t in toks if k == "id")
    file_mentions_hash = bool(idents & (HASH | aliases))
    fields = set()
    for f, owners in fields_all.items():
        if f not in nonhash_fields or file_mentions_hash or (idents & owners):
            fields.add(f)
    sites = []
    n = len(toks)
    fn_stack = []          # (name, brace_depth_at_body)
    pending_fn = None
    depth = 0
    scopes = [set()]       # hash bindings per function nesting
    shadows = [set()]      # locals bound by a plain `let` to a non-hash initialiser: they shadow the field-name rule

    def is_hash(name, field_access=True):
        if any(name in s for s in scopes):
            return True
        if name in fields:
            return field_access or not any(name in s for s in shadows)
        return False

    def cur_fn():
        return fn_stack[-1][0] if fn_stack else "<module>"

    def add(binding, op):
        sites.append((rel, cur_fn(), binding, op))

    def receiver_before(i):
        """toks[i] is '.', returns the identifier that is the receiver, looking through transparent calls
        like `.clone()` / `?`"""
        j = i - 1
        while j >= 0:
            if toks[j][1] == "?":
                j -= 1
                continue
            if toks[j][1] == ")" and j >= 3 and toks[j - 1][1] == "(" and toks[j - 2][0] == "id" and \
                    toks[j - 2][1] in TRANSPARENT and toks[j - 3][1] == ".":
                j -= 4
                continue
            break
        if j >= 0 and toks[j][0] == "id":
            fa = j >= 1 and toks[j - 1][1] == "."
            return toks[j][1] if is_hash(toks[j][1], fa) else None
        if j >= 0 and toks[j][1] == ")":
            # call result: f(...)  -- find the callee
            d = 0
            while j >= 0:
                if toks[j][1] == ")":
                    d += 1
                elif toks[j][1] == "(":
                    d -= 1
                    if d == 0:
                        break
                j -= 1
            if j >= 1 and toks[j - 1][0] == "id" and toks[j - 1][1] in fns:
                return toks[j - 1][1] + "()"
        return None

    def expr_is_hash(a, b):
        """tokens a..b (exclusive) form an expression; decide if it denotes a hash container"""
        while a < b and toks[a][1] in ("&", "mut", "*"):
            a += 1
        # strip trailing transparent stuff
        changed = True
        while changed and b > a:
            changed = False
            if toks[b - 1][1] == "?":
                b -= 1
                changed = True
            elif b - a >= 4 and toks[b - 1][1] == ")" and toks[b - 2][1] == "(" and toks[b - 3][0] == "id" and \
                    toks[b - 3][1] in TRANSPARENT | {"unwrap_or_default"} and toks[b - 4][1] == ".":
                b -= 4
                changed = True
            elif b - a >= 2 and toks[b - 1] == ("id", "await") and toks[b - 2][1] == ".":
                b -= 2
                changed = True
        if a >= b:
            return None
        if toks[a][0] == "id" and (toks[a][1] in HASH or toks[a][1] in aliases) and a + 1 < b and toks[a + 1][1] in ("::", "<"):
            return toks[a][1]
        for j in range(a, b - 3):
            if toks[j] == ("id", "collect") and toks[j + 1][1] == "::" and toks[j + 2][1] == "<" and \
                    toks[j + 3][0] == "id" and (toks[j + 3][1] in HASH or toks[j + 3][1] in aliases):
                return "collect::<%s>" % toks[j + 3][1]
        # pure path a.b.c / a::b
        if all(toks[j][0] == "id" or toks[j][1] in (".", "::") for j in range(a, b)):
            last = toks[b - 1][1]
            if toks[b - 1][0] == "id" and is_hash(last, b - 2 >= a and toks[b - 2][1] == "."):
                return last
            return None
        # trailing call of a hash-returning function
        if toks[b - 1][1] == ")":
            d = 0
            j = b - 1
            while j >= a:
                if toks[j][1] == ")":
                    d += 1
                elif toks[j][1] == "(":
                    d -= 1
                    if d == 0:
                        break
                j -= 1
            if j - 1 >= a and toks[j - 1][0] == "id" and toks[j - 1][1] in fns:
                return toks[j - 1][1] + "()"
        return None

    i = 0
    while i < n:
        k, t = toks[i]
        if t == "{":
            depth += 1
            if pending_fn is not None:
                fn_stack.append((pending_fn, depth))
                scopes.append(set(pending_params))
                shadows.append(set())
                pending_fn = None
        elif t == "}":
            if fn_stack and fn_stack[-1][1] == depth:
                fn_stack.pop()
                scopes.pop()
                shadows.pop()
            depth -= 1
        elif t == ";" and pending_fn is not None:
            pending_fn = None       # trait method without body
        elif k == "id" and t == "fn" and i + 1 < n and toks[i + 1][0] == "id":
            pending_fn = toks[i + 1][1]
            pending_params = set()
            # parameters
            j = i + 2
            d = 0
            while j < n and not (toks[j][1] == "(" and d == 0):
                if toks[j][1] == "<":
                    d += 1
                elif toks[j][1] == ">":
                    d -= 1
                j += 1
            pd = 0
            start = j
            while j < n:
                if toks[j][1] == "(":
                    pd += 1
                elif toks[j][1] == ")":
                    pd -= 1
                    if pd == 0:
                        break
                elif pd == 1 and toks[j][0] == "id" and toks[j + 1][1] == ":" and toks[j + 1][1] != "::" and \
                        toks[j - 1][1] in ("(", ",", "mut"):
                    e = type_span(toks, j + 2)
                    if mentions_hash(toks, j + 2, e, aliases):
                        pending_params.add(toks[j][1])
                    j = e
                    continue
                j += 1
            i = start      # continue scanning inside the parameter list is harmless
        elif k == "id" and t == "let":
            # let PATTERN [: TYPE] = EXPR ;   (also `if let` / `while let`: pattern idents only)
            j = i + 1
            pat = []
            d = 0
            while j < n:
                x = toks[j][1]
                if x in ("(", "[", "{", "<"):
                    d += 1
                elif x in (")", "]", "}", ">"):
                    d -= 1
                elif d == 0 and x in (":", "=", ";"):
                    break
                if toks[j][0] == "id":
                    pat.append(toks[j][1])
                j += 1
            declared_hash = False
            annotated = False
            if j < n and toks[j][1] == ":":
                e = type_span(toks, j + 1)
                declared_hash = mentions_hash(toks, j + 1, e, aliases)
                annotated = True
                j = e
            init_hash = None
            if j < n and toks[j][1] == "=":
                a = j + 1
                e = a
                d = 0
                while e < n:
                    x = toks[e][1]
                    if x in ("(", "[", "{"):
                        d += 1
                    elif x in (")", "]", "}"):
                        if d == 0:
                            break
                        d -= 1
                    elif d == 0 and x == ";":
                        break
                    elif d == 0 and toks[e] == ("id", "else"):
                        break
                    e += 1
                init_hash = expr_is_hash(a, e)
            names = [p for p in pat if p not in ("mut", "ref", "Some", "Ok", "Err", "None")]
            simple = [p for p in names if p[0].islower() or p[0] == "_"]
            plain = j < n and len(simple) == 1 and len(names) == 1
            if declared_hash or init_hash:
                if len(simple) == 1:
                    scopes[-1].add(simple[0])
                    shadows[-1].discard(simple[0])
            elif plain and toks[i - 1][1] not in ("if", "while"):
                # `let x = <expr mentioning the hash binding x>` (e.g. a fold over plugins that threads the map
                # through) keeps x a hash binding; any other plain rebinding shadows it
                rebinds_self = j < n and toks[j][1] == "=" and any(
                    toks[q] == ("id", simple[0]) for q in range(j + 1, e)) and is_hash(simple[0], False) and not annotated
                if rebinds_self:
                    scopes[-1].add(simple[0])
                else:
                    shadows[-1].add(simple[0])
                    scopes[-1].discard(simple[0])
        elif k == "id" and t == "for" and i + 1 < n and toks[i + 1][1] != "<":
            # for PAT in EXPR {
            j = i + 1
            d = 0
            while j < n and not (toks[j] == ("id", "in") and d == 0):
                if toks[j][1] in ("(", "[", "{"):
                    d += 1
                elif toks[j][1] in (")", "]", "}"):
                    d -= 1
                j += 1
            a = j + 1
            e = a
            d = 0
            while e < n:
                x = toks[e][1]
                if x in ("(", "["):
                    d += 1
                elif x in (")", "]"):
                    d -= 1
                elif x == "{" and d == 0:
                    break
                e += 1
            h = expr_is_hash(a, e)
            if h and not any(toks[q][1] == "(" for q in range(a, e) if not h.endswith("()")):
                add(h, "for")
            elif h and h.endswith("()"):
                add(h, "for")
        elif t == "." and i + 2 < n and toks[i + 1][0] == "id" and toks[i + 2][1] in ("(", "::"):
            m = toks[i + 1][1]
            if m in ITER_METHODS:
                r = receiver_before(i)
                if r:
                    add(r, m)
            if m in ADAPTORS and toks[i + 2][1] == "(":
                # single bare argument that is a hash container
                a = i + 3
                e = a
                d = 0
                while e < n:
                    x = toks[e][1]
                    if x in ("(", "[", "{"):
                        d += 1
                    elif x in (")", "]", "}"):
                        if d == 0:
                            break
                        d -= 1
                    e += 1
                simple = all(toks[q][0] == "id" or toks[q][1] in (".", "::", "&", "mut") for q in range(a, e))
                if simple and e > a:
                    h = expr_is_hash(a, e)
                    if h:
                        add(h, "arg:" + m)
        elif k == "id" and t in ("from_iter",) and i + 1 < n and toks[i + 1][1] == "(" and i >= 1 and toks[i - 1][1] == "::":
            a = i + 2
            e = a
            d = 0
            while e < n:
                x = toks[e][1]
                if x in ("(", "[", "{"):
                    d += 1
                elif x in (")", "]", "}"):
                    if d == 0:
                        break
                    d -= 1
                e += 1
            h = expr_is_hash(a, e)
            if h:
                add(h, "arg:from_iter")
        i += 1
    return sites


def scan(repo):
    files = rust_files(repo)
    all_toks = {}
    for rel, p in files:
        src = open(p, encoding="utf-8").read()
        all_toks[rel] = strip_cfg_test(tokenize(src, rel))
    aliases, fields, fns, nonhash_fields = collect_globals(all_toks)
    sites = []
    for rel in sorted(all_toks):
        sites += scan_file(rel, all_toks[rel], aliases, fields, fns, nonhash_fields)
    # de-duplicate identical tuples but keep a count
    counted = {}
    for s in sites:
        counted[s] = counted.get(s, 0) + 1
    mention_files = sorted(rel for rel, toks in all_toks.items()
                           if any(k == "id" and (t in HASH or t in aliases) for k, t in toks))
    return {
        "sites": sorted(counted.items()),
        "n_files": len(files),
        "aliases": sorted(aliases), "fields": sorted(fields), "fns": sorted(fns),
        "ambiguous_fields": sorted(f for f in fields if f in nonhash_fields),
        "mention_files": mention_files,
    }


SELFTEST_SRC = r"""
use std::collections::{HashMap, HashSet};
pub struct Reg { pub table: HashMap<String, u32>, names: Vec<String>, tags: HashSet<u8> }
type Alias<'a> = HashMap<&'a str, u32>;
fn build() -> HashMap<String, u32> { HashMap::new() }
impl Reg {
    pub fn a(&self) -> Vec<u32> { self.table.values().copied().collect() }          // values
    pub fn b(&self) { for (k, v) in &self.table { drop((k, v)); } }                  // for
    pub fn c(&mut self, other: Reg) { self.names.extend(other.tags); }               // arg:extend
    pub fn d(&self) -> Option<&u32> { self.table.get("x") }                          // key only
    pub fn e(&self) { for n in self.names.iter() { drop(n); } }                      // Vec: not reported
    pub fn f() { let m = build(); for x in m.keys() { drop(x); } }                   // keys via hash-returning fn
    pub fn g(x: &Alias) -> usize { x.iter().count() }                                // iter via alias-typed parameter
    pub fn h() { let s: HashSet<u8> = HashSet::new(); let v: Vec<u8> = s.into_iter().collect(); drop(v); } // into_iter
    pub fn i(&self) { let table = vec![1]; for t in table.iter() { drop(t); } }      // shadowed by a Vec: not reported
    pub fn j(&self) { let c = self.table.clone().into_iter().count(); drop(c); }     // through clone()
    pub fn k(ps: &[u8]) { let m: HashMap<u8, u8> = HashMap::new(); let m = ps.iter().fold(m, |acc, _| acc); for x in m.iter() { drop(x); } } // rebinding keeps it
}
#[cfg(test)]
mod tests { fn t(r: &super::Reg) { for _ in r.table.iter() {} } }                    // test code: ignored
"""
SELFTEST_EXPECT = {("a", "table", "values"), ("b", "table", "for"), ("c", "tags", "arg:extend"), ("f", "m", "keys"),
                   ("g", "x", "iter"), ("h", "s", "into_iter"), ("j", "table", "into_iter"), ("k", "m", "iter")}


def selftest():
    """the scanner must find exactly the planted sites in a synthetic source; fails closed otherwise"""
    toks = {"selftest.rs": strip_cfg_test(tokenize(SELFTEST_SRC, "selftest.rs"))}
    aliases, fields, fns, nonhash = collect_globals(toks)
    got = set((fn, b, op) for (_, fn, b, op) in scan_file("selftest.rs", toks["selftest.rs"], aliases, fields, fns, nonhash))
    if got != SELFTEST_EXPECT:
        raise RuntimeError("gen_c17 self-test failed: missing %s, unexpected %s" % (sorted(SELFTEST_EXPECT - got), sorted(got - SELFTEST_EXPECT)))


def coq_s(x):
    assert all(32 <= ord(c) < 127 for c in x), x
    return '(s "%s")' % x.replace('"', '""')


def render(res):
    L = []
    L.append("(** GENERATED by tools/gen_c17.py from the Rust sources -- do not edit.")
    L.append("    Every syntactic iteration over a HashMap/HashSet in non-test code of crates/**/*.rs. *)")
    L.append("From V Require Import Base.Util C17.Sites.")
    L.append("")
    L.append("Definition scanned_sites : list site := [")
    rows = []
    for (f, fn, b, op), cnt in res["sites"]:
        rows.append("  mk_site %s %s %s %s %d%%N" % (coq_s(f), coq_s(fn), coq_s(b), coq_s(op), cnt))
    L.append(";\n".join(rows))
    L.append("].")
    L.append("")
    L.append("(** files (non-test) in which a hash container type is mentioned at all *)")
    L.append("Definition hash_mention_files : list str := [")
    L.append(";\n".join("  " + coq_s(f) for f in res["mention_files"]))
    L.append("].")
    L.append("")
    L.append("Definition scanned_file_count : N := %d%%N." % res["n_files"])
    L.append("Definition hash_field_names : list str := [%s]." % "; ".join(coq_s(x) for x in res["fields"]))
    L.append("Definition ambiguous_field_names : list str := [%s]." % "; ".join(coq_s(x) for x in res["ambiguous_fields"]))
    L.append("Definition hash_returning_fns : list str := [%s]." % "; ".join(coq_s(x) for x in res["fns"]))
    L.append("Definition hash_aliases : list str := [%s]." % "; ".join(coq_s(x) for x in res["aliases"]))
    return "\n".join(L) + "\n"


def generate(repo, verif):
    selftest()
    res = scan(repo)
    text = render(res)
    d = os.path.join(verif, "coq", "Gen")
    os.makedirs(d, exist_ok=True)
    p = os.path.join(d, "C17_sites_gen.v")
    if not os.path.exists(p) or open(p).read() != text:
        tmp = p + ".tmp%d" % os.getpid()
        open(tmp, "w").write(text)
        os.replace(tmp, p)
    return res


if __name__ == "__main__":
    here = os.path.dirname(os.path.dirname(os.path.abspath(__file__)))
    repo = os.environ.get("VERIF_REPO", "/repo")
    if len(sys.argv) > 1 and sys.argv[1] == "--print":
        r = scan(repo)
        for (f, fn, b, op), c in r["sites"]:
            print("%-70s %-40s %-28s %-12s x%d" % (f, fn, b, op, c))
        print("files:", r["n_files"], "aliases:", r["aliases"], "\nfields:", r["fields"], "\nfns:", r["fns"])
        print("mention files:", len(r["mention_files"]), "ambiguous:", r["ambiguous_fields"])
    else:
        r = generate(repo, here)
        print("gen_c17: %d sites in %d files" % (len(r["sites"]), r["n_files"]))
