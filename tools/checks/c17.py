"""C17 — generation is deterministic and independent of incidental ordering."""
import os
import sys

import vlib

sys.path.insert(0, os.path.dirname(os.path.dirname(os.path.abspath(__file__))))
import gen_c17  # noqa: E402


def classify(case, kind):
    """known-finding classes of a failing case (none: the former `duplicate-directive-definition` finding is repaired
    by /repo 451006c and is now an ordinary `perm-invalid` fault whose two arrangements must both be rejected)"""
    return set()


def gen(ctx):
    res = gen_c17.generate(vlib.REPO, vlib.gen_root())
    ctx.coverage["scanner"] = {
        "rust_files_scanned": res["n_files"],
        "iteration_sites": len(res["sites"]),
        "files_mentioning_hash_containers": len(res["mention_files"]),
        "hash_typed_fields": res["fields"],
        "hash_returning_fns": res["fns"],
    }


def _write_project(d, files, ops, config):
    import shutil
    shutil.rmtree(d, ignore_errors=True)
    os.makedirs(os.path.join(d, "schema"))
    os.makedirs(os.path.join(d, "ops"))
    for i, t in enumerate(files):
        open(os.path.join(d, "schema", "s%d.graphql" % i), "w").write(t)
    for i, t in enumerate(ops):
        open(os.path.join(d, "ops", "q%d.graphql" % i), "w").write(t)
    open(os.path.join(d, "graphql.config.yaml"), "w").write(config)


def _run_cli(cli, d):
    import hashlib
    import subprocess
    p = subprocess.run([cli, "--output-format", "json", "check", "generate"], cwd=d, stdout=subprocess.PIPE,
                       stderr=subprocess.PIPE, timeout=120)
    h = hashlib.sha1()
    h.update(p.stdout)
    h.update(p.stderr)
    for root, _, fs in sorted(os.walk(d)):
        for f in sorted(fs):
            if f.endswith((".ts", ".map")):
                h.update(f.encode())
                h.update(open(os.path.join(root, f), "rb").read())
    return p.returncode, h.hexdigest()


def replay(ctx, path):
    """re-runs the concrete project stored in a replay file through the real CLI (fresh processes);
    falls back to re-running the whole check with the recorded seed"""
    import json
    data = json.load(open(path))
    case = data.get("case") or data
    if "schema_files" not in case or "config" not in case:
        return vlib.generic_replay(ctx, path)
    ok, cli = vlib.cli_build(ctx)
    if not ok:
        print("cannot build nitrogql-cli")
        return 1
    base = os.path.join(vlib.BUILD, "c17-replay")
    _write_project(os.path.join(base, "a"), case["schema_files"], case.get("operations", []), case["config"])
    runs = [_run_cli(cli, os.path.join(base, "a")) for _ in range(8)]
    print("8 fresh CLI processes on the stored project: exit codes %s, %d distinct output digest(s)"
          % (sorted(set(r[0] for r in runs)), len(set(r[1] for r in runs))))
    bad = len(set(runs)) > 1
    if "permuted_schema_files" in case:
        _write_project(os.path.join(base, "b"), case["permuted_schema_files"], case.get("operations", []),
                       case.get("permuted_config", case["config"]))
        rb = _run_cli(cli, os.path.join(base, "b"))
        print("permuted project: exit code %d (original %d)" % (rb[0], runs[0][0]))
        bad = bad or rb[0] != runs[0][0]
    print("REPRODUCED" if bad else "not reproduced by the CLI alone (see the 'files_that_differ' / normal-form fields of the replay)")
    return 1 if bad else 0


def run(ctx):
    ok, cli = vlib.cli_build(ctx)
    extra = []
    if ok and os.path.exists(cli):
        extra = ["--cli", cli]
    else:
        vlib.violation(ctx, "nitrogql-cli does not build from the working tree", {"stage": "cli-build"}, found_input=False)
    return vlib.standard_check(
        ctx,
        gen=gen,
        targets=["C17/Properties.vo", "C17/Corr.vo"],
        pinned="C17/Pinned.v",
        binname="c17",
        classify=classify,
        harness_extra=extra,
        extra_trusted=[
            "tools/gen_c17.py: token-level scanner for HashMap/HashSet iteration sites (no type information; can miss a site whose container type is hidden behind an alias, macro or an inferred return type)",
            "std HashMap modelled as an association list whose raw iteration order is an arbitrary permutation (oracle); IndexMap as an insertion-ordered list; Vec::sort_by_key as a stable insertion sort",
            "harness: recording SourceMapWriter, extraction of the declaration skeleton from the recorded operations, FNV digests of outputs, textual normal form of generated TypeScript modulo sibling order (used only by the spec-side permutation check)",
            "the OS-provided hash seed itself is exercised by repeated fresh CLI processes and by repeated in-process runs (every HashMap gets a fresh RandomState), not proved",
        ],
        assumptions=[
            "order-independence of Schema::map_str needs the renaming to be injective on the type names (C17_map_str_refuted shows the guard is necessary; every caller in the tree uses an injective renaming)",
            "definition-permutation theorems assume type names are unique (duplicates are rejected by resolve_schema_extensions before generation)",
            "configured scalarTypes keys are unique (they are the keys of a map)",
        ],
    )
