"""C17 — generation is deterministic and independent of incidental ordering."""
import os
import sys

import vlib

sys.path.insert(0, os.path.dirname(os.path.dirname(os.path.abspath(__file__))))
import gen_c17  # noqa: E402


def classify(case, kind):
    """known-finding classes of a failing case (none at present: the unchanged tree shows no C17 violation)"""
    return set()


def gen(ctx):
    res = gen_c17.generate(vlib.REPO, vlib.VERIF)
    ctx.coverage["scanner"] = {
        "rust_files_scanned": res["n_files"],
        "iteration_sites": len(res["sites"]),
        "files_mentioning_hash_containers": len(res["mention_files"]),
        "hash_typed_fields": res["fields"],
        "hash_returning_fns": res["fns"],
    }


def run(ctx):
    ok, cli = vlib.cli_build(ctx)
    extra = []
    if ok and os.path.exists(cli):
        extra = ["--cli", cli]
    else:
        vlib.violation(ctx, "nitrogql-cli does not build from the working tree", {"stage": "cli-build"}, found_input=False)
    return vlib.standard_check(
        ctx,
        gen=gen,
        targets=["C17/Properties.vo", "C17/Corr.vo"],
        pinned="C17/Pinned.v",
        binname="c17",
        classify=classify,
        harness_extra=extra,
        extra_trusted=[
            "tools/gen_c17.py: token-level scanner for HashMap/HashSet iteration sites (no type information; can miss a site whose container type is hidden behind an alias, macro or an inferred return type)",
            "std HashMap modelled as an association list whose raw iteration order is an arbitrary permutation (oracle); IndexMap as an insertion-ordered list; Vec::sort_by_key as a stable insertion sort",
            "harness: recording SourceMapWriter, extraction of the declaration skeleton from the recorded operations, FNV digests of outputs, textual normal form of generated TypeScript modulo sibling order (used only by the spec-side permutation check)",
            "the OS-provided hash seed itself is exercised by repeated fresh CLI processes and by repeated in-process runs (every HashMap gets a fresh RandomState), not proved",
        ],
        assumptions=[
            "order-independence of Schema::map_str needs the renaming to be injective on the type names (C17_map_str_refuted shows the guard is necessary; every caller in the tree uses an injective renaming)",
            "definition-permutation theorems assume type names are unique (duplicates are rejected by resolve_schema_extensions before generation)",
            "configured scalarTypes keys are unique (they are the keys of a map)",
        ],
    )
