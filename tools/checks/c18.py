"""C18 — CLI status, diagnostics and written files are consistent and well-located."""
import os
import shutil
import tempfile

import vlib


def classify(case, kind):
    """Known-finding classes of a failing case: none at present (findings/C18.json is empty; every finding this check
    made has been repaired in /repo), so every failing case is a VIOLATION."""
    return set()


def run(ctx):
    ok, cli = vlib.cli_build(ctx)
    if not (ok and os.path.exists(cli)):
        vlib.violation(ctx, "nitrogql-cli does not build from the working tree", {"stage": "cli-build"}, found_input=False)
        return vlib.finish(ctx)
    # scratch projects live outside /repo and /verif and are removed afterwards
    scratch = tempfile.mkdtemp(prefix="c18-projects-")
    try:
        return vlib.standard_check(
            ctx,
            targets=["C18/Properties.vo", "C18/Corr.vo"],
            pinned="C18/Pinned.v",
            binname="c18",
            classify=classify,
            harness_extra=["--cli", cli, "--scratch", scratch],
            extra_trusted=[
                "stage oracles: what parser, resolvers, checker and printers answer for the files of a project is an input of the model; the harness obtains it by running the same crates in process, stage by stage as crates/cli/src/main.rs and check.rs do (its own copy of that glue, since nitrogql-cli is a bin crate)",
                "PositionedError.additional_info is read through the hook verif_additional_info (cfg nitrogql_verif)",
                "modelled from their sources/documentation: json-writer 0.4.0 (escaping, compact layout), std str::lines / char::is_whitespace / Path::{join,file_name,set_file_name,set_extension}, globmatch (matched paths are returned sorted), colored (no colours when the output is piped), async-task (a panic of a detached task is caught and dropped; main then exits with 101)",
                "spec side (coq/C18/Spec.v): JSON reader written from RFC 8259 (unsigned integers only), GraphQL tokenizer written from spec section 2.1 (line breaks at \\n, columns in scalar values: the conventions of the reported positions), 'path:line:column' scanner",
                "process and file-system behaviour (exit status, stdout/stderr, directory snapshot before/after) is observed on the real binary, not proved; file-system calls of generate are assumed to succeed in the model",
            ],
            assumptions=[
                "schema files are GraphQL SDL files (no introspection JSON, no schema.js); plugins: nitrogql:model-plugin or unknown names; configuration comes from graphql.config.yaml",
                "a panic is the outcome Crash with exit status 101; C18_no_panic_guard gives a computable condition on the stage answers that excludes it",
            ],
        )
    finally:
        shutil.rmtree(scratch, ignore_errors=True)
