"""C11 — schema extensions merge into their definitions without loss or invention."""
import vlib


def classify(case, kind):
    # no behaviour of the current code is excluded: every failing case is a violation
    return set()


def run(ctx):
    return vlib.standard_check(
        ctx,
        targets=["C11/Properties.vo", "C11/Corr.vo"],
        pinned="C11/Pinned.v",
        binname="c11",
        classify=classify,
        extra_trusted=[
            "IndexMap (insertion-ordered, entry().or_default()) is modelled as an association list with unique keys; "
            "slice::sort_by_key is modelled as the (unique) stable sort, computed by insertion (C11/Model.v: el_upsert, sort_by_pos)",
            "the parts of an item the resolver only moves (directives, interfaces, fields, values, members, root operations, "
            "description+keyword, whole directive definitions) are interned by the harness as numbers: equal canonical dump <-> equal number",
            "harness renderer (abstract items -> SDL text with predicted positions); cross-checked on every case against the "
            "dump of what the real parser produced (parsed_differs_from_rendered must be 0)",
        ],
        assumptions=[
            "documents are lists of definitions/extensions/directive definitions as the Rust AST can represent them (wf_doc: a kind's "
            "missing components are empty; only schema items are nameless); the guard is part of the statements that need it",
            "'equal up to definition order' is read as multiset equality (Permutation) of the output items",
        ],
    )
