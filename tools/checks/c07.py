"""C07 — parsing yields exactly the document the text denotes, with true positions."""
import os
import sys

import vlib

sys.path.insert(0, os.path.dirname(os.path.dirname(os.path.abspath(__file__))))
import gen_c07  # noqa: E402


def gen(ctx):
    changed = gen_c07.generate(vlib.REPO, vlib.COQ)
    ctx.notes.append("Gen/C07_grammar_gen.v %s from %s/%s" % ("rewritten" if changed else "unchanged", vlib.REPO, gen_c07.GRAMMAR))


def classify(case, kind):
    """known-finding classes of a failing case; each class names one mechanism and is attached only to
    inputs that exhibit that mechanism (flags computed by the harness from the input text)"""
    cls = set()
    if kind != "prop":
        return cls
    if case.get("block_raw_ne_cooked"):
        # the text contains a block string whose BlockStringValue() differs from the raw text between the quotes
        cls.add("block-string-returned-raw")
    if case.get("has_lone_cr"):
        # a carriage return not followed by a line feed: a line terminator for the grammar, not for positions
        cls.add("lone-cr-not-a-line-break-for-positions")
    for c in case.get("spec_classes", []):
        cls.add(c)
    return cls


def run(ctx):
    return vlib.standard_check(
        ctx,
        targets=["C07/Corr.vo", "C07/Properties.vo"],
        pinned="C07/Pinned.v",
        binname="c07",
        gen=gen,
        classify=classify,
        extra_trusted=[
            "tools/gen_c07.py: translator grammar.pest -> Gen/C07_grammar_gen.v (fails closed; its output is validated on every run by comparing pest's pair trees with the Coq interpreter's on all cases)",
            "coq/Peg/Peg.v: model of pest 2.7 (generator.rs skip insertion, parser_state.rs combinators, Pair::line_col via LineIndex); pest's optimizer passes are assumed meaning-preserving (re-checked by the same comparison)",
            "spec side (coq/C07/Spec.v): my transcription of the GraphQL October-2021 lexical grammar for names, numbers, strings, block strings (BlockStringValue) and line terminators",
            "harness: a GraphQL lexer written from the specification, used to re-render texts with different ignored tokens; position-erased comparison of the implementation's ASTs for such pairs",
        ],
        assumptions=[
            "offsets and columns are counted in Unicode scalar values (pest counts bytes and converts; UTF-16 columns are C06's concern)",
            "positions_true is stated for the LF / CRLF line convention (guard no_lone_cr); lone_cr_refuted shows the guard is necessary",
        ],
    )
