"""C10 — schema and resolver declaration files describe exactly the schema."""
import vlib


def classify(case, kind):
    return set()


def run(ctx):
    return vlib.standard_check(
        ctx,
        targets=["C10/Corr.vo"],
        pinned=None,
        binname="c10",
        classify=classify,
        extra_trusted=[],
        assumptions=[],
    )
