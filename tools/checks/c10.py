"""C10 — schema and resolver declaration files describe exactly the schema."""
import vlib

# which known-finding class a failing case of each name-check kind belongs to; the three checks are
# separate (tiny) cases, so a failure of one is never attributed to another
KIND_CLASS = {
    "keyword-names": "ts-keyword-type-name",
    "scalar-identifier-capture": "tmp-prefix-capture",
    "resolver-file-names": "resolver-file-name-capture",
}
KEYWORDS = {"null", "undefined", "never", "unknown"}


def classify(case, kind):
    if kind != "prop":
        return set()
    k = case.get("kind")
    declared = set(case.get("declared", []))
    if k == "keyword-names" and declared & KEYWORDS:
        return {KIND_CLASS[k]}
    if k == "scalar-identifier-capture" and any(d.startswith("__tmp_") for d in declared):
        # only the capture by a `__tmp_` local is known; a capture by an un-renamed name would be new
        import re
        texts = []
        for v in case.get("options", {}).get("scalarTypes", {}).values():
            texts += [v] if isinstance(v, str) else list(v.values())
        idents = set(i for t in texts for i in re.findall(r"[A-Za-z_][A-Za-z0-9_]*", t))
        captured = declared & idents
        if captured and all(c.startswith("__tmp_") for c in captured):
            return {KIND_CLASS[k]}
        return set()
    if k == "resolver-file-names":
        o = case.get("options", {})
        reserved = {"Context", "Omit", "Pick", "Promise", "GraphQLResolveInfo", "__Resolver", "__TypeResolver",
                    o.get("schemaRootNamespace"), o.get("rootResolverType"), o.get("resolverOutputType")}
        if declared & reserved:
            return {KIND_CLASS[k]}
    return set()


def run(ctx):
    return vlib.standard_check(
        ctx,
        targets=["C10/Properties.vo", "C10/Examples.vo", "C10/Corr.vo"],
        pinned="C10/Pinned.v",
        binname="c10",
        classify=classify,
        extra_trusted=[
            "TypeScript reading of the emitted types: Ts/TsDen.v has_type_b (exact object reading; a scalar's configured text is 'string'/'number'/'boolean' or an opaque atom); TypeScript scoping is modelled as: a name used inside a namespace refers to the declaration of that name in the namespace if there is one (C10/Spec.v ns_env)",
            "HashMap/HashSet of the printers' context are modelled as association lists / lists (only get/contains are used; C17 covers iteration order)",
            "ast_to_type_system / Schema::get_type / iter_types as used by the printers: first definition of a name wins, insertion order (C10/Model.v get_type, iter_types)",
            "the harness reads the names the implementation declares off its recorded writer operations (write_for following write_for 'export type '/'type ')",
        ],
        assumptions=[
            "C10_alias_exact is stated for schemas satisfying the computable guard wf_schema (unique type names, no '__' names, every scalar configured, every referenced type defined and of the right kind: what `check` enforces plus scalar configuration); C10_schema_decls_total shows the printer cannot fail or panic under that guard",
            "C10_alias_exact: whenever has_type_b decides (Some b) it decides like Ref; that it does decide for sufficient fuel is evaluated on the generated value domain on every run, not proved",
        ],
    )
