"""C10 — schema and resolver declaration files describe exactly the schema."""
import re

import vlib

# which known-finding class a failing case of each name-check kind belongs to; the three checks are
# separate (tiny) cases, so a failure of one is never attributed to another
KIND_CLASS = {
    "scalar-identifier-capture": "tmp-prefix-capture",
    "resolver-file-names": "resolver-file-name-capture",
}
KEYWORDS = {"null", "undefined", "never", "unknown"}


def item_failure(item):
    """mirror of Corr.name_item_ok: None if the item holds, else the known class or 'UNKNOWN'"""
    k = item.get("kind")
    declared = set(item.get("declared", []))
    if k == "keyword-names":
        # repaired in /repo d4bb3a6: a declared keyword name is a new violation
        return "UNKNOWN" if declared & KEYWORDS else None
    if k == "scalar-identifier-capture":
        idents = set(i for t in item.get("scalar_texts", []) for i in re.findall(r"[A-Za-z_][A-Za-z0-9_]*", t))
        captured = declared & idents
        if not captured:
            return None
        # only the capture by a `__tmp_` local is known; a capture by an un-renamed name would be new
        return KIND_CLASS[k] if all(c.startswith("__tmp_") for c in captured) else "UNKNOWN"
    if k == "resolver-file-names":
        o = item.get("options", {})
        reserved = {"Context", "Omit", "Pick", "Promise", "GraphQLResolveInfo", "__Resolver", "__TypeResolver",
                    o.get("schemaRootNamespace"), o.get("rootResolverType"), o.get("resolverOutputType")} | KEYWORDS
        return KIND_CLASS[k] if declared & reserved else None
    return "UNKNOWN"


def classify(case, kind):
    if kind != "prop" or case.get("kind") != "names":
        return set()
    fails = [item_failure(i) for i in case.get("items", [])]
    fails = [f for f in fails if f]
    if not fails or "UNKNOWN" in fails:
        return set()
    return set(fails)


def run(ctx):
    return vlib.standard_check(
        ctx,
        targets=["C10/Properties.vo", "C10/Examples.vo", "C10/SitesForC06.vo", "C10/Corr.vo"],
        pinned="C10/Pinned.v",
        binname="c10",
        classify=classify,
        extra_trusted=[
            "TypeScript reading of the emitted types: Ts/TsDen.v has_type_b (exact object reading; a scalar's configured text is 'string'/'number'/'boolean' or an opaque atom); TypeScript scoping is modelled as: a name used inside a namespace refers to the declaration of that name in the namespace if there is one (C10/Spec.v ns_env)",
            "HashMap/HashSet of the printers' context are modelled as association lists / lists (only get/contains are used; C17 covers iteration order)",
            "ast_to_type_system / Schema::get_type / iter_types as used by the printers: first definition of a name wins, insertion order (C10/Model.v get_type, iter_types)",
            "the harness reads the names the implementation declares off its recorded writer operations (write_for following write_for 'export type '/'type ')",
            "spec side: C10/Parse.v, a reader of the emitted subset of TypeScript used to read the implementation's schema text back (a text it cannot read counts as a failure); C10/Domain.v, the generator of candidate values",
        ],
        assumptions=[
            "C10_alias_exact is stated for schemas satisfying the computable guard wf_schema (unique type names, no '__' names, every scalar configured, every referenced type defined and of the right kind: what `check` enforces plus scalar configuration); C10_schema_decls_total shows the printer cannot fail or panic under that guard",
        ],
    )
