"""C09 — Variables types admit only coercible inputs and every explicit one."""
import vlib


def classify(case, kind):
    if kind != "prop" or case.get("path") != "from_config":
        return set()
    # the result obtained through from_config ignores the option: it can only fail where the option is
    # off; the same runs judged on the directly-set option are a separate case, so nothing is masked
    if any(not r.get("allowUndefinedAsOptionalInput", True) for r in case.get("runs", [])):
        return {"variables-option-not-plumbed"}
    return set()


def run(ctx):
    return vlib.standard_check(
        ctx,
        targets=["C09/Corr.vo"],
        pinned=None,
        binname="c09",
        classify=classify,
        extra_trusted=[],
        assumptions=[],
    )
