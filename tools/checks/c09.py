"""C09 — Variables types admit only coercible inputs and every explicit one."""
import vlib


def classify(case, kind):
    return set()


def run(ctx):
    return vlib.standard_check(
        ctx,
        targets=["C09/Properties.vo", "C09/Corr.vo"],
        pinned="C09/Pinned.v",
        binname="c09",
        classify=classify,
        extra_trusted=[
            "TypeScript reading of the emitted types: Ts/TsDen.v has_type_b (exact object reading; scalar texts 'string'/'number'/'boolean' or opaque atoms); `Schema.__OperationInput.T` is read as the alias the schema declaration exports for T in that namespace (C09/Spec.v vars_env), the namespace itself being C10's model in the theorems and, in holds, the text the real SchemaTypePrinter emits read back with C10/Parse.v",
            "Coercible is my transcription of CoerceVariableValues / input coercion (GraphQL Oct-2021 §6.1.2, §3.5-3.10) without the spec's extra leniencies (single value for a list, unknown variables ignored), which only enlarge it",
        ],
        assumptions=[
            "guards: wf_schema (C10) and vars_wf (every variable's named type is a defined scalar/enum/input object): what `check` enforces for an accepted operation",
        ],
    )
