"""C01 — generated result types admit every spec-conformant response."""
import vlib

MERGE = "merge_selection_trees/find-first"
ALIAS = "aliased-__typename-typed-String-or-null"


def classify(case, kind):
    """known-finding classes of a failing case: the harness evaluates the two computable guards
    (merge_safe, typename_alias_free) on the definition and puts the classes whose guard is false
    into the description; Corr.agree re-checks both evaluations against the Coq definitions of the
    guards on every case, so the classes are the Coq guards' verdicts."""
    if kind != "prop":
        return set()
    cls = set(case.get("classes", []))
    # C01 (every response admitted) is only known to fail through the merge defect
    return cls & {MERGE}


TRUSTED = [
    "specification side (C01/Spec.v): my transcription of GraphQL CollectFields / DoesFragmentTypeApply / @skip / @include / CompleteValue as the decider `den`; Execute_spec = den with one global assignment, Ref_local = den re-choosing the local variables per selection set",
    "TypeScript reading (Ts/TsDen.v has_type_b): exact object types; __SelectionSet<Orig,Obj,Others> = fields of Obj whose key is a key of Orig, with Obj's own optional markers, plus Others (DESIGN section 3); no TypeScript compiler is available to cross-check it",
    "the schema declaration file is the IMPLEMENTATION's: SchemaTypePrinter's text for the same schema (default options + a scalar configuration giving every custom scalar X the operation-output type Scalar_X, by entry, by entry + different @nitrogql_ts_type directive, or by directive only), its __OperationOutput namespace read once per schema by C10/Parse.v (Corr.out_decls / text_env); the theorems are stated over C01/Spec.v schema_env (the same namespace built from the schema document), which C10 ties to the text",
    "the enumerators (exec_enum: one runtime type per abstract position, null/non-null, list lengths 0/1/2, every enum member, all assignments of up to 6 boolean variables; 'each choice' coverage, not the full product) only propose candidates; every candidate is re-checked by exec_b / has_type_b before it counts",
]
ASSUME = [
    "schemas and documents are valid (accepted by nitrogql's check; generated spec-valid); C01 is evaluated per operation/fragment definition on the type the IMPLEMENTATION returned",
    "model-level equivalence theorems are proved under the computable guards stated with them (see design/C01.md); the unguarded statements are C01_response_admitted / C02_not_looser in C01/Spec.v",
]


def run(ctx):
    return vlib.standard_check(
        ctx,
        targets=["C01/Properties.vo", "C01/Corr.vo"],
        pinned="C01/Pinned.v",
        binname="c01",
        classify=classify,
        extra_trusted=TRUSTED,
        assumptions=ASSUME,
    )
