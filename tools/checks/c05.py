"""C05 — schema `check` verdict is exact on the implemented type-system rules."""
import vlib


def classify(case, kind):
    """known-finding classes of a failing case (kind: 'prop' = spec-side predicate false on the implementation's
    output, 'corr' = model and implementation disagree).  Classes are deliberately narrow: label + what was observed."""
    cls = set()
    if kind != "prop" or case.get("kind") != "check":
        return cls
    # no behaviour of the current code is excluded any more: every failing case is a violation
    return cls


def run(ctx):
    return vlib.standard_check(
        ctx,
        targets=["C05/Properties.vo", "C05/Corr.vo"],
        pinned="C05/Pinned.v",
        binname="c05",
        classify=classify,
        extra_trusted=[
            "graphql_type_system::Schema (what ast_to_type_system builds) is read as a projection of the AST: the model takes names, "
            "types, argument lists, default presence, interfaces, members and locations from the AST definition that the first-wins "
            "lookup selects (HashMap entry().or_insert); DefinitionMap's HashMaps are last-wins association lists",
            "C05/Spec.v: transcription of GraphQL October-2021 section 3 (type-system validity, IsValidImplementation, input coercion "
            "of constant values) used as the specification side",
            "harness generator and renderer (schema model -> SDL over 1-3 files); its `valid` / rule labels are cross-checked against "
            "C05/Spec.v inside coqc on every case",
        ],
        assumptions=[
            "the rule booleans are read on documents whose type names and directive names are unique (the specification's premise; "
            "nitrogql does not check uniqueness across kinds and its two lookups then disagree - modelled, exercised, no claim made)",
            "diagnostics of resolve_schema_extensions (duplicate same-kind definitions, extension without definition) count as rejection",
        ],
    )
