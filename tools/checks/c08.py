"""C08 — no input text can make the toolchain panic; failures are diagnostics."""
import os
import sys

import vlib

sys.path.insert(0, os.path.dirname(os.path.dirname(os.path.abspath(__file__))))
import gen_c07  # noqa: E402
import gen_c08  # noqa: E402


def gen(ctx):
    # T1 (grammar.pest -> Coq PEG grammar: the parser model and the builder-shape theorem are about it)
    changed = gen_c07.generate(vlib.REPO, vlib.COQ)
    ctx.notes.append("Gen/C07_grammar_gen.v %s" % ("rewritten" if changed else "unchanged"))
    # T4 (panic-site scanner over the anchored files)
    sites = gen_c08.generate(vlib.REPO, vlib.gen_root())
    kinds = {}
    for (f, fn, k, d), c in sites:
        kinds[k] = kinds.get(k, 0) + c
    ctx.coverage["panic_site_scanner"] = {"files": len(gen_c08.FILES), "site_rows": len(sites), "occurrences_by_kind": kinds}


def classify(case, kind):
    """known-finding classes of a failing Coq case: the harness attaches to every case whose implementation
    outcome is a panic the class `panic:<file>:<message>[:<input feature>]` of the site that was reached"""
    return set(case.get("classes", []))


def run(ctx):
    ok, cli = vlib.cli_build(ctx)
    extra = []
    if ok and os.path.exists(cli):
        extra = ["--cli", cli]
    else:
        vlib.violation(ctx, "nitrogql-cli does not build from the working tree", {"stage": "cli-build"}, found_input=False)
    return vlib.standard_check(
        ctx,
        gen=gen,
        targets=["C08/Properties.vo", "C08/Corr.vo"],
        pinned="C08/Pinned.v",
        binname="c08",
        classify=classify,
        harness_extra=extra,
        extra_trusted=[
            "tools/gen_c08.py: token-level scanner for panic sites (panic!/unreachable!, expect, unwrap, assert*, indexing, split_at, binary minus) in the anchored files; no type information; a panic hidden in a foreign crate's function (other than the listed method names) is not a site",
            "tools/gen_c07.py + coq/Peg/Peg.v + coq/C07/Builder.v (builder-C07): translated grammar, model of pest 2.7 and of the AST builder with explicit panic results; tied by C07's pair-tree/AST correspondence and by this check's outcome-class correspondence (CParse) on the malformed streams",
            "harness: catch_unwind + a panic hook recording file:line of every panic; one thread per case with a wall-clock bound (default stack 8 MiB, like the CLI's main thread); the real nitrogql-cli on ~20 projects for the process exit status",
            "colored output is off (NO_COLOR): the renderer model prints the plain text; std's str::lines, char::is_whitespace, char::len_utf8, str::split_at are modelled (Model.v) and compared through the full output string / the exhaustive white-space table",
            "theorems cited from other properties' models (C03 check, C11 schema extensions, C12 runtime documents, C13 imports) speak about those models; their ties are those properties' correspondence runs",
        ],
        assumptions=[
            "render_total: every file index handed to print_positioned_error is in the store and column < usize::MAX (positions come from the parsers, which count characters of the text); the allocation made by \" \".repeat(column) is outside the model",
            "stack exhaustion and wall-clock time are not expressible in the models: nesting is exercised to depth 60 (thorough: 200) under an 8 MiB stack and a per-case time bound; list-type nesting is the exception (exponential parse time, known finding)",
            "escape theorems are about the digits of an escape the grammar accepted (non-empty, hexadecimal)",
        ],
    )
