"""C03 — `check` accepts no operation that violates an implemented validation rule."""
import vlib

KNOWN = set()   # every former blind spot of check is repaired in /repo (762f951, 7d19234, 49e8e28, c67e45e)


def classify(case, kind):
    """Every document is judged twice at most: always on the positions a spread-following validator reaches
    (C03/Spec.v rule_ok_vis; `classes` is empty there, so any failure is a VIOLATION), and — only for documents
    the harness built to exhibit a known blind spot — a second time on every syntactic position (rule_ok); only
    that second reading carries known-finding classes. A model/implementation disagreement never is a known finding."""
    if kind != "prop":
        return set()
    if case.get("reading") != "every position":
        return set()
    return set(case.get("classes", [])) & KNOWN


def run(ctx):
    return vlib.standard_check(
        ctx,
        targets=["C03/Properties.vo", "C03/Corr.vo"],
        pinned="C03/Pinned.v",
        binname="c03",
        classify=classify,
        extra_trusted=[
            "the type system is read off the resolved schema document (C03/Model.v get_type, get_directive, iter_types, "
            "root_types, direct_fields): ast_to_type_system + graphql_type_system::Schema (HashMap with first-insertion-wins, "
            "insertion-ordered name list) are modelled, not translated",
            "the parsed documents (positions included) are taken from the real parser (C07 is about the parser); "
            "harness/src/ast_coq.rs prints them as terms of coq/Gql/Ast.v",
            "reference validator C03/Spec.v: my transcription of the October-2021 GraphQL validation rules the property lists",
        ],
        assumptions=[
            "C03_sound_full: an accepted document satisfies every implemented rule on every syntactic position of every definition "
            "(operations and all fragment definitions, spread or not; Spec.v rule_ok / spec_valid), guards schema_wf and "
            "selsets_nonempty; the two variable rules range over each operation with the fragment definitions it transitively spreads, "
            "so the variables of a fragment definition that no operation reaches are judged by nobody (exactly what the code does since "
            "commit c67e45e: UnknownVariable is dropped there) — C03_sound_full_fragment_variables spells that guard out (reached_from), "
            "C03_sound_full_instance shows it at work",
            "the schema passed check (the harness only keeps schemas for which check_type_system_document returns no error)",
        ],
    )
