"""C03 — `check` accepts no operation that violates an implemented validation rule."""
import vlib

KNOWN = set()   # every former blind spot of check is repaired in /repo (762f951, 7d19234, 49e8e28, c67e45e)


def classify(case, kind):
    """Every document is judged twice at most: always on the positions a spread-following validator reaches
    (C03/Spec.v rule_ok_vis; `classes` is empty there, so any failure is a VIOLATION), and — only for documents
    the harness built to exhibit a known blind spot — a second time on every syntactic position (rule_ok); only
    that second reading carries known-finding classes. A model/implementation disagreement never is a known finding."""
    if kind != "prop":
        return set()
    if case.get("reading") != "every position":
        return set()
    return set(case.get("classes", [])) & KNOWN


def run(ctx):
    return vlib.standard_check(
        ctx,
        targets=["C03/Properties.vo", "C03/Corr.vo"],
        pinned="C03/Pinned.v",
        binname="c03",
        classify=classify,
        extra_trusted=[
            "the type system is read off the resolved schema document (C03/Model.v get_type, get_directive, iter_types, "
            "root_types, direct_fields): ast_to_type_system + graphql_type_system::Schema (HashMap with first-insertion-wins, "
            "insertion-ordered name list) are modelled, not translated",
            "the parsed documents (positions included) are taken from the real parser (C07 is about the parser); "
            "harness/src/ast_coq.rs prints them as terms of coq/Gql/Ast.v",
            "reference validator C03/Spec.v: my transcription of the October-2021 GraphQL validation rules the property lists",
        ],
        assumptions=[
            "C03 theorems are stated for the sites a spread-following validator reaches from the operations (Spec.v vis_op_sites); "
            "the fragment definitions no operation spreads are validated by the code since commit c67e45e (variable uses excepted): "
            "the reference validator reads the site rules on them too (rule_ok_roots) on every case; the theorems do not cover that pass yet",
            "the schema passed check (the harness only keeps schemas for which check_type_system_document returns no error)",
        ],
    )
