"""C06 — emitted source maps are valid and point at the defining GraphQL tokens."""
import os
import vlib
import gen_c06


def gen(ctx):
    changed = gen_c06.generate(vlib.REPO, vlib.COQ)
    ctx.notes.append("Gen/C06_tables_gen.v %s from %s" % ("rewritten" if changed else "unchanged", vlib.REPO))
    ok, _ = vlib.cli_build(ctx)
    if not ok:
        raise RuntimeError("nitrogql-cli does not build from the working tree")


def classify(case, kind):
    """known-finding classes a failing case belongs to (kept narrow: each class names one mechanism)"""
    cls = set()
    k = case.get("kind")
    if kind != "prop":
        return cls
    if k == "project":
        for c in case.get("failure_hints", []):
            cls.add(c)
    return cls


def run(ctx):
    cli = os.path.join(vlib.CLI_TARGET, "debug", "nitrogql-cli")
    return vlib.standard_check(
        ctx,
        targets=["C06/Corr.vo", "C06/Properties.vo", "C06/PropertiesDefs.vo"],
        pinned="C06/Pinned.v",
        binname="c06",
        gen=gen,
        classify=classify,
        harness_extra=["--cli", cli],
        extra_trusted=[
            "tools/gen_c06.py: regex translator of BASE64_CHARS and NAME_MEMORY_SIZE (fails closed)",
            "spec side (coq/C06/Spec.v): my transcription of the Source Map v3 'mappings' format, RFC 4648 digit values and a GraphQL tokenizer for token starts",
            "lru::LruCache (get promotes, put evicts the least recently used at capacity) and std::path as modelled in C20",
            "serde_json in the harness for reading the emitted .map files",
        ],
        assumptions=[
            "debug-profile arithmetic (overflow-checks on) for the usize/isize subtractions of add_entry; generated texts shorter than 2^64 UTF-16 units",
        ],
    )
