"""C13 — `#import` resolution brings in every requested fragment, transitively, once."""
import vlib

KNOWN = {
    "diamond-lost-import", "respelled-path-lost-import", "root-reimported-duplicate",
    "skipped-line-error-unreported",
}


def classify(case, kind):
    """The harness labels a case with the known-finding classes that explain *all* of its
    discrepancies from the reference closure (empty list if any discrepancy is unexplained).
    Only failures of the property itself can be known findings; a model/implementation
    disagreement never is."""
    if kind != "prop":
        return set()
    return set(case.get("classes", [])) & KNOWN


def run(ctx):
    # the real CLI binary, rebuilt from the working tree (incremental: < 1 s when nothing changed), for the
    # end-to-end cases (check.rs::Operations as the resolver); without it the run still covers the library
    extra = []
    try:
        ok, cli = vlib.cli_build(ctx)
        if ok:
            extra = ["--cli", cli]
        else:
            ctx.notes.append("nitrogql-cli did not build: end-to-end cases skipped")
    except Exception as e:  # noqa
        ctx.notes.append("nitrogql-cli build failed (%r): end-to-end cases skipped" % (e,))
    return vlib.standard_check(
        ctx,
        harness_extra=extra,
        targets=["C13/Properties.vo", "C13/Corr.vo"],
        pinned="C13/Pinned.v",
        binname="c13",
        classify=classify,
        extra_trusted=[
            "the resolvers behind OperationResolver (cli/src/check.rs Operations, graphql-loader TaskOperationResolver) are "
            "HashMap<Path,_> lookups; the harness uses the same container; the model uses an association list keyed by "
            "Path::components (C20/Model.v)",
            "a definition is modelled as (is_fragment, name, id): the resolvers copy definitions without inspecting them; "
            "the harness recovers the id from the definition body it generated",
            "positions and the item list of each file are taken from the real parser's output (C07 is about the parser)",
        ],
        assumptions=[
            "C13_imports_exact: guard exact_guard_b (closed key set, distinguishable definitions, all lines pointing at one "
            "file ask for the same fragments, no line asks for one of the root's own definitions)",
            "C13_error_iff: guard error_guard_b / agree_b at reach_b (all lines pointing at one file are satisfiable or all not)",
            "C13_imports_terminate, C13_error_sound, C13_imports_sound, C13_linear_work, C13_select_exact, C13_one_line_honoured: no guard",
        ],
    )
