"""C15 — introspection-JSON and SDL descriptions of a schema give the same results."""
import vlib

BUILTIN = {"Int", "Float", "String", "Boolean", "ID"}
META = {"__Schema", "__Type", "__TypeKind", "__Field", "__InputValue", "__EnumValue", "__Directive", "__DirectiveLocation"}


def _alias_name(x):
    return x.split(".", 1)[1] if "." in x else x


def classify(case, kind):
    """Known-finding classes of a failing case.  Only failures of the property itself (kind == 'prop') can be
    known findings, and only in the case kinds / labels where the harness provoked them on purpose:
      - a *strict* routes / alias case (compared on every name, the unguarded property),
      - a verdict / CLI case whose document was written to exercise one of the findings.
    A lenient case on a generated model has no class: its failure is a VIOLATION.  So is a failure on a `shadow-root`
    model or document (regression cases of the repaired defect "introspection route has implicit root types")."""
    if kind != "prop":
        return set()
    cls = set()
    k = case.get("kind")
    if k == "routes":
        if case.get("strict"):
            if case.get("meta"):
                cls.add("json-meta-types-are-schema-types")
            if case.get("unused_builtin_scalars"):
                cls.add("sdl-unreferenced-builtin-scalars")
    elif k == "alias" and case.get("strict"):
        if case.get("differ"):
            return set()
        only_json = {_alias_name(x) for x in case.get("only_json", [])}
        only_sdl = {_alias_name(x) for x in case.get("only_sdl", [])}
        if only_json and only_json <= META:
            cls.add("json-meta-types-are-schema-types")
        if only_sdl and only_sdl <= BUILTIN:
            cls.add("sdl-unreferenced-builtin-scalars")
        if not (only_json <= META and only_sdl <= BUILTIN):
            return set()
    elif k in ("verdict", "cli"):
        if case.get("label") == "unused-builtin-variable":
            cls.add("sdl-unreferenced-builtin-scalars")
        if case.get("label") == "meta-type-fragment":
            cls.add("json-meta-types-are-schema-types")
    return cls


def run(ctx):
    # the real CLI binary, rebuilt from the working tree (incremental), for the twin-project cases; without it the
    # run still covers both routes in-process
    import os
    extra = ["--corpus", os.path.join(vlib.VERIF, "corpus", "C15")]
    try:
        ok, cli = vlib.cli_build(ctx)
        if ok:
            extra += ["--cli", cli]
        else:
            ctx.notes.append("nitrogql-cli did not build: twin-project cases skipped")
    except Exception as e:  # noqa
        ctx.notes.append("nitrogql-cli build failed (%r): twin-project cases skipped" % (e,))
    return vlib.standard_check(
        ctx,
        harness_extra=extra,
        targets=["C15/Properties.vo", "C15/Corr.vo"],
        pinned="C15/Pinned.v",
        binname="c15",
        classify=classify,
        extra_trusted=[
            "serde_json as a parser of the introspection text into a tree (object keys in text order, duplicates kept); the "
            "derived Deserialize visitors are modelled (C15/Model.v de_*: unknown keys skipped, duplicate known key = error, "
            "missing Option field = None, sequence form of structs)",
            "HashMap + insertion-ordered name vector of SchemaBuilder modelled as an association list with first-insertion-wins",
            "the harness's own construction of the introspection result from the schema model (independent of nitrogql; the "
            "Coq function introspect is checked equal to it on every case) and its dump of graphql_type_system::Schema through the public API",
            "coq/C03/Model.v (builder-C03's model of the operation checker, imported read-only): check_respects_equiv is a theorem "
            "about that model; each run checks that it reproduces the real checker's verdicts on the SDL document and on the "
            "reification of the JSON route's Schema",
            "the writer operations of SchemaTypePrinter are taken from the real code (the printer is not re-modelled here: C10 does "
            "that); aliases are read off the operation list in Coq",
        ],
        assumptions=[
            "C15_routes_agree: model_ok M = user directives distinct from one another and from the built-ins; without a schema "
            "definition the roots are the types named Query/Mutation/Subscription; root names are ordinary names; a schema "
            "description comes with a schema definition; compared on the names of vis_of M (not an introspection type, not a built-in scalar the result does not list); "
            "modulo positions, default-value text and declaration order",
            "C15_check_respects_equiv: additionally sim_guard_b (definitions of compared names mention compared names only; types "
            "outside the compared names implement no interface; String is listed) and opdoc_ok on the operation document (no "
            "unlisted built-in scalar, no introspection type)",
        ],
    )
