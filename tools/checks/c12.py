"""C12 — runtime documents are the source operation plus exactly the fragments it needs."""
import os
import shutil

import vlib

LOADER_PKG = "c12-loader"


def loader_build(ctx, timeout=1500):
    """harness/c12-loader: the loader's main.rs compiled unmodified as an rlib + a one-request driver (own
    workspace; target dir shared with the other loader shims so the dependency artefacts are reused)."""
    vlib._prepare_alt_harness()
    pkg = os.path.join(vlib.HARNESS, LOADER_PKG)
    lock_src = os.path.join(vlib.REPO, "Cargo.lock")
    lock_dst = os.path.join(pkg, "Cargo.lock")
    if not os.path.exists(lock_dst):
        shutil.copyfile(lock_src, lock_dst)
    target = vlib.TARGET + "-loader"
    env = dict(vlib.CARGO_ENV, CARGO_TARGET_DIR=target)
    cmd = ["timeout", str(timeout), "cargo", "build", "--offline", "--bin", "c12loader"]
    rc, out = vlib.sh(cmd, cwd=pkg, env=env)
    if rc != 0 and "Cargo.lock" in out:
        shutil.copyfile(lock_src, lock_dst)
        rc, out = vlib.sh(cmd, cwd=pkg, env=env)
    if rc != 0:
        ctx.log("c12-loader build FAILED")
        ctx.log(out[-3000:])
    return rc == 0, os.path.join(target, "debug", "c12loader")

KNOWN = set()   # no known finding is left for C12 (see findings/fixed.json: c0c1a59, c67e45e)


def classify(case, kind):
    """No failure class of C12 is a known finding any more: the last one (an accepted document whose unspread
    fragment spreads an undefined fragment, so that the printers panic) was repaired in /repo c67e45e; such a
    case is now reported as a VIOLATION."""
    return set(case.get("classes", [])) & KNOWN if kind == "prop" else set()


def replay(ctx, path):
    """Re-runs the check on the one document stored in a replay file (falls back to re-running the whole
    seeded check when the replay holds no document)."""
    import json
    import os
    data = json.load(open(path))
    print(json.dumps(data, indent=1, ensure_ascii=False)[:6000])
    doc = (data.get("case") or {}).get("document")
    if not doc:
        return vlib.generic_replay(ctx, path)
    os.makedirs(vlib.BUILD, exist_ok=True)
    f = os.path.join(vlib.BUILD, "c12_replay_doc.graphql")
    open(f, "w").write(doc)
    return run(ctx, harness_extra=["--doc", f])


def run(ctx, harness_extra=()):
    ok, loader = loader_build(ctx)
    if ok:
        harness_extra = list(harness_extra) + ["--loader", loader]
    else:
        vlib.violation(ctx, "the loader (crates/graphql-loader) does not build as a library: the loader route of C12 cannot be observed",
                       {"stage": "loader-build"}, found_input=False)
    return vlib.standard_check(
        ctx,
        targets=["C12/Properties.vo", "C12/Corr.vo"],
        pinned="C12/Pinned.v",
        binname="c12",
        classify=classify,
        harness_extra=harness_extra,
        extra_trusted=[
            "json-writer 0.4.0 (JSONObjectWriter/JSONArrayWriter over String, write_string escape table) is modelled by "
            "C12/Model.v:ser; the comparison with the implementation is on the exact emitted text",
            "HashMap<&str,&FragmentDefinition> collected from (name, definition) pairs is modelled as 'last definition of a name wins' (get_frag)",
            "the AST given to the model is the real parser's output printed by harness/src/ast_coq.rs with positions replaced by one constant "
            "(no function of C12/Model.v reads a position); parsing itself is C07's subject",
            "specification side (C12/Spec.v): my reading of RFC 8259 (jparse) and of graphql-js language/ast.ts (toModel); "
            "C12_parse_ser proves jparse inverts the model's serializer, C12_to_json_roundtrip proves toModel inverts to_json",
            "the loader route: harness/c12-loader compiles /repo/crates/graphql-loader/src/main.rs unmodified as an rlib and a child process per "
            "document performs initiate_task / get_required_files / load_file / emit_js as loader-core's task.ts does (that TypeScript glue is not "
            "executed); the runtime documents are read off the module text as the right-hand sides of the `const NAME = …;` lines",
            "C12_checked_document_denotes rests on C03's model of check_operation_document (coq/C03/Model.v, tied to the real checker by C03's "
            "own correspondence run) through C03_accepted_fields_and_fragments_defined; this run additionally tests 'real check accepts implies "
            "spreads_defined_b' on every accepted document",
            "the harness re-assembles each emitted text from a per-case table of its top-level definition objects (lossless, verified in the "
            "harness before writing; C12/Corr.v:decode_text)",
        ],
        assumptions=[
            "documents are taken after import resolution (C13) as lists of definitions; 'accepted' = the real check raised no diagnostic, or "
            "(where the checker was not run) the document is closed: unique fragment names, every spread defined",
            "C12_to_json_roundtrip: guard wf_def (operation, fragment and inline-fragment selection sets are non-empty, as the grammar guarantees)",
            "C12_operation_text_denotes / C12_fragment_text_denotes: guard spreads_defined_b (every spread in the document names a defined "
            "fragment; outside it the printers panic: C12_guard_necessary). The real check enforces it since /repo c67e45e; the run tests "
            "'accepted implies spreads_defined_b' on every accepted document and C12_accepted_document_denotes states the property for "
            "accepted documents with the checker as an oracle satisfying exactly that",
        ],
    )
