"""C20 — relative and resolved paths are mutually inverse."""
import vlib


def classify(case, kind):
    return set()


def run(ctx):
    return vlib.standard_check(
        ctx,
        targets=["C20/Properties.vo", "C20/Corr.vo"],
        pinned="C20/Pinned.v",
        binname="c20",
        classify=classify,
        extra_trusted=[
            "std::path on Unix (Path::components, PathBuf::push/pop) is modelled on component lists (C20/Model.v: components, push1, pop)",
        ],
        assumptions=[
            "paths are Unix paths; 'file A' means the last component of A is a name; A and B are absolute and never climb above the root (abs_ok, is_file are part of the theorem statements)",
        ],
    )
