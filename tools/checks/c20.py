"""C20 — relative and resolved paths are mutually inverse and land on the intended file."""
import json
import os
import re
import shutil
import subprocess
import tempfile

import vlib
import gen_c20

SCHEMA = "type Query { me: User }\ntype User { id: ID! name: String }\n"
FRAG = "fragment UF on User { id name }\n"


def classify(case, kind):
    return set()


def gen(ctx):
    pairs = gen_c20.generate(vlib.REPO, vlib.COQ)
    ctx.coverage["ts_to_js_table"] = pairs


# (schema dir, operation dir, fragment dir, schema output, resolvers output): outputs above / below / beside inputs
LAYOUTS = [
    ("schema", "ops", "ops/frag", "generated/schema.d.ts", "generated/resolvers.d.ts"),
    ("src/schema", "src/app/deep/er", "src/shared", "schema.d.ts", "src/r.d.ts"),
    (".", ".", "f", "out/a/b/c/schema.d.ts", "out/resolvers.d.ts"),
    ("a/b/c", "a/b/c/ops", "a", "a/b/schema.d.mts", "a/b/c/d/e/res.d.cts"),
    ("graphql/schema", "graphql/schema/ops", "graphql", "graphql/schema/schema.ts", "graphql/resolvers.tsx"),
    ("src/graphql", "generated/graphql/ops", "src/graphql/f", "generated/graphql/schema.d.ts", "src/graphql/resolvers.d.ts"),
    # file names with further dots before the TS extension, dot-directories, TS-looking inner segments
    ("schema", "ops", "ops/frag", "generated/schema.generated.ts", "generated/res.olvers.v2.d.ts"),
    ("src", "src/ops", "src/f", "src/.generated/graphql.schema.d.ts", "types/api.v2.d.mts"),
    ("s", "o/p", "f", "out/schema.d.ts.d.cts", "o/p/.res/a.ts.tsx"),
]


def e2e(ctx, outdir):
    """runs the real CLI on projects whose outputs sit above/below/beside the inputs and records the import
    specifiers and source-map `sources` it wrote, as further cases for the model and the spec-side predicate"""
    ok, cli = vlib.cli_build(ctx)
    if not ok:
        vlib.violation(ctx, "nitrogql-cli does not build from the working tree", {"stage": "cli-build"}, found_input=False)
        return
    terms, descrs = [], []
    base = tempfile.mkdtemp(prefix="verif-c20-")
    try:
        for li, (sdir, odir, fdir, sout, rout) in enumerate(LAYOUTS):
            root = os.path.join(base, "p%d" % li)
            for d in (sdir, odir, fdir):
                os.makedirs(os.path.join(root, d), exist_ok=True)
            open(os.path.join(root, sdir, "schema.graphql"), "w").write(SCHEMA)
            open(os.path.join(root, fdir, "frag.graphql"), "w").write(FRAG)
            rel_frag = os.path.relpath(os.path.join(root, fdir, "frag.graphql"), os.path.join(root, odir))
            if not rel_frag.startswith("."):
                rel_frag = "./" + rel_frag
            open(os.path.join(root, odir, "op.graphql"), "w").write(
                '#import UF from "%s"\nquery Q { me { ...UF } }\n' % rel_frag)
            cfg = ("schema: ./%s/schema.graphql\ndocuments:\n  - ./%s/op.graphql\n  - ./%s/frag.graphql\n"
                   "extensions:\n  nitrogql:\n    generate:\n      schemaOutput: ./%s\n      resolversOutput: ./%s\n"
                   % (sdir, odir, fdir, sout, rout)).replace("./.", ".").replace("//", "/")
            open(os.path.join(root, "graphql.config.yaml"), "w").write(cfg)
            p = subprocess.run([cli, "--output-format", "json", "generate"], cwd=root, stdout=subprocess.PIPE,
                               stderr=subprocess.PIPE, text=True, timeout=120)
            if p.returncode != 0:
                descrs.append({"kind": "e2e-cli-failed", "layout": li, "stdout": p.stdout[-500:], "stderr": p.stderr[-500:]})
                terms.append("CSpec %s %s %s" % (vlib.coq_str("/cli/failed"), vlib.coq_str("/x"), vlib.coq_str("")))
                continue
            files = [f["path"] for f in json.loads(p.stdout).get("generate", {}).get("files", [])]
            schema_out = os.path.normpath(os.path.join(root, sout))
            inputs = [os.path.join(root, sdir, "schema.graphql"), os.path.join(root, odir, "op.graphql"),
                      os.path.join(root, fdir, "frag.graphql")]
            inputs = [os.path.normpath(x) for x in inputs]
            for f in files:
                if f.endswith(".map"):
                    m = json.load(open(f))
                    for src in m.get("sources", []):
                        target = os.path.normpath(os.path.join(os.path.dirname(f), src))
                        meant = target if target in inputs else None
                        if meant is None:
                            # the entry lands on no input file: a property failure on its own
                            meant = inputs[0]
                        terms.append("CSource %s %s %s" % (vlib.coq_str(f), vlib.coq_str(meant), vlib.coq_str(src)))
                        descrs.append({"kind": "e2e-source", "layout": li, "map": f, "meant": meant, "source": src})
                elif f.endswith(".ts") and os.path.normpath(f) != schema_out:
                    text = open(f).read()
                    mm = re.search(r'import type \* as \w+ from "([^"]+)"', text)
                    if mm:
                        terms.append("CSpec %s %s %s" % (vlib.coq_str(f), vlib.coq_str(schema_out), vlib.coq_str(mm.group(1))))
                        descrs.append({"kind": "e2e-specifier", "layout": li, "decl": f, "schema_output": schema_out,
                                       "specifier": mm.group(1)})
    finally:
        shutil.rmtree(base, ignore_errors=True)
    vlib.append_shard(outdir, "From V Require Import Base.Util C20.Model C20.Corr.", "case", "agree", "holds", terms, descrs)
    ctx.coverage["end_to_end_cli_cases"] = len(terms)
    ctx.coverage.setdefault("samples_end_to_end", descrs[:3])


def run(ctx):
    return vlib.standard_check(
        ctx,
        gen=gen,
        targets=["C20/Properties.vo", "C20/Corr.vo", "C20/SpecifierProofs.vo"],
        pinned="C20/Pinned.v",
        binname="c20",
        classify=classify,
        post_harness=e2e,
        extra_trusted=[
            "std::path on Unix (Path::components, PathBuf::push/pop) is modelled on component lists (C20/Model.v: components, push1, pop)",
            "tools/gen_c20.py: regex translator of the TS_TO_JS table and a shape check of path_to_ts (fails closed)",
            "tools/checks/c20.py: project layouts, reading of import specifiers and source-map `sources` from the real CLI's outputs",
        ],
        assumptions=[
            "paths are Unix paths; 'file A' means the last component of A is a name; A and B are absolute and never climb above the root (abs_ok, is_file are part of the theorem statements)",
        ],
    )
