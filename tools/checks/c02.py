"""C02 — generated result types admit nothing no execution could return."""
import vlib
from checks import c01

MERGE = c01.MERGE
ALIAS = c01.ALIAS


def classify(case, kind):
    """see c01.classify; for C02 both known classes apply.  A definition that contains an aliased
    __typename also has a twin case ("C02 modulo aliased __typename") whose classes omit ALIAS, so any
    other looseness of the same emitted type is still a VIOLATION."""
    if kind != "prop":
        return set()
    return set(case.get("classes", [])) & {MERGE, ALIAS}


def run(ctx):
    return vlib.standard_check(
        ctx,
        targets=["C02/Properties.vo", "C01/Corr.vo"],
        pinned="C02/Pinned.v",
        binname="c01",
        classify=classify,
        harness_extra=["--mode", "c02"],
        extra_trusted=c01.TRUSTED + [
            "abstract value domain of C02 (inhabitants): null, absent key, booleans, one number, one string that is no literal in play, every string literal of the type, one atom per custom scalar, lists of length 0/1/2, records; 'each choice' coverage of the emitted type's alternatives",
        ],
        assumptions=c01.ASSUME,
    )
