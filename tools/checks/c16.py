"""C16 — the emitted server schema string re-parses to the schema that was checked; printing any
parsed document and re-parsing the text yields the same document."""
import os
import vlib

# known-finding classes (findings/C16.json); each names one mechanism
UNESCAPED = "print_string-unescaped-quote-or-backslash"
BLOCK_DELIM = "print_string-block-string-delimiter"
REINDENT = "block-string-reindented-by-writer"
CR = "block-string-carriage-return-in-template"
SPLIT = "js-string-writer-dollar-brace-split-across-writes"
EXT_UNION = "extend-union-without-members"


def _string_classes(v):
    cls = set()
    if "\n" not in v:
        if '"' in v or "\\" in v:
            cls.add(UNESCAPED)
    else:
        if '"""' in v or v.endswith('"') or v.endswith("\\"):
            cls.add(BLOCK_DELIM)
    return cls


def classify(case, kind):
    """known-finding classes a failing case belongs to. Only failures of the spec-side predicate are
    ever known findings: a disagreement between model and implementation never is."""
    cls = set()
    if kind != "prop":
        return cls
    k = case.get("kind")
    f = case.get("features", {})
    if k == "string":
        return _string_classes(case.get("value", ""))
    if k == "writer":
        if f.get("carriage_return"):
            cls.add(CR)
        if f.get("dollar_brace_split_across_writes"):
            cls.add(SPLIT)
        return cls
    if k in ("ts", "op", "server", "module"):
        if f.get("unescaped"):
            cls.add(UNESCAPED)
        if f.get("block_delimiter"):
            cls.add(BLOCK_DELIM)
        if f.get("block_reindented"):
            cls.add(REINDENT)
        if f.get("cr_in_block"):
            cls.add(CR)
        if f.get("extend_union_without_members"):
            cls.add(EXT_UNION)
    return cls


def _link_repo():
    """harness/src/bin/c16.rs includes cli/src/builtins.rs through the symlink `c16_repo` next to it (-> /repo).
    Under VERIF_REPO the harness is copied to <alt>/harness (symlinked directories are not copied): point the
    link there at the worktree, so that the in-process remove_builtins is the worktree's."""
    if vlib.REPO == "/repo":
        return
    d = os.path.join(vlib.HARNESS, "src", "bin")
    os.makedirs(d, exist_ok=True)
    link = os.path.join(d, "c16_repo")
    if os.path.islink(link):
        if os.readlink(link) == vlib.REPO:
            return
        os.remove(link)
    os.symlink(vlib.REPO, link)


def gen(ctx):
    _link_repo()
    # the real CLI, for the end-to-end serverGraphqlOutput cases (module text + node import)
    ok, _ = vlib.cli_build(ctx)
    if not ok:
        raise RuntimeError("nitrogql-cli does not build from the working tree")


def run(ctx):
    cli = os.path.join(vlib.CLI_TARGET, "debug", "nitrogql-cli")
    return vlib.standard_check(
        ctx,
        targets=["C16/Properties.vo", "C16/Corr.vo"],
        pinned="C16/Pinned.v",
        binname="c16",
        gen=gen,
        classify=classify,
        harness_extra=["--cli", cli],
        extra_trusted=[
            "spec side (coq/C16/Spec.v): my transcription of ECMAScript template-literal cooking (cross-checked against node on every run when node is present), of GraphQL StringValue lexing and BlockStringValue(), the GraphQL lexer and the token sequence of a document by the grammar (SpecLex.v), and the literal reading of 'minus nitrogql-only directives' (erase_directive)",
            "nitrogql's own parser is the oracle for 'parses to the same document': the harness re-parses every printed text with parse_type_system_document / parse_operation_document and compares the position-erased canonical dumps (the PEG model of the parser belongs to C07)",
            "harness/src/ast_coq.rs (AST -> Coq term) and harness/src/rec.rs (recording writer)",
            "node (optional) as the JavaScript engine evaluating the emitted module and the random template literals",
        ],
        assumptions=[
            "token theorem: names/numbers are runs of word characters, strings single-line and plain (spec reading: also multi-line values that are block_lit, read as their BlockStringValue), no #import lines, no member-less union extension (LexGuard.v); string theorems are guarded by `plain` (single-line: no double quote / backslash; multi-line: no three quotes in a row, not ending in a quote or backslash) and read block strings the way nitrogql's parser does (raw); the template theorem is guarded by no carriage return and no `$`|`{` split across two writes",
            "server-schema theorem: @nitrogql_ts_type only on scalars and @model only on object types and their fields (what the schema check and the model plugin's check accept)",
        ],
    )
