"""C14 — declared exports (operation declaration file) match what the loader's JS module exports."""
import os
import shutil

import vlib

LOADER_PKG = "c14-loader"


def loader_build(ctx, timeout=1500):
    """harness/c14-loader: the loader's main.rs compiled unmodified as an rlib + a batch driver (own workspace;
    target dir shared with C19's shim so the dependency artefacts are reused)."""
    vlib._prepare_alt_harness()
    pkg = os.path.join(vlib.HARNESS, LOADER_PKG)
    lock_src = os.path.join(vlib.REPO, "Cargo.lock")
    lock_dst = os.path.join(pkg, "Cargo.lock")
    if not os.path.exists(lock_dst):
        shutil.copyfile(lock_src, lock_dst)
    target = vlib.TARGET + "-loader"
    env = dict(vlib.CARGO_ENV, CARGO_TARGET_DIR=target)
    cmd = ["timeout", str(timeout), "cargo", "build", "--offline", "--bin", "c14loader"]
    rc, out = vlib.sh(cmd, cwd=pkg, env=env)
    if rc != 0 and "Cargo.lock" in out:
        shutil.copyfile(lock_src, lock_dst)
        rc, out = vlib.sh(cmd, cwd=pkg, env=env)
    if rc != 0:
        ctx.log("c14-loader build FAILED")
        ctx.log(out[-3000:])
    return rc == 0, os.path.join(target, "debug", "c14loader")


def classify(case, kind):
    """Known-finding classes of a failing case.  Narrow: a case belongs to `colliding-variable-names`
    only if the loader's module really declares one name twice AND everything else the property asks
    holds on the implementation's outputs (names declared by the declaration file are exported by the JS
    module, same default) -- so a different violation on a document that also has a collision is still
    reported as a VIOLATION."""
    cls = set()
    ol = case.get("op_level") or {}
    if kind == "prop" and ol.get("js_duplicate_bindings"):
        rest_ok = set(ol.get("dts_named", [])) <= set(ol.get("js_named", [])) and ol.get("dts_default") == ol.get("js_default")
        cli = case.get("cli_dts_exports_from_text")
        if cli is not None:
            js = case.get("js_exports_from_text") or {}
            rest_ok = rest_ok and set(cli.get("named", [])) <= set(js.get("named", [])) and cli.get("default") == js.get("default")
        node = case.get("node")
        if node is not None and node.get("loaded"):
            rest_ok = False   # a module with a duplicate declaration that loads: not this class
        if rest_ok:
            cls.add("colliding-variable-names")
    return cls


def run(ctx):
    # the real CLI binary, built from the working tree: a share of the cases is also run through
    # `nitrogql-cli generate` (cli/src/generate.rs, load_config, file indices as the CLI assigns them)
    ok, cli = vlib.cli_build(ctx)
    extra = ["--cli", cli] if ok else []
    ok, loader = loader_build(ctx)
    if ok:
        extra += ["--loader", loader]
    else:
        vlib.violation(ctx, "the loader does not build from the working tree; its real emit_js was not run",
                       {"stage": "loader-build"}, found_input=False)
    node = shutil.which("node")
    if node:
        extra += ["--node", node]
    else:
        ctx.notes.append("node not found: the runtime oracle (really importing the loader's modules) was skipped")
    if not ok:
        vlib.violation(ctx, "nitrogql-cli does not build from the working tree; end-to-end cases not run",
                       {"stage": "cli-build"}, found_input=False)
    return vlib.standard_check(
        ctx,
        targets=["C14/Properties.vo", "C14/Corr.vo"],
        pinned="C14/Pinned.v",
        binname="c14",
        classify=classify,
        harness_extra=extra,
        extra_trusted=[
            "the printed TypeScript types and the runtime JSON of each definition are not modelled for C14: they enter the model as data (defbody), cut by the harness from a reference run; the cut is not trusted (the model's op list re-assembled from the pieces is compared with the complete recorded op list), the theorems quantify over all bodies without an export keyword chunk and that guard is evaluated on every recorded body",
            "an export statement is recognised on the writer-operation list by the chunks the visitors write for it (C14/Model.v: scan); its agreement with the `export const` / `export { … as default }` lines of the generated texts is checked on every case whose configured suffixes are identifier-like",
            "serde/serde_yaml (config text -> struct) is inside the comparison, not modelled: the model starts from which keys are present in the text",
            "histories: load_config/emit sequences are run on ONE loader instance (one thread of the c14loader driver) and each emission is judged against the configuration text loaded last (C14/Model.v run_loader, theorems C14_history, C14_history_last_config)",
            "the loader's Rust side runs for real: harness/c14-loader compiles /repo/crates/graphql-loader/src/main.rs unmodified as an rlib and drives load_config / initiate_task / get_required_files / load_file / emit_js as loader-core's task.ts does (not executed: that TypeScript glue); that the loader parses every file with file index 0 is modelled by loader_view and compared with a real re-parse",
            "node (when present) as ECMAScript oracle: a share of the texts emit_js returned is really imported",
        ],
        assumptions=[
            "guards in the theorem statements: bodies_ok (no unmodelled body contains a chunk equal to 'export ', 'const ' or 'export { ') and names_ok (no result/variables type name is, as a whole, one of those three chunks)",
            "capitalize is modelled on ASCII (the grammar admits only ASCII names); the theorems do not depend on what capitalize does",
        ],
    )
