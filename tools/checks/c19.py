"""C19 — loader tasks are isolated and safe under any sequence of loader calls.

The loader is a bin crate, so it is compiled (unmodified) by the shim package harness/loader-shim, which also
contains the driver `c19`; this module therefore builds and runs that package itself instead of the shared
harness crate, and otherwise goes through vlib.standard_check."""
import os
import shutil

import vlib

PKG = "loader-shim"


def _pkg_dir():
    vlib._prepare_alt_harness()           # VERIF_REPO=<dir>: generated copy with '/repo/' rewritten in *.toml
    return os.path.join(vlib.HARNESS, PKG)


def _target_dir():
    return vlib.TARGET + "-loader"        # /verif/.build/cargo-target-loader (or the alt tree's)


def loader_build(ctx, binname, timeout=1500):
    pkg = _pkg_dir()
    lock_src = os.path.join(vlib.REPO, "Cargo.lock")
    lock_dst = os.path.join(pkg, "Cargo.lock")
    if not os.path.exists(lock_dst):
        shutil.copyfile(lock_src, lock_dst)
    env = dict(vlib.CARGO_ENV, CARGO_TARGET_DIR=_target_dir())
    cmd = ["timeout", str(timeout), "cargo", "build", "--offline", "--bin", binname]
    rc, out = vlib.sh(cmd, cwd=pkg, env=env)
    if rc != 0 and "Cargo.lock" in out:
        shutil.copyfile(lock_src, lock_dst)
        rc, out = vlib.sh(cmd, cwd=pkg, env=env)
    if rc != 0:
        ctx.log("loader-shim build FAILED")
        ctx.log(out[-3000:])
    return rc == 0, out


def loader_run(ctx, binname, outdir, extra=(), timeout=3000):
    shutil.rmtree(outdir, ignore_errors=True)
    os.makedirs(outdir)
    exe = os.path.join(_target_dir(), "debug", binname)
    env = dict(os.environ, RUST_BACKTRACE="0")
    rc, out = vlib.sh(["timeout", str(timeout), exe, "--seed", str(ctx.seed), "--tier", ctx.tier, "--out", outdir]
                      + list(extra), cwd=outdir, env=env)
    if rc != 0:
        ctx.log("c19 driver run FAILED rc=%d" % rc)
        ctx.log(out[-3000:])
    return rc == 0, out


def classify(case, kind):
    """Known-finding classes of a failing case: the harness labels a history whose process aborted with
    'abort:<exported function>:<source file of the panic>: <panic message>'."""
    return set(case.get("classes", []))


def run(ctx):
    # the shared standard_check, with the build/run steps of this property's own package
    vlib.harness_build = loader_build
    vlib.harness_run = loader_run
    return vlib.standard_check(
        ctx,
        targets=["C19/Properties.vo", "C19/Corr.vo"],
        pinned="C19/Pinned.v",
        binname="c19",
        classify=classify,
        extra_trusted=[
            "harness/loader-shim: the loader's main.rs compiled unmodified as an rlib; driver passes strings through alloc_string/free_string like loader-core's alloc.ts, one fresh thread (= fresh thread-locals) per history, child process per batch, an abort is recorded as Trap at the call that did not return",
            "oracles: parse_operation_document+resolve_operation_extensions called directly per source (parse_o); resolve_operation_imports called directly on the state's files, reduced to the definition/spread names of the resolved document (resolve_o, the model's staged emit); emit_js of a fresh loader instance given the same files (what holds is judged against, and what the staged emit must predict); all enter the Coq model as function arguments",
            "std HashMap / PathBuf modelled as association lists keyed by Path::components equality (C20's model of components/resolve_relative_path); HashMap iteration order left unspecified (required-files list compared as a multiset)",
            "memory ownership: ghost heap in the model (C19/Ghost.v, theorem C19_ghost_ownership) + valgrind memcheck and leak accounting on a sample of histories in both tiers; the real allocator is outside the proof",
        ],
        assumptions=[
            "load_config / init / get_log / alloc_string / free_string are outside the call alphabet (default config; init once per process)",
            "reads of RESULT are judged only after some call has stored a result (get_result_* before that unwraps None and aborts; loader-core never does it)",
            "isolation is stated at loader-core's protocol level (a read follows exactly the calls that store a result); a raw stale read at ABI level shows the previous call's result, whichever task it belonged to",
            "next_task_id does not overflow usize",
        ],
    )
