"""C04 — `check` raises no diagnostic on spec-valid operation documents.
Same model, harness binary and correspondence as C03 (coq/C03/Model.v, harness/src/bin/c03.rs --mode c04)."""
import vlib

KNOWN = set()   # both former false alarms are repaired in /repo (aff743c, a3d3d08)


def classify(case, kind):
    if kind != "prop":
        return set()
    # only the hand-written corpus documents carry classes; generated documents never do
    return set(case.get("c04_classes", [])) & KNOWN


def run(ctx):
    return vlib.standard_check(
        ctx,
        targets=["C04/Properties.vo", "C04/Corr.vo"],
        pinned="C04/Pinned.v",
        binname="c03",
        harness_extra=["--mode", "c04"],
        classify=classify,
        extra_trusted=[
            "model and type-system reading shared with C03 (coq/C03/Model.v)",
            "reference validator C03/Spec.v (spec_valid): my transcription of the October-2021 GraphQL validation rules "
            "that the property text of C03 lists; documents are additionally valid by construction (harness/src/gen.rs)",
        ],
        assumptions=[
            "the schema passed check (the harness only keeps schemas for which check_type_system_document returns no error)",
        ],
    )
