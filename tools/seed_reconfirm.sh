#!/bin/bash
# usage: seed_reconfirm.sh <seed> <rebased.diff>  -- re-confirms a seeded change whose patch was rebased onto /repo HEAD (scratch worktree, removed afterwards)
set -u
S=$1; D=$2
WT=$(mktemp -d /tmp/reconf-$S-XXXX); rmdir $WT
git -C /repo worktree add -q $WT HEAD || exit 2
cd $WT
export CARGO_TARGET_DIR=$WT/target CARGO_NET_OFFLINE=true
mkdir demo; ( cd /verif/seeded/$S/demo && tar cf - . ) | ( cd demo && tar xf - ); cp Cargo.lock demo/ 2>/dev/null
# demos refer to their original worktree path
grep -rl "/tmp/seed-$S" demo 2>/dev/null | xargs -r sed -i "s#/tmp/seed-$S#$WT#g"
run_demo() {
  if [ -f demo/run.sh ]; then ( cd demo && bash run.sh ) >/dev/null 2>&1; echo $?;
  elif [ -f demo/Cargo.toml ]; then ( cd demo && timeout 900 cargo run --offline -q ) >/dev/null 2>&1; r=$?; if [ $r -eq 0 ] && grep -q '#\[test\]' -r demo/src demo/tests 2>/dev/null; then ( cd demo && timeout 900 cargo test --offline -q ) >/dev/null 2>&1; r=$?; fi; echo $r;
  else echo 99; fi
}
WITHOUT=$(run_demo)
git apply $D || { echo "rebased patch does not apply"; cd /; git -C /repo worktree remove --force $WT; exit 2; }
WITH=$(run_demo)
TESTS=$(timeout 1800 cargo test --workspace --offline --no-fail-fast 2>&1 | grep -E "^test result" | awk '{p+=$4; f+=$6} END {print p"/"f}')
echo "$S demo_with_change_exit=$WITH demo_without_change_exit=$WITHOUT tests_with_change(passed/failed)=$TESTS"
cd /; git -C /repo worktree remove --force $WT
