"""MANIFEST.setup_cmd: build the Coq development and the harness from files on disk."""
import os
import shutil
import sys
import vlib


def main():
    os.makedirs(vlib.BUILD, exist_ok=True)
    rc = 0
    try:
        import gen_all
        gen_all.main()
    except ImportError:
        pass
    vlib.coq_makefile()
    c, out = vlib.sh(["timeout", "3000", "make", "-j16", "-k"], cwd=vlib.COQ)
    print(out[-2000:])
    if c != 0:
        # a property whose proofs do not build is reported by that property's own check (which
        # rebuilds its targets); setup only prepares what can be prepared
        print("setup: some Coq targets did not build (see above); continuing")
    shutil.copyfile("/repo/Cargo.lock", os.path.join(vlib.HARNESS, "Cargo.lock"))
    c, out = vlib.sh(["timeout", "3000", "cargo", "build", "--offline", "--bins"], cwd=vlib.HARNESS, env=vlib.CARGO_ENV)
    print(out[-2000:])
    if c != 0:
        print("setup: some harness binaries did not build; each check rebuilds its own binary and reports it")
    return 0


if __name__ == "__main__":
    sys.exit(main())
