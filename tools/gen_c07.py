#!/usr/bin/env python3
"""C07 translator T1: <repo>/crates/parser/src/parser/grammar.pest  ->  coq/Gen/C07_grammar_gen.v

The output is a value of Peg.grammar over a generated inductive type `rule` (one constructor `R_<name>` per
rule of the grammar plus pest's built-in `EOI`, exactly the variants of the Rust enum `Rule` that
pest_derive generates), with one `ruledef` (modifier, expression) per rule.  The *unoptimised* expression
is emitted: pest's optimiser passes (rotate/skip/unroll/concatenate/factorise) are meaning-preserving and
the pair-tree correspondence against pest itself re-checks that on every run.  The only normalisations
done here are the ones pest does syntactically:
  * `a ~ b ~ c` and `a | b | c` are emitted right-nested (pest's rotater does the same);
  * `e{n}`, `e{n,}`, `e{,m}`, `e{n,m}` are unrolled exactly as pest_meta's unroller does;
  * built-in silent rules (ANY, SOI, NEWLINE, ASCII_*) are replaced by their definitions from
    pest_generator/src/generator.rs (`generate_builtin_rules`).
`e+` is kept as `Plus e`; Peg.v gives it pest's meaning `e ~ e*`.

Fails closed: anything this translator does not understand (stack operations PUSH/POP/PEEK/DROP, tags,
unknown identifiers, unicode property rules, malformed syntax) raises, and the check reports a broken
translator instead of using a stale grammar."""
import os
import re
import sys

GRAMMAR = "crates/parser/src/parser/grammar.pest"
OUT = "C07_grammar_gen.v"


class TranslateError(RuntimeError):
    pass


# ------------------------------------------------------------------ lexer

TOKEN = re.compile(r"""
    (?P<ws>\s+)
  | (?P<lc>//[^\n]*)
  | (?P<bc>/\*(?:.|\n)*?\*/)
  | (?P<istr>\^"(?:\\.|[^"\\])*")
  | (?P<str>"(?:\\.|[^"\\])*")
  | (?P<chr>'(?:\\.[^']*|[^'\\])')
  | (?P<id>[A-Za-z_][A-Za-z0-9_]*)
  | (?P<num>[0-9]+)
  | (?P<dots>\.\.)
  | (?P<op>[=~|!&?*+(){},@$\#\[\]-])
""", re.X)


def tokenize(src):
    toks = []
    i = 0
    while i < len(src):
        m = TOKEN.match(src, i)
        if not m:
            raise TranslateError("cannot tokenise grammar at offset %d: %r" % (i, src[i:i + 30]))
        k = m.lastgroup
        if k not in ("ws", "lc", "bc"):
            toks.append((k, m.group(0), i))
        i = m.end()
    toks.append(("eof", "", len(src)))
    return toks


def unescape(body, what):
    """pest string/char escapes -> list of code points"""
    out = []
    i = 0
    while i < len(body):
        c = body[i]
        if c != "\\":
            out.append(ord(c))
            i += 1
            continue
        if i + 1 >= len(body):
            raise TranslateError("dangling backslash in %s" % what)
        e = body[i + 1]
        simple = {'"': 34, "\\": 92, "n": 10, "r": 13, "t": 9, "0": 0, "'": 39}
        if e in simple:
            out.append(simple[e])
            i += 2
        elif e == "x":
            h = body[i + 2:i + 4]
            if not re.fullmatch(r"[0-9a-fA-F]{2}", h):
                raise TranslateError("bad \\x escape in %s" % what)
            out.append(int(h, 16))
            i += 4
        elif e == "u":
            m = re.match(r"\{([0-9a-fA-F]{2,6})\}", body[i + 2:])
            if not m:
                raise TranslateError("bad \\u escape in %s" % what)
            cp = int(m.group(1), 16)
            if cp > 0x10FFFF or 0xD800 <= cp <= 0xDFFF:
                raise TranslateError("\\u escape is not a scalar value in %s" % what)
            out.append(cp)
            i += 2 + m.end()
        else:
            raise TranslateError("unknown escape \\%s in %s" % (e, what))
    return out


# ------------------------------------------------------------------ parser (pest_meta/src/grammars/pest.pest)

UNSUPPORTED_IDS = {"PUSH", "PUSH_LITERAL", "POP", "POP_ALL", "PEEK", "PEEK_ALL", "DROP"}


def rng(a, b):
    return ("range", ord(a), ord(b))


def alt(*xs):
    xs = list(xs)
    e = xs.pop()
    while xs:
        e = ("alt", xs.pop(), e)
    return e


# pest_generator::generator::generate_builtin_rules (all silent, no tokens)
BUILTINS = {
    "ANY": ("any",),
    "SOI": ("soi",),
    "NEWLINE": alt(("lit", [10]), ("lit", [13, 10]), ("lit", [13])),
    "ASCII_DIGIT": rng("0", "9"),
    "ASCII_NONZERO_DIGIT": rng("1", "9"),
    "ASCII_BIN_DIGIT": rng("0", "1"),
    "ASCII_OCT_DIGIT": rng("0", "7"),
    "ASCII_HEX_DIGIT": alt(rng("0", "9"), rng("a", "f"), rng("A", "F")),
    "ASCII_ALPHA_LOWER": rng("a", "z"),
    "ASCII_ALPHA_UPPER": rng("A", "Z"),
    "ASCII_ALPHA": alt(rng("a", "z"), rng("A", "Z")),
    "ASCII_ALPHANUMERIC": alt(rng("a", "z"), rng("A", "Z"), rng("0", "9")),
    "ASCII": ("range", 0, 0x7F),
}


class Parser:
    def __init__(self, toks):
        self.t = toks
        self.p = 0

    def peek(self):
        return self.t[self.p]

    def next(self):
        x = self.t[self.p]
        self.p += 1
        return x

    def expect(self, text):
        k, v, off = self.next()
        if v != text:
            raise TranslateError("expected %r at offset %d, found %r" % (text, off, v))

    def rules(self):
        out = []
        while self.peek()[0] != "eof":
            out.append(self.rule())
        return out

    def rule(self):
        k, name, off = self.next()
        if k != "id":
            raise TranslateError("expected a rule name at offset %d, found %r" % (off, name))
        self.expect("=")
        mod = "MNormal"
        if self.peek()[1] in ("_", "@", "$", "!"):
            mod = {"_": "MSilent", "@": "MAtomic", "$": "MCompound", "!": "MNonAtomic"}[self.next()[1]]
        self.expect("{")
        e = self.expr()
        self.expect("}")
        return name, mod, e

    def expr(self):
        if self.peek()[1] == "|":        # optional leading choice operator
            self.next()
        alts = [self.seq()]
        while self.peek()[1] == "|":
            self.next()
            alts.append(self.seq())
        return alt(*alts)

    def seq(self):
        items = [self.term()]
        while self.peek()[1] == "~":
            self.next()
            items.append(self.term())
        e = items.pop()
        while items:
            e = ("seq", items.pop(), e)
        return e

    def term(self):
        k, v, off = self.peek()
        if v == "!":
            self.next()
            return ("not", self.term())
        if v == "&":
            self.next()
            return ("and", self.term())
        if v == "#":
            raise TranslateError("node tags (#name = ...) are not supported (offset %d)" % off)
        node = self.node()
        while True:
            k, v, off = self.peek()
            if v == "?":
                self.next()
                node = ("opt", node)
            elif v == "*":
                self.next()
                node = ("star", node)
            elif v == "+":
                self.next()
                node = ("plus", node)
            elif v == "{":
                # repeat_exact / repeat_min / repeat_max / repeat_min_max -- but `{` may also close nothing:
                # inside a rule body a `{` can only be a repetition
                node = self.repeat(node)
            else:
                return node

    def repeat(self, node):
        self.expect("{")
        lo = hi = None
        comma = False
        if self.peek()[0] == "num":
            lo = int(self.next()[1])
        if self.peek()[1] == ",":
            self.next()
            comma = True
            if self.peek()[0] == "num":
                hi = int(self.next()[1])
        self.expect("}")

        def chain(xs):
            e = xs.pop()
            while xs:
                e = ("seq", xs.pop(), e)
            return e
        if not comma:
            if lo is None or lo == 0:
                raise TranslateError("repetition {0} / {} is rejected by pest")
            return chain([node] * lo)                                   # RepExact
        if lo is not None and hi is None:
            return chain([node] * lo + [("star", node)])               # RepMin
        if lo is None and hi is not None:
            if hi == 0:
                raise TranslateError("repetition {,0} is rejected by pest")
            return chain([("opt", node)] * hi)                          # RepMax
        if lo is not None and hi is not None:
            if hi == 0 or lo > hi:
                raise TranslateError("bad repetition bounds")
            return chain([node] * lo + [("opt", node)] * (hi - lo))    # RepMinMax
        raise TranslateError("repetition {,} is not valid")

    def node(self):
        k, v, off = self.next()
        if v == "(":
            e = self.expr()
            self.expect(")")
            return e
        if k == "str":
            cps = unescape(v[1:-1], "string at offset %d" % off)
            return ("lit", cps)
        if k == "istr":
            cps = unescape(v[2:-1], "string at offset %d" % off)
            return ("ilit", cps)
        if k == "chr":
            a = unescape(v[1:-1], "char at offset %d" % off)
            if len(a) != 1:
                raise TranslateError("bad char literal at offset %d" % off)
            self.expect("..")
            k2, v2, off2 = self.next()
            if k2 != "chr":
                raise TranslateError("expected a char after '..' at offset %d" % off2)
            b = unescape(v2[1:-1], "char at offset %d" % off2)
            if len(b) != 1:
                raise TranslateError("bad char literal at offset %d" % off2)
            return ("range", a[0], b[0])
        if k == "id":
            if v in UNSUPPORTED_IDS:
                raise TranslateError("stack operation %s is not supported by the PEG model (offset %d)" % (v, off))
            return ("ident", v)
        raise TranslateError("unexpected token %r at offset %d" % (v, off))


# ------------------------------------------------------------------ Coq output

def coq_str(cps):
    txt = "".join(chr(c) if 32 <= c < 127 and c != 34 else "\\u{%x}" % c for c in cps)
    txt = txt.replace("*)", "* )").replace("(*", "( *")
    return "[%s]%%N (* %s *)" % ("; ".join(str(c) for c in cps), txt)


def emit(e, names):
    k = e[0]
    if k == "lit":
        if not e[1]:
            raise TranslateError("empty string literal")
        return "(Lit %s)" % coq_str(e[1])
    if k == "ilit":
        return "(ILit %s)" % coq_str(e[1])
    if k == "range":
        return "(Range %d %d)" % (e[1], e[2])
    if k == "any":
        return "Any"
    if k == "soi":
        return "Soi"
    if k == "ident":
        n = e[1]
        if n in names:
            return "(Call R_%s)" % n
        if n == "EOI":
            return "(Call R_EOI)"
        if n in BUILTINS:
            return emit(BUILTINS[n], names)
        raise TranslateError("identifier %s is neither a rule of the grammar nor a built-in this translator knows" % n)
    if k in ("seq", "alt"):
        return "(%s %s %s)" % ("Seq" if k == "seq" else "Alt", emit(e[1], names), emit(e[2], names))
    if k in ("opt", "star", "plus", "not", "and"):
        c = {"opt": "Opt", "star": "Star", "plus": "Plus", "not": "NotP", "and": "AndP"}[k]
        return "(%s %s)" % (c, emit(e[1], names))
    raise TranslateError("internal: unknown node %r" % (k,))


def translate(src):
    rules = Parser(tokenize(src)).rules()
    names = [r[0] for r in rules]
    if len(set(names)) != len(names):
        raise TranslateError("duplicate rule name")
    for n in names:
        if n in BUILTINS or n == "EOI" or n in UNSUPPORTED_IDS:
            raise TranslateError("rule %s redefines a pest built-in" % n)
    allr = ["EOI"] + names
    L = []
    L.append("(** GENERATED by tools/gen_c07.py from %s on every check. Do not edit. *)" % GRAMMAR)
    L.append("From V Require Import Base.Util Peg.Peg.")
    L.append("")
    L.append("(** the variants of the Rust enum `Rule` generated by pest_derive *)")
    L.append("Inductive rule :=")
    for n in allr:
        L.append("| R_%s" % n)
    L.append(".")
    L.append("")
    L.append("Definition rule_idx (r : rule) : N :=")
    L.append("  match r with")
    for i, n in enumerate(allr):
        L.append("  | R_%s => %d" % (n, i))
    L.append("  end%N.")
    L.append("")
    L.append("Definition rule_eqb (a b : rule) : bool := N.eqb (rule_idx a) (rule_idx b).")
    L.append("")
    L.append("Definition all_rules : list rule := [%s]." % "; ".join("R_" + n for n in allr))
    L.append("")
    L.append("Definition rule_name (r : rule) : str :=")
    L.append("  match r with")
    for n in allr:
        L.append("  | R_%s => %s" % (n, coq_str([ord(c) for c in n])))
    L.append("  end.")
    L.append("")
    L.append("Definition rule_def (r : rule) : ruledef rule :=")
    L.append("  match r with")
    L.append("  | R_EOI => mkRule MNormal Eoi")
    nameset = set(names)
    for n, mod, e in rules:
        L.append("  | R_%s => mkRule %s" % (n, mod))
        L.append("      %s" % emit(e, nameset))
    L.append("  end.")
    L.append("")
    ws = "(Some R_WHITESPACE)" if "WHITESPACE" in nameset else "None"
    cm = "(Some R_COMMENT)" if "COMMENT" in nameset else "None"
    L.append("Definition gql_grammar : grammar rule := mkGrammar rule_def rule_eqb %s %s." % (ws, cm))
    return "\n".join(L) + "\n", allr


def generate(repo, coqdir):
    p = os.path.join(repo, GRAMMAR)
    src = open(p, encoding="utf-8").read()
    text, _ = translate(src)
    d = os.path.join(coqdir, "Gen")
    os.makedirs(d, exist_ok=True)
    out = os.path.join(d, OUT)
    if not os.path.exists(out) or open(out, encoding="utf-8").read() != text:
        tmp = out + ".tmp%d" % os.getpid()
        open(tmp, "w", encoding="utf-8").write(text)
        os.replace(tmp, out)
        return True
    return False


if __name__ == "__main__":
    sys.path.insert(0, os.path.dirname(os.path.abspath(__file__)))
    import vlib
    changed = generate(vlib.REPO, vlib.COQ)
    print(OUT, "rewritten" if changed else "unchanged")
