#!/bin/bash
# usage: seed_regress.sh [seed...]   -- runs every seeded change (default: all) against the check of its property
# (scratch worktree per seed, removed afterwards) and appends "seed check violations known" lines to .build/seed_regress.txt
cd /verif
SEEDS=${@:-$(ls seeded)}
for s in $SEEDS; do
  c=${s:0:3}
  out=$(tools/seed_run.sh $s $c 2>&1)
  v=$(echo "$out" | grep -c "^VIOLATION")
  pf=$(echo "$out" | grep "^VIOLATION" | grep -vc "no-failing-input-found")
  echo "$s $c violations=$v with_failing_input=$pf" | tee -a .build/seed_regress.txt
done
