#!/bin/bash
# usage: coqgoal.sh File.v LINE  -- shows the goal just before LINE (1-based) of File.v (relative to /verif/coq)
cd /verif/coq
f=$1; n=$2
tmp=$(dirname $f)/_dbg_$$.v
head -n $((n-1)) $f > $tmp
echo "Show. Abort All." >> $tmp
coqc -Q . V $tmp 2>&1 | tail -${3:-40}
rm -f $tmp $(dirname $f)/_dbg_$$.vo $(dirname $f)/_dbg_$$.glob $(dirname $f)/._dbg_$$.aux $(dirname $f)/_dbg_$$.vok $(dirname $f)/_dbg_$$.vos
