#!/bin/bash
# usage: seed_confirm.sh Cxx [suffix]   -- confirms the seeded change in /tmp/seed-Cxx<suffix> and stores it under /verif/seeded/Cxx<suffix>/
set -u
P=$1; SUF=${2:-}
WT=/tmp/seed-$P$SUF
OUT=/verif/seeded/$P$SUF
mkdir -p $OUT
cd $WT || exit 2
export CARGO_TARGET_DIR=$WT/target CARGO_NET_OFFLINE=true
git diff -- crates > $OUT/patch.diff
[ -s $OUT/patch.diff ] || { echo "no source diff"; exit 2; }
rm -rf $OUT/demo; mkdir -p $OUT/demo
( cd $WT/demo 2>/dev/null && tar cf - --exclude=target --exclude=Cargo.lock . ) | ( cd $OUT/demo && tar xf - ) 2>/dev/null
cp $WT/SEED_REPORT.md $OUT/ 2>/dev/null
run_demo() {
  if [ -f $WT/demo/run.sh ]; then ( cd $WT/demo && bash run.sh ) >/dev/null 2>&1; echo $?;
  elif [ -f $WT/demo/Cargo.toml ]; then ( cd $WT/demo && timeout 900 cargo run --offline -q ) >/dev/null 2>&1; r=$?; if [ $r -eq 0 ] && grep -q '^\[\[test\]\]\|#\[test\]' -r $WT/demo/src $WT/demo/tests 2>/dev/null; then ( cd $WT/demo && timeout 900 cargo test --offline -q ) >/dev/null 2>&1; r=$?; fi; echo $r;
  else echo 99; fi
}
WITH=$(run_demo)
TESTS=$(timeout 1800 cargo test --workspace --offline --no-fail-fast 2>&1 | grep -E "^test result" | awk '{p+=$4; f+=$6} END {print p"/"f}')
git apply -R $OUT/patch.diff
WITHOUT=$(run_demo)
git apply $OUT/patch.diff
echo "demo_with_change_exit=$WITH demo_without_change_exit=$WITHOUT tests_with_change(passed/failed)=$TESTS"
python3 - "$P$SUF" "$WITH" "$WITHOUT" "$TESTS" <<'PY'
import json,sys,os
pid,w,wo,t=sys.argv[1:5]
out='/verif/seeded/%s/meta.json'%pid
m=json.load(open(out)) if os.path.exists(out) else {}
m.update({"property":pid[:3],"confirmed":{"demo_exit_with_change":int(w),"demo_exit_without_change":int(wo),"workspace_tests_with_change_passed_failed":t},
 "commands":["cargo test --workspace --offline --no-fail-fast (in scratch worktree, with change)","demo: cargo run/test --offline in demo/ with and without the change (git stash)"]})
json.dump(m,open(out,'w'),indent=1)
PY
