(** C09 — specification side: server-side variable coercion ([Coercible], GraphQL Oct-2021 §6.1.2
    CoerceVariableValues and §3.* input coercion) over the abstract value domain, the explicit
    assignments [Explicit_c], and the reading of the Variables type against the schema
    declaration's `__OperationInput` namespace. *)
From V Require Import Base.Util Gql.Ast Writer.Wop Ts.TsType Ts.TsDen C10.Model C10.Spec C09.Model.

(** ** the environment: [Schema.__OperationInput.T] is the alias the schema declaration exports
    for [T] in that namespace; names inside its body refer to the namespace's own declarations *)
Definition vars_env (ms : list (option member)) : tsenv :=
  mkEnv (env_var (ns_env ms)) (fun _ _ => None)
        (fun _ tgt T => if str_eqb tgt (target_str OpIn) then alias_of ms T else None).

Section Coerce.
  Variables (o : sopts) (doc : tsdoc).

  Definition is_absent (x : option val) : bool :=
    match x with None | Some VUndef => true | _ => false end.

  (** input coercion of a provided value against the named type [n] (spec §3.5–3.10): scalars by
      the configured INPUT TypeScript type (abstractly), enums by value name, input objects
      field-wise: no unknown field, an absent field needs a default or a nullable type *)
  Definition named_coerce (v : val) (cks : list (str * checker)) (n : str) : bool :=
    match get_type doc n with
    | Some (TDScalar _ _ _ dirs _) =>
        match scalar_config o n dirs with Some c => raw_member (cfg_get_type c OpIn) v | None => false end
    | Some (TDEnum _ _ _ _ vals _) =>
        match v with VStr x => existsb (fun ev => str_eqb x (iname (ev_name ev))) vals | _ => false end
    | Some (TDInput _ _ _ _ fields _) =>
        match v with
        | VObj kvs =>
            nodup_keys (map fst kvs)
            && forallb (fun k => mem k (map (fun iv => iname (iv_name iv)) fields)) (map fst kvs)
            && forallb (fun iv =>
                 if is_absent (assoc (iname (iv_name iv)) kvs)
                 then (match iv_default iv with Some _ => true | None => false end) || negb (is_nonnull (iv_type iv))
                 else match assoc (iname (iv_name iv)) cks with
                      | Some chk => chk (is_nonnull (iv_type iv)) (ty_norm (iv_type iv))
                      | None => false
                      end) fields
        | _ => false
        end
    | _ => false
    end.

  Fixpoint coerce_val (v : val) (nn : bool) (ty : nty) {struct v} : bool :=
    match v with
    | VNull => negb nn
    | _ =>
        match ty with
        | NList en et => match v with VList l => forallb (fun x => coerce_val x en et) l | _ => false end
        | NNamed n =>
            named_coerce v (match v with
                            | VObj kvs => map (fun kv => (fst kv, coerce_val (snd kv))) kvs
                            | _ => []
                            end) n
        end
    end.

  (** [Coercible(V)]: CoerceVariableValues succeeds on the variables object [v] (spec's additional
      leniencies — a single value for a list, unknown variables being ignored — only enlarge it) *)
  Definition coercible (vds : list vardef) (v : val) : bool :=
    match v with
    | VObj kvs =>
        nodup_keys (map fst kvs)
        && forallb (fun vd =>
             match assoc (vd_name vd) kvs with
             | None | Some VUndef =>
                 (match vd_default vd with Some _ => true | None => false end) || negb (is_nonnull (vd_type vd))
             | Some x => coerce_val x (is_nonnull (vd_type vd)) (ty_norm (vd_type vd))
             end) vds
    | _ => false
    end.

  (** [Explicit_c(V)]: every variable and input field given explicitly with a coercible value
      (= in [Ref_OperationInput] of its type, where input-object fields may be omitted iff nullable
      and the option [c] is on), a nullable variable may be omitted iff [c] is on; no other keys *)
  Definition explicit_c (allow : bool) (vds : list vardef) (v : val) : bool :=
    match v with
    | VObj kvs =>
        exact_keys (map vd_name vds) kvs
        && forallb (fun vd =>
             let omissible := allow && negb (is_nonnull (vd_type vd)) in
             match assoc (vd_name vd) kvs with
             | Some x => (omissible && is_undef x) || Ref_ty o doc OpIn (vd_type vd) x
             | None => omissible
             end) vds
    | _ => false
    end.
End Coerce.
