(** C09 — proofs: the Variables type decides exactly [Explicit_c] (hence admits every explicit
    assignment, and omission iff the option is on), and everything it admits is coercible. *)
From V Require Import Base.Util Gql.Ast Writer.Wop Ts.TsType Ts.TsDen
  C10.Model C10.Spec C10.DenLemmas C10.Proofs C09.Model C09.Spec.

(** * the shape of the Variables type *)
Definition var_field_of (o : oopts) (vd : vardef) : tsfield :=
  let ft := get_ts_type_of_type (fun n => TNs3 (oo_ns o) (target_str OpIn) (iname n)) (vd_type vd) in
  let opt := negb (is_nonnull (vd_type vd)) && oo_allow o in
  mkField (vd_name vd) pos0 (if opt then TUnion [ft; TUndefined] else ft) true opt None.

Lemma variable_field_eq o vd : variable_field o vd = TObject [var_field_of o vd].
Proof. unfold variable_field, var_field_of. destruct (negb _ && _); reflexivity. Qed.

Lemma variables_type_eq o vds : variables_type o vds = TObject (map (var_field_of o) vds).
Proof.
  destruct vds as [|a [|b r]].
  - reflexivity.
  - cbn. apply variable_field_eq.
  - unfold variables_type.
    assert (Hm : map (variable_field o) (a :: b :: r) = map (fun vd => TObject [var_field_of o vd]) (a :: b :: r)).
    { apply map_ext. intros; apply variable_field_eq. }
    rewrite Hm. clear Hm.
    unfold ts_intersection. cbn [map].
    assert (Hp : forall l0, flat_map (fun t => match t with TObject ps => ps | _ => [] end)
                              (map (fun vd => TObject [var_field_of o vd]) l0) = map (var_field_of o) l0).
    { induction l0; cbn; congruence. }
    assert (Hf : forall l0, filter (fun t => match t with TObject _ => false | _ => true end)
                              (map (fun vd => TObject [var_field_of o vd]) l0) = []).
    { induction l0; cbn; congruence. }
    change (TObject [var_field_of o a] :: TObject [var_field_of o b] :: map (fun vd => TObject [var_field_of o vd]) r)
      with (map (fun vd => TObject [var_field_of o vd]) (a :: b :: r)).
    rewrite Hp, Hf. reflexivity.
Qed.

(** * exactness *)
Definition vars_wf (doc : tsdoc) (vds : list vardef) : bool :=
  forallb (fun vd => is_input_kind (kind_of doc (iname (ty_unwrapped (vd_type vd))))) vds.

Section Exact.
  Variables (o : sopts) (doc : tsdoc) (ms : list (option member)).
  Hypothesis Hwf : wf_schema o doc = true.
  Hypothesis Hms : namespace_members o doc OpIn = Ok ms.
  Notation E := (vars_env ms).
  Notation ht := (has_type_b E).

  Lemma leaf_ns3 ns f n :
    is_input_kind (kind_of doc (iname n)) = true ->
    LeafOK o doc OpIn E (fun n => TNs3 ns (target_str OpIn) (iname n)) f n.
  Proof.
    intros Hk f' _ v b H. cbv beta in H |- *.
    destruct f' as [|f'']; [rewrite ht_zero in H; discriminate|].
    rewrite ht_ns3 in H. cbn [env_ns3 vars_env] in H. rewrite str_eqb_refl in H.
    destruct (alias_of ms (iname n)) as [body|] eqn:Hal; [|discriminate].
    destruct (kind_input doc OpIn _ Hk eq_refl) as (td & Hg & Happ).
    eapply (alias_exact_sound o doc OpIn ms Hwf Hms E (fun _ => eq_refl)); eassumption.
  Qed.

  Theorem variables_exact ns allow vds f v b :
    vars_wf doc vds = true ->
    ht f (variables_type (mkOOpts ns allow) vds) v = Some b ->
    explicit_c o doc allow vds v = b.
  Proof.
    intros Hv H. rewrite variables_type_eq in H.
    destruct f as [|f1]; [rewrite ht_zero in H; discriminate|].
    rewrite ht_object in H. unfold explicit_c.
    destruct v as [| | | | | | |kvs]; try (inversion H; reflexivity).
    assert (Hkeys : forallb (fun k => existsb (fun fl => str_eqb (f_key fl) k) (map (var_field_of (mkOOpts ns allow)) vds)) (map fst kvs)
                    = forallb (fun k => mem k (map vd_name vds)) (map fst kvs)).
    { apply forallb_ext'. intros k. unfold mem. rewrite !existsb_map. apply existsb_ext'.
      intros vd. cbn [var_field_of f_key]. apply str_eqb_sym. }
    rewrite Hkeys in H. unfold exact_keys.
    destruct (nodup_keys (map fst kvs) && forallb _ (map fst kvs)); [|inversion H; reflexivity].
    cbn [andb]. unfold fields_ok in H. rewrite fold_right_map_fuse in H.
    eapply fold_and_sound; [|exact H].
    intros vd Hvd b' Hb'. cbv beta in Hb'.
    unfold vars_wf in Hv. rewrite forallb_forall in Hv. specialize (Hv _ Hvd).
    unfold field_ok in Hb'. cbn [var_field_of f_key f_optional f_ty oo_ns oo_allow] in Hb'.
    assert (HL : forall f2, LeafOK o doc OpIn E (fun n => TNs3 ns (target_str OpIn) (iname n)) f2 (ty_unwrapped (vd_type vd))).
    { intros f2. apply leaf_ns3. exact Hv. }
    rewrite (andb_comm allow).
    destruct (assoc (vd_name vd) kvs) as [x|]; [|inversion Hb'; reflexivity].
    unfold Ref_ty.
    destruct (negb (is_nonnull (vd_type vd)) && allow) eqn:Hopt; cbn [andb orb].
    - change (is_undef_v x) with (is_undef x) in Hb'.
      destruct (is_undef x) eqn:Hu.
      + cbn [orb]. destruct (has_type_b E f1 _ x) as [[]|]; cbn in Hb'; congruence.
      + cbn [orb]. apply obool_or_false_r in Hb'.
        destruct f1 as [|f2]; [rewrite ht_zero in Hb'; discriminate|].
        rewrite ht_union in Hb'. cbn [fold_right] in Hb'.
        apply obool_or_some in Hb' as [(-> & Hc & _)|(-> & [Hc|Hi])].
        * eapply get_ok; [apply HL|exact Hc].
        * eapply get_ok; [apply HL|exact Hc].
        * exfalso. apply obool_or_false_r in Hi.
          destruct f2 as [|f3]; [rewrite ht_zero in Hi; discriminate|].
          rewrite ht_undef in Hi. change (is_undef_v x) with (is_undef x) in Hi. congruence.
    - eapply get_ok; [apply HL|exact Hb'].
  Qed.
End Exact.
