(** C09 — "supplies each variable and input field explicitly": [Given_c(V)], the assignments in which
    every variable and every input-object field is present and not [undefined], except that a
    NULLABLE one may be omitted (absent or [undefined]) iff the option [c] is on; no unknown variable.
    With it the property reads  [[Variables_c(O)]] = Coercible(V) ∩ Given_c(V). *)
From V Require Import Base.Util Gql.Ast Writer.Wop Ts.TsType Ts.TsDen C10.Model C10.Spec C09.Model C09.Spec.

Section Given.
  Variables (doc : tsdoc) (allow : bool).

  Definition named_given (v : val) (cks : list (str * checker)) (n : str) : bool :=
    match get_type doc n with
    | Some (TDInput _ _ _ _ fields _) =>
        match v with
        | VObj kvs =>
            forallb (fun iv =>
              let om := allow && negb (is_nonnull (iv_type iv)) in
              match assoc (iname (iv_name iv)) kvs, assoc (iname (iv_name iv)) cks with
              | Some x, Some chk => (om && is_undef x) || (negb (is_undef x) && chk (is_nonnull (iv_type iv)) (ty_norm (iv_type iv)))
              | _, _ => om
              end) fields
        | _ => true
        end
    | _ => true
    end.

  Fixpoint given_val (v : val) (nn : bool) (ty : nty) {struct v} : bool :=
    match v with
    | VNull => true
    | _ =>
        match ty with
        | NList en et => match v with VList l => forallb (fun x => given_val x en et) l | _ => true end
        | NNamed n =>
            named_given v (match v with
                           | VObj kvs => map (fun kv => (fst kv, given_val (snd kv))) kvs
                           | _ => []
                           end) n
        end
    end.

  Definition given_c (vds : list vardef) (v : val) : bool :=
    match v with
    | VObj kvs =>
        forallb (fun k => mem k (map vd_name vds)) (map fst kvs)
        && forallb (fun vd =>
             let om := allow && negb (is_nonnull (vd_type vd)) in
             match assoc (vd_name vd) kvs with
             | Some x => (om && is_undef x) || (negb (is_undef x) && given_val x (is_nonnull (vd_type vd)) (ty_norm (vd_type vd)))
             | None => om
             end) vds
    | _ => true
    end.
End Given.
