(** C09 — [Explicit_c(V)] = [Coercible(V)] ∩ [Given_c(V)] (spec level, induction on values), hence the
    one-theorem form of the property: [[Variables_c(O)]] = Coercible(V) ∩ Given_c(V). *)
From V Require Import Base.Util Gql.Ast Writer.Wop Ts.TsType Ts.TsDen
  C10.Model C10.Spec C10.DenLemmas C10.Proofs C09.Model C09.Spec C09.Given C09.Proofs C09.Proofs2 C09.Proofs3.

Lemma forallb_andb {A} (a b : A -> bool) l : forallb (fun x => a x && b x) l = forallb a l && forallb b l.
Proof.
  induction l as [|x l IH]; [reflexivity|]. cbn. rewrite IH.
  destruct (a x), (b x), (forallb a l), (forallb b l); reflexivity.
Qed.

Section Split.
  Variables (o : sopts) (doc : tsdoc) (allow : bool).
  Hypothesis Hopt : so_optional o = allow.
  Notation rv := (ref_val o doc OpIn).
  Notation cv := (coerce_val o doc).
  Notation gv := (given_val doc allow).

  Lemma named_split_atom v n : (forall kvs, v <> VObj kvs) ->
    named_den o doc OpIn v [] n = named_coerce o doc v [] n && named_given doc allow v [] n.
  Proof.
    intros Hv. unfold named_den, named_coerce, named_given.
    destruct (get_type doc n) as [[]|]; cbn [is_input is_output negb andb]; try reflexivity;
      try (rewrite andb_true_r; reflexivity).
    unfold input_den. destruct v; try reflexivity. exfalso. eapply Hv. reflexivity.
  Qed.

  Lemma coerce_undef nn ty : cv VUndef nn ty = false.
  Proof.
    destruct ty as [n|en et]; [|reflexivity]. cbn [coerce_val]. unfold named_coerce.
    destruct (get_type doc n) as [[]|]; try reflexivity.
    destruct (scalar_config _ _ _); [|reflexivity]. unfold raw_member. repeat destruct (str_eqb _ _); reflexivity.
  Qed.

  Lemma ref_split v : forall nn ty, rv v nn ty = cv v nn ty && gv v nn ty.
  Proof.
    induction v as [| | b | | x | x | l IH | kvs IH] using val_ind'; intros nn ty.
    - cbn. rewrite andb_true_r. reflexivity.
    - rewrite ref_undef, coerce_undef. reflexivity.
    - destruct ty; [|reflexivity]. cbn [ref_val coerce_val given_val]. apply named_split_atom. discriminate.
    - destruct ty; [|reflexivity]. cbn [ref_val coerce_val given_val]. apply named_split_atom. discriminate.
    - destruct ty; [|reflexivity]. cbn [ref_val coerce_val given_val]. apply named_split_atom. discriminate.
    - destruct ty; [|reflexivity]. cbn [ref_val coerce_val given_val]. apply named_split_atom. discriminate.
    - destruct ty as [n|en et]; cbn [ref_val coerce_val given_val].
      + apply named_split_atom. discriminate.
      + rewrite <- forallb_andb. apply forallb_ext_in'. intros x Hx. rewrite Forall_forall in IH. apply IH. exact Hx.
    - destruct ty as [n|en et]; [|reflexivity]. cbn [ref_val coerce_val given_val].
      unfold named_den, named_coerce, named_given.
      destruct (get_type doc n) as [[]|]; cbn [is_input is_output negb andb]; try reflexivity;
        try (rewrite andb_true_r; reflexivity).
      unfold input_den, exact_keys.
      destruct (nodup_keys (map fst kvs) && forallb (fun k => mem k (map (fun iv => iname (iv_name iv)) fields)) (map fst kvs));
        cbn [andb]; [|reflexivity].
      rewrite <- forallb_andb. apply forallb_ext_in'. intros iv _.
      rewrite !assoc_map_snd. rewrite Hopt.
      destruct (assoc (iname (iv_name iv)) kvs) as [x|] eqn:Hx; cbn [option_map].
      * destruct (assoc_in _ _ _ Hx) as (k' & Hin). rewrite Forall_forall in IH. specialize (IH _ Hin). cbn [snd] in IH.
        assert (Hab : is_absent (Some x) = is_undef x) by (destruct x; reflexivity). rewrite Hab.
        destruct (is_undef x) eqn:Hu.
        -- assert (x = VUndef) by (destruct x; try discriminate; reflexivity). subst x.
           rewrite ref_undef, andb_true_r, orb_false_r. cbn [negb andb]. rewrite orb_false_r.
           destruct (allow && negb (is_nonnull (iv_type iv))) eqn:Hom; [|rewrite andb_false_r; reflexivity].
           apply andb_true_iff in Hom as [_ Hn]. rewrite Hn, orb_true_r. reflexivity.
        -- rewrite andb_false_r. cbn [orb negb andb]. apply IH.
      * cbn [is_absent]. destruct (allow && negb (is_nonnull (iv_type iv))) eqn:Hom; [|rewrite andb_false_r; reflexivity].
        apply andb_true_iff in Hom as [_ Hn]. rewrite Hn, orb_true_r. reflexivity.
  Qed.

  (** Explicit_c(V) = Coercible(V) ∩ Given_c(V) *)
  Theorem explicit_split vds v : explicit_c o doc allow vds v = coercible o doc vds v && given_c doc allow vds v.
  Proof.
    unfold explicit_c, coercible, given_c. destruct v; try reflexivity.
    unfold exact_keys. rewrite <- !andb_assoc.
    destruct (nodup_keys (map fst fs)); cbn [andb]; [|reflexivity].
    rewrite (andb_comm (forallb (fun vd => match assoc (vd_name vd) fs with | Some VUndef | None => _ | Some x => _ end) vds)).
    rewrite <- andb_assoc. f_equal. rewrite andb_comm, <- forallb_andb. apply forallb_ext_in'. intros vd _.
    cbv zeta. unfold Ref_ty.
    destruct (assoc (vd_name vd) fs) as [x|].
    - destruct (is_undef x) eqn:Hu.
      + assert (x = VUndef) by (destruct x; try discriminate; reflexivity). subst x.
        rewrite ref_undef, andb_true_r, orb_false_r. cbn [negb andb]. rewrite orb_false_r.
        destruct (allow && negb (is_nonnull (vd_type vd))) eqn:Hom; [|rewrite andb_false_r; reflexivity].
        apply andb_true_iff in Hom as [_ Hn]. rewrite Hn, orb_true_r. reflexivity.
      + rewrite andb_false_r. cbn [orb negb andb].
        destruct x; try discriminate; apply ref_split.
    - destruct (allow && negb (is_nonnull (vd_type vd))) eqn:Hom; [|rewrite andb_false_r; reflexivity].
      apply andb_true_iff in Hom as [_ Hn]. rewrite Hn, orb_true_r. reflexivity.
  Qed.
End Split.

(** * the property as one theorem *)
(** executable guard: the schema is well-formed (what [check] enforces + scalar configuration), every
    variable's named type is a defined input type, and the schema declaration was generated under the
    same value of [allowUndefinedAsOptionalInput] as the operation *)
Definition c09_guard (o : sopts) (doc : tsdoc) (allow : bool) (vds : list vardef) : bool :=
  wf_schema o doc && vars_wf doc vds && Bool.eqb (so_optional o) allow.

(** [[Variables_c(O)]] = Coercible(V) ∩ Given_c(V): for every variable type shape (any nesting of
    lists and non-null, defaults, recursive input objects, the three scalar-config shapes) and both
    values of the option, the Variables type admits exactly the assignments the server's variable
    coercion accepts that supply every variable and input field explicitly (a nullable one may be
    omitted iff the option is on), and rejects exactly the others *)
Theorem variables_main o doc ms ns allow vds v :
  c09_guard o doc allow vds = true -> namespace_members o doc OpIn = Ok ms ->
  (In_type (vars_env ms) (variables_type (mkOOpts ns allow) vds) v
     <-> coercible o doc vds v = true /\ given_c doc allow vds v = true)
  /\ (NotIn_type (vars_env ms) (variables_type (mkOOpts ns allow) vds) v
     <-> coercible o doc vds v = false \/ given_c doc allow vds v = false).
Proof.
  intros Hg Hms. unfold c09_guard in Hg. apply andb_true_iff in Hg as [Hg Ho]. apply andb_true_iff in Hg as [Hwf Hv].
  apply Bool.eqb_prop in Ho.
  destruct (variables_exact_iff o doc ms Hwf Hms ns allow vds v Hv) as [H1 H2].
  rewrite (explicit_split o doc allow Ho) in H1, H2.
  split.
  - rewrite H1. apply andb_true_iff.
  - rewrite H2. apply andb_false_iff.
Qed.
