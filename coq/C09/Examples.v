(** C09 — non-vacuity examples. *)
From V Require Import Base.Util Gql.Ast Writer.Wop Ts.TsType Ts.TsDen
  C10.Model C10.Spec C10.NameProofs C10.Examples C09.Model C09.Spec C09.Given C09.Proofs C09.Proofs2 C09.Proofs3 C09.Proofs4.

(** over C10's example schema: query Q($a: [In!]!, $b: E, $d: Date = null) *)
Definition ex_vds : list vardef :=
  [mkVarDef pos0 (s "a") pos0 (TNonNull (TList pos0 (TNonNull (ex_ty "In")))) None [];
   mkVarDef pos0 (s "b") pos0 (ex_ty "E") None [];
   mkVarDef pos0 (s "d") pos0 (ex_ty "Date") (Some (Ast.VNull pos0)) []].

Definition ex_ms : list (option member) :=
  match namespace_members ex_opts ex_doc OpIn with Ok ms => ms | _ => [] end.

Example ex_guards : wf_schema ex_opts ex_doc = true /\ namespace_members ex_opts ex_doc OpIn = Ok ex_ms /\ vars_wf ex_doc ex_vds = true.
Proof. vm_compute. repeat split; reflexivity. Qed.

Definition ex_in : val := VObj [(s "b", VStr (s "A"))].
Definition ex_admit (allow : bool) (v : val) : option bool :=
  has_type_b (vars_env ex_ms) 40 (variables_type (mkOOpts (s "Schema") allow) ex_vds) v.

(** explicit assignment: admitted under both option values, coercible *)
Example ex_explicit :
  let v := VObj [(s "a", VList [ex_in]); (s "b", VNull); (s "d", VAtom (s "Date | string"))] in
  ex_admit true v = Some true /\ ex_admit false v = Some true
  /\ explicit_c ex_opts ex_doc false ex_vds v = true /\ coercible ex_opts ex_doc ex_vds v = true.
Proof. vm_compute. repeat split; reflexivity. Qed.
(** omitting the nullable [b] and [d]: admitted iff the option is on; coercible either way *)
Example ex_omission :
  let v := VObj [(s "a", VList [])] in
  ex_admit true v = Some true /\ ex_admit false v = Some false
  /\ explicit_c ex_opts ex_doc true ex_vds v = true /\ explicit_c ex_opts ex_doc false ex_vds v = false
  /\ coercible ex_opts ex_doc ex_vds v = true.
Proof. vm_compute. repeat split; reflexivity. Qed.
(** null for the non-null list / a null element / a wrong enum value / the OUTPUT scalar type: rejected, not coercible *)
Example ex_rejected :
  ex_admit true (VObj [(s "a", VNull)]) = Some false
  /\ ex_admit true (VObj [(s "a", VList [VNull])]) = Some false
  /\ ex_admit true (VObj [(s "a", VList []); (s "b", VStr (s "C"))]) = Some false
  /\ coercible ex_opts ex_doc ex_vds (VObj [(s "a", VList [VNull])]) = false
  /\ coercible ex_opts ex_doc ex_vds (VObj [(s "a", VList []); (s "b", VStr (s "C"))]) = false.
Proof. vm_compute. repeat split; reflexivity. Qed.
(** coercible but not admitted (soundness is an inclusion): a default makes [d] omissible for the
    server even with the option off, and the non-null [b!] of [In] … here: [d] omitted, option off *)
Example ex_strict :
  let v := VObj [(s "a", VList []); (s "b", VNull)] in
  ex_admit false v = Some false /\ coercible ex_opts ex_doc ex_vds v = true.
Proof. vm_compute. split; reflexivity. Qed.

(** ** the option as configured reaches the Variables type (since /repo 8fa8876) *)
Example ex_config_off_rejects_omission :
  let vds := [mkVarDef pos0 (s "b") pos0 (ex_ty "E") None []] in
  has_type_b (vars_env ex_ms) 40 (variables_type (oopts_from_config (Some false)) vds) (VObj []) = Some false
  /\ has_type_b (vars_env ex_ms) 40 (variables_type (oopts_from_config (Some true)) vds) (VObj []) = Some true
  /\ has_type_b (vars_env ex_ms) 40 (variables_type (oopts_from_config None) vds) (VObj []) = Some true.
Proof. vm_compute. repeat split; reflexivity. Qed.

(** the guard of C09_main is satisfiable for both option values (lists of non-null input objects,
    a nullable enum, a nullable scalar with a default), and Given_c separates the cases *)
Definition ex_opts_off : sopts := mkSOpts (so_scalars ex_opts) (so_meta ex_opts) false (so_runtime ex_opts).
Example ex_main_guard : c09_guard ex_opts ex_doc true ex_vds = true /\ c09_guard ex_opts_off ex_doc false ex_vds = true.
Proof. vm_compute. split; reflexivity. Qed.
Example ex_given :
  let v := VObj [(s "a", VList [])] in
  given_c ex_doc true ex_vds v = true /\ given_c ex_doc false ex_vds v = false /\ coercible ex_opts ex_doc ex_vds v = true.
Proof. vm_compute. repeat split; reflexivity. Qed.
