(** C09 — property theorems only. *)
From V Require Import Base.Util Gql.Ast Writer.Wop Ts.TsType Ts.TsDen
  C10.Model C10.Spec C10.DenLemmas C10.Proofs C10.Examples C09.Model C09.Spec C09.Given C09.Proofs C09.Proofs2 C09.Proofs3 C09.Proofs4 C09.Examples.

(** the Variables type, read against the schema declaration's `__OperationInput` namespace,
    decides exactly [Explicit_c]: whenever it decides membership of an assignment, it decides it
    like the reference (every wrapper nesting, recursive input objects, the three scalar-config
    shapes, both option values) *)
Theorem C09_variables_exact : forall o doc ms ns allow vds f v b,
  wf_schema o doc = true -> namespace_members o doc OpIn = Ok ms -> vars_wf doc vds = true ->
  has_type_b (vars_env ms) f (variables_type (mkOOpts ns allow) vds) v = Some b ->
  explicit_c o doc allow vds v = b.
Proof. intros. eapply variables_exact; eassumption. Qed.
Print Assumptions C09_variables_exact.

(** … and it decides every assignment: [[Variables_c(O)]] = Explicit_c(V) *)
Theorem C09_variables_exact_iff : forall o doc ms ns allow vds v,
  wf_schema o doc = true -> namespace_members o doc OpIn = Ok ms -> vars_wf doc vds = true ->
  (In_type (vars_env ms) (variables_type (mkOOpts ns allow) vds) v <-> explicit_c o doc allow vds v = true)
  /\ (NotIn_type (vars_env ms) (variables_type (mkOOpts ns allow) vds) v <-> explicit_c o doc allow vds v = false).
Proof. intros. eapply variables_exact_iff; eassumption. Qed.
Print Assumptions C09_variables_exact_iff.

(** [[Variables_c(O)]] ⊆ Coercible(V), in the membership form *)
Theorem C09_sound_in : forall o doc ms ns allow vds v,
  wf_schema o doc = true -> namespace_members o doc OpIn = Ok ms -> vars_wf doc vds = true ->
  In_type (vars_env ms) (variables_type (mkOOpts ns allow) vds) v -> coercible o doc vds v = true.
Proof.
  intros o doc ms ns allow vds v Hwf Hms Hv Hin. eapply explicit_coercible.
  apply (proj1 (proj1 (variables_exact_iff o doc ms Hwf Hms ns allow vds v Hv))). exact Hin.
Qed.
Print Assumptions C09_sound_in.

(** Explicit_c(V) ⊆ [[Variables_c(O)]], in the membership form *)
Theorem C09_explicit_complete_in : forall o doc ms ns allow vds v,
  wf_schema o doc = true -> namespace_members o doc OpIn = Ok ms -> vars_wf doc vds = true ->
  explicit_c o doc allow vds v = true -> In_type (vars_env ms) (variables_type (mkOOpts ns allow) vds) v.
Proof.
  intros o doc ms ns allow vds v Hwf Hms Hv He.
  apply (proj2 (proj1 (variables_exact_iff o doc ms Hwf Hms ns allow vds v Hv))). exact He.
Qed.
Print Assumptions C09_explicit_complete_in.

(** [[Variables_c(O)]] ⊆ Coercible(V) *)
Theorem C09_sound : forall o doc ms ns allow vds f v,
  wf_schema o doc = true -> namespace_members o doc OpIn = Ok ms -> vars_wf doc vds = true ->
  has_type_b (vars_env ms) f (variables_type (mkOOpts ns allow) vds) v = Some true ->
  coercible o doc vds v = true.
Proof. intros. eapply explicit_coercible. eapply variables_exact; eassumption. Qed.
Print Assumptions C09_sound.

(** Explicit_c(V) ⊆ [[Variables_c(O)]]: an explicit assignment is never rejected *)
Theorem C09_explicit_complete : forall o doc ms ns allow vds f v b,
  wf_schema o doc = true -> namespace_members o doc OpIn = Ok ms -> vars_wf doc vds = true ->
  explicit_c o doc allow vds v = true ->
  has_type_b (vars_env ms) f (variables_type (mkOOpts ns allow) vds) v = Some b -> b = true.
Proof.
  intros o doc ms ns allow vds f v b Hwf Hms Hv He H.
  rewrite <- (variables_exact o doc ms Hwf Hms ns allow vds f v b Hv H). exact He.
Qed.
Print Assumptions C09_explicit_complete.

(** an assignment that omits something nullable (explicit with the option on, not with it off)
    is admitted exactly when the option is on *)
Theorem C09_omission : forall o doc ms ns allow vds f v b,
  wf_schema o doc = true -> namespace_members o doc OpIn = Ok ms -> vars_wf doc vds = true ->
  explicit_c o doc true vds v = true -> explicit_c o doc false vds v = false ->
  has_type_b (vars_env ms) f (variables_type (mkOOpts ns allow) vds) v = Some b -> b = allow.
Proof.
  intros o doc ms ns allow vds f v b Hwf Hms Hv Ht Hf H.
  rewrite <- (variables_exact o doc ms Hwf Hms ns allow vds f v b Hv H). destruct allow; assumption.
Qed.
Print Assumptions C09_omission.

(** spec level: every explicit assignment is coercible *)
Theorem C09_explicit_coercible : forall o doc allow vds v,
  explicit_c o doc allow vds v = true -> coercible o doc vds v = true.
Proof. exact explicit_coercible. Qed.
Print Assumptions C09_explicit_coercible.

(** from the configuration: with [generate.type.allowUndefinedAsOptionalInput] configured as
    [configured] (absent = on), an assignment that omits something nullable is admitted by the
    Variables type the CLI generates iff the option is on *)
Theorem C09_omission_from_config : forall o doc ms configured vds v,
  wf_schema o doc = true -> namespace_members o doc OpIn = Ok ms -> vars_wf doc vds = true ->
  explicit_c o doc true vds v = true -> explicit_c o doc false vds v = false ->
  (In_type (vars_env ms) (variables_type (oopts_from_config configured) vds) v <-> config_allow_undefined configured = true)
  /\ (NotIn_type (vars_env ms) (variables_type (oopts_from_config configured) vds) v <-> config_allow_undefined configured = false).
Proof.
  intros o doc ms configured vds v Hwf Hms Hv Ht Hf. unfold oopts_from_config.
  destruct (variables_exact_iff o doc ms Hwf Hms (s "Schema") (config_allow_undefined configured) vds v Hv) as [H1 H2].
  destruct (config_allow_undefined configured).
  - rewrite Ht in H1, H2. split; [exact H1|]. split; [intros H; apply H2 in H; discriminate|discriminate].
  - rewrite Hf in H1, H2. split; [|exact H2]. split; [intros H; apply H1 in H; discriminate|discriminate].
Qed.
Print Assumptions C09_omission_from_config.

(** Explicit_c(V) = Coercible(V) ∩ Given_c(V) (spec level) *)
Theorem C09_explicit_split : forall o doc allow, so_optional o = allow -> forall vds v,
  explicit_c o doc allow vds v = coercible o doc vds v && given_c doc allow vds v.
Proof. exact explicit_split. Qed.
Print Assumptions C09_explicit_split.

(** THE PROPERTY AS ONE THEOREM, with an executable guard: [[Variables_c(O)]] = Coercible(V) ∩ Given_c(V),
    for every variable type shape (any nesting of lists / non-null, defaults, recursive input objects, the
    three scalar-config shapes) and both values of allowUndefinedAsOptionalInput *)
Theorem C09_main : forall o doc ms ns allow vds v,
  c09_guard o doc allow vds = true -> namespace_members o doc OpIn = Ok ms ->
  (In_type (vars_env ms) (variables_type (mkOOpts ns allow) vds) v
     <-> coercible o doc vds v = true /\ given_c doc allow vds v = true)
  /\ (NotIn_type (vars_env ms) (variables_type (mkOOpts ns allow) vds) v
     <-> coercible o doc vds v = false \/ given_c doc allow vds v = false).
Proof. exact variables_main. Qed.
Print Assumptions C09_main.
