(** Pinned statements of the C09 property theorems: compiled on every check, so a theorem
    cannot be weakened silently. *)
From V Require Import Base.Util Gql.Ast Writer.Wop Ts.TsType Ts.TsDen
  C10.Model C10.Spec C10.DenLemmas C10.Proofs C10.Examples C09.Model C09.Spec C09.Given C09.Proofs C09.Proofs2 C09.Proofs3 C09.Proofs4 C09.Examples C09.Properties.

Check (C09_variables_exact :
  forall o doc ms ns allow vds f v b,
  wf_schema o doc = true -> namespace_members o doc OpIn = Ok ms -> vars_wf doc vds = true ->
  has_type_b (vars_env ms) f (variables_type (mkOOpts ns allow) vds) v = Some b ->
  explicit_c o doc allow vds v = b).
Print Assumptions C09_variables_exact.

Check (C09_variables_exact_iff :
  forall o doc ms ns allow vds v,
  wf_schema o doc = true -> namespace_members o doc OpIn = Ok ms -> vars_wf doc vds = true ->
  (In_type (vars_env ms) (variables_type (mkOOpts ns allow) vds) v <-> explicit_c o doc allow vds v = true)
  /\ (NotIn_type (vars_env ms) (variables_type (mkOOpts ns allow) vds) v <-> explicit_c o doc allow vds v = false)).
Print Assumptions C09_variables_exact_iff.

Check (C09_sound_in :
  forall o doc ms ns allow vds v,
  wf_schema o doc = true -> namespace_members o doc OpIn = Ok ms -> vars_wf doc vds = true ->
  In_type (vars_env ms) (variables_type (mkOOpts ns allow) vds) v -> coercible o doc vds v = true).
Print Assumptions C09_sound_in.

Check (C09_explicit_complete_in :
  forall o doc ms ns allow vds v,
  wf_schema o doc = true -> namespace_members o doc OpIn = Ok ms -> vars_wf doc vds = true ->
  explicit_c o doc allow vds v = true -> In_type (vars_env ms) (variables_type (mkOOpts ns allow) vds) v).
Print Assumptions C09_explicit_complete_in.

Check (C09_sound :
  forall o doc ms ns allow vds f v,
  wf_schema o doc = true -> namespace_members o doc OpIn = Ok ms -> vars_wf doc vds = true ->
  has_type_b (vars_env ms) f (variables_type (mkOOpts ns allow) vds) v = Some true ->
  coercible o doc vds v = true).
Print Assumptions C09_sound.

Check (C09_explicit_complete :
  forall o doc ms ns allow vds f v b,
  wf_schema o doc = true -> namespace_members o doc OpIn = Ok ms -> vars_wf doc vds = true ->
  explicit_c o doc allow vds v = true ->
  has_type_b (vars_env ms) f (variables_type (mkOOpts ns allow) vds) v = Some b -> b = true).
Print Assumptions C09_explicit_complete.

Check (C09_omission :
  forall o doc ms ns allow vds f v b,
  wf_schema o doc = true -> namespace_members o doc OpIn = Ok ms -> vars_wf doc vds = true ->
  explicit_c o doc true vds v = true -> explicit_c o doc false vds v = false ->
  has_type_b (vars_env ms) f (variables_type (mkOOpts ns allow) vds) v = Some b -> b = allow).
Print Assumptions C09_omission.

Check (C09_explicit_coercible :
  forall o doc allow vds v,
  explicit_c o doc allow vds v = true -> coercible o doc vds v = true).
Print Assumptions C09_explicit_coercible.

Check (C09_omission_from_config :
  forall o doc ms configured vds v,
  wf_schema o doc = true -> namespace_members o doc OpIn = Ok ms -> vars_wf doc vds = true ->
  explicit_c o doc true vds v = true -> explicit_c o doc false vds v = false ->
  (In_type (vars_env ms) (variables_type (oopts_from_config configured) vds) v <-> config_allow_undefined configured = true)
  /\ (NotIn_type (vars_env ms) (variables_type (oopts_from_config configured) vds) v <-> config_allow_undefined configured = false)).
Print Assumptions C09_omission_from_config.

Check (C09_explicit_split :
  forall o doc allow, so_optional o = allow -> forall vds v,
  explicit_c o doc allow vds v = coercible o doc vds v && given_c doc allow vds v).
Print Assumptions C09_explicit_split.

Check (C09_main :
  forall o doc ms ns allow vds v,
  c09_guard o doc allow vds = true -> namespace_members o doc OpIn = Ok ms ->
  (In_type (vars_env ms) (variables_type (mkOOpts ns allow) vds) v
     <-> coercible o doc vds v = true /\ given_c doc allow vds v = true)
  /\ (NotIn_type (vars_env ms) (variables_type (mkOOpts ns allow) vds) v
     <-> coercible o doc vds v = false \/ given_c doc allow vds v = false)).
Print Assumptions C09_main.
