(** C09 — correspondence ([agree]) and the spec-side predicates on the implementation's output ([holds]). *)
From V Require Import Base.Util Gql.Ast Writer.Wop Ts.TsType Ts.TsDen C10.Model C10.Spec C10.Domain C10.Parse C09.Model C09.Spec.

Definition P (l c : N) : pos := mkPos l c 0 false.
Definition P0 : pos := pos0.
Definition WS (c : str) (p : pos) : wop := WF c p (Some c).

(** one operation: its variable definitions, what the hook returned for them under the options
    built directly / through [from_config], and the recorded [print_type] of the former *)
Record oprun := mkOpRun {
  r_vars : vardefs;
  r_allow : bool;                    (* the option value (direct field, and the effective config value) *)
  r_cfg : option bool;               (* generate.type.allowUndefinedAsOptionalInput as written in the config (None = absent) *)
  r_direct : tstype;                 (* get_type_for_variable_definitions, options field set directly *)
  r_direct_ops : list wop;           (* TSType::print_type of r_direct *)
  r_config : tstype }.               (* same, options from OperationTypePrinterOptions::from_config(config) *)

Inductive case :=
| CVars (config_path : bool)   (* which of the two results [holds] judges: options set directly / through from_config *)
        (doc : tsdoc) (o : sopts) (ns : str)
        (decl_on decl_off : option str)   (* the schema declaration text the implementation printed with the option on / off *)
        (runs : list oprun).

Definition vars_of (r : oprun) : list vardef := vds_list (r_vars r).

Definition agree (c : case) : bool :=
  match c with
  | CVars _ doc o ns _ _ runs =>
      forallb (fun r =>
        let direct := variables_type (mkOOpts ns (r_allow r)) (vars_of r) in
        tstype_eqb direct (r_direct r)
        && wops_eqb (print_type direct) (r_direct_ops r)
        && tstype_eqb (variables_type (oopts_from_config (r_cfg r)) (vars_of r)) (r_config r)) runs
  end.

(** ** the property on a finite value domain *)
Definition DEN_FUEL : nat := 60.
Definition DOM_DEPTH : nat := 3.

(** candidate assignments: a canonical explicit record, each variable dropped / undefined / null /
    replaced by each candidate of its type, an extra key *)
Definition assignments (o : sopts) (doc : tsdoc) (vds : list vardef) : list val :=
  let cands (vd : vardef) := vals o doc OpIn DOM_DEPTH (ty_norm (vd_type vd)) in
  let canon := flat_map (fun vd => match find (fun v => negb (is_undef v) && Ref_ty o doc OpIn (vd_type vd) v) (cands vd) with
                                   | Some v => [(vd_name vd, v)]
                                   | None => []
                                   end) vds in
  [VNull; VList []; VObj []]
  ++ record_variants 4 canon (fun k => match find (fun vd => str_eqb (vd_name vd) k) vds with
                                       | Some vd => firstn 24 (cands vd)
                                       | None => []
                                       end).

Definition obool_is (a : option bool) (b : bool) : bool := match a with Some x => Bool.eqb x b | None => false end.

(** for the Variables type [vt] of an operation with variables [vds] under option value [allow]:
    sound (admitted => coercible), explicit-complete (explicit => admitted), omission (a nullable
    variable may be omitted iff the option is on), and the type decides on every candidate *)
Definition vars_ok (o : sopts) (doc : tsdoc) (ms : list (option member)) (allow : bool) (vds : list vardef) (vt : tstype) : bool :=
  forallb (fun v =>
    match has_type_b (vars_env ms) DEN_FUEL vt v with
    | None => false
    | Some admitted =>
        (negb admitted || coercible o doc vds v)
        && (negb (explicit_c o doc allow vds v) || admitted)
        && (* omission: an assignment that is explicit when the option is on but not when it is off
              (i.e. it omits something nullable) is admitted iff the option is on *)
           (if explicit_c o doc true vds v && negb (explicit_c o doc false vds v) then Bool.eqb admitted allow else true)
    end) (assignments o doc vds).

Definition with_optional (o : sopts) (b : bool) : sopts := mkSOpts (so_scalars o) (so_meta o) b (so_runtime o).

(** ** the `__OperationInput` namespace, read from the implementation's schema declaration text *)
Definition input_decls (doc : tsdoc) (text : str) : option (list (str * str * tstype)) :=
  match parse_schema_text (raw_local doc) text with
  | Some nss => option_map snd (find (fun nm => str_eqb (fst nm) (target_str OpIn)) nss)
  | None => None
  end.
Definition decl_local (d : str * str * tstype) : str := snd (fst d).
(** a scalar's verbatim TypeScript text mentions an identifier that the namespace itself declares:
    the declaration captures it and the scalar no longer means the configured type *)
Definition captured (decls : list (str * str * tstype)) : bool :=
  existsb (fun d => match snd d with
                    | TRaw r => existsb (fun i => existsb (fun d' => str_eqb (decl_local d') i) decls) (idents_of r)
                    | _ => false
                    end) decls.
(** … and when the whole text IS such an identifier it denotes that declaration *)
Definition resolve_captured (decls : list (str * str * tstype)) : list (str * str * tstype) :=
  map (fun d => match snd d with
                | TRaw r => if existsb (fun d' => str_eqb (decl_local d') r) decls then (fst d, TVar r pos0) else d
                | _ => d
                end) decls.

Definition holds (c : case) : bool :=
  match c with
  | CVars config_path doc o ns decl_on decl_off runs =>
      forallb (fun r =>
        (* the schema declaration is generated under the same option value *)
        let o' := with_optional o (r_allow r) in
        if wf_schema o' doc then
          match (if r_allow r then decl_on else decl_off) with
          | Some text =>
              match input_decls doc text with
              | Some decls =>
                  negb (captured decls)
                  && (if config_path then Bool.eqb (config_allow_undefined (r_cfg r)) (r_allow r) else true)
                  && vars_ok o' doc (map as_member (resolve_captured decls)) (r_allow r) (vars_of r)
                             (if config_path then r_config r else r_direct r)
              | None => false                  (* the emitted declaration is not readable *)
              end
          | None => false                      (* no declaration on a well-formed schema *)
          end
        else true) runs
  end.
