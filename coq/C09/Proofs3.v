(** C09 — the Variables type decides every assignment from some fuel on; hence the equivalences. *)
From V Require Import Base.Util Gql.Ast Writer.Wop Ts.TsType Ts.TsDen
  C10.Model C10.Spec C10.DenLemmas C10.Decide C10.Proofs C10.Proofs3 C09.Model C09.Spec C09.Proofs C09.Proofs2.

Section VarsDec.
  Variables (o : sopts) (doc : tsdoc) (ms : list (option member)).
  Hypothesis Hwf : wf_schema o doc = true.
  Hypothesis Hms : namespace_members o doc OpIn = Ok ms.
  Notation E := (vars_env ms).

  Lemma leaf_decides ns n v : is_input_kind (kind_of doc (iname n)) = true ->
    Dec E (TNs3 ns (target_str OpIn) (iname n)) v.
  Proof.
    intros Hk. destruct (kind_input doc OpIn _ Hk eq_refl) as (td & Hg & Happ).
    destruct (proj1 (alias_present_iff o doc OpIn ms Hwf Hms _ td Hg) Happ) as (body & Hal).
    eapply Dec_ns3.
    - cbn [env_ns3 vars_env]. rewrite str_eqb_refl. exact Hal.
    - eapply (alias_decides o doc OpIn ms Hwf Hms E (fun _ => eq_refl)); eassumption.
  Qed.

  Theorem variables_decides ns allow vds v :
    vars_wf doc vds = true -> Dec E (variables_type (mkOOpts ns allow) vds) v.
  Proof.
    intros Hv. rewrite variables_type_eq. apply Dec_object. intros kvs fl x -> Hfl Hx.
    apply in_map_iff in Hfl as (vd & <- & Hvd).
    unfold vars_wf in Hv. rewrite forallb_forall in Hv. specialize (Hv _ Hvd).
    cbn [var_field_of f_ty oo_ns oo_allow].
    assert (Hft : Dec E (get_ts_type_of_type (fun n => TNs3 ns (target_str OpIn) (iname n)) (vd_type vd)) x).
    { apply (Dec_get E _ (vd_type vd) (vsize x)); [|lia]. intros v' _. apply leaf_decides. exact Hv. }
    destruct (negb (is_nonnull (vd_type vd)) && allow); [|exact Hft].
    apply Dec_union. intros y [<-|[<-|[]]]; [exact Hft|apply Dec_undef].
  Qed.

  Theorem variables_exact_iff ns allow vds v :
    vars_wf doc vds = true ->
    (In_type E (variables_type (mkOOpts ns allow) vds) v <-> explicit_c o doc allow vds v = true)
    /\ (NotIn_type E (variables_type (mkOOpts ns allow) vds) v <-> explicit_c o doc allow vds v = false).
  Proof.
    intros Hv. destruct (variables_decides ns allow vds v Hv) as (F & HF).
    assert (Hs := fun f b => variables_exact o doc ms Hwf Hms ns allow vds f v b Hv).
    specialize (HF F (le_n _)).
    destruct (has_type_b E F (variables_type (mkOOpts ns allow) vds) v) as [b|] eqn:Hb; [|congruence].
    pose proof (Hs _ _ Hb) as Hr. split; split.
    - intros (f & Hf). apply (Hs f true Hf).
    - intros H. exists F. rewrite Hb. congruence.
    - intros (f & Hf). apply (Hs f false Hf).
    - intros H. exists F. rewrite Hb. congruence.
  Qed.
End VarsDec.
