(** C09 — spec-level: every explicit assignment is coercible (so what the Variables type admits
    is coercible), by induction on the value. *)
From V Require Import Base.Util Gql.Ast Writer.Wop Ts.TsType Ts.TsDen
  C10.Model C10.Spec C10.DenLemmas C10.Proofs C09.Model C09.Spec C09.Proofs.

(** induction principle for the nested value type *)
Section ValInd.
  Variable P : val -> Prop.
  Hypotheses (HNull : P VNull) (HUndef : P VUndef) (HBool : forall b, P (VBool b)) (HNum : P VNum)
             (HStr : forall x, P (VStr x)) (HAtom : forall x, P (VAtom x))
             (HList : forall l, Forall P l -> P (VList l))
             (HObj : forall fs, Forall (fun kv => P (snd kv)) fs -> P (VObj fs)).
  Fixpoint val_ind' (v : val) : P v :=
    match v with
    | VNull => HNull | VUndef => HUndef | VBool b => HBool b | VNum => HNum | VStr x => HStr x | VAtom x => HAtom x
    | VList l => HList l ((fix go (l : list val) : Forall P l :=
                             match l with [] => Forall_nil _ | x :: r => Forall_cons _ (val_ind' x) (go r) end) l)
    | VObj fs => HObj fs ((fix go (l : list (str * val)) : Forall (fun kv => P (snd kv)) l :=
                             match l with [] => Forall_nil _ | kv :: r => Forall_cons _ (val_ind' (snd kv)) (go r) end) fs)
    end.
End ValInd.

Lemma assoc_in {A} k (l : list (str * A)) x : assoc k l = Some x -> exists k', In (k', x) l.
Proof.
  induction l as [|[k' y] l IH]; cbn; [discriminate|].
  destruct (str_eqb k k'); intros H.
  - inversion H; subst. exists k'. left; reflexivity.
  - destruct (IH H) as (k'' & Hin). exists k''. right; exact Hin.
Qed.

Section RefCoerce.
  Variables (o : sopts) (doc : tsdoc).
  Notation rv := (ref_val o doc OpIn).
  Notation cv := (coerce_val o doc).

  (** for values that are not records the two named denotations coincide where [Ref] holds *)
  Lemma named_atom v n : (forall kvs, v <> VObj kvs) ->
    named_den o doc OpIn v [] n = true -> named_coerce o doc v [] n = true.
  Proof.
    intros Hv. unfold named_den, named_coerce.
    destruct (get_type doc n) as [[]|]; try (cbn; intros; discriminate); try exact (fun H => H).
    cbn [is_input is_output negb andb]. unfold input_den. destruct v; try discriminate.
    exfalso. eapply Hv. reflexivity.
  Qed.

  Lemma ref_undef nn ty : rv VUndef nn ty = false.
  Proof.
    destruct ty as [n|en et]; [|reflexivity]. cbn [ref_val]. unfold named_den.
    destruct (get_type doc n) as [[]|]; try reflexivity.
    destruct (scalar_config _ _ _); [|reflexivity]. unfold raw_member. repeat destruct (str_eqb _ _); reflexivity.
  Qed.

  Lemma ref_coerce v : forall nn ty, rv v nn ty = true -> cv v nn ty = true.
  Proof.
    induction v as [| | b | | x | x | l IH | kvs IH] using val_ind'; intros nn ty H.
    - exact H.
    - rewrite ref_undef in H. discriminate.
    - destruct ty; [|discriminate]. cbn [ref_val coerce_val] in *. apply named_atom; [discriminate|exact H].
    - destruct ty; [|discriminate]. cbn [ref_val coerce_val] in *. apply named_atom; [discriminate|exact H].
    - destruct ty; [|discriminate]. cbn [ref_val coerce_val] in *. apply named_atom; [discriminate|exact H].
    - destruct ty; [|discriminate]. cbn [ref_val coerce_val] in *. apply named_atom; [discriminate|exact H].
    - destruct ty as [n|en et]; cbn [ref_val coerce_val] in *.
      + apply named_atom; [discriminate|exact H].
      + rewrite forallb_forall in *. intros x Hx. rewrite Forall_forall in IH. apply IH; [exact Hx|apply H; exact Hx].
    - destruct ty as [n|en et]; [|discriminate]. cbn [ref_val coerce_val] in *.
      unfold named_den in H. unfold named_coerce.
      destruct (get_type doc n) as [[]|]; try discriminate; try exact H.
      cbn [is_input is_output negb andb] in H. unfold input_den in H. unfold exact_keys in H.
      apply andb_true_iff in H as [Hk Hf]. rewrite Hk. cbn [andb].
      rewrite forallb_forall in *. intros iv Hiv. specialize (Hf _ Hiv).
      rewrite !assoc_map_snd in *. cbv zeta in Hf.
      destruct (assoc (iname (iv_name iv)) kvs) as [x|] eqn:Hx; cbn [option_map is_absent] in *.
      * destruct x; cbn [is_undef] in *;
          try (rewrite andb_false_r in Hf; cbn [orb] in Hf;
               destruct (assoc_in _ _ _ Hx) as (k' & Hin); rewrite Forall_forall in IH;
               exact (IH _ Hin _ _ Hf)).
        (* VUndef: treated as absent *)
        rewrite andb_true_r, ref_undef, orb_false_r in Hf.
        apply andb_true_iff in Hf as [_ Hn]. rewrite Hn. apply orb_true_r.
      * apply andb_true_iff in Hf as [_ Hn]. rewrite Hn. apply orb_true_r.
  Qed.

  Theorem explicit_coercible allow vds v : explicit_c o doc allow vds v = true -> coercible o doc vds v = true.
  Proof.
    unfold explicit_c, coercible. destruct v; try discriminate. intros H.
    apply andb_true_iff in H as [Hk Hf]. unfold exact_keys in Hk. apply andb_true_iff in Hk as [Hk _].
    rewrite Hk. cbn [andb]. rewrite forallb_forall in *. intros vd Hvd. specialize (Hf _ Hvd). cbv zeta in Hf.
    destruct (assoc (vd_name vd) fs) as [x|].
    - destruct x; cbn [is_undef] in Hf;
        try (rewrite andb_false_r in Hf; cbn [orb] in Hf; apply ref_coerce; exact Hf).
      unfold Ref_ty in Hf. rewrite andb_true_r, ref_undef, orb_false_r in Hf.
      apply andb_true_iff in Hf as [_ Hn]. rewrite Hn. apply orb_true_r.
    - apply andb_true_iff in Hf as [_ Hn]. rewrite Hn. apply orb_true_r.
  Qed.
End RefCoerce.
