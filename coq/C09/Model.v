(** C09 — executable model of [operation_type_printer/type_printer.rs::get_type_for_variable_definitions],
    of how [OperationTypePrinterVisitor] uses it for `type <Op>Variables = …`, and of the option
    plumbing [OperationTypePrinterOptions::from_config] (as of /repo commit 8fa8876 it reads the option).  The `__OperationInput` namespace the
    Variables type refers to is C10's model ([C10.Model.namespace_members _ _ OpIn]).
    Definitions only. *)
From V Require Import Base.Util Gql.Ast Writer.Wop Ts.TsType Ts.TsDen C10.Model.

(** the two [OperationTypePrinterOptions] fields this code reads *)
Record oopts := mkOOpts { oo_ns : str (* schema_root_namespace *); oo_allow : bool (* allow_undefined_as_optional_input *) }.

(** one variable definition -> a one-field readonly object type *)
Definition variable_field (o : oopts) (vd : vardef) : tstype :=
  let ft := get_ts_type_of_type (fun n => TNs3 (oo_ns o) (target_str OpIn) (iname n)) (vd_type vd) in
  let opt := negb (is_nonnull (vd_type vd)) && oo_allow o in
  TObject [mkField (vd_name vd) pos0 (if opt then ts_union [ft; TUndefined] else ft) true opt None].

(** [get_type_for_variable_definitions] *)
Definition variables_type (o : oopts) (vds : list vardef) : tstype :=
  match vds with
  | [] => TObject []
  | _ => ts_intersection (map (variable_field o) vds)
  end.

(** the type printed as `type <Op>Variables` *)
Definition operation_variables_type (o : oopts) (v : option vardefs) : tstype :=
  match v with None => TObject [] | Some v => variables_type o (vds_list v) end.

(** [OperationTypePrinterOptions::from_config]: [allow_undefined_as_optional_input] is the configured
    [generate.type.allowUndefinedAsOptionalInput] ([None] = key absent: [GenerateTypeConfig::default]
    gives [true]); [schema_root_namespace] keeps its default *)
Definition config_allow_undefined (configured : option bool) : bool :=
  match configured with Some b => b | None => true end.
Definition oopts_from_config (configured : option bool) : oopts :=
  mkOOpts (s "Schema") (config_allow_undefined configured).
