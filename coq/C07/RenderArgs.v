(** C07 — proofs, part 9: parse_render, third instalment (arguments and directives). *)
From V Require Import Base.Util Gql.Ast Peg.Peg Peg.PegProps Gen.C07_grammar_gen C07.Builder C07.Model C07.Spec C07.Proofs C07.Lexical C07.Strings C07.Numbers C07.Render C07.RenderValues.
Local Open Scope N_scope.
Notation fld := ((str * str * str) * (rval * str))%type.

Definition to_arg_item (tree : rval -> N -> pr) (f : fld) : item :=
  let n := fst (fst (fst f)) in let ga := snd (fst (fst f)) in let gb := snd (fst f) in
  let txt := field_text f (render_val (fst (snd f))) in
  (txt, snd (snd f),
   fun i => [Pair R_Argument i (i + slen txt)
               [Pair R_Name i (i + slen n) []; tree (fst (snd f)) (i + slen n + slen ga + 1 + slen gb)]]).

Definition build_arg_fn inp file (a : pr) : bres (ident * value) :=
  slot_req R_Name (pair_kids a) (fun name fk => slot_req R_Value fk (fun v _ => bbind (build_value inp file v) (fun bv => BOk (to_ident inp file name, bv)))).

Lemma items_text_args T (fields : list fld) :
  items_text (map (to_arg_item T) fields) = flat_map (fun f => fld_text f ++ snd (snd f)) fields.
Proof. induction fields as [|f r IH]; [reflexivity|]. cbn [map items_text flat_map]. unfold it_text, it_gap, to_arg_item at 1 2. cbn [fst snd]. rewrite IH, <- app_assoc. reflexivity. Qed.

Lemma argument_fails c t i : is_name_start c = false -> runs G true ANon (Call R_Argument) (c :: t) i Fail.
Proof. intros H. enter_fail_n R_Argument. apply (runs_SeqS_fail1 gse gse_eq). apply name_fails; exact H. Qed.

Lemma arg_items_ok rest : forall fields : list fld,
  Forall (fun f : fld => wf_val (fst (snd f)) = true -> value_runs_stmt (fst (snd f))) fields ->
  forallb (fun f : fld => wf_val (fst (snd f))) fields = true ->
  forallb fld_ok fields = true ->
  gaps_ok (map (fun f : fld => (fld_text f, snd (snd f))) fields) [41] = true ->
  items_ok (Call R_Argument) [41] rest (map (to_arg_item val_tree) fields).
Proof.
  induction fields as [|f r IHr]; intros HIH Hwf Hok Hgaps; [exact I|].
  inversion HIH as [|? ? Hv HIHr]; subst. cbn [forallb] in Hwf, Hok.
  apply andb_true_iff in Hwf. destruct Hwf as [Hwv Hwr]. apply andb_true_iff in Hok. destruct Hok as [Hfo Hro].
  cbn [map gaps_ok] in Hgaps. apply andb_true_iff in Hgaps. destruct Hgaps as [Hg Hgr].
  cbn [map items_ok]. split; [|apply IHr; assumption].
  rewrite items_text_args. rewrite gaps_text_fields in Hg.
  assert (Hktok : at_token (flat_map (fun f : fld => fld_text f ++ snd (snd f)) r ++ [41] ++ rest)).
  { apply fields_head_token; [exact Hro|split; reflexivity]. }
  assert (Hg' : gap_ok (snd (snd f)) (flat_map (fun f : fld => fld_text f ++ snd (snd f)) r ++ [41] ++ rest) = true).
  { rewrite <- Hg. apply gap_ok_ext. rewrite app_assoc. apply punct_head_app. intros E. apply app_eq_nil in E. destruct E; discriminate. }
  destruct (fld_head f Hfo) as [c [t [E Hs]]].
  destruct f as [[[n ga] gb] [v gc]]. unfold item_ok, it_text, it_gap, it_tree, to_arg_item, fld_text, field_text in *. cbn [fst snd] in *.
  unfold fld_ok in Hfo. cbn [fst snd] in Hfo. apply andb_true_iff in Hfo. destruct Hfo as [Hfo Hgb]. apply andb_true_iff in Hfo. destruct Hfo as [Hn Hga].
  split; [unfold gap_ok in Hg'; apply andb_true_iff in Hg'; tauto|].
  split; [rewrite E; cbn [app]; apply name_start_token; exact Hs|].
  intros i. exact (argument_runs n ga gb v _ i Hn Hga Hgb Hwv Hv (follow_of_gap _ _ Hg' Hktok)).
Qed.

Lemma args_trees_cons T (f : fld) r i :
  items_trees (map (to_arg_item T) (f :: r)) i
  = Pair R_Argument i (i + slen (fld_text f))
      [Pair R_Name i (i + slen (fst (fst (fst f)))) [];
       T (fst (snd f)) (i + slen (fst (fst (fst f))) + slen (snd (fst (fst f))) + 1 + slen (snd (fst f)))]
    :: items_trees (map (to_arg_item T) r) (i + slen (fld_text f) + slen (snd (snd f))).
Proof. reflexivity. Qed.

Lemma arg_kids_rule : forall (fields : list fld) i, forallb (is_rule R_Argument) (items_trees (map (to_arg_item val_tree) fields) i) = true.
Proof. induction fields as [|f r IH]; intros i; [reflexivity|]. rewrite args_trees_cons. cbn [forallb]. rewrite IH. reflexivity. Qed.

Lemma build_args file : forall fields : list fld, Forall (fun f : fld => build_ok (fst (snd f))) fields ->
  forall pre rest, exists kvs,
    mapM (build_arg_fn (pre ++ flat_map (fun f : fld => fld_text f ++ snd (snd f)) fields ++ rest) file)
         (items_trees (map (to_arg_item val_tree) fields) (slen pre)) = BOk kvs
    /\ map (fun kv => (iname (fst kv), val_erase (snd kv))) kvs = map (fun f : fld => (fst (fst (fst f)), erase_rval (fst (snd f)))) fields.
Proof.
  induction fields as [|f r IH]; intros Hall pre rest; [exists []; split; reflexivity|].
  inversion Hall as [|? ? Hv Hr]; subst.
  rewrite args_trees_cons. cbn [flat_map].
  destruct f as [[[n ga] gb] [v gc]]. unfold fld_text, field_text in *. cbn [fst snd] in *.
  set (flat := flat_map (fun f : fld => (fst (fst (fst f)) ++ snd (fst (fst f)) ++ [58] ++ snd (fst f) ++ render_val (fst (snd f))) ++ snd (snd f)) r) in *.
  assert (Hinp : pre ++ (((n ++ ga ++ [58] ++ gb ++ render_val v) ++ gc) ++ flat) ++ rest
                 = (pre ++ n ++ ga ++ [58] ++ gb) ++ render_val v ++ (gc ++ flat ++ rest)).
  { rewrite <- !app_assoc. reflexivity. }
  destruct (Hv (pre ++ n ++ ga ++ [58] ++ gb) (gc ++ flat ++ rest) file) as [v' [Hb He]].
  assert (Hinp2 : pre ++ (((n ++ ga ++ [58] ++ gb ++ render_val v) ++ gc) ++ flat) ++ rest
                 = (pre ++ (n ++ ga ++ [58] ++ gb ++ render_val v) ++ gc) ++ flat ++ rest).
  { rewrite <- !app_assoc. reflexivity. }
  destruct (IH Hr (pre ++ (n ++ ga ++ [58] ++ gb ++ render_val v) ++ gc) rest) as [kvs [Hbs Hes]].
  assert (Hname : as_str (pre ++ (((n ++ ga ++ [58] ++ gb ++ render_val v) ++ gc) ++ flat) ++ rest) (Pair R_Name (slen pre) (slen pre + slen n) []) = n).
  { unfold as_str. cbn [pair_start pair_end].
    replace (pre ++ (((n ++ ga ++ [58] ++ gb ++ render_val v) ++ gc) ++ flat) ++ rest) with (pre ++ n ++ (ga ++ [58] ++ gb ++ render_val v ++ gc ++ flat ++ rest)) by (rewrite <- !app_assoc; reflexivity).
    apply substr_mid. }
  eexists ((_, v') :: kvs). split.
  - rewrite mapM_cons. unfold build_arg_fn at 1. cbn [pair_kids]. rewrite (slot_req_hit R_Name) by reflexivity. rewrite (slot_req_hit R_Value) by apply is_rule_val_tree.
    replace (slen pre + slen n + slen ga + 1 + slen gb) with (slen (pre ++ n ++ ga ++ [58] ++ gb)) by (rewrite !slen_app; change (slen [58]) with 1; lia).
    rewrite Hinp, Hb. cbn [bbind]. rewrite <- Hinp, Hinp2.
    replace (slen pre + slen (n ++ ga ++ [58] ++ gb ++ render_val v) + slen gc) with (slen (pre ++ (n ++ ga ++ [58] ++ gb ++ render_val v) ++ gc)) by (rewrite !slen_app; lia).
    rewrite Hbs. reflexivity.
  - cbn [map fst snd to_ident iname]. rewrite <- Hinp2, Hname, He, Hes. reflexivity.
Qed.

(** ** Arguments: "(" g0 (name ga ":" gb value gc)+ ")" *)
Definition args_body (args : list fld) : str := flat_map (fun f : fld => fld_text f ++ snd (snd f)) args.
Definition render_args (g0 : str) (args : list fld) : str := [40] ++ g0 ++ args_body args ++ [41].
Definition wf_args (g0 : str) (args : list fld) : bool :=
  ws g0 && negb (match args with [] => true | _ => false end)
  && forallb (fun f : fld => wf_val (fst (snd f))) args && forallb fld_ok args
  && gaps_ok (map (fun f : fld => (fld_text f, snd (snd f))) args) [41].
Definition args_tree (g0 : str) (args : list fld) (i : N) : pr :=
  Pair R_Arguments i (i + slen (render_args g0 args)) (items_trees (map (to_arg_item val_tree) args) (i + 1 + slen g0)).
Definition erase_args (args : list fld) : list (str * aval) := map (fun f : fld => (fst (fst (fst f)), erase_rval (fst (snd f)))) args.
Definition args_erase (a : arguments) : list (str * aval) := map (fun kv => (iname (fst kv), val_erase (snd kv))) (args_list a).

Theorem arguments_runs g0 args rest i : wf_args g0 args = true ->
  runs G true ANon (Call R_Arguments) (render_args g0 args ++ rest) i
    (Ok (rest, i + slen (render_args g0 args), [args_tree g0 args i])).
Proof.
  intros H. unfold wf_args in H. apply andb_true_iff in H. destruct H as [H Hgaps]. apply andb_true_iff in H. destruct H as [H Hok].
  apply andb_true_iff in H. destruct H as [H Hwf]. apply andb_true_iff in H. destruct H as [Hg0 Hne].
  destruct args as [|f fs]; [discriminate|].
  assert (HIH : Forall (fun f : fld => wf_val (fst (snd f)) = true -> value_runs_stmt (fst (snd f))) (f :: fs)).
  { apply Forall_forall. intros x _ Hx. apply value_runs; exact Hx. }
  pose proof (arg_items_ok rest (f :: fs) HIH Hwf Hok Hgaps) as Hiok.
  set (body := args_body (f :: fs)).
  assert (Htxt : render_args g0 (f :: fs) ++ rest = [40] ++ g0 ++ (body ++ [41] ++ rest)).
  { unfold render_args. fold body. rewrite <- !app_assoc. reflexivity. }
  assert (Hlen : i + slen (render_args g0 (f :: fs)) = i + 1 + slen g0 + slen body + 1).
  { unfold render_args. fold body. rewrite !slen_app. change (slen [40]) with 1. change (slen [41]) with 1. lia. }
  unfold args_tree. rewrite Hlen, Htxt.
  enter_rec_n R_Arguments.
  assert (Hbtok : at_token (body ++ [41] ++ rest)) by (apply fields_head_token; [exact Hok|split; reflexivity]).
  replace (items_trees (map (to_arg_item val_tree) (f :: fs)) (i + 1 + slen g0))
    with (@nil pr ++ @nil pr ++ items_trees (map (to_arg_item val_tree) (f :: fs)) (i + 1 + slen g0)) by reflexivity.
  eapply (runs_SeqS_ok gse gse_eq); [exact (runs_Lit_ok G true ANon [40] (g0 ++ body ++ [41] ++ rest) i)|apply skip_ws; [exact Hg0|exact Hbtok]|].
  change (slen [40]) with 1.
  pose proof (items_plus_close (Call R_Argument) [41] rest (ltac:(split; reflexivity)) (fun j => argument_fails 41 rest j eq_refl)
                (to_arg_item val_tree f) (map (to_arg_item val_tree) fs) (i + 1 + slen g0) Hiok) as Hp.
  change (to_arg_item val_tree f :: map (to_arg_item val_tree) fs) with (map (to_arg_item val_tree) (f :: fs)) in Hp.
  rewrite items_text_args in Hp. fold (args_body (f :: fs)) in Hp. fold body in Hp. change (slen [41]) with 1 in Hp. exact Hp.
Qed.

Theorem build_arguments_ok g0 args pre rest file :
  exists a, build_arguments (pre ++ render_args g0 args ++ rest) file (args_tree g0 args (slen pre)) = BOk a
            /\ args_erase a = erase_args args.
Proof.
  assert (Hall : Forall (fun f : fld => build_ok (fst (snd f))) args) by (apply Forall_forall; intros x _; apply build_value_ok).
  assert (Hinp : pre ++ render_args g0 args ++ rest = (pre ++ [40] ++ g0) ++ args_body args ++ ([41] ++ rest)).
  { unfold render_args. rewrite <- !app_assoc. reflexivity. }
  destruct (build_args file args Hall (pre ++ [40] ++ g0) ([41] ++ rest)) as [kvs [Hb He]].
  eexists. split.
  - unfold build_arguments, all_children, args_tree. cbn [pair_kids]. rewrite arg_kids_rule.
    replace (slen pre + 1 + slen g0) with (slen (pre ++ [40] ++ g0)) by (rewrite !slen_app; change (slen [40]) with 1; lia).
    rewrite Hinp. unfold build_arg_fn in Hb. fold (args_body args) in Hb. rewrite Hb. cbn [bbind]. reflexivity.
  - unfold args_erase, erase_args. cbn [args_list]. exact He.
Qed.

Theorem parse_render_arguments : forall g0 args pre rest file, wf_args g0 args = true ->
  let inp := pre ++ render_args g0 args ++ rest in
  let i := slen pre in
  runs G true ANon (Call R_Arguments) (render_args g0 args ++ rest) i (Ok (rest, i + slen (render_args g0 args), [args_tree g0 args i]))
  /\ exists a, build_arguments inp file (args_tree g0 args i) = BOk a /\ args_erase a = erase_args args.
Proof. intros g0 args pre rest file Hwf inp i. split; [apply arguments_runs; exact Hwf|apply build_arguments_ok]. Qed.

(** ** one directive: "@" g name, then either trailing trivia [w] (pest's Directive pair swallows it, because the
    optional Arguments are tried after the implicit skip) or  ga "(" … ")"  *)
Definition no_paren_next (k : str) : Prop := match k with d :: _ => N.eqb 40 d = false | [] => True end.

Lemma arguments_fails k i : no_paren_next k -> runs G true ANon (Call R_Arguments) k i Fail.
Proof.
  intros H. enter_fail_n R_Arguments. apply (runs_SeqS_fail1 gse gse_eq).
  destruct k as [|d r]; [apply runs_Lit_nil_fail|apply runs_Lit_head_fail; exact H].
Qed.

Lemma ws_then_not_name_cont w k : ws w = true -> (w = [] -> not_name_cont_next k) -> not_name_cont_next (w ++ k).
Proof.
  intros Hw Hk. destruct w as [|c w0]; [apply Hk; reflexivity|]. cbn [app not_name_cont_next].
  cbn [ws forallb] in Hw. apply andb_true_iff in Hw. destruct Hw as [Hc _].
  unfold is_wsc in Hc. repeat (apply orb_true_iff in Hc; destruct Hc as [Hc|Hc]); apply N.eqb_eq in Hc; subst c; reflexivity.
Qed.

Definition dir_text0 (g n w : str) : str := [64] ++ g ++ n ++ w.
Theorem directive_noargs_runs g n w k i :
  ws g = true -> is_name n = true -> ws w = true -> at_token k -> no_paren_next k -> (w = [] -> not_name_cont_next k) ->
  runs G true ANon (Call R_Directive) (dir_text0 g n w ++ k) i
    (Ok (k, i + slen (dir_text0 g n w),
         [Pair R_Directive i (i + slen (dir_text0 g n w)) [Pair R_Name (i + 1 + slen g) (i + 1 + slen g + slen n) []]])).
Proof.
  intros Hg Hn Hw Hk Hp Hnc. enter_rec_n R_Directive.
  assert (Htxt : dir_text0 g n w ++ k = [64] ++ g ++ (n ++ (w ++ k))) by (unfold dir_text0; rewrite <- !app_assoc; reflexivity).
  assert (Hlen : i + slen (dir_text0 g n w) = i + 1 + slen g + slen n + slen w) by (unfold dir_text0; rewrite !slen_app; change (slen [64]) with 1; lia).
  rewrite Htxt, Hlen.
  destruct n as [|c r] eqn:En; [discriminate|]. rewrite <- En in *.
  assert (Hc : is_name_start c = true) by (rewrite En in Hn; unfold is_name in Hn; apply andb_true_iff in Hn; tauto).
  replace [Pair R_Name (i + 1 + slen g) (i + 1 + slen g + slen n) []]
    with (@nil pr ++ @nil pr ++ ([Pair R_Name (i + 1 + slen g) (i + 1 + slen g + slen n) []] ++ @nil pr ++ @nil pr)) by reflexivity.
  eapply (runs_SeqS_ok gse gse_eq).
  - exact (runs_Lit_ok G true ANon [64] (g ++ n ++ w ++ k) i).
  - change (slen [64]) with 1. apply skip_ws; [exact Hg|]. rewrite En. cbn [app]. apply name_start_token; exact Hc.
  - eapply (runs_SeqS_ok gse gse_eq).
    + apply name_runs; [exact Hn|apply ws_then_not_name_cont; assumption].
    + apply skip_ws; assumption.
    + apply runs_Opt_none. apply arguments_fails; exact Hp.
Qed.

Definition dir_text1 (g n ga g0 : str) (args : list fld) : str := [64] ++ g ++ n ++ ga ++ render_args g0 args.
Theorem directive_args_runs g n ga g0 args rest i :
  ws g = true -> is_name n = true -> ws ga = true -> wf_args g0 args = true ->
  runs G true ANon (Call R_Directive) (dir_text1 g n ga g0 args ++ rest) i
    (Ok (rest, i + slen (dir_text1 g n ga g0 args),
         [Pair R_Directive i (i + slen (dir_text1 g n ga g0 args))
            [Pair R_Name (i + 1 + slen g) (i + 1 + slen g + slen n) [];
             args_tree g0 args (i + 1 + slen g + slen n + slen ga)]])).
Proof.
  intros Hg Hn Hga Hargs. enter_rec_n R_Directive.
  assert (Htxt : dir_text1 g n ga g0 args ++ rest = [64] ++ g ++ (n ++ (ga ++ (render_args g0 args ++ rest)))) by (unfold dir_text1; rewrite <- !app_assoc; reflexivity).
  assert (Hlen : i + slen (dir_text1 g n ga g0 args) = i + 1 + slen g + slen n + slen ga + slen (render_args g0 args)) by (unfold dir_text1; rewrite !slen_app; change (slen [64]) with 1; lia).
  rewrite Htxt, Hlen.
  destruct n as [|c r] eqn:En; [discriminate|]. rewrite <- En in *.
  assert (Hc : is_name_start c = true) by (rewrite En in Hn; unfold is_name in Hn; apply andb_true_iff in Hn; tauto).
  replace [Pair R_Name (i + 1 + slen g) (i + 1 + slen g + slen n) []; args_tree g0 args (i + 1 + slen g + slen n + slen ga)]
    with (@nil pr ++ @nil pr ++ ([Pair R_Name (i + 1 + slen g) (i + 1 + slen g + slen n) []] ++ @nil pr ++ [args_tree g0 args (i + 1 + slen g + slen n + slen ga)])) by reflexivity.
  assert (Hparen : at_token (render_args g0 args ++ rest)) by (split; reflexivity).
  eapply (runs_SeqS_ok gse gse_eq).
  - exact (runs_Lit_ok G true ANon [64] (g ++ n ++ ga ++ render_args g0 args ++ rest) i).
  - change (slen [64]) with 1. apply skip_ws; [exact Hg|]. rewrite En. cbn [app]. apply name_start_token; exact Hc.
  - eapply (runs_SeqS_ok gse gse_eq).
    + apply name_runs; [exact Hn|]. apply ws_then_not_name_cont; [exact Hga|]. intros _. reflexivity.
    + apply skip_ws; assumption.
    + apply runs_Opt_some. apply arguments_runs; exact Hargs.
Qed.

(** the builder's closure for one Directive pair (directives.rs) *)
Definition build_directive_fn inp file (d : pr) : bres directive :=
  let position := to_pos inp file d in
  slot_req R_Name (pair_kids d) (fun name fk => slot_opt R_Arguments fk (fun args _ =>
    bbind (omapM (build_arguments inp file) args) (fun a => BOk (mkDir position (to_ident inp file name) a)))).

Theorem build_directive_noargs g n w pre rest file :
  exists d, build_directive_fn (pre ++ dir_text0 g n w ++ rest) file
              (Pair R_Directive (slen pre) (slen pre + slen (dir_text0 g n w)) [Pair R_Name (slen pre + 1 + slen g) (slen pre + 1 + slen g + slen n) []]) = BOk d
            /\ iname (dir_name d) = n /\ dir_args d = None.
Proof.
  eexists. split; [reflexivity|]. split; [|reflexivity].
  cbn [dir_name to_ident iname]. unfold as_str. cbn [pair_start pair_end].
  replace (pre ++ dir_text0 g n w ++ rest) with ((pre ++ [64] ++ g) ++ n ++ (w ++ rest)) by (unfold dir_text0; rewrite <- !app_assoc; reflexivity).
  apply substr_mid'. rewrite !slen_app. change (slen [64]) with 1. lia.
Qed.

Theorem build_directive_args g n ga g0 args pre rest file :
  exists d a, build_directive_fn (pre ++ dir_text1 g n ga g0 args ++ rest) file
              (Pair R_Directive (slen pre) (slen pre + slen (dir_text1 g n ga g0 args))
                 [Pair R_Name (slen pre + 1 + slen g) (slen pre + 1 + slen g + slen n) [];
                  args_tree g0 args (slen pre + 1 + slen g + slen n + slen ga)]) = BOk d
            /\ iname (dir_name d) = n /\ dir_args d = Some a /\ args_erase a = erase_args args.
Proof.
  assert (Hinp : pre ++ dir_text1 g n ga g0 args ++ rest = (pre ++ [64] ++ g ++ n ++ ga) ++ render_args g0 args ++ rest).
  { unfold dir_text1. rewrite <- !app_assoc. reflexivity. }
  destruct (build_arguments_ok g0 args (pre ++ [64] ++ g ++ n ++ ga) rest file) as [a [Hb He]].
  assert (Hoff : slen pre + 1 + slen g + slen n + slen ga = slen (pre ++ [64] ++ g ++ n ++ ga)) by (rewrite !slen_app; change (slen [64]) with 1; lia).
  eexists. exists a. split.
  - unfold build_directive_fn. cbn [pair_kids]. rewrite (slot_req_hit R_Name) by reflexivity.
    unfold slot_opt. change (is_rule R_Arguments (args_tree g0 args (slen pre + 1 + slen g + slen n + slen ga))) with true. cbn iota.
    cbn [omapM]. rewrite Hoff, Hinp, Hb. cbn [bbind]. reflexivity.
  - split; [|split; [reflexivity|exact He]].
    cbn [dir_name to_ident iname]. unfold as_str. cbn [pair_start pair_end]. rewrite <- Hinp.
    replace (pre ++ dir_text1 g n ga g0 args ++ rest) with ((pre ++ [64] ++ g) ++ n ++ (ga ++ render_args g0 args ++ rest)) by (unfold dir_text1; rewrite <- !app_assoc; reflexivity).
    apply substr_mid'. rewrite !slen_app. change (slen [64]) with 1. lia.
Qed.
