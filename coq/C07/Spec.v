(** C07 — specification side, written from the GraphQL specification (October 2021, sections 2.1.x
    "Source Text", 2.9 "Input Values") and the property text; independent of Peg.v / Builder.v.

    [check_opdoc] / [check_tsdoc] walk an AST (as returned by the implementation) and require, for every
    node that carries a position, that
      - the position belongs to the expected file and is not `builtin`,
      - at that (line, column) -- lines being separated by LF, CR LF or CR as the specification says,
        columns counting scalar values -- the text starts with the node's token: the name itself
        (followed by no further name character), the number lexeme exactly as the specification's
        lexer delimits it, the keyword, or the punctuator that opens the construct,
      - for strings: the StringValue token found there, decoded as the specification prescribes
        (escapes, surrogate pairs, BlockStringValue for block strings), equals the node's value.
    Definitions only. *)
From V Require Import Base.Util Gql.Ast.

Local Open Scope N_scope.

Definition is_lt (c : N) : bool := N.eqb c 10 || N.eqb c 13.

(** ** positions under the specification's line terminators *)
Fixpoint goto_line (inp : str) (line : nat) {struct line} : option str :=
  match line with
  | O => Some inp
  | S l =>
      (fix skip (t : str) : option str :=
         match t with
         | [] => None
         | c :: r =>
             if N.eqb c 10 then goto_line r l
             else if N.eqb c 13 then
               match r with
               | d :: r' => if N.eqb d 10 then goto_line r' l else goto_line r l
               | [] => goto_line r l
               end
             else skip r
         end) inp
  end.

Fixpoint goto_col (t : str) (col : nat) {struct col} : option str :=
  match col with
  | O => Some t
  | S c => match t with
           | x :: r => if is_lt x then None else goto_col r c
           | [] => None
           end
  end.

Definition text_at (inp : str) (line col : N) : option str :=
  match goto_line inp (N.to_nat line) with
  | Some t => goto_col t (N.to_nat col)
  | None => None
  end.

(** (line, column) of offset [off] under the specification's convention (for theorem statements) *)
Fixpoint spec_line_col_from (inp : str) (off : nat) (line col : N) {struct off} : N * N :=
  match off with
  | O => (line, col)
  | S off' =>
      match inp with
      | [] => (line, col)
      | c :: rest =>
          if N.eqb c 10 then spec_line_col_from rest off' (line + 1) 0
          else if N.eqb c 13 then
            match rest with
            | d :: _ => if N.eqb d 10 then spec_line_col_from rest off' line (col + 1)   (* CR of a CR LF: the LF breaks *)
                        else spec_line_col_from rest off' (line + 1) 0
            | [] => spec_line_col_from rest off' (line + 1) 0
            end
          else spec_line_col_from rest off' line (col + 1)
      end
  end.
Definition spec_line_col (inp : str) (off : N) : N * N := spec_line_col_from inp (N.to_nat off) 0 0.

(** no carriage return that is not followed by a line feed *)
Fixpoint no_lone_cr (inp : str) : bool :=
  match inp with
  | [] => true
  | c :: rest => if N.eqb c 13 then match rest with d :: _ => N.eqb d 10 && no_lone_cr rest | [] => false end
                 else no_lone_cr rest
  end.

(** ** lexical grammar *)
Definition is_digit (c : N) : bool := (48 <=? c) && (c <=? 57).
Definition is_name_start (c : N) : bool := ((65 <=? c) && (c <=? 90)) || ((97 <=? c) && (c <=? 122)) || N.eqb c 95.
Definition is_name_cont (c : N) : bool := is_name_start c || is_digit c.

Fixpoint prefix_rest (p t : str) : option str :=
  match p with
  | [] => Some t
  | c :: p' => match t with d :: t' => if N.eqb c d then prefix_rest p' t' else None | [] => None end
  end.

Definition is_name (n : str) : bool :=
  match n with c :: r => is_name_start c && forallb is_name_cont r | [] => false end.

(** the Name token at the start of [t] is exactly [n] *)
Definition name_at (t n : str) : bool :=
  is_name n &&
  match prefix_rest n t with
  | Some (d :: _) => negb (is_name_cont d)
  | Some [] => true
  | None => false
  end.

Definition punct_at (t p : str) : bool := match prefix_rest p t with Some _ => true | None => false end.

(** IntValue / FloatValue (2.9.1, 2.9.2): returns (lexeme, is_float) for the number token at the start of [t] *)
Fixpoint take_digits (t : str) : str * str :=
  match t with
  | c :: r => if is_digit c then let '(ds, rest) := take_digits r in (c :: ds, rest) else ([], t)
  | [] => ([], [])
  end.

Definition lex_number (t : str) : option (str * bool) :=
  let '(sign, t1) := match t with c :: r => if N.eqb c 45 then ([45], r) else ([], t) | [] => ([], t) end in
  match t1 with
  | [] => None
  | c :: r =>
      if negb (is_digit c) then None else
      let '(intp, t2) := if N.eqb c 48 then ([48], r) else take_digits t1 in
      let '(frac, t3) :=
        match t2 with
        | d :: r2 => if N.eqb d 46 then
                       let '(ds, rest) := take_digits r2 in
                       match ds with [] => ([46], []) (* marks an error below *) | _ => (46 :: ds, rest) end
                     else ([], t2)
        | [] => ([], t2)
        end in
      match frac with
      | [_] => None          (* "." without digits *)
      | _ =>
        let '(expo, t4) :=
          match t3 with
          | e :: r3 =>
              if N.eqb e 101 || N.eqb e 69 then
                let '(sg, r4) := match r3 with s0 :: r' => if N.eqb s0 43 || N.eqb s0 45 then ([s0], r') else ([], r3) | [] => ([], r3) end in
                let '(ds, rest) := take_digits r4 in
                match ds with [] => ([0], []) | _ => (e :: sg ++ ds, rest) end
              else ([], t3)
          | [] => ([], t3)
          end in
        match expo with
        | [0] => None        (* exponent without digits *)
        | _ =>
          let ok_follow := match t4 with d :: _ => negb (is_digit d || N.eqb d 46 || is_name_start d) | [] => true end in
          if ok_follow then
            Some (sign ++ intp ++ frac ++ expo, match frac, expo with [], [] => false | _, _ => true end)
          else None
        end
      end
  end.

Definition number_at (t lexeme : str) (is_float : bool) : bool :=
  match lex_number t with
  | Some (l, f) => str_eqb l lexeme && Bool.eqb f is_float
  | None => false
  end.

(** ** strings *)
Definition hexval (c : N) : option N :=
  if is_digit c then Some (c - 48)
  else if (97 <=? c) && (c <=? 102) then Some (c - 87)
  else if (65 <=? c) && (c <=? 70) then Some (c - 55)
  else None.

Definition hex4 (t : str) : option (N * str) :=
  match t with
  | a :: b :: c :: d :: r =>
      match hexval a, hexval b, hexval c, hexval d with
      | Some x, Some y, Some z, Some w => Some (((x * 16 + y) * 16 + z) * 16 + w, r)
      | _, _, _, _ => None
      end
  | _ => None
  end.

(** hex digits up to "}" *)
Fixpoint hex_braced (t : str) (acc : N) (n : nat) : option (N * str) :=
  match t with
  | c :: r => if N.eqb c 125 then (match n with O => None | _ => Some (acc, r) end)
              else match hexval c with
                   | Some d => if (acc <? 1114112) then hex_braced r (acc * 16 + d) (S n) else None
                   | None => None
                   end
  | [] => None
  end.

Definition is_scalar (c : N) : bool := (c <? 55296) || ((57344 <=? c) && (c <? 1114112)).
Definition is_high_surrogate (c : N) : bool := (55296 <=? c) && (c <? 56320).
Definition is_low_surrogate (c : N) : bool := (56320 <=? c) && (c <? 57344).

(** the characters after the opening quote of a quoted string: (value, rest after the closing quote) *)
Fixpoint lex_quoted (fuel : nat) (t : str) : option (str * str) :=
  match fuel with
  | O => None
  | S f =>
    match t with
    | [] => None
    | c :: r =>
        if N.eqb c 34 then Some ([], r)
        else if is_lt c then None
        else if N.eqb c 92 then
          match r with
          | [] => None
          | e :: r2 =>
              let simple (v : N) := match lex_quoted f r2 with Some (s, rest) => Some (v :: s, rest) | None => None end in
              if N.eqb e 34 then simple 34 else if N.eqb e 92 then simple 92 else if N.eqb e 47 then simple 47
              else if N.eqb e 98 then simple 8 else if N.eqb e 102 then simple 12 else if N.eqb e 110 then simple 10
              else if N.eqb e 114 then simple 13 else if N.eqb e 116 then simple 9
              else if N.eqb e 117 then
                match r2 with
                | b :: r3 =>
                    if N.eqb b 123 then
                      match hex_braced r3 0 O with
                      | Some (v, r4) => if is_scalar v then
                                          match lex_quoted f r4 with Some (s, rest) => Some (v :: s, rest) | None => None end
                                        else None
                      | None => None
                      end
                    else
                      match hex4 r2 with
                      | Some (v, r4) =>
                          if is_scalar v then
                            match lex_quoted f r4 with Some (s, rest) => Some (v :: s, rest) | None => None end
                          else if is_high_surrogate v then
                            (* a surrogate pair 😀 denotes one scalar value *)
                            match r4 with
                            | b1 :: b2 :: r5 =>
                                if N.eqb b1 92 && N.eqb b2 117 then
                                  match hex4 r5 with
                                  | Some (w, r6) =>
                                      if is_low_surrogate w then
                                        let v' := 65536 + (v - 55296) * 1024 + (w - 56320) in
                                        match lex_quoted f r6 with Some (s, rest) => Some (v' :: s, rest) | None => None end
                                      else None
                                  | None => None
                                  end
                                else None
                            | _ => None
                            end
                          else None
                      | None => None
                      end
                | [] => None
                end
              else None
          end
        else match lex_quoted f r with Some (s, rest) => Some (c :: s, rest) | None => None end
    end
  end.

(** the characters after the opening triple quote: (raw value with the escaped triple quote evaluated,
    rest after the closing triple quote) *)
Definition q3 : str := [34; 34; 34].
Fixpoint lex_block_raw (fuel : nat) (t : str) : option (str * str) :=
  match fuel with
  | O => None
  | S f =>
    match prefix_rest q3 t with
    | Some rest => Some ([], rest)
    | None =>
      match prefix_rest (92 :: q3) t with
      | Some rest => match lex_block_raw f rest with Some (v, r2) => Some (q3 ++ v, r2) | None => None end
      | None =>
        match t with
        | c :: r => match lex_block_raw f r with Some (v, r2) => Some (c :: v, r2) | None => None end
        | [] => None
        end
      end
    end
  end.

(** lines of a raw block string value: separated by LF, CR LF or CR *)
Fixpoint split_lines_acc (t : str) (cur : str) : list str :=
  match t with
  | [] => [rev cur]
  | c :: r =>
      if N.eqb c 10 then rev cur :: split_lines_acc r []
      else if N.eqb c 13 then
        match r with
        | d :: r' => if N.eqb d 10 then rev cur :: split_lines_acc r' [] else rev cur :: split_lines_acc r []
        | [] => rev cur :: split_lines_acc r []
        end
      else split_lines_acc r (c :: cur)
  end.
Definition split_lines (t : str) : list str := split_lines_acc t [].

Definition is_ws (c : N) : bool := N.eqb c 32 || N.eqb c 9.
Fixpoint indent_of (l : str) : nat := match l with c :: r => if is_ws c then S (indent_of r) else O | [] => O end.
Definition is_blank (l : str) : bool := forallb is_ws l.

Definition min_opt (a : option nat) (b : nat) : option nat :=
  match a with None => Some b | Some x => Some (Nat.min x b) end.

Fixpoint drop_blank_front (ls : list str) : list str :=
  match ls with l :: r => if is_blank l then drop_blank_front r else ls | [] => [] end.

Fixpoint join_lf (ls : list str) : str :=
  match ls with
  | [] => []
  | [l] => l
  | l :: r => l ++ 10 :: join_lf r
  end.

(** BlockStringValue(rawValue), section 2.9.4 *)
Definition block_string_value (raw : str) : str :=
  let lines := split_lines raw in
  let common := fold_left (fun acc l => if is_blank l then acc else min_opt acc (indent_of l)) (tl lines) None in
  let lines1 := match lines, common with
                | first :: rest, Some c => first :: map (skipn c) rest
                | _, _ => lines
                end in
  let lines2 := drop_blank_front lines1 in
  let lines3 := rev (drop_blank_front (rev lines2)) in
  join_lf lines3.

(** the StringValue token at the start of [t], decoded *)
Definition string_at (t : str) : option str :=
  match prefix_rest q3 t with
  | Some body => match lex_block_raw (S (length body)) body with
                 | Some (raw, _) => Some (block_string_value raw)
                 | None => None
                 end
  | None =>
      match t with
      | c :: body => if N.eqb c 34 then
                       match lex_quoted (S (length body)) body with Some (v, _) => Some v | None => None end
                     else None
      | [] => None
      end
  end.

(** ** the walk over the AST *)
Section Check.
Variable inp : str.
Variable file : N.

Definition at_pos (p : pos) (f : str -> bool) : bool :=
  N.eqb (pfile p) file && negb (pbuiltin p) &&
  match text_at inp (pline p) (pcol p) with Some t => f t | None => false end.

Definition ck_ident (i : ident) : bool := at_pos (ipos i) (fun t => name_at t (iname i)).
Definition ck_punct (p : pos) (tok : str) : bool := at_pos p (fun t => punct_at t tok).
Definition ck_kw (p : pos) (kw : str) : bool := at_pos p (fun t => name_at t kw).
Definition ck_string (p : pos) (v : str) : bool :=
  at_pos p (fun t => match string_at t with Some w => str_eqb w v | None => false end).

Definition K_true := [116; 114; 117; 101]. Definition K_false := [102; 97; 108; 115; 101]. Definition K_null := [110; 117; 108; 108].
Definition K_query := [113;117;101;114;121]. Definition K_mutation := [109;117;116;97;116;105;111;110].
Definition K_subscription := [115;117;98;115;99;114;105;112;116;105;111;110].
Definition K_fragment := [102;114;97;103;109;101;110;116].
Definition K_extend := [101;120;116;101;110;100]. Definition K_schema := [115;99;104;101;109;97].
Definition K_scalar := [115;99;97;108;97;114]. Definition K_type := [116;121;112;101].
Definition K_interface := [105;110;116;101;114;102;97;99;101]. Definition K_union := [117;110;105;111;110].
Definition K_enum := [101;110;117;109]. Definition K_input := [105;110;112;117;116].
Definition K_directive := [100;105;114;101;99;116;105;118;101]. Definition K_repeatable := [114;101;112;101;97;116;97;98;108;101].

Fixpoint ck_ty (t : ty) : bool :=
  match t with
  | TNamed n => ck_ident n
  | TNonNull t' => ck_ty t'
  | TList p t' => ck_punct p [91] && ck_ty t'
  end.

Fixpoint ck_value (v : value) : bool :=
  match v with
  | VVar n p => ck_punct p [36] && is_name n
  | VInt p l => at_pos p (fun t => number_at t l false)
  | VFloat p l => at_pos p (fun t => number_at t l true)
  | VString p s => ck_string p s
  | VBool p b => ck_kw p (if b then K_true else K_false)
  | VNull p => ck_kw p K_null
  | VEnum p e => at_pos p (fun t => name_at t e)
  | VList p vs => ck_punct p [91] && forallb ck_value vs
  | VObject p fs => ck_punct p [123] &&
      (fix go (l : list (ident * value)) : bool :=
         match l with [] => true | (k, x) :: r => ck_ident k && ck_value x && go r end) fs
  end.

Definition ck_args (a : arguments) : bool :=
  ck_punct (args_pos a) [40] && forallb (fun kv => ck_ident (fst kv) && ck_value (snd kv)) (args_list a).
Definition ck_oargs (o : option arguments) : bool := match o with Some a => ck_args a | None => true end.
Definition ck_dir (d : directive) : bool := ck_punct (dir_pos d) [64] && ck_ident (dir_name d) && ck_oargs (dir_args d).
Definition ck_dirs (ds : list directive) : bool := forallb ck_dir ds.
Definition ck_oident (o : option ident) : bool := match o with Some i => ck_ident i | None => true end.

Definition dots : str := [46; 46; 46].

Fixpoint ck_selection (s : selection) : bool :=
  match s with
  | SField al n ar ds sub =>
      ck_oident al && ck_ident n && ck_oargs ar && ck_dirs ds &&
      match sub with Some ss => ck_selset ss | None => true end
  | SSpread p n ds => ck_punct p dots && ck_ident n && ck_dirs ds
  | SInline p c ds ss => ck_punct p dots && ck_oident c && ck_dirs ds && ck_selset ss
  end
with ck_selset (ss : selset) : bool :=
  match ss with
  | SelSet p l => ck_punct p [123] &&
      (fix go (l : list selection) : bool := match l with [] => true | x :: r => ck_selection x && go r end) l
  end.

Definition ck_vardef (v : vardef) : bool :=
  ck_punct (vd_pos v) [36] && ck_punct (vd_name_pos v) [36] && is_name (vd_name v) && ck_ty (vd_type v)
  && match vd_default v with Some d => ck_value d | None => true end && ck_dirs (vd_dirs v).

Definition optype_kw (t : optype) : str :=
  match t with Query => K_query | Mutation => K_mutation | Subscription => K_subscription end.

Definition ck_execdef (d : execdef) : bool :=
  match d with
  | DOp o =>
      (* the operation starts at its keyword, or -- anonymous query shorthand -- at its selection set *)
      (ck_kw (op_pos o) (optype_kw (op_type o))
       || (match op_type o, op_name o, op_vars o, op_dirs o with
           | Query, None, None, [] => ck_punct (op_pos o) [123] && pos_eqb (op_pos o) (selset_pos (op_sel o))
           | _, _, _, _ => false
           end))
      && ck_oident (op_name o)
      && match op_vars o with Some vs => ck_punct (vds_pos vs) [40] && forallb ck_vardef (vds_list vs) | None => true end
      && ck_dirs (op_dirs o) && ck_selset (op_sel o)
  | DFrag f =>
      ck_kw (fr_pos f) K_fragment && ck_ident (fr_name f) && ck_ident (fr_cond f) && ck_dirs (fr_dirs f) && ck_selset (fr_sel f)
  | DImport i =>
      ck_punct (im_pos i) [35] && ck_string (im_path_pos i) (im_path i)
      && forallb (fun t => match t with ImpWildcard => true | ImpName n => ck_ident n end) (im_targets i)
  end.

(** the document node itself is positioned at the start of the text *)
Definition ck_opdoc (d : opdoc) : bool :=
  N.eqb (pline (od_pos d)) 0 && N.eqb (pcol (od_pos d)) 0 && N.eqb (pfile (od_pos d)) file && negb (pbuiltin (od_pos d))
  && forallb ck_execdef (od_defs d).

Definition ck_desc (o : option desc) : bool :=
  match o with Some d => ck_string (desc_pos d) (desc_value d) | None => true end.
Definition ck_inputval (i : inputvaldef) : bool :=
  ck_desc (iv_desc i) && pos_eqb (iv_pos i) (ipos (iv_name i)) && ck_ident (iv_name i) && ck_ty (iv_type i)
  && match iv_default i with Some d => ck_value d | None => true end && ck_dirs (iv_dirs i).
Definition ck_oinputvals (o : option (list inputvaldef)) : bool :=
  match o with Some l => forallb ck_inputval l | None => true end.
Definition ck_fielddef (f : fielddef) : bool :=
  ck_desc (fd_desc f) && ck_ident (fd_name f) && ck_oinputvals (fd_args f) && ck_ty (fd_type f) && ck_dirs (fd_dirs f).
Definition ck_enumval (e : enumvaldef) : bool := ck_desc (ev_desc e) && ck_ident (ev_name e) && ck_dirs (ev_dirs e).
Definition ck_keyword (k : keyword) (p : pos) (kw : str) : bool :=
  str_eqb (kw_name k) kw && pos_eqb (kw_pos k) p && ck_kw p kw.

Definition ck_typedef (t : typedef) : bool :=
  match t with
  | TDScalar d p n ds k => ck_desc d && ck_keyword k p K_scalar && ck_ident n && ck_dirs ds
  | TDObject d p n im ds fs k =>
      ck_desc d && ck_keyword k p K_type && ck_ident n && forallb ck_ident im && ck_dirs ds && forallb ck_fielddef fs
  | TDInterface d p n im ds fs k =>
      ck_desc d && ck_keyword k p K_interface && ck_ident n && forallb ck_ident im && ck_dirs ds && forallb ck_fielddef fs
  | TDUnion d p n ds ms k => ck_desc d && ck_keyword k p K_union && ck_ident n && ck_dirs ds && forallb ck_ident ms
  | TDEnum d p n ds vs k => ck_desc d && ck_keyword k p K_enum && ck_ident n && ck_dirs ds && forallb ck_enumval vs
  | TDInput d p n ds fs k => ck_desc d && ck_keyword k p K_input && ck_ident n && ck_dirs ds && forallb ck_inputval fs
  end.

Definition ck_typeext (t : typeext) : bool :=
  match t with
  | TEScalar p n ds => ck_kw p K_extend && ck_ident n && ck_dirs ds
  | TEObject p n im ds fs | TEInterface p n im ds fs =>
      ck_kw p K_extend && ck_ident n && forallb ck_ident im && ck_dirs ds && forallb ck_fielddef fs
  | TEUnion p n ds ms => ck_kw p K_extend && ck_ident n && ck_dirs ds && forallb ck_ident ms
  | TEEnum p n ds vs => ck_kw p K_extend && ck_ident n && ck_dirs ds && forallb ck_enumval vs
  | TEInput p n ds fs => ck_kw p K_extend && ck_ident n && ck_dirs ds && forallb ck_inputval fs
  end.

Definition ck_rootops (l : list (optype * ident)) : bool := forallb (fun x => ck_ident (snd x)) l.

Definition ck_tsdef (d : tsdef) : bool :=
  match d with
  | TSSchema s =>
      (* a schema definition starts at its description when it has one, else at the keyword *)
      ck_desc (sd_desc s)
      && match sd_desc s with Some de => pos_eqb (sd_pos s) (desc_pos de) | None => ck_kw (sd_pos s) K_schema end
      && ck_dirs (sd_dirs s) && ck_rootops (sd_ops s)
  | TSType t => ck_typedef t
  | TSDirective dd =>
      ck_desc (dd_desc dd) && ck_keyword (dd_kw dd) (dd_pos dd) K_directive && ck_ident (dd_name dd)
      && ck_oinputvals (dd_args dd)
      && match dd_repeatable dd with Some r => str_eqb (iname r) K_repeatable && ck_ident r | None => true end
      && forallb ck_ident (dd_locs dd)
  | TSSchemaExt s => ck_kw (se_pos s) K_extend && ck_dirs (se_dirs s) && ck_rootops (se_ops s)
  | TSTypeExt t => ck_typeext t
  end.

Definition ck_tsdoc (d : tsdoc) : bool := forallb ck_tsdef d.

End Check.
