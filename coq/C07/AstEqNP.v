(** C07 — GENERATED from AstEq.v by substitution (see design/C07.md): boolean equality on the AST of Gql/Ast.v
    *ignoring every position* (= equality of the position-erased documents). Definitions only. *)
From V Require Import Base.Util Gql.Ast.

Definition pos_any (a b : pos) : bool := true.
Definition ident_np (a b : ident) : bool := str_eqb (iname a) (iname b).

Definition pair_eqb_np {A B} (ea : A -> A -> bool) (eb : B -> B -> bool) (x y : A * B) : bool :=
  ea (fst x) (fst y) && eb (snd x) (snd y).

Fixpoint ty_eqb_np (a b : ty) : bool :=
  match a, b with
  | TNamed n, TNamed m => ident_np n m
  | TNonNull x, TNonNull y => ty_eqb_np x y
  | TList p x, TList q y => pos_any p q && ty_eqb_np x y
  | _, _ => false
  end.

Fixpoint value_eqb_np (a b : value) : bool :=
  match a, b with
  | VVar n p, VVar m q => str_eqb n m && pos_any p q
  | VInt p x, VInt q y => pos_any p q && str_eqb x y
  | VFloat p x, VFloat q y => pos_any p q && str_eqb x y
  | VString p x, VString q y => pos_any p q && str_eqb x y
  | VBool p x, VBool q y => pos_any p q && Bool.eqb x y
  | VNull p, VNull q => pos_any p q
  | VEnum p x, VEnum q y => pos_any p q && str_eqb x y
  | VList p xs, VList q ys =>
      pos_any p q &&
      (fix go (l1 l2 : list value) : bool :=
         match l1, l2 with
         | [], [] => true
         | x :: r1, y :: r2 => value_eqb_np x y && go r1 r2
         | _, _ => false
         end) xs ys
  | VObject p xs, VObject q ys =>
      pos_any p q &&
      (fix go (l1 l2 : list (ident * value)) : bool :=
         match l1, l2 with
         | [], [] => true
         | (k1, x) :: r1, (k2, y) :: r2 => ident_np k1 k2 && value_eqb_np x y && go r1 r2
         | _, _ => false
         end) xs ys
  | _, _ => false
  end.

Definition arguments_eqb_np (a b : arguments) : bool :=
  pos_any (args_pos a) (args_pos b) && list_eqb (pair_eqb_np ident_np value_eqb_np) (args_list a) (args_list b).
Definition directive_eqb_np (a b : directive) : bool :=
  pos_any (dir_pos a) (dir_pos b) && ident_np (dir_name a) (dir_name b)
  && option_eqb arguments_eqb_np (dir_args a) (dir_args b).
Definition directives_eqb_np := list_eqb directive_eqb_np.

Fixpoint selection_eqb_np (a b : selection) : bool :=
  match a, b with
  | SField al n ar ds s, SField al' n' ar' ds' s' =>
      option_eqb ident_np al al' && ident_np n n' && option_eqb arguments_eqb_np ar ar'
      && directives_eqb_np ds ds'
      && match s, s' with
         | None, None => true
         | Some x, Some y => selset_eqb_np x y
         | _, _ => false
         end
  | SSpread p n ds, SSpread p' n' ds' => pos_any p p' && ident_np n n' && directives_eqb_np ds ds'
  | SInline p c ds s, SInline p' c' ds' s' =>
      pos_any p p' && option_eqb ident_np c c' && directives_eqb_np ds ds' && selset_eqb_np s s'
  | _, _ => false
  end
with selset_eqb_np (a b : selset) : bool :=
  match a, b with
  | SelSet p l, SelSet p' l' =>
      pos_any p p' &&
      (fix go (l1 l2 : list selection) : bool :=
         match l1, l2 with
         | [], [] => true
         | x :: r1, y :: r2 => selection_eqb_np x y && go r1 r2
         | _, _ => false
         end) l l'
  end.

Definition vardef_eqb_np (a b : vardef) : bool :=
  pos_any (vd_pos a) (vd_pos b) && str_eqb (vd_name a) (vd_name b) && pos_any (vd_name_pos a) (vd_name_pos b)
  && ty_eqb_np (vd_type a) (vd_type b) && option_eqb value_eqb_np (vd_default a) (vd_default b)
  && directives_eqb_np (vd_dirs a) (vd_dirs b).
Definition vardefs_eqb_np (a b : vardefs) : bool :=
  pos_any (vds_pos a) (vds_pos b) && list_eqb vardef_eqb_np (vds_list a) (vds_list b).

Definition opdef_eqb_np (a b : opdef) : bool :=
  pos_any (op_pos a) (op_pos b) && optype_eqb (op_type a) (op_type b) && option_eqb ident_np (op_name a) (op_name b)
  && option_eqb vardefs_eqb_np (op_vars a) (op_vars b) && directives_eqb_np (op_dirs a) (op_dirs b)
  && selset_eqb_np (op_sel a) (op_sel b).
Definition fragdef_eqb_np (a b : fragdef) : bool :=
  pos_any (fr_pos a) (fr_pos b) && ident_np (fr_name a) (fr_name b) && ident_np (fr_cond a) (fr_cond b)
  && directives_eqb_np (fr_dirs a) (fr_dirs b) && selset_eqb_np (fr_sel a) (fr_sel b).
Definition import_target_eqb_np (a b : import_target) : bool :=
  match a, b with
  | ImpWildcard, ImpWildcard => true
  | ImpName n, ImpName m => ident_np n m
  | _, _ => false
  end.
Definition importdef_eqb_np (a b : importdef) : bool :=
  pos_any (im_pos a) (im_pos b) && list_eqb import_target_eqb_np (im_targets a) (im_targets b)
  && str_eqb (im_path a) (im_path b) && pos_any (im_path_pos a) (im_path_pos b).
Definition execdef_eqb_np (a b : execdef) : bool :=
  match a, b with
  | DOp x, DOp y => opdef_eqb_np x y
  | DFrag x, DFrag y => fragdef_eqb_np x y
  | DImport x, DImport y => importdef_eqb_np x y
  | _, _ => false
  end.
Definition opdoc_eqb_np (a b : opdoc) : bool :=
  pos_any (od_pos a) (od_pos b) && list_eqb execdef_eqb_np (od_defs a) (od_defs b).

Definition keyword_eqb_np (a b : keyword) : bool := str_eqb (kw_name a) (kw_name b) && pos_any (kw_pos a) (kw_pos b).
Definition desc_eqb_np (a b : desc) : bool := pos_any (desc_pos a) (desc_pos b) && str_eqb (desc_value a) (desc_value b).
Definition odesc_eqb_np := option_eqb desc_eqb_np.

Definition inputvaldef_eqb_np (a b : inputvaldef) : bool :=
  odesc_eqb_np (iv_desc a) (iv_desc b) && pos_any (iv_pos a) (iv_pos b) && ident_np (iv_name a) (iv_name b)
  && ty_eqb_np (iv_type a) (iv_type b) && option_eqb value_eqb_np (iv_default a) (iv_default b)
  && directives_eqb_np (iv_dirs a) (iv_dirs b).
Definition fielddef_eqb_np (a b : fielddef) : bool :=
  odesc_eqb_np (fd_desc a) (fd_desc b) && ident_np (fd_name a) (fd_name b)
  && option_eqb (list_eqb inputvaldef_eqb_np) (fd_args a) (fd_args b) && ty_eqb_np (fd_type a) (fd_type b)
  && directives_eqb_np (fd_dirs a) (fd_dirs b).
Definition enumvaldef_eqb_np (a b : enumvaldef) : bool :=
  odesc_eqb_np (ev_desc a) (ev_desc b) && ident_np (ev_name a) (ev_name b) && directives_eqb_np (ev_dirs a) (ev_dirs b).

Definition idents_eqb_np := list_eqb ident_np.

Definition typedef_eqb_np (a b : typedef) : bool :=
  match a, b with
  | TDScalar d p n ds k, TDScalar d' p' n' ds' k' =>
      odesc_eqb_np d d' && pos_any p p' && ident_np n n' && directives_eqb_np ds ds' && keyword_eqb_np k k'
  | TDObject d p n im ds fs k, TDObject d' p' n' im' ds' fs' k' =>
      odesc_eqb_np d d' && pos_any p p' && ident_np n n' && idents_eqb_np im im' && directives_eqb_np ds ds'
      && list_eqb fielddef_eqb_np fs fs' && keyword_eqb_np k k'
  | TDInterface d p n im ds fs k, TDInterface d' p' n' im' ds' fs' k' =>
      odesc_eqb_np d d' && pos_any p p' && ident_np n n' && idents_eqb_np im im' && directives_eqb_np ds ds'
      && list_eqb fielddef_eqb_np fs fs' && keyword_eqb_np k k'
  | TDUnion d p n ds ms k, TDUnion d' p' n' ds' ms' k' =>
      odesc_eqb_np d d' && pos_any p p' && ident_np n n' && directives_eqb_np ds ds' && idents_eqb_np ms ms' && keyword_eqb_np k k'
  | TDEnum d p n ds vs k, TDEnum d' p' n' ds' vs' k' =>
      odesc_eqb_np d d' && pos_any p p' && ident_np n n' && directives_eqb_np ds ds'
      && list_eqb enumvaldef_eqb_np vs vs' && keyword_eqb_np k k'
  | TDInput d p n ds fs k, TDInput d' p' n' ds' fs' k' =>
      odesc_eqb_np d d' && pos_any p p' && ident_np n n' && directives_eqb_np ds ds'
      && list_eqb inputvaldef_eqb_np fs fs' && keyword_eqb_np k k'
  | _, _ => false
  end.

Definition typeext_eqb_np (a b : typeext) : bool :=
  match a, b with
  | TEScalar p n ds, TEScalar p' n' ds' => pos_any p p' && ident_np n n' && directives_eqb_np ds ds'
  | TEObject p n im ds fs, TEObject p' n' im' ds' fs' =>
      pos_any p p' && ident_np n n' && idents_eqb_np im im' && directives_eqb_np ds ds' && list_eqb fielddef_eqb_np fs fs'
  | TEInterface p n im ds fs, TEInterface p' n' im' ds' fs' =>
      pos_any p p' && ident_np n n' && idents_eqb_np im im' && directives_eqb_np ds ds' && list_eqb fielddef_eqb_np fs fs'
  | TEUnion p n ds ms, TEUnion p' n' ds' ms' =>
      pos_any p p' && ident_np n n' && directives_eqb_np ds ds' && idents_eqb_np ms ms'
  | TEEnum p n ds vs, TEEnum p' n' ds' vs' =>
      pos_any p p' && ident_np n n' && directives_eqb_np ds ds' && list_eqb enumvaldef_eqb_np vs vs'
  | TEInput p n ds fs, TEInput p' n' ds' fs' =>
      pos_any p p' && ident_np n n' && directives_eqb_np ds ds' && list_eqb inputvaldef_eqb_np fs fs'
  | _, _ => false
  end.

Definition rootops_eqb_np := list_eqb (pair_eqb_np optype_eqb ident_np).

Definition schemadef_eqb_np (a b : schemadef) : bool :=
  odesc_eqb_np (sd_desc a) (sd_desc b) && pos_any (sd_pos a) (sd_pos b) && directives_eqb_np (sd_dirs a) (sd_dirs b)
  && rootops_eqb_np (sd_ops a) (sd_ops b).
Definition schemaext_eqb_np (a b : schemaext) : bool :=
  pos_any (se_pos a) (se_pos b) && directives_eqb_np (se_dirs a) (se_dirs b) && rootops_eqb_np (se_ops a) (se_ops b).
Definition directivedef_eqb_np (a b : directivedef) : bool :=
  odesc_eqb_np (dd_desc a) (dd_desc b) && pos_any (dd_pos a) (dd_pos b) && ident_np (dd_name a) (dd_name b)
  && option_eqb (list_eqb inputvaldef_eqb_np) (dd_args a) (dd_args b)
  && option_eqb ident_np (dd_repeatable a) (dd_repeatable b) && idents_eqb_np (dd_locs a) (dd_locs b)
  && keyword_eqb_np (dd_kw a) (dd_kw b).

Definition tsdef_eqb_np (a b : tsdef) : bool :=
  match a, b with
  | TSSchema x, TSSchema y => schemadef_eqb_np x y
  | TSType x, TSType y => typedef_eqb_np x y
  | TSDirective x, TSDirective y => directivedef_eqb_np x y
  | TSSchemaExt x, TSSchemaExt y => schemaext_eqb_np x y
  | TSTypeExt x, TSTypeExt y => typeext_eqb_np x y
  | _, _ => false
  end.
Definition tsdoc_eqb_np : tsdoc -> tsdoc -> bool := list_eqb tsdef_eqb_np.
