(** C07 — proofs, part 10: parse_render, fourth instalment (directive lists). *)
From V Require Import Base.Util Gql.Ast Peg.Peg Peg.PegProps Gen.C07_grammar_gen C07.Builder C07.Model C07.Spec C07.Proofs C07.Lexical C07.Strings C07.Numbers C07.Render C07.RenderValues C07.RenderArgs.
Local Open Scope N_scope.

(** one directive with its trivia: without arguments the trailing trivia [w] belongs to the Directive pair;
    with arguments the gap [w] after ")" does not *)
Inductive rdir :=
| RDir0 (g n w : str)
| RDir1 (g n ga g0 : str) (args : list fld) (w : str).

Definition rdir_text (d : rdir) : str :=
  match d with RDir0 g n w => dir_text0 g n w | RDir1 g n ga g0 args _ => dir_text1 g n ga g0 args end.
Definition rdir_gap (d : rdir) : str := match d with RDir0 _ _ _ => [] | RDir1 _ _ _ _ _ w => w end.
Definition rdir_tree (d : rdir) (i : N) : pr :=
  match d with
  | RDir0 g n w => Pair R_Directive i (i + slen (dir_text0 g n w)) [Pair R_Name (i + 1 + slen g) (i + 1 + slen g + slen n) []]
  | RDir1 g n ga g0 args _ =>
      Pair R_Directive i (i + slen (dir_text1 g n ga g0 args))
        [Pair R_Name (i + 1 + slen g) (i + 1 + slen g + slen n) []; args_tree g0 args (i + 1 + slen g + slen n + slen ga)]
  end.
Definition rdir_wf (d : rdir) : bool :=
  match d with
  | RDir0 g n w => ws g && is_name n && ws w
  | RDir1 g n ga g0 args w => ws g && is_name n && ws ga && wf_args g0 args && ws w
  end.
Definition rdir_item (d : rdir) : item := (rdir_text d, rdir_gap d, fun i => [rdir_tree d i]).

Definition dirs_text (ds : list rdir) : str := items_text (map rdir_item ds).

(** what may follow a directive list: a token that is neither "@" nor "(" ; after a name directly, no name character *)
Definition follow_dirs (ds : list rdir) (k : str) : Prop :=
  at_token k /\ no_paren_next k /\ match k with d :: _ => N.eqb 64 d = false | [] => True end /\
  match last ds (RDir1 [] [] [] [] [] []) with RDir0 _ _ [] => not_name_cont_next k | _ => True end.

Lemma directive_fails k i : match k with d :: _ => N.eqb 64 d = false | [] => True end -> runs G true ANon (Call R_Directive) k i Fail.
Proof.
  intros H. enter_fail_n R_Directive. apply (runs_SeqS_fail1 gse gse_eq).
  destruct k as [|d r]; [apply runs_Lit_nil_fail|apply runs_Lit_head_fail; exact H].
Qed.

Lemma rdir_text_head d : exists t, rdir_text d = 64 :: t.
Proof. destruct d; eexists; reflexivity. Qed.

Lemma dirs_items_ok k : forall ds, forallb rdir_wf ds = true -> follow_dirs ds k ->
  items_ok (Call R_Directive) [] k (map rdir_item ds).
Proof.
  induction ds as [|d r IH]; intros Hwf Hf; [exact I|].
  cbn [forallb] in Hwf. apply andb_true_iff in Hwf. destruct Hwf as [Hd Hr].
  assert (Hf' : r <> [] -> follow_dirs r k).
  { intros Hne. destruct Hf as [H1 [H2 [H3 H4]]]. repeat split; try assumption. destruct r; [contradiction|exact H4]. }
  cbn [map items_ok]. split.
  - (* this item in front of the rest *)
    set (k' := items_text (map rdir_item r) ++ [] ++ k).
    assert (Hk' : at_token k' /\ no_paren_next k' /\ (r = [] -> k' = k) /\ (r <> [] -> exists t, k' = 64 :: t)).
    { unfold k'. destruct r as [|d2 r2].
      - cbn [map items_text app]. destruct Hf as [H1 [H2 _]]. split; [exact H1|]. split; [exact H2|]. split; [intros _; reflexivity|intros H; contradiction].
      - destruct (rdir_text_head d2) as [t E]. cbn [map items_text]. change (it_text (rdir_item d2)) with (rdir_text d2). rewrite E. rewrite <- !app_assoc. cbn [app].
        split; [split; reflexivity|]. split; [reflexivity|]. split; [intros H; discriminate|]. intros _. eexists; reflexivity. }
    destruct Hk' as [Htok [Hnp [Hk1 Hk2]]].
    unfold item_ok, it_text, it_gap, it_tree, rdir_item. cbn [fst snd].
    destruct d as [g n w|g n ga g0 args w]; cbn [rdir_wf rdir_text rdir_gap rdir_tree] in *.
    + apply andb_true_iff in Hd. destruct Hd as [Hd Hw]. apply andb_true_iff in Hd. destruct Hd as [Hg Hn].
      split; [reflexivity|]. split; [split; reflexivity|]. intros i. fold k'. cbn [app].
      apply directive_noargs_runs; try assumption.
      intros ->. destruct r as [|d2 r2].
      * rewrite (Hk1 eq_refl). destruct Hf as [_ [_ [_ H4]]]. cbn [last] in H4. exact H4.
      * destruct (Hk2 ltac:(discriminate)) as [t ->]. reflexivity.
    + apply andb_true_iff in Hd. destruct Hd as [Hd Hw]. apply andb_true_iff in Hd. destruct Hd as [Hd Hargs].
      apply andb_true_iff in Hd. destruct Hd as [Hd Hga]. apply andb_true_iff in Hd. destruct Hd as [Hg Hn].
      split; [exact Hw|]. split; [split; reflexivity|]. intros i. fold k'.
      apply directive_args_runs; assumption.
  - destruct r as [|d2 r2]; [exact I|]. apply IH; [exact Hr|apply Hf'; discriminate].
Qed.

(** the Directives pair: where it ends is one of pest's quirks (after a single directive the following trivia is
    inside the pair, after several it is not), hence existential, but always inside the trivia before [k] *)
(** the trivia at the end of a directive list that stays outside the Directives pair *)
Definition dirs_tail (ds : list rdir) : str := match ds with [] => [] | d :: r => tailgap [] (map rdir_item r) end.

Theorem directives_runs d ds k : forallb rdir_wf (d :: ds) = true -> follow_dirs (d :: ds) k ->
  let g2 := dirs_tail (d :: ds) in
  exists m, ws g2 = true /\ m + slen g2 = slen (dirs_text (d :: ds)) /\
    (exists c, dirs_text (d :: ds) = c ++ g2) /\
    forall i, runs G true ANon (Call R_Directives) (dirs_text (d :: ds) ++ k) i
      (Ok (g2 ++ k, i + m, [Pair R_Directives i (i + m) (items_trees (map rdir_item (d :: ds)) i)])).
Proof.
  intros Hwf Hf g2.
  pose proof (dirs_items_ok k (d :: ds) Hwf Hf) as Hok.
  destruct Hf as [Htok [_ [Hat _]]].
  destruct (items_plus (Call R_Directive) [] k Htok (fun j => directive_fails k j Hat) (rdir_item d) (map rdir_item ds) Hok) as [m [Hg2 [Hm [[c Hc] Hrun]]]].
  exists m. split; [exact Hg2|]. split; [|split].
  - unfold g2, dirs_tail. rewrite Hm. unfold dirs_text. cbn [map items_text]. rewrite !slen_app. lia.
  - exists c. unfold g2, dirs_tail. rewrite <- Hc. reflexivity.
  - intros i. specialize (Hrun i). cbn [app] in Hrun.
    assert (Htxt : dirs_text (d :: ds) ++ k = it_text (rdir_item d) ++ it_gap (rdir_item d) ++ items_text (map rdir_item ds) ++ k).
    { unfold dirs_text. cbn [map items_text]. rewrite <- !app_assoc. reflexivity. }
    rewrite Htxt. enter_rec_n R_Directives. exact Hrun.
Qed.

(** ** the builder on a directive list *)
Definition rdir_erase (d : rdir) : str * option (list (str * aval)) :=
  match d with RDir0 _ n _ => (n, None) | RDir1 _ n _ _ args _ => (n, Some (erase_args args)) end.
Definition dir_erase (d : directive) : str * option (list (str * aval)) := (iname (dir_name d), option_map args_erase (dir_args d)).

Lemma dirs_trees_cons d r i :
  items_trees (map rdir_item (d :: r)) i = rdir_tree d i :: items_trees (map rdir_item r) (i + slen (rdir_text d) + slen (rdir_gap d)).
Proof. reflexivity. Qed.

Lemma dirs_kids_rule : forall ds i, forallb (is_rule R_Directive) (items_trees (map rdir_item ds) i) = true.
Proof. induction ds as [|d r IH]; intros i; [reflexivity|]. rewrite dirs_trees_cons. cbn [forallb]. rewrite IH. destruct d; reflexivity. Qed.

Lemma build_dirs_items file : forall ds pre rest, exists l,
  mapM (build_directive_fn (pre ++ dirs_text ds ++ rest) file) (items_trees (map rdir_item ds) (slen pre)) = BOk l
  /\ map dir_erase l = map rdir_erase ds.
Proof.
  induction ds as [|d r IH]; intros pre rest; [exists []; split; reflexivity|].
  rewrite dirs_trees_cons.
  assert (Hinp : pre ++ dirs_text (d :: r) ++ rest = pre ++ rdir_text d ++ (rdir_gap d ++ dirs_text r ++ rest)).
  { unfold dirs_text. cbn [map items_text]. change (it_text (rdir_item d)) with (rdir_text d). change (it_gap (rdir_item d)) with (rdir_gap d). rewrite <- !app_assoc. reflexivity. }
  assert (Hinp2 : pre ++ dirs_text (d :: r) ++ rest = (pre ++ rdir_text d ++ rdir_gap d) ++ dirs_text r ++ rest).
  { rewrite Hinp. rewrite <- !app_assoc. reflexivity. }
  destruct (IH (pre ++ rdir_text d ++ rdir_gap d) rest) as [l [Hl He]].
  assert (Hhead : exists x, build_directive_fn (pre ++ rdir_text d ++ (rdir_gap d ++ dirs_text r ++ rest)) file (rdir_tree d (slen pre)) = BOk x /\ dir_erase x = rdir_erase d).
  { destruct d as [g n w|g n ga g0 args w]; cbn [rdir_text rdir_gap rdir_tree rdir_erase].
    - destruct (build_directive_noargs g n w pre ([] ++ dirs_text r ++ rest) file) as [x [Hx [Hn Ha]]].
      exists x. split; [exact Hx|]. unfold dir_erase. rewrite Hn, Ha. reflexivity.
    - destruct (build_directive_args g n ga g0 args pre (w ++ dirs_text r ++ rest) file) as [x [a [Hx [Hn [Ha He']]]]].
      exists x. split; [exact Hx|]. unfold dir_erase. rewrite Hn, Ha. cbn [option_map]. rewrite He'. reflexivity. }
  destruct Hhead as [x [Hx Hxe]].
  exists (x :: l). split; [|cbn [map]; rewrite Hxe, He; reflexivity].
  rewrite mapM_cons. rewrite Hinp, Hx. rewrite <- Hinp, Hinp2.
  replace (slen pre + slen (rdir_text d) + slen (rdir_gap d)) with (slen (pre ++ rdir_text d ++ rdir_gap d)) by (rewrite !slen_app; lia).
  rewrite Hl. reflexivity.
Qed.

Theorem build_directives_ok ds pre rest file j :
  exists l, build_directives (pre ++ dirs_text ds ++ rest) file (Pair R_Directives (slen pre) j (items_trees (map rdir_item ds) (slen pre))) = BOk l
            /\ map dir_erase l = map rdir_erase ds.
Proof.
  destruct (build_dirs_items file ds pre rest) as [l [Hl He]]. exists l. split; [|exact He].
  unfold build_directives, all_children. cbn [pair_kids]. rewrite dirs_kids_rule. exact Hl.
Qed.

(** parse_render for directive lists *)
Theorem parse_render_directives : forall d ds k, forallb rdir_wf (d :: ds) = true -> follow_dirs (d :: ds) k ->
  let g2 := dirs_tail (d :: ds) in
  exists m, ws g2 = true /\ m + slen g2 = slen (dirs_text (d :: ds)) /\
    forall pre file,
    let inp := pre ++ dirs_text (d :: ds) ++ k in
    let i := slen pre in
    let t := Pair R_Directives i (i + m) (items_trees (map rdir_item (d :: ds)) i) in
    runs G true ANon (Call R_Directives) (dirs_text (d :: ds) ++ k) i (Ok (g2 ++ k, i + m, [t]))
    /\ exists l, build_directives inp file t = BOk l /\ map dir_erase l = map rdir_erase (d :: ds).
Proof.
  intros d ds k Hwf Hf g2.
  destruct (directives_runs d ds k Hwf Hf) as [m [Hg2 [Hm [_ Hrun]]]].
  exists m. split; [exact Hg2|]. split; [exact Hm|]. intros pre file inp i t. split; [apply Hrun|apply build_directives_ok].
Qed.
