(** C07 — proofs, part 5: the model's parser never runs out of fuel.
    Peg/PegFuel.v's static check, evaluated on the grammar translated from grammar.pest *as it is now*
    (a left-recursive or too deeply nested grammar makes these computations fail, and the check with them):
    nullability table, same-position depth of every sub-expression of every rule <= 38 through at most 40
    nested calls, hence fuel 40 * (|inp| + 1) <= Peg.default_fuel inp suffices for every input. *)
From V Require Import Base.Util Gql.Ast Peg.Peg Peg.PegProps Peg.PegFuel Gen.C07_grammar_gen C07.Builder C07.Model.

Notation G := gql_grammar.

Definition tab_lookup (l : list bool) (r : rule) : bool := nth (N.to_nat (rule_idx r)) l false.
(** least fixed point of "the body may succeed without consuming", by iteration from "nothing is nullable" *)
Fixpoint nul_iter (k : nat) : list bool :=
  match k with
  | O => map (fun _ => false) all_rules
  | S k' => let t := nul_iter k' in map (fun r => nulb (tab_lookup t) (r_exp (rule_def r))) all_rules
  end.
Definition nul_list : list bool := Eval vm_compute in nul_iter 8.
Definition nul_tab : rule -> bool := tab_lookup nul_list.

Definition fuel_K : nat := 40.
Definition fuel_Dmax : nat := 38.
Definition fuel_A : nat := 40.

Lemma nul_tab_sound : forall r, nulb nul_tab (r_exp (g_rule G r)) = true -> nul_tab r = true.
Proof. destruct r; vm_compute; intro H; first [reflexivity | discriminate H]. Qed.

Lemma bodies_wf : forall r, wf G nul_tab fuel_K fuel_Dmax (body_sk G r) (r_exp (g_rule G r)) = true.
Proof. destruct r; vm_compute; reflexivity. Qed.

Lemma skip_wf : match skip_exp G with Some se => wf G nul_tab fuel_K fuel_Dmax false se = true | None => True end.
Proof. vm_compute. reflexivity. Qed.

Lemma start_bounded : forall start, exists d, sd G nul_tab fuel_K true (Call start) = Some d /\ (d <= fuel_Dmax)%nat.
Proof.
  intros start.
  assert (H : match sd G nul_tab fuel_K true (Call start) with Some d => (d <=? fuel_Dmax)%nat | None => false end = true)
    by (destruct start; vm_compute; reflexivity).
  destruct (sd G nul_tab fuel_K true (Call start)) as [d|]; [|discriminate].
  exists d. split; [reflexivity|apply Nat.leb_le; exact H].
Qed.

Lemma default_fuel_enough inp : (fuel_A * (length inp + 1) <= default_fuel inp)%nat.
Proof. unfold fuel_A, default_fuel. lia. Qed.

(** for every start rule and every input, pest-as-modelled terminates within the model's fuel *)
Theorem parse_pairs_never_out_of_fuel : forall start inp, parse_pairs start inp <> OutOfFuel.
Proof.
  intros start inp. destruct (start_bounded start) as [d [Hd Hle]].
  unfold parse_pairs, parse.
  refine (@call_never_out_of_fuel rule G nul_tab nul_tab_sound fuel_K fuel_Dmax fuel_A _ bodies_wf skip_wf start d Hd Hle inp _ (default_fuel_enough inp)).
  unfold fuel_Dmax, fuel_A. lia.
Qed.

Theorem parse_operation_document_never_fuel : forall file inp, parse_operation_document file inp <> PFuel.
Proof.
  intros file inp. unfold parse_operation_document.
  pose proof (parse_pairs_never_out_of_fuel R_ExecutableDocument inp) as H.
  destruct (parse_pairs R_ExecutableDocument inp) as [ps| |]; [|discriminate|contradiction].
  unfold after_validation, of_bres. destruct (validate_string_values inp ps); [destruct (build_operation_document inp file ps)| |]; discriminate.
Qed.

Theorem parse_type_system_document_never_fuel : forall file inp, parse_type_system_document file inp <> PFuel.
Proof.
  intros file inp. unfold parse_type_system_document.
  pose proof (parse_pairs_never_out_of_fuel R_TypeSystemExtensionDocument inp) as H.
  destruct (parse_pairs R_TypeSystemExtensionDocument inp) as [ps| |]; [|discriminate|contradiction].
  unfold after_validation, of_bres. destruct (validate_string_values inp ps); [destruct (build_type_system_document inp file ps)| |]; discriminate.
Qed.
