(** C07 — proofs, part 11: parse_render, fifth instalment (selection sets).
    [rsel]/[rss] are selections / selection sets with the whitespace trivia of every gap; [sel_full]/[ss_text] the text;
    [wf_sel]/[wf_ss] the computable well-formedness (names, trivia, token separation [seps_ok]).  Tools: [chain_runs]
    (e1 ~ e2 ~ … ~ en of a skipping rule as a list of elements with text, gap and pairs; optional elements [opt_elt]),
    head facts [hdP]/[hdR], [slot_opt_elt] (the opt slot of parts! on an optional element).  Per production:
    [field_ok] (Alias? Name Arguments? Directives? SelectionSet?, the Field pair swallows the trivia up to the next
    selection unless it ends with a sub-selection), [spread_ok], [inline_ok] (Field and FragmentSpread fail first),
    [ss_ok_of] (Selection+ via items_plus_close), tied together by the nested mutual induction [rsel_ind2]/[rss_ind2].
    Result: [parse_render_selection_set]. *)
From V Require Import Base.Util Gql.Ast Peg.Peg Peg.PegProps Gen.C07_grammar_gen C07.Builder C07.Model C07.Spec C07.Proofs C07.Lexical C07.Strings C07.Numbers C07.Render C07.RenderValues C07.RenderArgs C07.RenderDirs C07.RenderValid.
Local Open Scope N_scope.

(** ** chains:  e1 ~ e2 ~ … ~ en  in a skipping rule, each element with its text, the gap after it and its pairs *)
Definition celt := (pexp rule * str * str * (N -> list pr))%type.
Definition c_exp (c : celt) : pexp rule := fst (fst (fst c)).
Definition c_text (c : celt) : str := snd (fst (fst c)).
Definition c_gap (c : celt) : str := snd (fst c).
Definition c_tree (c : celt) : N -> list pr := snd c.

Fixpoint seqs (es : list (pexp rule)) : pexp rule :=
  match es with
  | [] => Eoi
  | [e] => e
  | e :: r => Seq e (seqs r)
  end.
Fixpoint chain_txt (l : list celt) (k : str) : str :=
  match l with [] => k | c :: r => c_text c ++ c_gap c ++ chain_txt r k end.
Fixpoint chain_len (l : list celt) : N :=
  match l with [] => 0 | c :: r => slen (c_text c) + slen (c_gap c) + chain_len r end.
Fixpoint chain_trees (l : list celt) (i : N) : list pr :=
  match l with [] => [] | c :: r => c_tree c i ++ chain_trees r (i + slen (c_text c) + slen (c_gap c)) end.
Fixpoint chain_ok (l : list celt) (k : str) : Prop :=
  match l with
  | [] => True
  | c :: r =>
      ws (c_gap c) = true /\ (r = [] -> c_gap c = []) /\ (r <> [] -> at_token (chain_txt r k)) /\
      (forall i, runs G true ANon (c_exp c) (c_text c ++ c_gap c ++ chain_txt r k) i
                   (Ok (c_gap c ++ chain_txt r k, i + slen (c_text c), c_tree c i))) /\
      chain_ok r k
  end.

Lemma chain_runs : forall l k, l <> [] -> chain_ok l k ->
  forall i, runs G true ANon (seqs (map c_exp l)) (chain_txt l k) i (Ok (k, i + chain_len l, chain_trees l i)).
Proof.
  induction l as [|c r IH]; intros k Hne Hok i; [contradiction|].
  destruct Hok as [Hg [Hlast [Htok [Hrun Hr]]]].
  destruct r as [|c2 r2].
  - pose proof (Hlast eq_refl) as Hgn. cbn [map seqs chain_txt chain_len chain_trees] in *. rewrite Hgn in *. cbn [app] in *.
    change (slen []) with 0. rewrite !N.add_0_r, app_nil_r. apply Hrun.
  - change (seqs (map c_exp (c :: c2 :: r2))) with (Seq (c_exp c) (seqs (map c_exp (c2 :: r2)))).
    change (chain_txt (c :: c2 :: r2) k) with (c_text c ++ c_gap c ++ chain_txt (c2 :: r2) k).
    change (chain_len (c :: c2 :: r2)) with (slen (c_text c) + slen (c_gap c) + chain_len (c2 :: r2)).
    change (chain_trees (c :: c2 :: r2) i) with (c_tree c i ++ chain_trees (c2 :: r2) (i + slen (c_text c) + slen (c_gap c))).
    replace (c_tree c i ++ chain_trees (c2 :: r2) (i + slen (c_text c) + slen (c_gap c)))
      with (c_tree c i ++ @nil pr ++ chain_trees (c2 :: r2) (i + slen (c_text c) + slen (c_gap c))) by reflexivity.
    replace (i + (slen (c_text c) + slen (c_gap c) + chain_len (c2 :: r2))) with (i + slen (c_text c) + slen (c_gap c) + chain_len (c2 :: r2)) by lia.
    eapply (runs_SeqS_ok gse gse_eq); [apply Hrun|apply skip_ws; [exact Hg|apply Htok; discriminate]|].
    apply IH; [discriminate|exact Hr].
Qed.

(** ** selections with trivia *)
Inductive rsel :=
| RField (al : option (str * str * str))          (* alias ga ":" gb *)
         (n g1 : str)
         (ar : option (str * list fld * str))       (* "(" g0 args ")" gap *)
         (ds : list rdir)
         (sub : option (rss * str))                 (* sub-selection, gap after its "}" *)
| RSpread (g n w : str) (ds : list rdir)            (* "..." g name w directives *)
| RInline (g : str) (cond : option (str * str * str))   (* "on" gc Type gt *)
          (ds : list rdir) (ss : rss) (gap : str)
with rss := RSS (g0 : str) (sels : list rsel).

Definition dots : str := [46; 46; 46].
Definition K_on : str := [111; 110].
Definition alias_text (al : option (str * str * str)) : str :=
  match al with Some (a, ga, gb) => a ++ ga ++ [58] ++ gb | None => [] end.
Definition oargs_text (ar : option (str * list fld * str)) : str :=
  match ar with Some (g0, args, g2) => render_args g0 args ++ g2 | None => [] end.
Definition cond_text (c : option (str * str * str)) : str :=
  match c with Some (gc, t, gt) => K_on ++ gc ++ t ++ gt | None => [] end.

Fixpoint sel_full (s : rsel) : str :=
  match s with
  | RField al n g1 ar ds sub =>
      alias_text al ++ n ++ g1 ++ oargs_text ar ++ dirs_text ds ++
      match sub with Some (ss, g) => ss_text ss ++ g | None => [] end
  | RSpread g n w ds => dots ++ g ++ n ++ w ++ dirs_text ds
  | RInline g c ds ss gap => dots ++ g ++ cond_text c ++ dirs_text ds ++ ss_text ss ++ gap
  end
with ss_text (ss : rss) : str :=
  match ss with
  | RSS g0 sels => [123] ++ g0 ++ (fix go (l : list rsel) : str := match l with [] => [] | s :: r => sel_full s ++ go r end) sels ++ [125]
  end.
Definition sels_text (sels : list rsel) : str := flat_map sel_full sels.
Lemma ss_text_eq g0 sels : ss_text (RSS g0 sels) = [123] ++ g0 ++ sels_text sels ++ [125].
Proof.
  assert (H : forall l, (fix go (l : list rsel) : str := match l with [] => [] | s :: r => sel_full s ++ go r end) l = flat_map sel_full l)
    by (induction l as [|s r IH]; [reflexivity|cbn [flat_map]; rewrite <- IH; reflexivity]).
  cbn [ss_text]. rewrite H. reflexivity.
Qed.

(** abstract selections *)
Inductive asel :=
| AField (alias : option str) (n : str) (args : option (list (str * aval))) (ds : list (str * option (list (str * aval)))) (sub : option (list asel))
| ASpread (n : str) (ds : list (str * option (list (str * aval))))
| AInline (cond : option str) (ds : list (str * option (list (str * aval)))) (sub : list asel).

Fixpoint erase_sel (s : rsel) : asel :=
  match s with
  | RField al n _ ar ds sub =>
      AField (match al with Some (a, _, _) => Some a | None => None end) n
             (match ar with Some (_, args, _) => Some (erase_args args) | None => None end)
             (map rdir_erase ds)
             (match sub with Some (RSS _ sels, _) => Some ((fix go (l : list rsel) := match l with [] => [] | x :: r => erase_sel x :: go r end) sels) | None => None end)
  | RSpread _ n _ ds => ASpread n (map rdir_erase ds)
  | RInline _ c ds (RSS _ sels) _ =>
      AInline (match c with Some (_, t, _) => Some t | None => None end) (map rdir_erase ds)
              ((fix go (l : list rsel) := match l with [] => [] | x :: r => erase_sel x :: go r end) sels)
  end.
Definition erase_ss (ss : rss) : list asel := match ss with RSS _ sels => map erase_sel sels end.

Fixpoint sel_erase (s : selection) : asel :=
  match s with
  | SField al n ar ds sub =>
      AField (option_map iname al) (iname n) (option_map args_erase ar) (map dir_erase ds)
             (match sub with Some (SelSet _ l) => Some ((fix go (l : list selection) := match l with [] => [] | x :: r => sel_erase x :: go r end) l) | None => None end)
  | SSpread _ n ds => ASpread (iname n) (map dir_erase ds)
  | SInline _ c ds (SelSet _ l) =>
      AInline (option_map iname c) (map dir_erase ds)
              ((fix go (l : list selection) := match l with [] => [] | x :: r => sel_erase x :: go r end) l)
  end.
Definition ss_erase (ss : selset) : list asel := match ss with SelSet _ l => map sel_erase l end.

(** what follows a selection inside a selection set (after its trivia): the next selection or "}" *)
Definition sel_follow (k : str) : Prop :=
  at_token k /\ match k with d :: _ => N.eqb 58 d = false /\ N.eqb 40 d = false /\ N.eqb 64 d = false /\ N.eqb 123 d = false | [] => True end.

Lemma lit_fails_follow c0 k i : match k with d :: _ => N.eqb c0 d = false | [] => True end -> runs G true ANon (Lit [c0]) k i Fail.
Proof. intros H. destruct k as [|d r]; [apply runs_Lit_nil_fail|apply runs_Lit_head_fail; exact H]. Qed.

(** ** parts of a field as chain elements *)
Definition alias_tree (a : str) (txtlen : N) (i : N) : pr := Pair R_Alias i (i + txtlen) [Pair R_Name i (i + slen a) []].

Lemma alias_runs a ga rest i : is_name a = true -> ws ga = true ->
  runs G true ANon (Call R_Alias) ((a ++ ga ++ [58]) ++ rest) i
    (Ok (rest, i + slen (a ++ ga ++ [58]), [alias_tree a (slen (a ++ ga ++ [58])) i])).
Proof.
  intros Ha Hga. unfold alias_tree. enter_rec_n R_Alias.
  assert (Htxt : (a ++ ga ++ [58]) ++ rest = a ++ (ga ++ ([58] ++ rest))) by (rewrite <- !app_assoc; reflexivity).
  assert (Hlen : i + slen (a ++ ga ++ [58]) = i + slen a + slen ga + 1) by (rewrite !slen_app; change (slen [58]) with 1; lia).
  rewrite Htxt, Hlen.
  replace [Pair R_Name i (i + slen a) []] with ([Pair R_Name i (i + slen a) []] ++ @nil pr ++ @nil pr) by reflexivity.
  eapply (runs_SeqS_ok gse gse_eq); [apply name_runs; [exact Ha|apply ws_colon_not_name_cont; exact Hga]|apply skip_ws; [exact Hga|split; reflexivity]|].
  exact (runs_Lit_ok G true ANon [58] rest (i + slen a + slen ga)).
Qed.

(** no alias: after the field name and its trivia there is no ":" *)
Lemma alias_fails n g1 tail i : is_name n = true -> ws g1 = true -> not_name_cont_next (g1 ++ tail) -> at_token tail ->
  match tail with d :: _ => N.eqb 58 d = false | [] => True end ->
  runs G true ANon (Call R_Alias) (n ++ g1 ++ tail) i Fail.
Proof.
  intros Hn Hg Hnc Ht Hc. enter_fail_n R_Alias.
  eapply (runs_SeqS_fail2 gse gse_eq); [apply name_runs; assumption|apply skip_ws; assumption|apply lit_fails_follow; exact Hc].
Qed.

Lemma selectionset_fails k i : match k with d :: _ => N.eqb 123 d = false | [] => True end -> runs G true ANon (Call R_SelectionSet) k i Fail.
Proof. intros H. enter_fail_n R_SelectionSet. apply (runs_SeqS_fail1 gse gse_eq). apply lit_fails_follow; exact H. Qed.
Lemma directives_fails k i : match k with d :: _ => N.eqb 64 d = false | [] => True end -> runs G true ANon (Call R_Directives) k i Fail.
Proof.
  intros H. enter_fail_n R_Directives. apply runs_Plus_g. apply (runs_SeqS_fail1 gse gse_eq). apply directive_fails; exact H.
Qed.

Definition ends_name (t : str) : bool := match rev t with c :: _ => is_name_cont c | [] => false end.
Definition name_end_ok (t k : str) : Prop := ends_name t = true -> not_name_cont_next k.

Lemma ends_name_app_name x n : is_name n = true -> ends_name (x ++ n) = true.
Proof.
  intros Hn. pose proof (name_chars n Hn) as Hc. unfold ends_name. rewrite rev_app_distr.
  destruct n as [|c r]; [discriminate|]. destruct (rev (c :: r)) as [|d l] eqn:E.
  - apply (f_equal (@length N)) in E. rewrite rev_length in E. discriminate.
  - cbn [app]. rewrite forallb_forall in Hc. apply Hc. apply in_rev. rewrite E. left; reflexivity.
Qed.

(** the Selection-level builder closure of build_selection_set (selection_set.rs), as a function of its own *)
Definition build_selection_fn inp file (sp : pr) : bres selection :=
  match sp with
  | Pair _ _ _ [c] =>
    match c with
    | Pair R_Field _ _ fk =>
        slot_opt R_Alias fk (fun alias fk =>
        slot_req R_Name fk (fun name fk =>
        slot_opt R_Arguments fk (fun args fk =>
        slot_opt R_Directives fk (fun dirs fk =>
        slot_opt R_SelectionSet fk (fun ss _ =>
          bbind (omapM (fun a => only_child a (fun n => BOk (to_ident inp file n))) alias) (fun al =>
          bbind (omapM (build_arguments inp file) args) (fun ar =>
          bbind (build_directives_opt inp file dirs) (fun ds =>
          bbind (match ss with Some s => bbind (build_selection_set inp file s) (fun r => BOk (Some r)) | None => BOk None end) (fun sub =>
          BOk (SField al (to_ident inp file name) ar ds sub))))))))))
    | Pair R_FragmentSpread _ _ fk =>
        let position := to_pos inp file c in
        slot_req R_FragmentName fk (fun name fk =>
        slot_opt R_Directives fk (fun dirs _ =>
          bbind (build_directives_opt inp file dirs) (fun ds => BOk (SSpread position (to_ident inp file name) ds))))
    | Pair R_InlineFragment _ _ fk =>
        let position := to_pos inp file c in
        slot_opt R_TypeCondition fk (fun tc fk =>
        slot_opt R_Directives fk (fun dirs fk =>
        slot_req R_SelectionSet fk (fun ss _ =>
          bbind (omapM (build_type_condition inp file) tc) (fun cond =>
          bbind (build_directives_opt inp file dirs) (fun ds =>
          bbind (build_selection_set inp file ss) (fun sub =>
          BOk (SInline position cond ds sub)))))))
    | _ => BPanic P_shape
    end
  | _ => BPanic P_shape
  end.

Lemma build_selection_set_eq inp file r s e kids :
  build_selection_set inp file (Pair r s e kids) =
  if forallb (is_rule R_Selection) kids
  then bbind (mapM (build_selection_fn inp file) kids) (fun sels => BOk (SelSet (to_pos inp file (Pair r s e kids)) sels))
  else BPanic P_shape.
Proof. reflexivity. Qed.

(** ** selection sets: the statement proved by induction *)
Definition ss_ok (ss : rss) : Prop := exists Tf : N -> pr,
  (forall i, pair_rule (Tf i) = R_SelectionSet) /\
  (forall rest i, runs G true ANon (Call R_SelectionSet) (ss_text ss ++ rest) i (Ok (rest, i + slen (ss_text ss), [Tf i]))) /\
  (forall pre rest file, exists ss', build_selection_set (pre ++ ss_text ss ++ rest) file (Tf (slen pre)) = BOk ss' /\ ss_erase ss' = erase_ss ss) /\
  (forall pre rest, valid (pre ++ ss_text ss ++ rest) (Tf (slen pre))).

Definition sel_ok (s : rsel) : Prop := exists (txt gap : str) (Tf : N -> pr),
  txt ++ gap = sel_full s /\ ws gap = true /\
  (exists c t, txt = c :: t /\ (is_name_start c = true \/ c = 46)) /\
  (forall i, pair_rule (Tf i) = R_Selection) /\
  (forall k i, sel_follow k -> name_end_ok (sel_full s) k ->
     runs G true ANon (Call R_Selection) (txt ++ gap ++ k) i (Ok (gap ++ k, i + slen txt, [Tf i]))) /\
  (forall pre rest file, exists sel', build_selection_fn (pre ++ txt ++ gap ++ rest) file (Tf (slen pre)) = BOk sel' /\ sel_erase sel' = erase_sel s) /\
  (forall pre rest, valid (pre ++ txt ++ gap ++ rest) (Tf (slen pre))).

(** ** head facts: a property of the first character of a text (vacuous at the end) *)
Definition hdP (t : str) (P : N -> Prop) : Prop := match t with d :: _ => P d | [] => True end.
Definition sub_text (sub : option (rss * str)) : str := match sub with Some (ss, _) => ss_text ss | None => [] end.
Definition sub_gap (sub : option (rss * str)) : str := match sub with Some (_, g) => g | None => [] end.

Lemma ss_text_head ss : exists t, ss_text ss = 123 :: t.
Proof. destruct ss as [g0 sels]. rewrite ss_text_eq. eexists; reflexivity. Qed.

Lemma dirs_text_head d ds : exists t, dirs_text (d :: ds) = 64 :: t.
Proof.
  destruct (rdir_text_head d) as [t0 E0]. unfold dirs_text. cbn [map items_text]. change (it_text (rdir_item d)) with (rdir_text d).
  rewrite E0. eexists; reflexivity.
Qed.

Lemma hd_sub sub k (P : N -> Prop) : P 123 -> (sub = None -> hdP k P) -> hdP (sub_text sub ++ sub_gap sub ++ k) P.
Proof.
  intros H1 H2. destruct sub as [[ss g]|]; [|exact (H2 eq_refl)].
  cbn [sub_text sub_gap]. destruct (ss_text_head ss) as [t ->]. exact H1.
Qed.
Lemma hd_dirs ds R (P : N -> Prop) : P 64 -> (ds = [] -> hdP R P) -> hdP (dirs_text ds ++ R) P.
Proof.
  intros H1 H2. destruct ds as [|d ds]; [exact (H2 eq_refl)|]. destruct (dirs_text_head d ds) as [t ->]. exact H1.
Qed.
Lemma hd_args ar R (P : N -> Prop) : P 40 -> (ar = None -> hdP R P) -> hdP (oargs_text ar ++ R) P.
Proof. intros H1 H2. destruct ar as [[[g0 args] g2]|]; [exact H1|exact (H2 eq_refl)]. Qed.

(** optional chain element with a single pair *)
Notation oelt := (option (str * str * (N -> pr))).
Definition opt_elt (x : pexp rule) (o : oelt) : celt :=
  match o with Some (t, g, T) => (Opt x, t, g, fun i => [T i]) | None => (Opt x, [], [], fun _ => []) end.
Definition o_text (o : oelt) : str := match o with Some (t, g, _) => t ++ g | None => [] end.
Definition o_pair (o : oelt) (i : N) : option pr := match o with Some (_, _, T) => Some (T i) | None => None end.

Lemma c_exp_opt x o : c_exp (opt_elt x o) = Opt x.
Proof. destruct o as [[[t g] T]|]; reflexivity. Qed.
Lemma opt_elt_txt x o X : c_text (opt_elt x o) ++ c_gap (opt_elt x o) ++ X = o_text o ++ X.
Proof. destruct o as [[[t g] T]|]; [|reflexivity]. cbn [opt_elt o_text c_text c_gap fst snd]. rewrite <- app_assoc. reflexivity. Qed.
Lemma opt_elt_len x o : slen (c_text (opt_elt x o)) + slen (c_gap (opt_elt x o)) = slen (o_text o).
Proof. destruct o as [[[t g] T]|]; [|reflexivity]. cbn [opt_elt o_text c_text c_gap fst snd]. rewrite slen_app. reflexivity. Qed.

Lemma opt_elt_runs x o R :
  (forall t g T, o = Some (t, g, T) -> forall i, runs G true ANon x (t ++ g ++ R) i (Ok (g ++ R, i + slen t, [T i]))) ->
  (o = None -> forall i, runs G true ANon x R i Fail) ->
  forall i, runs G true ANon (c_exp (opt_elt x o)) (c_text (opt_elt x o) ++ c_gap (opt_elt x o) ++ R) i
              (Ok (c_gap (opt_elt x o) ++ R, i + slen (c_text (opt_elt x o)), c_tree (opt_elt x o) i)).
Proof.
  intros Hs Hn i. destruct o as [[[t g] T]|]; cbn [opt_elt c_exp c_text c_gap c_tree fst snd].
  - apply runs_Opt_some. apply (Hs t g T eq_refl).
  - cbn [app]. change (slen []) with 0. rewrite N.add_0_r. apply runs_Opt_none. apply (Hn eq_refl).
Qed.

(** head facts on child lists, and the optional slot of parts! on an optional element *)
Definition hdR (l : list pr) (Q : pr -> Prop) : Prop := match l with p :: _ => Q p | [] => True end.
Lemma hdR_opt x o i rest (Q : pr -> Prop) :
  (forall t g T, o = Some (t, g, T) -> Q (T i)) -> (o = None -> hdR rest Q) -> hdR (c_tree (opt_elt x o) i ++ rest) Q.
Proof. intros Hs Hn. destruct o as [[[t g] T]|]; [exact (Hs t g T eq_refl)|exact (Hn eq_refl)]. Qed.

Lemma slot_opt_elt {A} r x o i rest (k : option pr -> list pr -> bres A) :
  (forall t g T, o = Some (t, g, T) -> is_rule r (T i) = true) ->
  (o = None -> hdR rest (fun p => is_rule r p = false)) ->
  slot_opt r (c_tree (opt_elt x o) i ++ rest) k = k (o_pair o i) rest.
Proof.
  intros Hs Hn. destruct o as [[[t g] T]|]; cbn [opt_elt c_tree snd o_pair app].
  - unfold slot_opt. rewrite (Hs t g T eq_refl). reflexivity.
  - specialize (Hn eq_refl). unfold slot_opt. destruct rest as [|p rest']; [reflexivity|]. cbn [hdR] in Hn. rewrite Hn. reflexivity.
Qed.

Lemma at_token_app_head c t X : at_token (c :: t) -> at_token ((c :: t) ++ X).
Proof. intros H. exact H. Qed.

(** ** fields *)
Definition wf_alias (al : option (str * str * str)) : bool :=
  match al with Some (a, ga, gb) => is_name a && ws ga && ws gb | None => true end.
Definition wf_oargs (ar : option (str * list fld * str)) : bool :=
  match ar with Some (g0, args, g2) => wf_args g0 args && ws g2 | None => true end.

Definition alias_o (al : option (str * str * str)) : oelt :=
  match al with Some (a, ga, gb) => Some (a ++ ga ++ [58], gb, alias_tree a (slen (a ++ ga ++ [58]))) | None => None end.
Definition args_o (ar : option (str * list fld * str)) : oelt :=
  match ar with Some (g0, args, g2) => Some (render_args g0 args, g2, args_tree g0 args) | None => None end.
(** the directives element is determined by what directives_runs gives: consumed text [cd]; [g] is the part of the
    left-over trivia that the enclosing rule still consumes *)
Definition dirs_o (ds : list rdir) (cd g : str) : oelt :=
  match ds with [] => None | _ => Some (cd, g, fun i => Pair R_Directives i (i + slen cd) (items_trees (map rdir_item ds) i)) end.
Definition sub_o (sub : option (rss * str)) (Tf : N -> pr) : oelt :=
  match sub with Some (ss, _) => Some (ss_text ss, [], Tf) | None => None end.
Definition name_elt (n g1 : str) : celt := (Call R_Name, n, g1, fun i => [Pair R_Name i (i + slen n) []]).

Lemma alias_o_text al : o_text (alias_o al) = alias_text al.
Proof. destruct al as [[[a ga] gb]|]; [|reflexivity]. cbn [alias_o o_text alias_text]. rewrite <- !app_assoc. reflexivity. Qed.
Lemma args_o_text ar : o_text (args_o ar) = oargs_text ar.
Proof. destruct ar as [[[g0 args] g2]|]; reflexivity. Qed.
Lemma sub_o_text sub Tf : o_text (sub_o sub Tf) = sub_text sub.
Proof. destruct sub as [[ss g]|]; [|reflexivity]. cbn [sub_o o_text sub_text]. apply app_nil_r. Qed.

(** splitting the text of a directive list at the point where the Directives pair ends: [cd] is inside, the
    trivia [dirs_tail] outside -- the same split whatever follows *)
Lemma dirs_split d ds : forallb rdir_wf (d :: ds) = true ->
  exists cd, dirs_text (d :: ds) = cd ++ dirs_tail (d :: ds) /\ ws (dirs_tail (d :: ds)) = true /\ (exists t, cd = 64 :: t) /\
    forall k, follow_dirs (d :: ds) k ->
    forall i, runs G true ANon (Call R_Directives) (cd ++ dirs_tail (d :: ds) ++ k) i
      (Ok (dirs_tail (d :: ds) ++ k, i + slen cd, [Pair R_Directives i (i + slen cd) (items_trees (map rdir_item (d :: ds)) i)])).
Proof.
  intros Hwf.
  assert (Hf0 : follow_dirs (d :: ds) [125]).
  { split; [split; reflexivity|]. split; [reflexivity|]. split; [reflexivity|].
    destruct (last (d :: ds) (RDir1 [] [] [] [] [] [])) as [? ? [|? ?]|]; try exact I. reflexivity. }
  destruct (directives_runs d ds [125] Hwf Hf0) as [m [Hg2 [Hm [[c Hc] _]]]].
  exists c. split; [exact Hc|]. split; [exact Hg2|]. split.
  - destruct (rdir_text_head d) as [t0 E0].
    assert (Hhead : exists t', dirs_text (d :: ds) = 64 :: t').
    { unfold dirs_text. cbn [map items_text]. change (it_text (rdir_item d)) with (rdir_text d). rewrite E0. eexists; reflexivity. }
    destruct Hhead as [t' Ht']. rewrite Hc in Ht'. destruct c as [|c0 c'].
    + cbn [app] in Ht'. rewrite Ht' in Hg2. cbn in Hg2. discriminate.
    + cbn [app] in Ht'. inversion Ht'; subst. eexists; reflexivity.
  - intros k Hf i. destruct (directives_runs d ds k Hwf Hf) as [m' [_ [Hm' [_ Hrun]]]].
    assert (Hmc : m' = slen c) by (rewrite Hc, slen_app in Hm'; lia).
    specialize (Hrun i). rewrite Hc, <- app_assoc in Hrun. rewrite <- Hmc. exact Hrun.
Qed.


(** the same for a possibly empty list *)
Lemma dirs_split' ds : forallb rdir_wf ds = true ->
  exists cd, dirs_text ds = cd ++ dirs_tail ds /\ ws (dirs_tail ds) = true /\ (ds = [] -> cd = []) /\
    (ds <> [] -> exists t, cd = 64 :: t) /\
    (ds <> [] -> forall k, follow_dirs ds k ->
     forall i, runs G true ANon (Call R_Directives) (cd ++ dirs_tail ds ++ k) i
       (Ok (dirs_tail ds ++ k, i + slen cd, [Pair R_Directives i (i + slen cd) (items_trees (map rdir_item ds) i)]))).
Proof.
  intros Hwf. destruct ds as [|d ds].
  - exists []. split; [reflexivity|]. split; [reflexivity|]. split; [reflexivity|]. split; intros H; contradiction.
  - destruct (dirs_split d ds Hwf) as [cd [H1 [H2 [H3 H4]]]]. exists cd. split; [exact H1|]. split; [exact H2|].
    split; [discriminate|]. split; intros _; assumption.
Qed.

Definition dflt_dir : rdir := RDir1 [] [] [] [] [] [].
Lemma last_wf : forall l, l <> [] -> forallb rdir_wf l = true -> rdir_wf (last l dflt_dir) = true.
Proof.
  induction l as [|d r IH]; intros Hne Hwf; [contradiction|].
  cbn [forallb] in Hwf. apply andb_true_iff in Hwf. destruct Hwf as [Hd Hr].
  destruct r as [|d2 r2]; [exact Hd|]. change (last (d :: d2 :: r2) dflt_dir) with (last (d2 :: r2) dflt_dir). apply IH; [discriminate|exact Hr].
Qed.
Lemma dirs_text_cons d r : dirs_text (d :: r) = rdir_text d ++ rdir_gap d ++ dirs_text r.
Proof. reflexivity. Qed.
Lemma dirs_text_ends g n : forall l, l <> [] -> last l dflt_dir = RDir0 g n [] -> exists x, dirs_text l = x ++ n.
Proof.
  induction l as [|d r IH]; intros Hne Hl; [contradiction|].
  destruct r as [|d2 r2].
  - cbn [last] in Hl. subst d. exists ([64] ++ g). rewrite dirs_text_cons. cbn [rdir_text rdir_gap]. unfold dir_text0, dirs_text. cbn [map items_text].
    rewrite !app_nil_r, <- !app_assoc. reflexivity.
  - change (last (d :: d2 :: r2) dflt_dir) with (last (d2 :: r2) dflt_dir) in Hl. destruct (IH ltac:(discriminate) Hl) as [x Hx].
    exists (rdir_text d ++ rdir_gap d ++ x). rewrite dirs_text_cons, Hx, <- !app_assoc. reflexivity.
Qed.

(** what follows the directives of a selection: the sub-selection or the continuation *)
Lemma follow_dirs_sel ds sub k s_full :
  ds <> [] -> forallb rdir_wf ds = true -> sel_follow k ->
  (sub = None -> forall x n, is_name n = true -> dirs_text ds = x ++ n -> ends_name s_full = true) ->
  name_end_ok s_full k ->
  follow_dirs ds (sub_text sub ++ sub_gap sub ++ k).
Proof.
  intros Hne Hwf [Hk1 Hk2] Hfull Hend.
  assert (Hk2' : hdP k (fun d => N.eqb 58 d = false /\ N.eqb 40 d = false /\ N.eqb 64 d = false /\ N.eqb 123 d = false)) by exact Hk2.
  split; [apply (hd_sub sub k (fun d => is_wsc d = false /\ N.eqb d 35 = false)); [split; reflexivity|intros _; exact Hk1]|].
  split; [apply (hd_sub sub k (fun d => N.eqb 40 d = false)); [reflexivity|intros _; destruct k; [exact I|apply Hk2']]|].
  split; [apply (hd_sub sub k (fun d => N.eqb 64 d = false)); [reflexivity|intros _; destruct k; [exact I|apply Hk2']]|].
  change (RDir1 [] [] [] [] [] []) with dflt_dir.
  destruct (last ds dflt_dir) as [g n w|] eqn:El; [|exact I]. destruct w; [|exact I].
  apply (hd_sub sub k (fun d => is_name_cont d = false)); [reflexivity|]. intros Hs.
  apply Hend. destruct (dirs_text_ends g n ds Hne El) as [x Hx].
  pose proof (last_wf ds Hne Hwf) as Hlw. rewrite El in Hlw. cbn [rdir_wf] in Hlw.
  apply andb_true_iff in Hlw. destruct Hlw as [Hlw _]. apply andb_true_iff in Hlw. destruct Hlw as [_ Hn].
  exact (Hfull Hs x n Hn Hx).
Qed.

Lemma chain_txt_cons c r K : chain_txt (c :: r) K = c_text c ++ c_gap c ++ chain_txt r K.
Proof. reflexivity. Qed.

Lemma dirs_o_text ds cd g : dirs_text ds = cd ++ g -> o_text (dirs_o ds cd g) = dirs_text ds.
Proof. intros H. destruct ds as [|d r]; [reflexivity|]. cbn [dirs_o o_text]. symmetry. exact H. Qed.

Lemma dirs_o_some ds cd g t g' T : dirs_o ds cd g = Some (t, g', T) ->
  ds <> [] /\ t = cd /\ g' = g /\ T = (fun i => Pair R_Directives i (i + slen cd) (items_trees (map rdir_item ds) i)).
Proof. destruct ds as [|d r]; [discriminate|]. cbn [dirs_o]. intros E. inversion E. split; [discriminate|]. repeat split. Qed.

Lemma ws_opt_gap x o : (forall t g T, o = Some (t, g, T) -> ws g = true) -> ws (c_gap (opt_elt x o)) = true.
Proof. intros H. destruct o as [[[t g] T]|]; [exact (H t g T eq_refl)|reflexivity]. Qed.

Lemma name_head n : is_name n = true -> exists c t, n = c :: t /\ is_name_start c = true.
Proof. destruct n as [|c t]; [discriminate|]. intros H. unfold is_name in H. apply andb_true_iff in H. exists c, t. tauto. Qed.

Definition field_elts al n g1 ar ds cd sub Tf : list celt :=
  [opt_elt (Call R_Alias) (alias_o al); name_elt n g1; opt_elt (Call R_Arguments) (args_o ar);
   opt_elt (Call R_Directives) (dirs_o ds cd (dirs_tail ds)); opt_elt (Call R_SelectionSet) (sub_o sub Tf)].

Definition ss_runs (ss : rss) (Tf : N -> pr) : Prop :=
  forall rest i, runs G true ANon (Call R_SelectionSet) (ss_text ss ++ rest) i (Ok (rest, i + slen (ss_text ss), [Tf i])).
Definition dirs_run (ds : list rdir) (cd : str) : Prop :=
  ds <> [] -> forall k, follow_dirs ds k ->
  forall i, runs G true ANon (Call R_Directives) (cd ++ dirs_tail ds ++ k) i
    (Ok (dirs_tail ds ++ k, i + slen cd, [Pair R_Directives i (i + slen cd) (items_trees (map rdir_item ds) i)])).

Lemma field_chain al n g1 ar ds sub cd Tf k :
  wf_alias al = true -> is_name n = true -> ws g1 = true -> wf_oargs ar = true -> forallb rdir_wf ds = true ->
  dirs_text ds = cd ++ dirs_tail ds -> ws (dirs_tail ds) = true -> dirs_run ds cd ->
  (forall ss g, sub = Some (ss, g) -> ss_runs ss Tf) ->
  sel_follow k -> name_end_ok (sel_full (RField al n g1 ar ds sub)) k ->
  chain_ok (field_elts al n g1 ar ds cd sub Tf) (sub_gap sub ++ k).
Proof.
  intros Hal Hn Hg1 Har Hds Hcd Hgd Hdrun Hsub Hk Hend.
  pose proof Hk as [Hk1 Hk2].
  assert (Hk2' : hdP k (fun d => N.eqb 58 d = false /\ N.eqb 40 d = false /\ N.eqb 64 d = false /\ N.eqb 123 d = false)) by exact Hk2.
  set (K := sub_gap sub ++ k).
  set (R3 := sub_text sub ++ K). set (R2 := dirs_text ds ++ R3). set (R1 := oargs_text ar ++ R2).
  unfold field_elts.
  set (e1 := opt_elt (Call R_Alias) (alias_o al)). set (e2 := name_elt n g1). set (e3 := opt_elt (Call R_Arguments) (args_o ar)).
  set (e4 := opt_elt (Call R_Directives) (dirs_o ds cd (dirs_tail ds))). set (e5 := opt_elt (Call R_SelectionSet) (sub_o sub Tf)).
  assert (E5 : chain_txt [e5] K = R3) by (unfold e5; rewrite chain_txt_cons; cbn [chain_txt]; rewrite opt_elt_txt, sub_o_text; reflexivity).
  assert (E4 : chain_txt [e4; e5] K = R2) by (rewrite chain_txt_cons, E5; unfold e4; rewrite opt_elt_txt, (dirs_o_text ds cd (dirs_tail ds) Hcd); reflexivity).
  assert (E3 : chain_txt [e3; e4; e5] K = R1) by (rewrite chain_txt_cons, E4; unfold e3; rewrite opt_elt_txt, args_o_text; reflexivity).
  assert (E2 : chain_txt [e2; e3; e4; e5] K = n ++ g1 ++ R1) by (rewrite chain_txt_cons, E3; reflexivity).
  cbn [chain_ok]. rewrite E2, E3, E4, E5. cbn [chain_txt].
  unfold e1, e2, e3, e4, e5. cbn [name_elt c_text c_gap c_exp c_tree fst snd].
  (* head facts *)
  assert (Htok3 : at_token R3) by (apply (hd_sub sub k (fun d => is_wsc d = false /\ N.eqb d 35 = false)); [split; reflexivity|intros _; exact Hk1]).
  assert (Htok2 : at_token R2) by (apply (hd_dirs ds R3 (fun d => is_wsc d = false /\ N.eqb d 35 = false)); [split; reflexivity|intros _; exact Htok3]).
  assert (Htok1 : at_token R1) by (apply (hd_args ar R2 (fun d => is_wsc d = false /\ N.eqb d 35 = false)); [split; reflexivity|intros _; exact Htok2]).
  assert (Hnc : not_name_cont_next (g1 ++ R1)).
  { apply ws_then_not_name_cont; [exact Hg1|]. intros Eg.
    apply (hd_args ar R2 (fun d => is_name_cont d = false)); [reflexivity|]. intros Ea.
    apply (hd_dirs ds R3 (fun d => is_name_cont d = false)); [reflexivity|]. intros Ed.
    apply (hd_sub sub k (fun d => is_name_cont d = false)); [reflexivity|]. intros Es.
    apply Hend. subst g1 ar ds sub. cbn [sel_full oargs_text]. change (dirs_text []) with (@nil N). rewrite !app_nil_r.
    apply ends_name_app_name; exact Hn. }
  destruct (name_head n Hn) as [c0 [t0 [En Hc0]]].
  split; [apply ws_opt_gap; intros t g T E; destruct al as [[[a ga] gb]|]; [|discriminate]; inversion E; subst;
          cbn [wf_alias] in Hal; apply andb_true_iff in Hal; tauto|].
  split; [intros H; discriminate|].
  split; [intros _; rewrite En; cbn [app]; apply name_start_token; exact Hc0|].
  split.
  { apply opt_elt_runs.
    - intros t g T E i. destruct al as [[[a ga] gb]|]; [|discriminate]. inversion E; subst.
      cbn [wf_alias] in Hal. apply andb_true_iff in Hal. destruct Hal as [Hal Hgb]. apply andb_true_iff in Hal. destruct Hal as [Ha Hga].
      apply alias_runs; assumption.
    - intros E i. apply alias_fails; try assumption.
      apply (hd_args ar R2 (fun d => N.eqb 58 d = false)); [reflexivity|]. intros _.
      apply (hd_dirs ds R3 (fun d => N.eqb 58 d = false)); [reflexivity|]. intros _.
      apply (hd_sub sub k (fun d => N.eqb 58 d = false)); [reflexivity|]. intros _.
      destruct k; [exact I|apply Hk2']. }
  split; [exact Hg1|]. split; [intros H; discriminate|]. split; [intros _; exact Htok1|].
  split; [intros i; apply name_runs; [exact Hn|exact Hnc]|].
  split; [apply ws_opt_gap; intros t g T E; destruct ar as [[[g0 args] g2]|]; [|discriminate]; inversion E; subst;
          cbn [wf_oargs] in Har; apply andb_true_iff in Har; tauto|].
  split; [intros H; discriminate|]. split; [intros _; exact Htok2|].
  split.
  { apply opt_elt_runs.
    - intros t g T E i. destruct ar as [[[g0 args] g2]|]; [|discriminate]. inversion E; subst.
      cbn [wf_oargs] in Har. apply andb_true_iff in Har. destruct Har as [Har _]. apply arguments_runs; exact Har.
    - intros E i. apply arguments_fails.
      apply (hd_dirs ds R3 (fun d => N.eqb 40 d = false)); [reflexivity|]. intros _.
      apply (hd_sub sub k (fun d => N.eqb 40 d = false)); [reflexivity|]. intros _.
      destruct k; [exact I|apply Hk2']. }
  split; [apply ws_opt_gap; intros t g T E; destruct ds as [|d ds']; [discriminate|]; inversion E; subst; exact Hgd|].
  split; [intros H; discriminate|]. split; [intros _; exact Htok3|].
  split.
  { apply opt_elt_runs.
    - intros t g T E i. destruct (dirs_o_some _ _ _ _ _ _ E) as [Hne [-> [-> ->]]].
      apply Hdrun; [exact Hne|].
      apply (follow_dirs_sel ds sub k (sel_full (RField al n g1 ar ds sub))); [exact Hne|exact Hds|exact Hk| |exact Hend].
      intros Es x n' Hn' Hx. subst sub. cbn [sel_full]. rewrite Hx, app_nil_r.
      replace (alias_text al ++ n ++ g1 ++ oargs_text ar ++ x ++ n') with ((alias_text al ++ n ++ g1 ++ oargs_text ar ++ x) ++ n') by (rewrite <- !app_assoc; reflexivity).
      apply ends_name_app_name; exact Hn'.
    - intros E i. apply directives_fails.
      apply (hd_sub sub k (fun d => N.eqb 64 d = false)); [reflexivity|]. intros _.
      destruct k; [exact I|apply Hk2']. }
  split; [apply ws_opt_gap; intros t g T E; destruct sub as [[ss g']|]; [|discriminate]; inversion E; reflexivity|].
  split; [intros _; destruct sub as [[ss g']|]; reflexivity|]. split; [intros H; contradiction|].
  split; [|exact I].
  apply opt_elt_runs.
  - intros t g T E i. destruct sub as [[ss g']|] eqn:Es; [|discriminate]. inversion E; subst t g T. cbn [app]. apply (Hsub ss g' eq_refl).
  - intros E i. apply selectionset_fails. destruct sub as [[ss g']|]; [discriminate|]. unfold K. cbn [sub_gap app].
    destruct k; [exact I|apply Hk2'].
Qed.

Definition field_txt al n g1 ar ds sub : str :=
  alias_text al ++ n ++ g1 ++ oargs_text ar ++ dirs_text ds ++ sub_text sub.
Lemma sel_full_field al n g1 ar ds sub : sel_full (RField al n g1 ar ds sub) = field_txt al n g1 ar ds sub ++ sub_gap sub.
Proof. cbn [sel_full]. unfold field_txt. destruct sub as [[ss g]|]; cbn [sub_text sub_gap]; rewrite <- !app_assoc; reflexivity. Qed.

Lemma field_chain_txt al n g1 ar ds sub cd Tf K : dirs_text ds = cd ++ dirs_tail ds ->
  chain_txt (field_elts al n g1 ar ds cd sub Tf) K = field_txt al n g1 ar ds sub ++ K.
Proof.
  intros Hcd. unfold field_elts, field_txt. rewrite !chain_txt_cons. cbn [chain_txt].
  rewrite !opt_elt_txt, alias_o_text, args_o_text, sub_o_text, (dirs_o_text ds cd (dirs_tail ds) Hcd).
  cbn [name_elt c_text c_gap fst snd]. rewrite <- !app_assoc. reflexivity.
Qed.
Lemma field_chain_len al n g1 ar ds sub cd Tf : dirs_text ds = cd ++ dirs_tail ds ->
  chain_len (field_elts al n g1 ar ds cd sub Tf) = slen (field_txt al n g1 ar ds sub).
Proof.
  intros Hcd. unfold field_elts, field_txt. cbn [chain_len].
  rewrite !opt_elt_len, alias_o_text, args_o_text, sub_o_text, (dirs_o_text ds cd (dirs_tail ds) Hcd).
  cbn [name_elt c_text c_gap fst snd]. rewrite !slen_app. lia.
Qed.

Definition field_sel_tree al n g1 ar ds sub cd Tf (i : N) : pr :=
  let e := i + slen (field_txt al n g1 ar ds sub) in
  Pair R_Selection i e [Pair R_Field i e (chain_trees (field_elts al n g1 ar ds cd sub Tf) i)].

Lemma field_sel_runs al n g1 ar ds sub cd Tf k :
  wf_alias al = true -> is_name n = true -> ws g1 = true -> wf_oargs ar = true -> forallb rdir_wf ds = true ->
  dirs_text ds = cd ++ dirs_tail ds -> ws (dirs_tail ds) = true -> dirs_run ds cd ->
  (forall ss g, sub = Some (ss, g) -> ss_runs ss Tf) ->
  sel_follow k -> name_end_ok (sel_full (RField al n g1 ar ds sub)) k ->
  forall i, runs G true ANon (Call R_Selection) (field_txt al n g1 ar ds sub ++ sub_gap sub ++ k) i
    (Ok (sub_gap sub ++ k, i + slen (field_txt al n g1 ar ds sub), [field_sel_tree al n g1 ar ds sub cd Tf i])).
Proof.
  intros Hal Hn Hg1 Har Hds Hcd Hgd Hdrun Hsub Hk Hend i.
  pose proof (field_chain al n g1 ar ds sub cd Tf k Hal Hn Hg1 Har Hds Hcd Hgd Hdrun Hsub Hk Hend) as Hok.
  assert (Hne : field_elts al n g1 ar ds cd sub Tf <> []) by (unfold field_elts; discriminate).
  pose proof (chain_runs _ _ Hne Hok i) as H.
  rewrite (field_chain_txt al n g1 ar ds sub cd Tf _ Hcd), (field_chain_len al n g1 ar ds sub cd Tf Hcd) in H.
  unfold field_elts at 1 in H. cbn [map seqs] in H. rewrite !c_exp_opt in H. cbn [name_elt c_exp fst] in H.
  unfold field_sel_tree. cbn zeta.
  enter_rec_n R_Selection. apply runs_Alt_l. enter_rec_n R_Field. exact H.
Qed.

(** ** the builder on the parts of a field *)
Lemma chain_trees_cons c r i : chain_trees (c :: r) i = c_tree c i ++ chain_trees r (i + slen (c_text c) + slen (c_gap c)).
Proof. reflexivity. Qed.
Lemma c_tree_name n g1 j : c_tree (name_elt n g1) j = [Pair R_Name j (j + slen n) []].
Proof. reflexivity. Qed.
Lemma name_elt_len n g1 : slen (c_text (name_elt n g1)) + slen (c_gap (name_elt n g1)) = slen n + slen g1.
Proof. reflexivity. Qed.

Definition alias_name (al : option (str * str * str)) : option str := match al with Some (a, _, _) => Some a | None => None end.
Lemma alias_build al pre post file : exists al',
  omapM (fun a => only_child a (fun n => BOk (to_ident (pre ++ alias_text al ++ post) file n))) (o_pair (alias_o al) (slen pre)) = BOk al'
  /\ option_map iname al' = alias_name al.
Proof.
  destruct al as [[[a ga] gb]|]; [|exists None; split; reflexivity].
  cbn [alias_o o_pair omapM alias_text alias_name]. unfold alias_tree, only_child. cbn [pair_kids].
  eexists (Some _). split; [reflexivity|]. cbn [option_map to_ident iname]. f_equal.
  unfold as_str. cbn [pair_start pair_end]. rewrite <- !app_assoc. apply substr_mid.
Qed.

Definition oargs_erase (ar : option (str * list fld * str)) : option (list (str * aval)) :=
  match ar with Some (_, args, _) => Some (erase_args args) | None => None end.
Lemma args_build ar pre post file : exists ar',
  omapM (build_arguments (pre ++ oargs_text ar ++ post) file) (o_pair (args_o ar) (slen pre)) = BOk ar'
  /\ option_map args_erase ar' = oargs_erase ar.
Proof.
  destruct ar as [[[g0 args] g2]|]; [|exists None; split; reflexivity].
  cbn [args_o o_pair omapM oargs_text oargs_erase]. rewrite <- app_assoc.
  destruct (build_arguments_ok g0 args pre (g2 ++ post) file) as [a [Hb He]]. rewrite Hb.
  exists (Some a). split; [reflexivity|]. cbn [option_map]. rewrite He. reflexivity.
Qed.

Lemma dirs_build ds cd g pre post file : exists l,
  build_directives_opt (pre ++ dirs_text ds ++ post) file (o_pair (dirs_o ds cd g) (slen pre)) = BOk l
  /\ map dir_erase l = map rdir_erase ds.
Proof.
  destruct ds as [|d r]; [exists []; split; reflexivity|].
  cbn [dirs_o o_pair build_directives_opt]. apply build_directives_ok.
Qed.

Definition ss_builds (ss : rss) (Tf : N -> pr) : Prop :=
  forall pre rest file, exists ss', build_selection_set (pre ++ ss_text ss ++ rest) file (Tf (slen pre)) = BOk ss' /\ ss_erase ss' = erase_ss ss.

Definition sub_erase (sub : option (rss * str)) : option (list asel) := match sub with Some (ss, _) => Some (erase_ss ss) | None => None end.
Lemma sub_build sub Tf pre post file : (forall ss g, sub = Some (ss, g) -> ss_builds ss Tf) -> exists sub',
  match o_pair (sub_o sub Tf) (slen pre) with
  | Some s => bbind (build_selection_set (pre ++ sub_text sub ++ post) file s) (fun r => BOk (Some r))
  | None => BOk None
  end = BOk sub'
  /\ option_map ss_erase sub' = sub_erase sub.
Proof.
  intros H. destruct sub as [[ss g]|]; [|exists None; split; reflexivity].
  cbn [sub_o o_pair sub_text sub_erase]. destruct (H ss g eq_refl pre post file) as [ss' [Hb He]]. rewrite Hb.
  exists (Some ss'). split; [reflexivity|]. cbn [option_map]. rewrite He. reflexivity.
Qed.

Lemma erase_sels_fix sels : (fix go (l : list rsel) := match l with [] => [] | x :: r => erase_sel x :: go r end) sels = map erase_sel sels.
Proof. induction sels as [|s r IH]; [reflexivity|]. cbn [map]. rewrite <- IH. reflexivity. Qed.
Lemma sel_erase_fix l : (fix go (l : list selection) := match l with [] => [] | x :: r => sel_erase x :: go r end) l = map sel_erase l.
Proof. induction l as [|s r IH]; [reflexivity|]. cbn [map]. rewrite <- IH. reflexivity. Qed.

Lemma erase_field al n g1 ar ds sub :
  erase_sel (RField al n g1 ar ds sub) = AField (alias_name al) n (oargs_erase ar) (map rdir_erase ds) (sub_erase sub).
Proof.
  cbn [erase_sel]. f_equal.
  destruct sub as [[[g0 sels] g]|]; [|reflexivity]. rewrite erase_sels_fix. reflexivity.
Qed.
Lemma sel_erase_field al n ar ds sub :
  sel_erase (SField al n ar ds sub) = AField (option_map iname al) (iname n) (option_map args_erase ar) (map dir_erase ds) (option_map ss_erase sub).
Proof.
  cbn [sel_erase]. f_equal. destruct sub as [[p l]|]; [|reflexivity]. rewrite sel_erase_fix. reflexivity.
Qed.

Lemma field_build al n g1 ar ds sub cd Tf pre rest file :
  dirs_text ds = cd ++ dirs_tail ds ->
  (forall ss g, sub = Some (ss, g) -> (forall i, pair_rule (Tf i) = R_SelectionSet) /\ ss_builds ss Tf) ->
  exists sel', build_selection_fn (pre ++ field_txt al n g1 ar ds sub ++ rest) file (field_sel_tree al n g1 ar ds sub cd Tf (slen pre)) = BOk sel'
               /\ sel_erase sel' = erase_sel (RField al n g1 ar ds sub).
Proof.
  intros Hcd Hsub.
  set (inp := pre ++ field_txt al n g1 ar ds sub ++ rest).
  set (e1 := opt_elt (Call R_Alias) (alias_o al)). set (e3 := opt_elt (Call R_Arguments) (args_o ar)).
  set (e4 := opt_elt (Call R_Directives) (dirs_o ds cd (dirs_tail ds))). set (e5 := opt_elt (Call R_SelectionSet) (sub_o sub Tf)).
  pose proof (opt_elt_len (Call R_Alias) (alias_o al)) as L1. rewrite alias_o_text in L1. fold e1 in L1.
  pose proof (opt_elt_len (Call R_Arguments) (args_o ar)) as L3. rewrite args_o_text in L3. fold e3 in L3.
  pose proof (opt_elt_len (Call R_Directives) (dirs_o ds cd (dirs_tail ds))) as L4. rewrite (dirs_o_text ds cd (dirs_tail ds) Hcd) in L4. fold e4 in L4.
  set (o2 := slen pre + slen (c_text e1) + slen (c_gap e1)).
  set (o3 := o2 + slen (c_text (name_elt n g1)) + slen (c_gap (name_elt n g1))).
  set (o4 := o3 + slen (c_text e3) + slen (c_gap e3)).
  set (o5 := o4 + slen (c_text e4) + slen (c_gap e4)).
  (* the input around each part *)
  assert (HA : inp = pre ++ alias_text al ++ (n ++ g1 ++ oargs_text ar ++ dirs_text ds ++ sub_text sub ++ rest))
    by (unfold inp, field_txt; rewrite <- !app_assoc; reflexivity).
  assert (HN : inp = (pre ++ alias_text al) ++ n ++ (g1 ++ oargs_text ar ++ dirs_text ds ++ sub_text sub ++ rest))
    by (unfold inp, field_txt; rewrite <- !app_assoc; reflexivity).
  assert (HB : inp = (pre ++ alias_text al ++ n ++ g1) ++ oargs_text ar ++ (dirs_text ds ++ sub_text sub ++ rest))
    by (unfold inp, field_txt; rewrite <- !app_assoc; reflexivity).
  assert (HC : inp = (pre ++ alias_text al ++ n ++ g1 ++ oargs_text ar) ++ dirs_text ds ++ (sub_text sub ++ rest))
    by (unfold inp, field_txt; rewrite <- !app_assoc; reflexivity).
  assert (HD : inp = (pre ++ alias_text al ++ n ++ g1 ++ oargs_text ar ++ dirs_text ds) ++ sub_text sub ++ rest)
    by (unfold inp, field_txt; rewrite <- !app_assoc; reflexivity).
  assert (O2 : o2 = slen (pre ++ alias_text al)) by (unfold o2; rewrite slen_app; lia).
  assert (O3 : o3 = slen (pre ++ alias_text al ++ n ++ g1)) by (pose proof (name_elt_len n g1) as L2; unfold o3; rewrite O2, !slen_app; lia).
  assert (O4 : o4 = slen (pre ++ alias_text al ++ n ++ g1 ++ oargs_text ar)) by (unfold o4; rewrite O3, !slen_app; lia).
  assert (O5 : o5 = slen (pre ++ alias_text al ++ n ++ g1 ++ oargs_text ar ++ dirs_text ds)) by (unfold o5; rewrite O4, !slen_app; lia).
  destruct (alias_build al pre (n ++ g1 ++ oargs_text ar ++ dirs_text ds ++ sub_text sub ++ rest) file) as [al' [A1 A2]]. rewrite <- HA in A1.
  destruct (args_build ar (pre ++ alias_text al ++ n ++ g1) (dirs_text ds ++ sub_text sub ++ rest) file) as [ar' [B1 B2]]. rewrite <- HB, <- O3 in B1.
  destruct (dirs_build ds cd (dirs_tail ds) (pre ++ alias_text al ++ n ++ g1 ++ oargs_text ar) (sub_text sub ++ rest) file) as [ds' [C1 C2]]. rewrite <- HC, <- O4 in C1.
  destruct (sub_build sub Tf (pre ++ alias_text al ++ n ++ g1 ++ oargs_text ar ++ dirs_text ds) rest file (fun ss g E => proj2 (Hsub ss g E))) as [sub' [D1 D2]]. rewrite <- HD, <- O5 in D1.
  assert (Hname : iname (to_ident inp file (Pair R_Name o2 (o2 + slen n) [])) = n).
  { cbn [to_ident iname]. unfold as_str. cbn [pair_start pair_end]. rewrite O2, HN. apply substr_mid. }
  exists (SField al' (to_ident inp file (Pair R_Name o2 (o2 + slen n) [])) ar' ds' sub').
  split; [|rewrite sel_erase_field, erase_field, A2, B2, C2, D2, Hname; reflexivity].
  unfold field_sel_tree, field_elts. cbn zeta. unfold build_selection_fn.
  rewrite !chain_trees_cons. cbn [chain_trees]. fold e1 e3 e4 e5. fold o2. fold o3. fold o4. fold o5. rewrite c_tree_name, app_nil_r.
  assert (Htf : forall j (Q : pr -> Prop), (forall ss g, sub = Some (ss, g) -> Q (Tf j)) -> hdR (c_tree e5 j) Q).
  { intros j Q HQ. rewrite <- (app_nil_r (c_tree e5 j)). apply hdR_opt; [|intros _; exact I].
    intros t g T E. destruct sub as [[ss g']|]; [|discriminate]. inversion E; subst. exact (HQ ss g' eq_refl). }
  assert (Hrule : forall r j, r <> R_SelectionSet -> forall ss g, sub = Some (ss, g) -> is_rule r (Tf j) = false).
  { intros r j Hr ss g E. unfold is_rule. rewrite (proj1 (Hsub ss g E) j). destruct r; try reflexivity. contradiction. }
  unfold e1. rewrite (slot_opt_elt R_Alias).
  2:{ intros t g T E. destruct al as [[[a ga] gb]|]; [|discriminate]. inversion E; subst. reflexivity. }
  2:{ intros _. reflexivity. }
  cbn [app]. rewrite (slot_req_hit R_Name) by reflexivity.
  unfold e3. rewrite (slot_opt_elt R_Arguments).
  2:{ intros t g T E. destruct ar as [[[g0 args] g2]|]; [|discriminate]. inversion E; subst. reflexivity. }
  2:{ intros _. apply hdR_opt.
      - intros t g T E. destruct (dirs_o_some _ _ _ _ _ _ E) as [_ [_ [_ ->]]]. reflexivity.
      - intros _. apply Htf. intros ss g E. eapply (Hrule R_Arguments); [discriminate|exact E]. }
  unfold e4. rewrite (slot_opt_elt R_Directives).
  2:{ intros t g T E. destruct (dirs_o_some _ _ _ _ _ _ E) as [_ [_ [_ ->]]]. reflexivity. }
  2:{ intros _. apply Htf. intros ss g E. eapply (Hrule R_Directives); [discriminate|exact E]. }
  rewrite <- (app_nil_r (c_tree e5 o5)). unfold e5. rewrite (slot_opt_elt R_SelectionSet).
  2:{ intros t g T E. destruct sub as [[ss g']|]; [|discriminate]. inversion E; subst. unfold is_rule. rewrite (proj1 (Hsub ss g' eq_refl) o5). reflexivity. }
  2:{ intros _. exact I. }
  fold inp. rewrite A1. cbn [bbind]. rewrite B1. cbn [bbind]. rewrite C1. cbn [bbind]. rewrite D1. reflexivity.
Qed.

(** the validation pass on chains *)
Fixpoint chain_valid (l : list celt) (k : str) : Prop :=
  match l with
  | [] => True
  | c :: r => (forall pre, Forall (valid (pre ++ c_text c ++ c_gap c ++ chain_txt r k)) (c_tree c (slen pre))) /\ chain_valid r k
  end.
Lemma chain_trees_valid : forall l k, chain_valid l k -> forall pre, Forall (valid (pre ++ chain_txt l k)) (chain_trees l (slen pre)).
Proof.
  induction l as [|c r IH]; intros k H pre; [constructor|]. destruct H as [Hc Hr]. cbn [chain_txt chain_trees]. apply Forall_app. split; [apply Hc|].
  replace (pre ++ c_text c ++ c_gap c ++ chain_txt r k) with ((pre ++ c_text c ++ c_gap c) ++ chain_txt r k) by (rewrite <- !app_assoc; reflexivity).
  replace (slen pre + slen (c_text c) + slen (c_gap c)) with (slen (pre ++ c_text c ++ c_gap c)) by (rewrite !slen_app; lia).
  apply IH; exact Hr.
Qed.
Lemma opt_elt_valid x o X :
  (forall t g T, o = Some (t, g, T) -> forall pre, valid (pre ++ t ++ g ++ X) (T (slen pre))) ->
  forall pre, Forall (valid (pre ++ c_text (opt_elt x o) ++ c_gap (opt_elt x o) ++ X)) (c_tree (opt_elt x o) (slen pre)).
Proof.
  intros H pre. destruct o as [[[t g] T]|]; cbn [opt_elt c_text c_gap c_tree fst snd]; [|constructor].
  constructor; [apply (H t g T eq_refl)|constructor].
Qed.
Definition ss_valid (ss : rss) (Tf : N -> pr) : Prop := forall pre rest, valid (pre ++ ss_text ss ++ rest) (Tf (slen pre)).

Lemma dirs_o_valid ds cd g X : dirs_text ds = cd ++ g ->
  forall t g' T, dirs_o ds cd g = Some (t, g', T) -> forall pre, valid (pre ++ t ++ g' ++ X) (T (slen pre)).
Proof.
  intros Hcd t g' T E pre. destruct (dirs_o_some _ _ _ _ _ _ E) as [_ [-> [-> ->]]].
  replace (pre ++ cd ++ g ++ X) with (pre ++ dirs_text ds ++ X) by (rewrite Hcd, <- !app_assoc; reflexivity).
  apply directives_pair_valid.
Qed.

Lemma field_valid al n g1 ar ds sub cd Tf pre rest :
  dirs_text ds = cd ++ dirs_tail ds -> (forall ss g, sub = Some (ss, g) -> ss_valid ss Tf) ->
  valid (pre ++ field_txt al n g1 ar ds sub ++ sub_gap sub ++ rest) (field_sel_tree al n g1 ar ds sub cd Tf (slen pre)).
Proof.
  intros Hcd Hsub. unfold field_sel_tree. cbn zeta.
  apply valid_node; [discriminate|]. constructor; [|constructor]. apply valid_node; [discriminate|].
  rewrite <- (field_chain_txt al n g1 ar ds sub cd Tf _ Hcd). apply chain_trees_valid.
  unfold field_elts. cbn [chain_valid]. repeat split.
  - apply opt_elt_valid. intros t g T E pre'. destruct al as [[[a ga] gb]|]; [|discriminate]. inversion E; subst.
    unfold alias_tree. apply valid_node; [discriminate|]. constructor; [apply leaf_valid; discriminate|constructor].
  - intros pre'. cbn [name_elt c_tree snd]. constructor; [apply leaf_valid; discriminate|constructor].
  - apply opt_elt_valid. intros t g T E pre'. destruct ar as [[[g0 args] g2]|]; [|discriminate]. inversion E; subst. apply args_tree_valid.
  - apply opt_elt_valid. apply dirs_o_valid; exact Hcd.
  - apply opt_elt_valid. intros t g T E pre'. destruct sub as [[ss g']|]; [|discriminate]. inversion E; subst. cbn [app]. apply (Hsub ss g' eq_refl).
Qed.

Lemma field_ok al n g1 ar ds sub :
  wf_alias al = true -> is_name n = true -> ws g1 = true -> wf_oargs ar = true -> forallb rdir_wf ds = true -> ws (sub_gap sub) = true ->
  (forall ss g, sub = Some (ss, g) -> ss_ok ss) ->
  sel_ok (RField al n g1 ar ds sub).
Proof.
  intros Hal Hn Hg1 Har Hds Hsg Hsub.
  destruct (dirs_split' ds Hds) as [cd [Hcd [Hgd [_ [_ Hdrun]]]]].
  assert (HT : exists Tf, forall ss g, sub = Some (ss, g) -> (forall i, pair_rule (Tf i) = R_SelectionSet) /\ ss_runs ss Tf /\ ss_builds ss Tf /\ ss_valid ss Tf).
  { destruct sub as [[ss g]|].
    - destruct (Hsub ss g eq_refl) as [Tf [H1 [H2 [H3 H4]]]]. exists Tf. intros ss0 g0 E. inversion E; subst. repeat split; assumption.
    - exists (fun i => Pair R_EOI i i []). intros ss g E. discriminate. }
  destruct HT as [Tf HT].
  exists (field_txt al n g1 ar ds sub), (sub_gap sub), (field_sel_tree al n g1 ar ds sub cd Tf).
  split; [symmetry; apply sel_full_field|]. split; [exact Hsg|]. split.
  { unfold field_txt. destruct al as [[[a ga] gb]|].
    - cbn [wf_alias] in Hal. apply andb_true_iff in Hal. destruct Hal as [Hal _]. apply andb_true_iff in Hal. destruct Hal as [Ha _].
      destruct (name_head a Ha) as [c [t [-> Hc]]]. cbn [alias_text app]. eexists; eexists; split; [reflexivity|left; exact Hc].
    - destruct (name_head n Hn) as [c [t [-> Hc]]]. cbn [alias_text app]. eexists; eexists; split; [reflexivity|left; exact Hc]. }
  split; [intros i; reflexivity|]. split.
  - intros k i Hk Hend. apply field_sel_runs; try assumption. intros ss g E. apply (HT ss g E).
  - split.
    + intros pre rest file. apply (field_build al n g1 ar ds sub cd Tf pre (sub_gap sub ++ rest) file); [exact Hcd|]. intros ss g E. destruct (HT ss g E) as [H1 [_ [H3 _]]]. split; assumption.
    + intros pre rest. apply field_valid; [exact Hcd|]. intros ss g E. apply (HT ss g E).
Qed.

(** ** fragment spreads *)
Lemma field_fails_dot t i : runs G true ANon (Call R_Field) (46 :: t) i Fail.
Proof.
  enter_fail_n R_Field.
  eapply (runs_SeqS_fail2 gse gse_eq).
  - apply runs_Opt_none. enter_fail_n R_Alias. apply (runs_SeqS_fail1 gse gse_eq). apply name_fails; reflexivity.
  - apply (skip_ws [] (46 :: t) i eq_refl). split; reflexivity.
  - apply (runs_SeqS_fail1 gse gse_eq). apply name_fails; reflexivity.
Qed.

Definition fragname_tree (n : str) (j : N) : pr := Pair R_FragmentName j (j + slen n) [Pair R_Name j (j + slen n) []].

Lemma fragname_runs n rest i : is_name n = true -> str_neq n K_on = true -> not_name_cont_next rest ->
  runs G true ANon (Call R_FragmentName) (n ++ rest) i (Ok (rest, i + slen n, [fragname_tree n i])).
Proof.
  intros Hn Hon Hr. unfold fragname_tree. enter_rec_n R_FragmentName.
  destruct (name_head n Hn) as [c [t [En Hc]]].
  replace [Pair R_Name i (i + slen n) []] with (@nil pr ++ @nil pr ++ [Pair R_Name i (i + slen n) []]) by reflexivity.
  eapply (runs_SeqS_ok gse gse_eq).
  - apply runs_Not_ok. eapply keyword_fails_name; [reflexivity|reflexivity|apply name_chars; exact Hn|apply str_neq_ne; exact Hon|exact Hr].
  - apply (skip_ws [] (n ++ rest) i eq_refl). rewrite En. cbn [app]. apply name_start_token; exact Hc.
  - change (i + slen []) with (i + 0). rewrite N.add_0_r. apply name_runs; assumption.
Qed.

Definition spread_elts g n w ds cd : list celt :=
  [(Lit dots, dots, g, fun _ => []); (Call R_FragmentName, n, w, fun j => [fragname_tree n j]);
   opt_elt (Call R_Directives) (dirs_o ds cd [])].
Definition spread_txt g n w cd : str := dots ++ g ++ n ++ w ++ cd.

Lemma spread_tail ds cd k : dirs_text ds = cd ++ dirs_tail ds ->
  chain_txt [opt_elt (Call R_Directives) (dirs_o ds cd [])] (dirs_tail ds ++ k) = dirs_text ds ++ k.
Proof.
  intros Hcd. rewrite chain_txt_cons. cbn [chain_txt]. rewrite opt_elt_txt.
  destruct ds as [|d r]; [reflexivity|]. cbn [dirs_o o_text]. rewrite Hcd, app_nil_r, <- app_assoc. reflexivity.
Qed.

Lemma spread_chain g n w ds cd k :
  ws g = true -> is_name n = true -> str_neq n K_on = true -> ws w = true -> forallb rdir_wf ds = true ->
  dirs_text ds = cd ++ dirs_tail ds -> (ds = [] -> cd = []) -> dirs_run ds cd ->
  sel_follow k -> name_end_ok (sel_full (RSpread g n w ds)) k ->
  chain_ok (spread_elts g n w ds cd) (dirs_tail ds ++ k).
Proof.
  intros Hg Hn Hon Hw Hds Hcd Hcd0 Hdrun Hk Hend.
  pose proof Hk as [Hk1 Hk2].
  assert (Hk2' : hdP k (fun d => N.eqb 58 d = false /\ N.eqb 40 d = false /\ N.eqb 64 d = false /\ N.eqb 123 d = false)) by exact Hk2.
  unfold spread_elts.
  set (e3 := opt_elt (Call R_Directives) (dirs_o ds cd [])).
  assert (E3 : chain_txt [e3] (dirs_tail ds ++ k) = dirs_text ds ++ k) by (apply spread_tail; exact Hcd).
  set (e2 := (Call R_FragmentName, n, w, fun j => [fragname_tree n j])).
  assert (E2 : chain_txt [e2; e3] (dirs_tail ds ++ k) = n ++ w ++ dirs_text ds ++ k) by (rewrite chain_txt_cons, E3; reflexivity).
  cbn [chain_ok]. rewrite E2, E3. cbn [chain_txt]. unfold e2. cbn [c_text c_gap c_exp c_tree fst snd].
  destruct (name_head n Hn) as [c0 [t0 [En Hc0]]].
  assert (Htokd : at_token (dirs_text ds ++ k)) by (apply (hd_dirs ds k (fun d => is_wsc d = false /\ N.eqb d 35 = false)); [split; reflexivity|intros _; exact Hk1]).
  split; [exact Hg|]. split; [intros H; discriminate|]. split; [intros _; rewrite En; cbn [app]; apply name_start_token; exact Hc0|].
  split; [intros i; exact (runs_Lit_ok G true ANon dots (g ++ n ++ w ++ dirs_text ds ++ k) i)|].
  split; [exact Hw|]. split; [intros H; discriminate|]. split; [intros _; exact Htokd|].
  split.
  { intros i. apply fragname_runs; [exact Hn|exact Hon|].
    apply ws_then_not_name_cont; [exact Hw|]. intros Ew.
    apply (hd_dirs ds k (fun d => is_name_cont d = false)); [reflexivity|]. intros Ed.
    apply Hend. subst w ds. cbn [sel_full]. change (dirs_text []) with (@nil N). rewrite !app_nil_r.
    replace (dots ++ g ++ n) with ((dots ++ g) ++ n) by (rewrite <- app_assoc; reflexivity). apply ends_name_app_name; exact Hn. }
  split; [apply ws_opt_gap; intros t g' T E; destruct (dirs_o_some _ _ _ _ _ _ E) as [_ [_ [-> _]]]; reflexivity|].
  split; [intros _; unfold e3; destruct ds; reflexivity|]. split; [intros H; contradiction|].
  split; [|exact I].
  unfold e3. apply opt_elt_runs.
  - intros t g' T E i. destruct (dirs_o_some _ _ _ _ _ _ E) as [Hne [-> [-> ->]]]. cbn [app].
    apply Hdrun; [exact Hne|].
    apply (follow_dirs_sel ds None k (sel_full (RSpread g n w ds))); [exact Hne|exact Hds|exact Hk| |exact Hend].
    intros _ x n' Hn' Hx. cbn [sel_full]. rewrite Hx.
    replace (dots ++ g ++ n ++ w ++ x ++ n') with ((dots ++ g ++ n ++ w ++ x) ++ n') by (rewrite <- !app_assoc; reflexivity).
    apply ends_name_app_name; exact Hn'.
  - intros E i. apply directives_fails. destruct ds as [|d r]; [|discriminate]. cbn [dirs_tail app].
    destruct k; [exact I|apply Hk2'].
Qed.

Lemma dirs_o_text0 ds cd : (ds = [] -> cd = []) -> o_text (dirs_o ds cd []) = cd.
Proof. intros H. destruct ds as [|d r]; [symmetry; exact (H eq_refl)|]. cbn [dirs_o o_text]. apply app_nil_r. Qed.

Definition spread_sel_tree g n w ds cd (i : N) : pr :=
  let e := i + slen (spread_txt g n w cd) in
  Pair R_Selection i e [Pair R_FragmentSpread i e (chain_trees (spread_elts g n w ds cd) i)].

Lemma spread_sel_runs g n w ds cd k :
  ws g = true -> is_name n = true -> str_neq n K_on = true -> ws w = true -> forallb rdir_wf ds = true ->
  dirs_text ds = cd ++ dirs_tail ds -> (ds = [] -> cd = []) -> dirs_run ds cd ->
  sel_follow k -> name_end_ok (sel_full (RSpread g n w ds)) k ->
  forall i, runs G true ANon (Call R_Selection) (spread_txt g n w cd ++ dirs_tail ds ++ k) i
    (Ok (dirs_tail ds ++ k, i + slen (spread_txt g n w cd), [spread_sel_tree g n w ds cd i])).
Proof.
  intros Hg Hn Hon Hw Hds Hcd Hcd0 Hdrun Hk Hend i.
  pose proof (spread_chain g n w ds cd k Hg Hn Hon Hw Hds Hcd Hcd0 Hdrun Hk Hend) as Hok.
  assert (Hne : spread_elts g n w ds cd <> []) by (unfold spread_elts; discriminate).
  pose proof (chain_runs _ _ Hne Hok i) as H.
  assert (Htxt : chain_txt (spread_elts g n w ds cd) (dirs_tail ds ++ k) = spread_txt g n w cd ++ dirs_tail ds ++ k).
  { unfold spread_elts. do 2 rewrite chain_txt_cons. rewrite (spread_tail ds cd k Hcd). cbn [c_text c_gap fst snd].
    unfold spread_txt. rewrite Hcd, <- !app_assoc. reflexivity. }
  assert (Hlen : chain_len (spread_elts g n w ds cd) = slen (spread_txt g n w cd)).
  { unfold spread_elts, spread_txt. cbn [chain_len]. rewrite opt_elt_len, (dirs_o_text0 ds cd Hcd0). cbn [c_text c_gap fst snd]. rewrite !slen_app. lia. }
  rewrite Htxt, Hlen in H.
  unfold spread_elts at 1 in H. cbn [map seqs] in H. rewrite c_exp_opt in H. cbn [c_exp fst] in H.
  unfold spread_sel_tree. cbn zeta.
  enter_rec_n R_Selection. unfold spread_txt, dots. cbn [app].
  apply runs_Alt_r; [apply field_fails_dot|]. apply runs_Alt_l. enter_rec_n R_FragmentSpread. exact H.
Qed.

Lemma spread_build g n w ds cd pre rest file :
  dirs_text ds = cd ++ dirs_tail ds ->
  exists sel', build_selection_fn (pre ++ spread_txt g n w cd ++ dirs_tail ds ++ rest) file (spread_sel_tree g n w ds cd (slen pre)) = BOk sel'
               /\ sel_erase sel' = erase_sel (RSpread g n w ds).
Proof.
  intros Hcd.
  set (inp := pre ++ spread_txt g n w cd ++ dirs_tail ds ++ rest).
  assert (HN : inp = (pre ++ dots ++ g) ++ n ++ (w ++ dirs_text ds ++ rest))
    by (unfold inp, spread_txt; rewrite Hcd, <- !app_assoc; reflexivity).
  assert (HC : inp = (pre ++ dots ++ g ++ n ++ w) ++ dirs_text ds ++ rest)
    by (unfold inp, spread_txt; rewrite Hcd, <- !app_assoc; reflexivity).
  unfold spread_sel_tree, spread_elts. cbn zeta. unfold build_selection_fn.
  rewrite !chain_trees_cons. cbn [chain_trees]. rewrite app_nil_r.
  set (e3 := opt_elt (Call R_Directives) (dirs_o ds cd [])).
  cbn [c_tree c_text c_gap fst snd app].
  set (o2 := slen pre + slen dots + slen g). set (o3 := o2 + slen n + slen w).
  assert (O2 : o2 = slen (pre ++ dots ++ g)) by (unfold o2; rewrite !slen_app; lia).
  assert (O3 : o3 = slen (pre ++ dots ++ g ++ n ++ w)) by (unfold o3; rewrite O2, !slen_app; lia).
  destruct (dirs_build ds cd [] (pre ++ dots ++ g ++ n ++ w) rest file) as [ds' [C1 C2]]. rewrite <- HC, <- O3 in C1.
  rewrite (slot_req_hit R_FragmentName) by reflexivity.
  rewrite <- (app_nil_r (c_tree e3 o3)). unfold e3. rewrite (slot_opt_elt R_Directives).
  2:{ intros t g' T E. destruct (dirs_o_some _ _ _ _ _ _ E) as [_ [_ [_ ->]]]. reflexivity. }
  2:{ intros _. exact I. }
  fold inp. rewrite C1. cbn [bbind].
  eexists. split; [reflexivity|]. cbn [sel_erase erase_sel to_ident iname]. rewrite C2. f_equal.
  unfold as_str, fragname_tree. cbn [pair_start pair_end]. rewrite O2, HN. apply substr_mid.
Qed.

Lemma spread_valid g n w ds cd pre rest : dirs_text ds = cd ++ dirs_tail ds ->
  valid (pre ++ spread_txt g n w cd ++ dirs_tail ds ++ rest) (spread_sel_tree g n w ds cd (slen pre)).
Proof.
  intros Hcd. unfold spread_sel_tree. cbn zeta.
  apply valid_node; [discriminate|]. constructor; [|constructor]. apply valid_node; [discriminate|].
  assert (Htxt : spread_txt g n w cd ++ dirs_tail ds ++ rest = chain_txt (spread_elts g n w ds cd) (dirs_tail ds ++ rest)).
  { unfold spread_elts. do 2 rewrite chain_txt_cons. rewrite (spread_tail ds cd rest Hcd). cbn [c_text c_gap fst snd].
    unfold spread_txt. rewrite Hcd, <- !app_assoc. reflexivity. }
  rewrite Htxt. apply chain_trees_valid. unfold spread_elts. cbn [chain_valid]. repeat split.
  - intros pre'. constructor.
  - intros pre'. cbn [c_tree snd]. constructor; [|constructor]. unfold fragname_tree. apply valid_node; [discriminate|]. constructor; [apply leaf_valid; discriminate|constructor].
  - cbn [chain_txt]. apply opt_elt_valid. intros t g' T E pre'. destruct (dirs_o_some _ _ _ _ _ _ E) as [_ [-> [-> ->]]]. cbn [app].
    replace (pre' ++ cd ++ dirs_tail ds ++ rest) with (pre' ++ dirs_text ds ++ rest) by (rewrite Hcd, <- !app_assoc; reflexivity).
    apply directives_pair_valid.
Qed.

Lemma spread_ok g n w ds :
  ws g = true -> is_name n = true -> str_neq n K_on = true -> ws w = true -> forallb rdir_wf ds = true ->
  sel_ok (RSpread g n w ds).
Proof.
  intros Hg Hn Hon Hw Hds.
  destruct (dirs_split' ds Hds) as [cd [Hcd [Hgd [Hcd0 [_ Hdrun]]]]].
  exists (spread_txt g n w cd), (dirs_tail ds), (spread_sel_tree g n w ds cd).
  split; [cbn [sel_full]; unfold spread_txt; rewrite Hcd, <- !app_assoc; reflexivity|]. split; [exact Hgd|].
  split; [unfold spread_txt, dots; cbn [app]; eexists; eexists; split; [reflexivity|right; reflexivity]|].
  split; [intros i; reflexivity|]. split.
  - intros k i Hk Hend. apply spread_sel_runs; assumption.
  - split; [intros pre rest file; apply spread_build; exact Hcd|intros pre rest; apply spread_valid; exact Hcd].
Qed.

(** ** inline fragments *)
Definition wf_cond (c : option (str * str * str)) : bool :=
  match c with Some (gc, t, gt) => ws gc && negb (match gc with [] => true | _ => false end) && is_name t && ws gt | None => true end.
Definition typecond_tree (gc t : str) (j : N) : pr :=
  Pair R_TypeCondition j (j + slen (K_on ++ gc ++ t))
    [Pair R_KEYWORD_on j (j + slen K_on) []; core_tree (RNamed t) (j + slen K_on + slen gc)].
Definition cond_o (c : option (str * str * str)) : oelt :=
  match c with Some (gc, t, gt) => Some (K_on ++ gc ++ t, gt, typecond_tree gc t) | None => None end.
Lemma cond_o_text c : o_text (cond_o c) = cond_text c.
Proof. destruct c as [[[gc t] gt]|]; [|reflexivity]. cbn [cond_o o_text cond_text]. rewrite <- !app_assoc. reflexivity. Qed.

Lemma hd_cond c R (P : N -> Prop) : P 111 -> (c = None -> hdP R P) -> hdP (cond_text c ++ R) P.
Proof. intros H1 H2. destruct c as [[[gc t] gt]|]; [exact H1|exact (H2 eq_refl)]. Qed.

Lemma ws_nonempty_not_name_cont w k : ws w = true -> w <> [] -> not_name_cont_next (w ++ k).
Proof. intros Hw Hne. apply ws_then_not_name_cont; [exact Hw|]. intros E. contradiction. Qed.

Lemma typecond_runs gc t rest i : ws gc = true -> gc <> [] -> is_name t = true -> not_name_cont_next rest ->
  runs G true ANon (Call R_TypeCondition) ((K_on ++ gc ++ t) ++ rest) i
    (Ok (rest, i + slen (K_on ++ gc ++ t), [typecond_tree gc t i])).
Proof.
  intros Hgc Hne Ht Hr. unfold typecond_tree. enter_rec_n R_TypeCondition.
  replace ((K_on ++ gc ++ t) ++ rest) with (K_on ++ (gc ++ (t ++ rest))) by (rewrite <- !app_assoc; reflexivity).
  replace (i + slen (K_on ++ gc ++ t)) with (i + slen K_on + slen gc + slen t) by (rewrite !slen_app; lia).
  replace [Pair R_KEYWORD_on i (i + slen K_on) []; core_tree (RNamed t) (i + slen K_on + slen gc)]
    with ([Pair R_KEYWORD_on i (i + slen K_on) []] ++ @nil pr ++ [core_tree (RNamed t) (i + slen K_on + slen gc)]) by reflexivity.
  destruct (name_head t Ht) as [c [t' [Et Hc]]].
  eapply (runs_SeqS_ok gse gse_eq).
  - exact (keyword_ok R_KEYWORD_on K_on (gc ++ t ++ rest) true i eq_refl (ws_nonempty_not_name_cont gc _ Hgc Hne)).
  - apply skip_ws; [exact Hgc|]. rewrite Et. cbn [app]. apply name_start_token; exact Hc.
  - apply namedtype_runs; assumption.
Qed.

Lemma typecond_fails c t i : N.eqb 111 c = false -> runs G true ANon (Call R_TypeCondition) (c :: t) i Fail.
Proof.
  intros H. enter_fail_n R_TypeCondition. apply (runs_SeqS_fail1 gse gse_eq).
  exact (keyword_fails_head R_KEYWORD_on [110] 111 c t true i eq_refl H).
Qed.

(** FragmentSpread does not match an inline fragment *)
Lemma fragmentspread_fails g R i : ws g = true -> at_token R ->
  ((exists gc X, R = K_on ++ gc ++ X /\ ws gc = true /\ gc <> []) \/ (exists c X, R = c :: X /\ N.eqb 111 c = false /\ is_name_start c = false)) ->
  runs G true ANon (Call R_FragmentSpread) (dots ++ g ++ R) i Fail.
Proof.
  intros Hg Htok HR. enter_fail_n R_FragmentSpread.
  eapply (runs_SeqS_fail2 gse gse_eq); [exact (runs_Lit_ok G true ANon dots (g ++ R) i)|apply skip_ws; assumption|].
  apply (runs_SeqS_fail1 gse gse_eq). enter_fail_n R_FragmentName.
  destruct HR as [[gc [X [-> [Hgc Hne]]]]|[c [X [-> [H111 Hns]]]]].
  - apply (runs_SeqS_fail1 gse gse_eq). eapply runs_Not_fail.
    exact (keyword_ok R_KEYWORD_on K_on (gc ++ X) true _ eq_refl (ws_nonempty_not_name_cont gc _ Hgc Hne)).
  - eapply (runs_SeqS_fail2 gse gse_eq).
    + apply runs_Not_ok. exact (keyword_fails_head R_KEYWORD_on [110] 111 c X true _ eq_refl H111).
    + apply (skip_ws [] (c :: X) _ eq_refl). exact Htok.
    + apply name_fails; exact Hns.
Qed.

Definition inline_elts g c ds cd ss Tf : list celt :=
  [(Lit dots, dots, g, fun _ => []); opt_elt (Call R_TypeCondition) (cond_o c);
   opt_elt (Call R_Directives) (dirs_o ds cd (dirs_tail ds)); (Call R_SelectionSet, ss_text ss, [], fun j => [Tf j])].
Definition inline_txt g c ds ss : str := dots ++ g ++ cond_text c ++ dirs_text ds ++ ss_text ss.

Lemma inline_chain g c ds cd ss Tf gap k :
  ws g = true -> wf_cond c = true -> forallb rdir_wf ds = true ->
  dirs_text ds = cd ++ dirs_tail ds -> ws (dirs_tail ds) = true -> dirs_run ds cd -> ss_runs ss Tf ->
  sel_follow k ->
  chain_ok (inline_elts g c ds cd ss Tf) (gap ++ k).
Proof.
  intros Hg Hc Hds Hcd Hgd Hdrun Hss Hk.
  set (K := gap ++ k). set (R3 := ss_text ss ++ K). set (R2 := dirs_text ds ++ R3).
  unfold inline_elts.
  set (e2 := opt_elt (Call R_TypeCondition) (cond_o c)). set (e3 := opt_elt (Call R_Directives) (dirs_o ds cd (dirs_tail ds))).
  set (e4 := (Call R_SelectionSet, ss_text ss, [], fun j => [Tf j])).
  assert (E4 : chain_txt [e4] K = R3) by reflexivity.
  assert (E3 : chain_txt [e3; e4] K = R2) by (rewrite chain_txt_cons, E4; unfold e3; rewrite opt_elt_txt, (dirs_o_text ds cd (dirs_tail ds) Hcd); reflexivity).
  assert (E2 : chain_txt [e2; e3; e4] K = cond_text c ++ R2) by (rewrite chain_txt_cons, E3; unfold e2; rewrite opt_elt_txt, cond_o_text; reflexivity).
  cbn [chain_ok]. rewrite E2, E3, E4. cbn [chain_txt]. unfold e4. cbn [c_text c_gap c_exp c_tree fst snd].
  destruct (ss_text_head ss) as [st Est].
  assert (Htok3 : at_token R3) by (unfold R3; rewrite Est; split; reflexivity).
  assert (Htok2 : at_token R2) by (apply (hd_dirs ds R3 (fun d => is_wsc d = false /\ N.eqb d 35 = false)); [split; reflexivity|intros _; exact Htok3]).
  split; [exact Hg|]. split; [intros H; discriminate|].
  split; [intros _; apply (hd_cond c R2 (fun d => is_wsc d = false /\ N.eqb d 35 = false)); [split; reflexivity|intros _; exact Htok2]|].
  split; [intros i; exact (runs_Lit_ok G true ANon dots (g ++ cond_text c ++ R2) i)|].
  split; [apply ws_opt_gap; intros t g' T E; destruct c as [[[gc t0] gt]|]; [|discriminate]; inversion E; subst;
          cbn [wf_cond] in Hc; apply andb_true_iff in Hc; tauto|].
  split; [intros H; discriminate|]. split; [intros _; exact Htok2|].
  split.
  { unfold e2. apply opt_elt_runs.
    - intros t g' T E i. destruct c as [[[gc t0] gt]|]; [|discriminate]. inversion E; subst.
      cbn [wf_cond] in Hc. apply andb_true_iff in Hc. destruct Hc as [Hc Hgt]. apply andb_true_iff in Hc. destruct Hc as [Hc Ht0].
      apply andb_true_iff in Hc. destruct Hc as [Hgc Hne]. apply negb_true_iff in Hne.
      apply typecond_runs; [exact Hgc|intros ->; discriminate|exact Ht0|].
      apply ws_then_not_name_cont; [exact Hgt|]. intros _.
      apply (hd_dirs ds R3 (fun d => is_name_cont d = false)); [reflexivity|]. intros _. unfold R3. rewrite Est. reflexivity.
    - intros E i.
      assert (H : hdP R2 (fun d => N.eqb 111 d = false)).
      { apply (hd_dirs ds R3 (fun d => N.eqb 111 d = false)); [reflexivity|]. intros _. unfold R3. rewrite Est. reflexivity. }
      destruct R2 as [|d0 R2']; [|apply typecond_fails; exact H].
      enter_fail_n R_TypeCondition. apply (runs_SeqS_fail1 gse gse_eq).
      destruct (keyword_regime R_KEYWORD_on K_on ANon eq_refl) as [Hsk [Hat _]].
      apply (@runs_Call_fail _ G true ANon R_KEYWORD_on). rewrite Hsk, Hat.
      exact (keyword_body_runs R_KEYWORD_on K_on eq_refl [] i). }
  split; [apply ws_opt_gap; intros t g' T E; destruct (dirs_o_some _ _ _ _ _ _ E) as [_ [_ [-> _]]]; exact Hgd|].
  split; [intros H; discriminate|]. split; [intros _; exact Htok3|].
  split.
  { unfold e3. apply opt_elt_runs.
    - intros t g' T E i. destruct (dirs_o_some _ _ _ _ _ _ E) as [Hne [-> [-> ->]]].
      apply Hdrun; [exact Hne|].
      apply (follow_dirs_sel ds (Some (ss, gap)) k []); [exact Hne|exact Hds|exact Hk|intros H; discriminate|intros H; discriminate].
    - intros E i. apply directives_fails. unfold R3. rewrite Est. reflexivity. }
  split; [reflexivity|]. split; [intros _; reflexivity|]. split; [intros H; contradiction|].
  split; [|exact I].
  intros i. cbn [app]. apply Hss.
Qed.

Definition inline_sel_tree g c ds cd ss Tf (i : N) : pr :=
  let e := i + slen (inline_txt g c ds ss) in
  Pair R_Selection i e [Pair R_InlineFragment i e (chain_trees (inline_elts g c ds cd ss Tf) i)].

Lemma inline_chain_txt g c ds cd ss Tf K : dirs_text ds = cd ++ dirs_tail ds ->
  chain_txt (inline_elts g c ds cd ss Tf) K = inline_txt g c ds ss ++ K.
Proof.
  intros Hcd. unfold inline_elts, inline_txt. rewrite !chain_txt_cons. cbn [chain_txt].
  rewrite !opt_elt_txt, cond_o_text, (dirs_o_text ds cd (dirs_tail ds) Hcd).
  cbn [c_text c_gap fst snd app]. rewrite <- !app_assoc. reflexivity.
Qed.
Lemma inline_chain_len g c ds cd ss Tf : dirs_text ds = cd ++ dirs_tail ds ->
  chain_len (inline_elts g c ds cd ss Tf) = slen (inline_txt g c ds ss).
Proof.
  intros Hcd. unfold inline_elts, inline_txt. cbn [chain_len].
  rewrite !opt_elt_len, cond_o_text, (dirs_o_text ds cd (dirs_tail ds) Hcd).
  cbn [c_text c_gap fst snd]. rewrite !slen_app. change (slen []) with 0. lia.
Qed.

Lemma inline_sel_runs g c ds cd ss Tf gap k :
  ws g = true -> wf_cond c = true -> forallb rdir_wf ds = true ->
  dirs_text ds = cd ++ dirs_tail ds -> ws (dirs_tail ds) = true -> dirs_run ds cd -> ss_runs ss Tf ->
  sel_follow k ->
  forall i, runs G true ANon (Call R_Selection) (inline_txt g c ds ss ++ gap ++ k) i
    (Ok (gap ++ k, i + slen (inline_txt g c ds ss), [inline_sel_tree g c ds cd ss Tf i])).
Proof.
  intros Hg Hc Hds Hcd Hgd Hdrun Hss Hk i.
  pose proof (inline_chain g c ds cd ss Tf gap k Hg Hc Hds Hcd Hgd Hdrun Hss Hk) as Hok.
  assert (Hne : inline_elts g c ds cd ss Tf <> []) by (unfold inline_elts; discriminate).
  pose proof (chain_runs _ _ Hne Hok i) as H.
  rewrite (inline_chain_txt g c ds cd ss Tf _ Hcd), (inline_chain_len g c ds cd ss Tf Hcd) in H.
  unfold inline_elts at 1 in H. cbn [map seqs] in H. rewrite !c_exp_opt in H. cbn [c_exp fst] in H.
  unfold inline_sel_tree. cbn zeta.
  enter_rec_n R_Selection.
  assert (Htxt : inline_txt g c ds ss ++ gap ++ k = dots ++ g ++ (cond_text c ++ dirs_text ds ++ ss_text ss ++ gap ++ k))
    by (unfold inline_txt; rewrite <- !app_assoc; reflexivity).
  destruct (ss_text_head ss) as [st Est].
  assert (Hhead : exists c0 X, dirs_text ds ++ ss_text ss ++ gap ++ k = c0 :: X /\ (c0 = 64 \/ c0 = 123)).
  { destruct ds as [|d r]; [rewrite Est; eexists; eexists; split; [reflexivity|right; reflexivity]|].
    destruct (dirs_text_head d r) as [t0 ->]. eexists; eexists; split; [reflexivity|left; reflexivity]. }
  apply runs_Alt_r; [unfold inline_txt, dots; cbn [app]; apply field_fails_dot|].
  apply runs_Alt_r.
  { rewrite Htxt. apply fragmentspread_fails; [exact Hg| |].
    - apply (hd_cond c _ (fun d => is_wsc d = false /\ N.eqb d 35 = false)); [split; reflexivity|]. intros _.
      destruct Hhead as [c0 [X [-> [-> | ->]]]]; split; reflexivity.
    - destruct c as [[[gc t] gt]|].
      + left. cbn [wf_cond] in Hc. apply andb_true_iff in Hc. destruct Hc as [Hc _]. apply andb_true_iff in Hc. destruct Hc as [Hc _].
        apply andb_true_iff in Hc. destruct Hc as [Hgc Hgne]. apply negb_true_iff in Hgne.
        exists gc. eexists. split; [cbn [cond_text]; rewrite <- !app_assoc; reflexivity|]. split; [exact Hgc|intros ->; discriminate].
      + right. destruct Hhead as [c0 [X [E Hc0]]]. exists c0, X. split; [exact E|]. destruct Hc0 as [-> | ->]; split; reflexivity. }
  enter_rec_n R_InlineFragment. exact H.
Qed.

Lemma erase_inline g c ds g0 sels gap :
  erase_sel (RInline g c ds (RSS g0 sels) gap)
  = AInline (match c with Some (_, t, _) => Some t | None => None end) (map rdir_erase ds) (erase_ss (RSS g0 sels)).
Proof. cbn [erase_sel erase_ss]. rewrite erase_sels_fix. reflexivity. Qed.
Lemma sel_erase_inline p c ds ss : sel_erase (SInline p c ds ss) = AInline (option_map iname c) (map dir_erase ds) (ss_erase ss).
Proof. destruct ss as [q l]. cbn [sel_erase ss_erase]. rewrite sel_erase_fix. reflexivity. Qed.

Lemma cond_build c pre post file : exists c',
  omapM (build_type_condition (pre ++ cond_text c ++ post) file) (o_pair (cond_o c) (slen pre)) = BOk c'
  /\ option_map iname c' = match c with Some (_, t, _) => Some t | None => None end.
Proof.
  destruct c as [[[gc t] gt]|]; [|exists None; split; reflexivity].
  cbn [cond_o o_pair omapM cond_text]. unfold typecond_tree, build_type_condition. cbn [pair_kids core_tree].
  rewrite (slot_req_hit R_KEYWORD_on) by reflexivity. rewrite (slot_req_hit R_NamedType) by reflexivity.
  eexists (Some _). split; [reflexivity|]. cbn [option_map to_ident iname]. f_equal.
  unfold as_str. cbn [pair_start pair_end].
  replace (pre ++ (K_on ++ gc ++ t ++ gt) ++ post) with ((pre ++ K_on ++ gc) ++ t ++ (gt ++ post)) by (rewrite <- !app_assoc; reflexivity).
  apply substr_mid'. rewrite !slen_app. lia.
Qed.

Lemma inline_build g c ds cd ss Tf gap pre rest file :
  dirs_text ds = cd ++ dirs_tail ds -> (forall i, pair_rule (Tf i) = R_SelectionSet) -> ss_builds ss Tf ->
  exists sel', build_selection_fn (pre ++ inline_txt g c ds ss ++ gap ++ rest) file (inline_sel_tree g c ds cd ss Tf (slen pre)) = BOk sel'
               /\ sel_erase sel' = erase_sel (RInline g c ds ss gap).
Proof.
  intros Hcd Hrule Hb.
  set (inp := pre ++ inline_txt g c ds ss ++ gap ++ rest).
  set (e2 := opt_elt (Call R_TypeCondition) (cond_o c)). set (e3 := opt_elt (Call R_Directives) (dirs_o ds cd (dirs_tail ds))).
  pose proof (opt_elt_len (Call R_TypeCondition) (cond_o c)) as L2. rewrite cond_o_text in L2. fold e2 in L2.
  pose proof (opt_elt_len (Call R_Directives) (dirs_o ds cd (dirs_tail ds))) as L3. rewrite (dirs_o_text ds cd (dirs_tail ds) Hcd) in L3. fold e3 in L3.
  set (o2 := slen pre + slen dots + slen g).
  set (o3 := o2 + slen (c_text e2) + slen (c_gap e2)).
  set (o4 := o3 + slen (c_text e3) + slen (c_gap e3)).
  assert (HB : inp = (pre ++ dots ++ g) ++ cond_text c ++ (dirs_text ds ++ ss_text ss ++ gap ++ rest))
    by (unfold inp, inline_txt; rewrite <- !app_assoc; reflexivity).
  assert (HC : inp = (pre ++ dots ++ g ++ cond_text c) ++ dirs_text ds ++ (ss_text ss ++ gap ++ rest))
    by (unfold inp, inline_txt; rewrite <- !app_assoc; reflexivity).
  assert (HD : inp = (pre ++ dots ++ g ++ cond_text c ++ dirs_text ds) ++ ss_text ss ++ (gap ++ rest))
    by (unfold inp, inline_txt; rewrite <- !app_assoc; reflexivity).
  assert (O2 : o2 = slen (pre ++ dots ++ g)) by (unfold o2; rewrite !slen_app; lia).
  assert (O3 : o3 = slen (pre ++ dots ++ g ++ cond_text c)) by (unfold o3; rewrite O2, !slen_app; lia).
  assert (O4 : o4 = slen (pre ++ dots ++ g ++ cond_text c ++ dirs_text ds)) by (unfold o4; rewrite O3, !slen_app; lia).
  destruct (cond_build c (pre ++ dots ++ g) (dirs_text ds ++ ss_text ss ++ gap ++ rest) file) as [c' [B1 B2]]. rewrite <- HB, <- O2 in B1.
  destruct (dirs_build ds cd (dirs_tail ds) (pre ++ dots ++ g ++ cond_text c) (ss_text ss ++ gap ++ rest) file) as [ds' [C1 C2]]. rewrite <- HC, <- O3 in C1.
  destruct (Hb (pre ++ dots ++ g ++ cond_text c ++ dirs_text ds) (gap ++ rest) file) as [ss' [D1 D2]]. rewrite <- HD, <- O4 in D1.
  unfold inline_sel_tree, inline_elts. cbn zeta. unfold build_selection_fn.
  rewrite !chain_trees_cons. cbn [chain_trees]. fold e2 e3. rewrite app_nil_r.
  cbn [c_tree c_text c_gap fst snd app]. fold o2. fold o3. fold o4.
  assert (Hss_not : forall r, r <> R_SelectionSet -> is_rule r (Tf o4) = false).
  { intros r Hr. unfold is_rule. rewrite (Hrule o4). destruct r; try reflexivity. contradiction. }
  unfold e2. rewrite (slot_opt_elt R_TypeCondition).
  2:{ intros t g' T E. destruct c as [[[gc t0] gt]|]; [|discriminate]. inversion E; subst. reflexivity. }
  2:{ intros _. apply hdR_opt.
      - intros t g' T E. destruct (dirs_o_some _ _ _ _ _ _ E) as [_ [_ [_ ->]]]. reflexivity.
      - intros _. apply Hss_not. discriminate. }
  unfold e3. rewrite (slot_opt_elt R_Directives).
  2:{ intros t g' T E. destruct (dirs_o_some _ _ _ _ _ _ E) as [_ [_ [_ ->]]]. reflexivity. }
  2:{ intros _. apply Hss_not. discriminate. }
  rewrite (slot_req_hit R_SelectionSet) by (unfold is_rule; rewrite (Hrule o4); reflexivity).
  fold inp. rewrite B1. cbn [bbind]. rewrite C1. cbn [bbind]. rewrite D1. cbn [bbind].
  eexists. split; [reflexivity|]. rewrite sel_erase_inline. destruct ss as [g0 sels]. rewrite erase_inline, B2, C2, D2. reflexivity.
Qed.

Lemma inline_valid g c ds cd ss Tf gap pre rest : dirs_text ds = cd ++ dirs_tail ds -> ss_valid ss Tf ->
  valid (pre ++ inline_txt g c ds ss ++ gap ++ rest) (inline_sel_tree g c ds cd ss Tf (slen pre)).
Proof.
  intros Hcd Hv. unfold inline_sel_tree. cbn zeta.
  apply valid_node; [discriminate|]. constructor; [|constructor]. apply valid_node; [discriminate|].
  rewrite <- (inline_chain_txt g c ds cd ss Tf _ Hcd). apply chain_trees_valid.
  unfold inline_elts. cbn [chain_valid]. repeat split.
  - intros pre'. constructor.
  - apply opt_elt_valid. intros t g' T E pre'. destruct c as [[[gc t0] gt]|]; [|discriminate]. inversion E; subst.
    unfold typecond_tree. apply valid_node; [discriminate|]. constructor; [apply leaf_valid; discriminate|]. constructor; [|constructor].
    cbn [core_tree]. apply valid_node; [discriminate|]. constructor; [apply leaf_valid; discriminate|constructor].
  - apply opt_elt_valid. apply dirs_o_valid; exact Hcd.
  - intros pre'. cbn [c_tree c_text c_gap fst snd chain_txt app]. constructor; [apply Hv|constructor].
Qed.

Lemma inline_ok g c ds ss gap :
  ws g = true -> wf_cond c = true -> forallb rdir_wf ds = true -> ws gap = true -> ss_ok ss ->
  sel_ok (RInline g c ds ss gap).
Proof.
  intros Hg Hc Hds Hgap [Tf [Hrule [Hruns [Hbuilds Hvalid]]]].
  destruct (dirs_split' ds Hds) as [cd [Hcd [Hgd [_ [_ Hdrun]]]]].
  exists (inline_txt g c ds ss), gap, (inline_sel_tree g c ds cd ss Tf).
  split; [cbn [sel_full]; unfold inline_txt; rewrite <- !app_assoc; reflexivity|]. split; [exact Hgap|].
  split; [unfold inline_txt, dots; cbn [app]; eexists; eexists; split; [reflexivity|right; reflexivity]|].
  split; [intros i; reflexivity|]. split.
  - intros k i Hk _. apply inline_sel_runs; assumption.
  - split; [intros pre rest file; apply inline_build; assumption|intros pre rest; apply inline_valid; assumption].
Qed.

(** ** selection sets *)
Section RselInd.
Variable P : rsel -> Prop.
Variable Q : rss -> Prop.
Definition sub_Q (sub : option (rss * str)) : Prop := match sub with Some p => Q (fst p) | None => True end.
Hypothesis HF : forall al n g1 ar ds sub, sub_Q sub -> P (RField al n g1 ar ds sub).
Hypothesis HS : forall g n w ds, P (RSpread g n w ds).
Hypothesis HI : forall g c ds ss gap, Q ss -> P (RInline g c ds ss gap).
Hypothesis HSS : forall g0 sels, Forall P sels -> Q (RSS g0 sels).
Fixpoint rsel_ind2 (s : rsel) : P s :=
  match s with
  | RField al n g1 ar ds sub =>
      HF al n g1 ar ds sub
        (match sub as o return sub_Q o with
         | Some p => rss_ind2 (fst p)
         | None => I
         end)
  | RSpread g n w ds => HS g n w ds
  | RInline g c ds ss gap => HI g c ds ss gap (rss_ind2 ss)
  end
with rss_ind2 (ss : rss) : Q ss :=
  match ss with
  | RSS g0 sels => HSS g0 sels
      ((fix go (l : list rsel) : Forall P l :=
          match l with [] => Forall_nil _ | s :: r => Forall_cons s (rsel_ind2 s) (go r) end) sels)
  end.
End RselInd.

(** well-formedness of the rendering, computable *)
Definition sep_ok (t k : str) : bool :=
  negb (ends_name t) || match k with d :: _ => negb (is_name_cont d) | [] => true end.
Fixpoint seps_ok (l : list rsel) : bool :=
  match l with
  | s1 :: r => match r with s2 :: _ => sep_ok (sel_full s1) (sel_full s2) && seps_ok r | [] => true end
  | [] => true
  end.

Fixpoint wf_sel (s : rsel) : bool :=
  match s with
  | RField al n g1 ar ds sub =>
      wf_alias al && is_name n && ws g1 && wf_oargs ar && forallb rdir_wf ds &&
      match sub with Some (ss, g) => wf_ss ss && ws g | None => true end
  | RSpread g n w ds => ws g && is_name n && str_neq n K_on && ws w && forallb rdir_wf ds
  | RInline g c ds ss gap => ws g && wf_cond c && forallb rdir_wf ds && wf_ss ss && ws gap
  end
with wf_ss (ss : rss) : bool :=
  match ss with
  | RSS g0 sels =>
      ws g0 && negb (match sels with [] => true | _ => false end) &&
      (fix all (l : list rsel) : bool := match l with [] => true | s :: r => wf_sel s && all r end) sels &&
      seps_ok sels
  end.

Lemma wf_all_fix sels : (fix all (l : list rsel) : bool := match l with [] => true | s :: r => wf_sel s && all r end) sels = forallb wf_sel sels.
Proof. induction sels as [|s r IH]; [reflexivity|]. cbn [forallb]. rewrite <- IH. reflexivity. Qed.

Lemma selection_fails c t i : is_name_start c = false -> N.eqb 46 c = false -> at_token (c :: t) ->
  runs G true ANon (Call R_Selection) (c :: t) i Fail.
Proof.
  intros Hc Hd Htok. enter_fail_n R_Selection.
  apply runs_Alt_r.
  { enter_fail_n R_Field. eapply (runs_SeqS_fail2 gse gse_eq).
    - apply runs_Opt_none. enter_fail_n R_Alias. apply (runs_SeqS_fail1 gse gse_eq). apply name_fails; exact Hc.
    - apply (skip_ws [] (c :: t) i eq_refl). exact Htok.
    - apply (runs_SeqS_fail1 gse gse_eq). apply name_fails; exact Hc. }
  apply runs_Alt_r.
  { enter_fail_n R_FragmentSpread. apply (runs_SeqS_fail1 gse gse_eq). apply runs_Lit_head_fail; exact Hd. }
  enter_fail_n R_InlineFragment. apply (runs_SeqS_fail1 gse gse_eq). apply runs_Lit_head_fail; exact Hd.
Qed.

Lemma sels_text_cons s r : sels_text (s :: r) = sel_full s ++ sels_text r.
Proof. reflexivity. Qed.

Lemma sel_ok_head s : sel_ok s -> exists c t, sel_full s = c :: t /\ (is_name_start c = true \/ c = 46).
Proof.
  intros [txt [gap [Tf [Hfull [_ [[c [t [-> Hc]]] _]]]]]]. exists c, (t ++ gap). split; [rewrite <- Hfull; reflexivity|exact Hc].
Qed.

Lemma sel_start_follow c t : (is_name_start c = true \/ c = 46) -> sel_follow (c :: t).
Proof.
  intros H. split.
  - destruct H as [H| ->]; [apply name_start_token; exact H|split; reflexivity].
  - destruct H as [H| ->]; [|repeat split; reflexivity].
    split; [exact (head_ne is_name_start 58 c eq_refl H)|]. split; [exact (head_ne is_name_start 40 c eq_refl H)|].
    split; [exact (head_ne is_name_start 64 c eq_refl H)|exact (head_ne is_name_start 123 c eq_refl H)].
Qed.

Lemma sep_name_end t k X : sep_ok t k = true -> k <> [] -> name_end_ok t (k ++ X).
Proof.
  intros H Hne He. unfold sep_ok in H. rewrite He in H. cbn [negb orb] in H.
  destruct k as [|d k']; [contradiction|]. cbn [app not_name_cont_next]. apply negb_true_iff in H. exact H.
Qed.

Lemma close_brace_token rest : at_token ([125] ++ rest).
Proof. split; reflexivity. Qed.

Lemma sels_items : forall sels, Forall sel_ok sels -> seps_ok sels = true ->
  exists its : list item,
    items_text its = sels_text sels /\ length its = length sels /\
    (forall rest, items_ok (Call R_Selection) [125] rest its) /\
    (forall i, forallb (is_rule R_Selection) (items_trees its i) = true) /\
    (forall pre post file, exists l,
        mapM (build_selection_fn (pre ++ items_text its ++ post) file) (items_trees its (slen pre)) = BOk l
        /\ map sel_erase l = map erase_sel sels) /\
    Forall item_valid its.
Proof.
  induction sels as [|s r IH]; intros Hall Hsep.
  { exists []. split; [reflexivity|]. split; [reflexivity|]. split; [intros rest; exact I|]. split; [intros i; reflexivity|].
    split; [|constructor]. intros pre post file. exists []. split; reflexivity. }
  inversion Hall as [|? ? Hs Hr]; subst.
  assert (Hsep_r : seps_ok r = true).
  { cbn [seps_ok] in Hsep. destruct r as [|s2 r2]; [reflexivity|]. apply andb_true_iff in Hsep. tauto. }
  destruct (IH Hr Hsep_r) as [its [Htxt [Hlen [Hok [Hrules [Hbuild Hvalid]]]]]].
  pose proof Hs as [txt [gap [Tf [Hfull [Hgap [[c [t [Etxt Hc]]] [Hrule [Hrun [Hb Hv]]]]]]]]].
  exists ((txt, gap, fun i => [Tf i]) :: its).
  split; [cbn [items_text]; unfold it_text, it_gap; cbn [fst snd]; rewrite Htxt, sels_text_cons, <- Hfull, <- app_assoc; reflexivity|].
  split; [cbn [length]; rewrite Hlen; reflexivity|].
  split.
  { intros rest. cbn [items_ok]. split; [|apply Hok].
    unfold item_ok, it_text, it_gap, it_tree. cbn [fst snd].
    split; [exact Hgap|]. split; [rewrite Etxt; cbn [app]; destruct Hc as [Hc| ->]; [apply name_start_token; exact Hc|split; reflexivity]|].
    intros i. rewrite Htxt.
    destruct r as [|s2 r2].
    - cbn [sels_text flat_map app]. apply Hrun.
      + split; [split; reflexivity|repeat split; reflexivity].
      + intros _. reflexivity.
    - inversion Hr as [|? ? Hs2 _]; subst. destruct (sel_ok_head s2 Hs2) as [c2 [t2 [E2 Hc2]]].
      rewrite sels_text_cons. apply Hrun.
      + rewrite E2. cbn [app]. apply sel_start_follow; exact Hc2.
      + cbn [seps_ok] in Hsep. apply andb_true_iff in Hsep. destruct Hsep as [Hsep _].
        rewrite <- app_assoc. apply sep_name_end; [exact Hsep|rewrite E2; discriminate]. }
  split.
  { intros i. cbn [items_trees]. unfold it_tree at 1. cbn [snd app forallb]. unfold is_rule at 1. rewrite Hrule. cbn [rule_eqb andb].
    change (rule_eqb R_Selection R_Selection) with true. cbn [andb]. apply Hrules. }
  split.
  2:{ constructor; [|exact Hvalid]. intros pre rest. unfold it_text, it_gap, it_tree. cbn [fst snd]. constructor; [apply Hv|constructor]. }
  intros pre post file.
  cbn [items_text items_trees]. unfold it_text, it_gap, it_tree. cbn [fst snd app].
  destruct (Hb pre (items_text its ++ post) file) as [sel' [Hb1 Hb2]].
  destruct (Hbuild (pre ++ txt ++ gap) post file) as [l [Hl1 Hl2]].
  exists (sel' :: l). split; [|cbn [map]; rewrite Hb2, Hl2; reflexivity].
  rewrite mapM_cons.
  replace (pre ++ (txt ++ gap ++ items_text its) ++ post) with (pre ++ txt ++ gap ++ items_text its ++ post) by (rewrite <- !app_assoc; reflexivity).
  rewrite Hb1.
  replace (pre ++ txt ++ gap ++ items_text its ++ post) with ((pre ++ txt ++ gap) ++ items_text its ++ post) by (rewrite <- !app_assoc; reflexivity).
  replace (slen pre + slen txt + slen gap) with (slen (pre ++ txt ++ gap)) by (rewrite !slen_app; lia).
  rewrite Hl1. reflexivity.
Qed.

Lemma ss_ok_of g0 sels : ws g0 = true -> sels <> [] -> Forall sel_ok sels -> seps_ok sels = true -> ss_ok (RSS g0 sels).
Proof.
  intros Hg0 Hne Hall Hsep.
  destruct (sels_items sels Hall Hsep) as [its [Htxt [Hlen [Hok [Hrules [Hbuild Hvalid]]]]]].
  destruct its as [|it its']; [destruct sels; [contradiction|discriminate]|].
  set (txt := ss_text (RSS g0 sels)).
  exists (fun i => Pair R_SelectionSet i (i + slen txt) (items_trees (it :: its') (i + 1 + slen g0))).
  split; [intros i; reflexivity|]. split; [|split].
  - intros rest i. fold txt.
    assert (Ht : txt ++ rest = [123] ++ g0 ++ (items_text (it :: its') ++ [125] ++ rest)).
    { unfold txt. rewrite ss_text_eq, Htxt, <- !app_assoc. reflexivity. }
    assert (Hl : i + slen txt = i + 1 + slen g0 + slen (items_text (it :: its')) + 1).
    { unfold txt. rewrite ss_text_eq, Htxt, !slen_app. change (slen [123]) with 1. change (slen [125]) with 1. lia. }
    rewrite Ht, Hl. enter_rec_n R_SelectionSet.
    replace (items_trees (it :: its') (i + 1 + slen g0)) with (@nil pr ++ @nil pr ++ items_trees (it :: its') (i + 1 + slen g0)) by reflexivity.
    eapply (runs_SeqS_ok gse gse_eq).
    + exact (runs_Lit_ok G true ANon [123] (g0 ++ items_text (it :: its') ++ [125] ++ rest) i).
    + apply skip_ws; [exact Hg0|]. apply (items_tail_token (Call R_Selection) [125] rest (close_brace_token rest) (it :: its') (Hok rest)).
    + change (slen [123]) with 1.
      pose proof (items_plus_close (Call R_Selection) [125] rest (close_brace_token rest)
                    (fun j => selection_fails 125 rest j eq_refl eq_refl (close_brace_token rest)) it its' (i + 1 + slen g0) (Hok rest)) as Hp.
      change (slen [125]) with 1 in Hp. exact Hp.
  - intros pre rest file. fold txt.
    destruct (Hbuild (pre ++ [123] ++ g0) ([125] ++ rest) file) as [l [Hl1 Hl2]].
    assert (Hinp : pre ++ txt ++ rest = (pre ++ [123] ++ g0) ++ items_text (it :: its') ++ [125] ++ rest).
    { unfold txt. rewrite ss_text_eq, Htxt, <- !app_assoc. reflexivity. }
    rewrite build_selection_set_eq, Hrules, Hinp.
    replace (slen pre + 1 + slen g0) with (slen (pre ++ [123] ++ g0)) by (rewrite !slen_app; change (slen [123]) with 1; lia).
    rewrite Hl1. cbn [bbind]. eexists. split; [reflexivity|]. cbn [ss_erase erase_ss]. exact Hl2.
  - intros pre rest. fold txt. apply valid_node; [discriminate|].
    assert (Hinp : pre ++ txt ++ rest = (pre ++ [123] ++ g0) ++ items_text (it :: its') ++ [125] ++ rest).
    { unfold txt. rewrite ss_text_eq, Htxt, <- !app_assoc. reflexivity. }
    rewrite Hinp. replace (slen pre + 1 + slen g0) with (slen (pre ++ [123] ++ g0)) by (rewrite !slen_app; change (slen [123]) with 1; lia).
    apply items_valid; exact Hvalid.
Qed.

(** every well-formed rendering of a selection / selection set is fine *)
Theorem wf_sel_ss_ok : (forall s, wf_sel s = true -> sel_ok s) /\ (forall ss, wf_ss ss = true -> ss_ok ss).
Proof.
  set (P := fun s => wf_sel s = true -> sel_ok s). set (Q := fun ss => wf_ss ss = true -> ss_ok ss).
  assert (H4 : (forall al n g1 ar ds sub, sub_Q Q sub -> P (RField al n g1 ar ds sub)) /\ (forall g n w ds, P (RSpread g n w ds)) /\
               (forall g c ds ss gap, Q ss -> P (RInline g c ds ss gap)) /\ (forall g0 sels, Forall P sels -> Q (RSS g0 sels))).
  2:{ destruct H4 as [HF [HS [HI HSS]]]. split; [exact (rsel_ind2 P Q HF HS HI HSS)|exact (rss_ind2 P Q HF HS HI HSS)]. }
  unfold P, Q. split; [|split; [|split]].
  - intros al n g1 ar ds sub IH H. cbn [wf_sel] in H.
    apply andb_true_iff in H. destruct H as [H Hsub]. apply andb_true_iff in H. destruct H as [H Hds].
    apply andb_true_iff in H. destruct H as [H Har]. apply andb_true_iff in H. destruct H as [H Hg1].
    apply andb_true_iff in H. destruct H as [Hal Hn].
    apply field_ok; try assumption.
    + destruct sub as [[ss g]|]; [|reflexivity]. apply andb_true_iff in Hsub. cbn [sub_gap]. tauto.
    + intros ss g E. subst sub. apply andb_true_iff in Hsub. cbn [sub_Q fst] in IH. apply IH. tauto.
  - intros g n w ds H. cbn [wf_sel] in H.
    apply andb_true_iff in H. destruct H as [H Hds]. apply andb_true_iff in H. destruct H as [H Hw].
    apply andb_true_iff in H. destruct H as [H Hon]. apply andb_true_iff in H. destruct H as [Hg Hn].
    apply spread_ok; assumption.
  - intros g c ds ss gap IH H. cbn [wf_sel] in H.
    apply andb_true_iff in H. destruct H as [H Hgap]. apply andb_true_iff in H. destruct H as [H Hss].
    apply andb_true_iff in H. destruct H as [H Hds]. apply andb_true_iff in H. destruct H as [Hg Hc].
    apply inline_ok; try assumption. apply IH; exact Hss.
  - intros g0 sels IH H. cbn [wf_ss] in H. rewrite wf_all_fix in H.
    apply andb_true_iff in H. destruct H as [H Hsep]. apply andb_true_iff in H. destruct H as [H Hall].
    apply andb_true_iff in H. destruct H as [Hg0 Hne]. apply negb_true_iff in Hne.
    apply ss_ok_of; [exact Hg0|intros ->; discriminate| |exact Hsep].
    rewrite forallb_forall in Hall. rewrite Forall_forall in IH. apply Forall_forall. intros x Hx. apply IH; [exact Hx|apply Hall; exact Hx].
Qed.

(** parse_render for selection sets: every well-formed rendering of a selection set with whitespace trivia, in any
    surroundings, is one SelectionSet pair over exactly its text, and the builder returns a selection set whose
    position-erased form is the erasure of the rendering (aliases, names, arguments with values, directives, type
    conditions, nested selection sets) *)
Theorem parse_render_selection_set : forall ss, wf_ss ss = true ->
  exists T : N -> pr, forall pre rest file,
    let inp := pre ++ ss_text ss ++ rest in
    let i := slen pre in
    pair_rule (T i) = R_SelectionSet
    /\ runs G true ANon (Call R_SelectionSet) (ss_text ss ++ rest) i (Ok (rest, i + slen (ss_text ss), [T i]))
    /\ validate_pair inp (T i) = VOk
    /\ exists ss', build_selection_set inp file (T i) = BOk ss' /\ ss_erase ss' = erase_ss ss.
Proof.
  intros ss Hwf. destruct (proj2 wf_sel_ss_ok ss Hwf) as [T [H1 [H2 [H3 H4]]]]. exists T. intros pre rest file inp i.
  split; [apply H1|]. split; [apply H2|]. split; [apply H4|apply H3].
Qed.

(** a rendering inside the fragment:
    {a:b(x:1)@d{c} ...F@e ... on T{d}...@f{e}}  with gaps *)
Definition ex_ss : rss :=
  RSS [32]
    [RField (Some (s "a", [], [32])) (s "b") [] (Some ([], [((s "x", [], [32]), (RInt (s "1"), []))], [32]))
            [RDir0 [] (s "d") [32]] (Some (RSS [32] [RField None (s "c") [32] None [] None], [10]));
     RSpread [] (s "F") [32] [RDir0 [] (s "e") [10]];
     RInline [32] (Some ([32], s "T", [32])) [] (RSS [] [RField None (s "d") [] None [] None]) [44];
     RInline [] None [RDir0 [] (s "f") []] (RSS [] [RField None (s "e") [] None [] None]) []].
Example ex_ss_wf : wf_ss ex_ss = true.
Proof. vm_compute. reflexivity. Qed.
Example ex_ss_text : ss_text ex_ss = s "{ a: b(x: 1) @d { c }
...F @e
... on T {d},...@f{e}}".
Proof. vm_compute. reflexivity. Qed.

(** the same text through the whole model parser: the document's selection set erases to the same abstract syntax *)
Example ex_ss_document :
  match parse_operation_document 0 (ss_text ex_ss) with
  | POk d => match od_defs d with [DOp o] => ss_erase (op_sel o) = erase_ss ex_ss | _ => False end
  | _ => False
  end.
Proof. vm_compute. reflexivity. Qed.
