(** C07 — proofs, part 11: parse_render, fifth instalment (selection sets) -- IN PROGRESS.
    Available: [chain_runs] (e1 ~ e2 ~ … ~ en of a skipping rule as a list of elements with text, gap and pairs --
    the tool for Field / FragmentSpread / InlineFragment / definitions), the selection syntax with trivia ([rsel], [rss],
    [sel_full], [ss_text]), abstract selections and erasures, [alias_runs]/[alias_fails], the failure lemmas for
    SelectionSet / Directives, [build_selection_fn] with [build_selection_set_eq] (the builder's closure as a function),
    the statements [ss_ok]/[sel_ok] to be proved by induction, and the field chain elements.  Not yet: the field /
    spread / inline-fragment lemmas and the induction itself. *)
From V Require Import Base.Util Gql.Ast Peg.Peg Peg.PegProps Gen.C07_grammar_gen C07.Builder C07.Model C07.Spec C07.Proofs C07.Lexical C07.Strings C07.Numbers C07.Render C07.RenderValues C07.RenderArgs C07.RenderDirs.
Local Open Scope N_scope.

(** ** chains:  e1 ~ e2 ~ … ~ en  in a skipping rule, each element with its text, the gap after it and its pairs *)
Definition celt := (pexp rule * str * str * (N -> list pr))%type.
Definition c_exp (c : celt) : pexp rule := fst (fst (fst c)).
Definition c_text (c : celt) : str := snd (fst (fst c)).
Definition c_gap (c : celt) : str := snd (fst c).
Definition c_tree (c : celt) : N -> list pr := snd c.

Fixpoint seqs (es : list (pexp rule)) : pexp rule :=
  match es with
  | [] => Eoi
  | [e] => e
  | e :: r => Seq e (seqs r)
  end.
Fixpoint chain_txt (l : list celt) (k : str) : str :=
  match l with [] => k | c :: r => c_text c ++ c_gap c ++ chain_txt r k end.
Fixpoint chain_len (l : list celt) : N :=
  match l with [] => 0 | c :: r => slen (c_text c) + slen (c_gap c) + chain_len r end.
Fixpoint chain_trees (l : list celt) (i : N) : list pr :=
  match l with [] => [] | c :: r => c_tree c i ++ chain_trees r (i + slen (c_text c) + slen (c_gap c)) end.
Fixpoint chain_ok (l : list celt) (k : str) : Prop :=
  match l with
  | [] => True
  | c :: r =>
      ws (c_gap c) = true /\ (r = [] -> c_gap c = []) /\ (r <> [] -> at_token (chain_txt r k)) /\
      (forall i, runs G true ANon (c_exp c) (c_text c ++ c_gap c ++ chain_txt r k) i
                   (Ok (c_gap c ++ chain_txt r k, i + slen (c_text c), c_tree c i))) /\
      chain_ok r k
  end.

Lemma chain_runs : forall l k, l <> [] -> chain_ok l k ->
  forall i, runs G true ANon (seqs (map c_exp l)) (chain_txt l k) i (Ok (k, i + chain_len l, chain_trees l i)).
Proof.
  induction l as [|c r IH]; intros k Hne Hok i; [contradiction|].
  destruct Hok as [Hg [Hlast [Htok [Hrun Hr]]]].
  destruct r as [|c2 r2].
  - pose proof (Hlast eq_refl) as Hgn. cbn [map seqs chain_txt chain_len chain_trees] in *. rewrite Hgn in *. cbn [app] in *.
    change (slen []) with 0. rewrite !N.add_0_r, app_nil_r. apply Hrun.
  - change (seqs (map c_exp (c :: c2 :: r2))) with (Seq (c_exp c) (seqs (map c_exp (c2 :: r2)))).
    change (chain_txt (c :: c2 :: r2) k) with (c_text c ++ c_gap c ++ chain_txt (c2 :: r2) k).
    change (chain_len (c :: c2 :: r2)) with (slen (c_text c) + slen (c_gap c) + chain_len (c2 :: r2)).
    change (chain_trees (c :: c2 :: r2) i) with (c_tree c i ++ chain_trees (c2 :: r2) (i + slen (c_text c) + slen (c_gap c))).
    replace (c_tree c i ++ chain_trees (c2 :: r2) (i + slen (c_text c) + slen (c_gap c)))
      with (c_tree c i ++ @nil pr ++ chain_trees (c2 :: r2) (i + slen (c_text c) + slen (c_gap c))) by reflexivity.
    replace (i + (slen (c_text c) + slen (c_gap c) + chain_len (c2 :: r2))) with (i + slen (c_text c) + slen (c_gap c) + chain_len (c2 :: r2)) by lia.
    eapply (runs_SeqS_ok gse gse_eq); [apply Hrun|apply skip_ws; [exact Hg|apply Htok; discriminate]|].
    apply IH; [discriminate|exact Hr].
Qed.

(** ** selections with trivia *)
Inductive rsel :=
| RField (al : option (str * str * str))          (* alias ga ":" gb *)
         (n g1 : str)
         (ar : option (str * list fld * str))       (* "(" g0 args ")" gap *)
         (ds : list rdir)
         (sub : option (rss * str))                 (* sub-selection, gap after its "}" *)
| RSpread (g n w : str) (ds : list rdir)            (* "..." g name w directives *)
| RInline (g : str) (cond : option (str * str * str))   (* "on" gc Type gt *)
          (ds : list rdir) (ss : rss) (gap : str)
with rss := RSS (g0 : str) (sels : list rsel).

Definition dots : str := [46; 46; 46].
Definition K_on : str := [111; 110].
Definition alias_text (al : option (str * str * str)) : str :=
  match al with Some (a, ga, gb) => a ++ ga ++ [58] ++ gb | None => [] end.
Definition oargs_text (ar : option (str * list fld * str)) : str :=
  match ar with Some (g0, args, g2) => render_args g0 args ++ g2 | None => [] end.
Definition cond_text (c : option (str * str * str)) : str :=
  match c with Some (gc, t, gt) => K_on ++ gc ++ t ++ gt | None => [] end.

Fixpoint sel_full (s : rsel) : str :=
  match s with
  | RField al n g1 ar ds sub =>
      alias_text al ++ n ++ g1 ++ oargs_text ar ++ dirs_text ds ++
      match sub with Some (ss, g) => ss_text ss ++ g | None => [] end
  | RSpread g n w ds => dots ++ g ++ n ++ w ++ dirs_text ds
  | RInline g c ds ss gap => dots ++ g ++ cond_text c ++ dirs_text ds ++ ss_text ss ++ gap
  end
with ss_text (ss : rss) : str :=
  match ss with
  | RSS g0 sels => [123] ++ g0 ++ (fix go (l : list rsel) : str := match l with [] => [] | s :: r => sel_full s ++ go r end) sels ++ [125]
  end.
Definition sels_text (sels : list rsel) : str := flat_map sel_full sels.
Lemma ss_text_eq g0 sels : ss_text (RSS g0 sels) = [123] ++ g0 ++ sels_text sels ++ [125].
Proof.
  assert (H : forall l, (fix go (l : list rsel) : str := match l with [] => [] | s :: r => sel_full s ++ go r end) l = flat_map sel_full l)
    by (induction l as [|s r IH]; [reflexivity|cbn [flat_map]; rewrite <- IH; reflexivity]).
  cbn [ss_text]. rewrite H. reflexivity.
Qed.

(** abstract selections *)
Inductive asel :=
| AField (alias : option str) (n : str) (args : option (list (str * aval))) (ds : list (str * option (list (str * aval)))) (sub : option (list asel))
| ASpread (n : str) (ds : list (str * option (list (str * aval))))
| AInline (cond : option str) (ds : list (str * option (list (str * aval)))) (sub : list asel).

Fixpoint erase_sel (s : rsel) : asel :=
  match s with
  | RField al n _ ar ds sub =>
      AField (match al with Some (a, _, _) => Some a | None => None end) n
             (match ar with Some (_, args, _) => Some (erase_args args) | None => None end)
             (map rdir_erase ds)
             (match sub with Some (RSS _ sels, _) => Some ((fix go (l : list rsel) := match l with [] => [] | x :: r => erase_sel x :: go r end) sels) | None => None end)
  | RSpread _ n _ ds => ASpread n (map rdir_erase ds)
  | RInline _ c ds (RSS _ sels) _ =>
      AInline (match c with Some (_, t, _) => Some t | None => None end) (map rdir_erase ds)
              ((fix go (l : list rsel) := match l with [] => [] | x :: r => erase_sel x :: go r end) sels)
  end.
Definition erase_ss (ss : rss) : list asel := match ss with RSS _ sels => map erase_sel sels end.

Fixpoint sel_erase (s : selection) : asel :=
  match s with
  | SField al n ar ds sub =>
      AField (option_map iname al) (iname n) (option_map args_erase ar) (map dir_erase ds)
             (match sub with Some (SelSet _ l) => Some ((fix go (l : list selection) := match l with [] => [] | x :: r => sel_erase x :: go r end) l) | None => None end)
  | SSpread _ n ds => ASpread (iname n) (map dir_erase ds)
  | SInline _ c ds (SelSet _ l) =>
      AInline (option_map iname c) (map dir_erase ds)
              ((fix go (l : list selection) := match l with [] => [] | x :: r => sel_erase x :: go r end) l)
  end.
Definition ss_erase (ss : selset) : list asel := match ss with SelSet _ l => map sel_erase l end.

(** what follows a selection inside a selection set (after its trivia): the next selection or "}" *)
Definition sel_follow (k : str) : Prop :=
  at_token k /\ match k with d :: _ => N.eqb 58 d = false /\ N.eqb 40 d = false /\ N.eqb 64 d = false /\ N.eqb 123 d = false | [] => True end.

Lemma lit_fails_follow c0 k i : match k with d :: _ => N.eqb c0 d = false | [] => True end -> runs G true ANon (Lit [c0]) k i Fail.
Proof. intros H. destruct k as [|d r]; [apply runs_Lit_nil_fail|apply runs_Lit_head_fail; exact H]. Qed.

(** ** parts of a field as chain elements *)
Definition alias_tree (a : str) (txtlen : N) (i : N) : pr := Pair R_Alias i (i + txtlen) [Pair R_Name i (i + slen a) []].

Lemma alias_runs a ga rest i : is_name a = true -> ws ga = true ->
  runs G true ANon (Call R_Alias) ((a ++ ga ++ [58]) ++ rest) i
    (Ok (rest, i + slen (a ++ ga ++ [58]), [alias_tree a (slen (a ++ ga ++ [58])) i])).
Proof.
  intros Ha Hga. unfold alias_tree. enter_rec_n R_Alias.
  assert (Htxt : (a ++ ga ++ [58]) ++ rest = a ++ (ga ++ ([58] ++ rest))) by (rewrite <- !app_assoc; reflexivity).
  assert (Hlen : i + slen (a ++ ga ++ [58]) = i + slen a + slen ga + 1) by (rewrite !slen_app; change (slen [58]) with 1; lia).
  rewrite Htxt, Hlen.
  replace [Pair R_Name i (i + slen a) []] with ([Pair R_Name i (i + slen a) []] ++ @nil pr ++ @nil pr) by reflexivity.
  eapply (runs_SeqS_ok gse gse_eq); [apply name_runs; [exact Ha|apply ws_colon_not_name_cont; exact Hga]|apply skip_ws; [exact Hga|split; reflexivity]|].
  exact (runs_Lit_ok G true ANon [58] rest (i + slen a + slen ga)).
Qed.

(** no alias: after the field name and its trivia there is no ":" *)
Lemma alias_fails n g1 tail i : is_name n = true -> ws g1 = true -> not_name_cont_next (g1 ++ tail) -> at_token tail ->
  match tail with d :: _ => N.eqb 58 d = false | [] => True end ->
  runs G true ANon (Call R_Alias) (n ++ g1 ++ tail) i Fail.
Proof.
  intros Hn Hg Hnc Ht Hc. enter_fail_n R_Alias.
  eapply (runs_SeqS_fail2 gse gse_eq); [apply name_runs; assumption|apply skip_ws; assumption|apply lit_fails_follow; exact Hc].
Qed.

Lemma selectionset_fails k i : match k with d :: _ => N.eqb 123 d = false | [] => True end -> runs G true ANon (Call R_SelectionSet) k i Fail.
Proof. intros H. enter_fail_n R_SelectionSet. apply (runs_SeqS_fail1 gse gse_eq). apply lit_fails_follow; exact H. Qed.
Lemma directives_fails k i : match k with d :: _ => N.eqb 64 d = false | [] => True end -> runs G true ANon (Call R_Directives) k i Fail.
Proof.
  intros H. enter_fail_n R_Directives. apply runs_Plus_g. apply (runs_SeqS_fail1 gse gse_eq). apply directive_fails; exact H.
Qed.

Definition ends_name (t : str) : bool := match rev t with c :: _ => is_name_cont c | [] => false end.
Definition name_end_ok (t k : str) : Prop := ends_name t = true -> not_name_cont_next k.

Lemma ends_name_app_name x n : is_name n = true -> ends_name (x ++ n) = true.
Proof.
  intros Hn. pose proof (name_chars n Hn) as Hc. unfold ends_name. rewrite rev_app_distr.
  destruct n as [|c r]; [discriminate|]. destruct (rev (c :: r)) as [|d l] eqn:E.
  - apply (f_equal (@length N)) in E. rewrite rev_length in E. discriminate.
  - cbn [app]. rewrite forallb_forall in Hc. apply Hc. apply in_rev. rewrite E. left; reflexivity.
Qed.

(** the Selection-level builder closure of build_selection_set (selection_set.rs), as a function of its own *)
Definition build_selection_fn inp file (sp : pr) : bres selection :=
  match sp with
  | Pair _ _ _ [c] =>
    match c with
    | Pair R_Field _ _ fk =>
        slot_opt R_Alias fk (fun alias fk =>
        slot_req R_Name fk (fun name fk =>
        slot_opt R_Arguments fk (fun args fk =>
        slot_opt R_Directives fk (fun dirs fk =>
        slot_opt R_SelectionSet fk (fun ss _ =>
          bbind (omapM (fun a => only_child a (fun n => BOk (to_ident inp file n))) alias) (fun al =>
          bbind (omapM (build_arguments inp file) args) (fun ar =>
          bbind (build_directives_opt inp file dirs) (fun ds =>
          bbind (match ss with Some s => bbind (build_selection_set inp file s) (fun r => BOk (Some r)) | None => BOk None end) (fun sub =>
          BOk (SField al (to_ident inp file name) ar ds sub))))))))))
    | Pair R_FragmentSpread _ _ fk =>
        let position := to_pos inp file c in
        slot_req R_FragmentName fk (fun name fk =>
        slot_opt R_Directives fk (fun dirs _ =>
          bbind (build_directives_opt inp file dirs) (fun ds => BOk (SSpread position (to_ident inp file name) ds))))
    | Pair R_InlineFragment _ _ fk =>
        let position := to_pos inp file c in
        slot_opt R_TypeCondition fk (fun tc fk =>
        slot_opt R_Directives fk (fun dirs fk =>
        slot_req R_SelectionSet fk (fun ss _ =>
          bbind (omapM (build_type_condition inp file) tc) (fun cond =>
          bbind (build_directives_opt inp file dirs) (fun ds =>
          bbind (build_selection_set inp file ss) (fun sub =>
          BOk (SInline position cond ds sub)))))))
    | _ => BPanic P_shape
    end
  | _ => BPanic P_shape
  end.

Lemma build_selection_set_eq inp file r s e kids :
  build_selection_set inp file (Pair r s e kids) =
  if forallb (is_rule R_Selection) kids
  then bbind (mapM (build_selection_fn inp file) kids) (fun sels => BOk (SelSet (to_pos inp file (Pair r s e kids)) sels))
  else BPanic P_shape.
Proof. reflexivity. Qed.

(** ** selection sets: the statement proved by induction *)
Definition ss_ok (ss : rss) : Prop := exists Tf : N -> pr,
  (forall i, pair_rule (Tf i) = R_SelectionSet) /\
  (forall rest i, runs G true ANon (Call R_SelectionSet) (ss_text ss ++ rest) i (Ok (rest, i + slen (ss_text ss), [Tf i]))) /\
  (forall pre rest file, exists ss', build_selection_set (pre ++ ss_text ss ++ rest) file (Tf (slen pre)) = BOk ss' /\ ss_erase ss' = erase_ss ss).

Definition sel_ok (s : rsel) : Prop := exists (txt gap : str) (Tf : N -> pr),
  txt ++ gap = sel_full s /\ ws gap = true /\
  (exists c t, txt = c :: t /\ (is_name_start c = true \/ c = 46)) /\
  (forall i, pair_rule (Tf i) = R_Selection) /\
  (forall k i, sel_follow k -> name_end_ok (sel_full s) k ->
     runs G true ANon (Call R_Selection) (txt ++ gap ++ k) i (Ok (gap ++ k, i + slen txt, [Tf i]))) /\
  (forall pre rest file, exists sel', build_selection_fn (pre ++ txt ++ rest) file (Tf (slen pre)) = BOk sel' /\ sel_erase sel' = erase_sel s).

(** optional chain element *)
Definition opt_elt (x : pexp rule) (o : option (str * str * (N -> list pr))) : celt :=
  match o with Some (t, g, T) => (Opt x, t, g, T) | None => (Opt x, [], [], fun _ => []) end.

Lemma at_token_app_head c t X : at_token (c :: t) -> at_token ((c :: t) ++ X).
Proof. intros H. exact H. Qed.

Lemma head_facts_of_char (c : N) X (P : N -> Prop) : P c -> match (c :: X) with d :: _ => P d | [] => True end.
Proof. intros H. exact H. Qed.

(** ** fields *)
Definition wf_alias (al : option (str * str * str)) : bool :=
  match al with Some (a, ga, gb) => is_name a && ws ga && ws gb | None => true end.
Definition wf_oargs (ar : option (str * list fld * str)) : bool :=
  match ar with Some (g0, args, g2) => wf_args g0 args && ws g2 | None => true end.

Definition alias_elt (al : option (str * str * str)) : celt :=
  opt_elt (Call R_Alias)
    (match al with Some (a, ga, gb) => Some (a ++ ga ++ [58], gb, fun i => [alias_tree a (slen (a ++ ga ++ [58])) i]) | None => None end).
Definition name_elt (n g1 : str) : celt := (Call R_Name, n, g1, fun i => [Pair R_Name i (i + slen n) []]).
Definition args_elt (ar : option (str * list fld * str)) : celt :=
  opt_elt (Call R_Arguments) (match ar with Some (g0, args, g2) => Some (render_args g0 args, g2, fun i => [args_tree g0 args i]) | None => None end).
(** the directives element is determined by what directives_runs gives: consumed text [cd], left-over trivia [gd] *)
Definition dirs_elt (ds : list rdir) (cd gd : str) : celt :=
  opt_elt (Call R_Directives)
    (match ds with [] => None | _ => Some (cd, gd, fun i => [Pair R_Directives i (i + slen cd) (items_trees (map rdir_item ds) i)]) end).
Definition sub_elt (sub : option (rss * str)) (Tf : N -> pr) : celt :=
  opt_elt (Call R_SelectionSet) (match sub with Some (ss, _) => Some (ss_text ss, [], fun i => [Tf i]) | None => None end).

Lemma opt_elt_present x t g T : opt_elt x (Some (t, g, T)) = (Opt x, t, g, T).
Proof. reflexivity. Qed.


(** splitting the text of a directive list at the point where the Directives pair ends: [cd] is inside, the
    trivia [dirs_tail] outside -- the same split whatever follows *)
Lemma dirs_split d ds : forallb rdir_wf (d :: ds) = true ->
  exists cd, dirs_text (d :: ds) = cd ++ dirs_tail (d :: ds) /\ ws (dirs_tail (d :: ds)) = true /\ (exists t, cd = 64 :: t) /\
    forall k, follow_dirs (d :: ds) k ->
    forall i, runs G true ANon (Call R_Directives) (cd ++ dirs_tail (d :: ds) ++ k) i
      (Ok (dirs_tail (d :: ds) ++ k, i + slen cd, [Pair R_Directives i (i + slen cd) (items_trees (map rdir_item (d :: ds)) i)])).
Proof.
  intros Hwf.
  assert (Hf0 : follow_dirs (d :: ds) [125]).
  { split; [split; reflexivity|]. split; [reflexivity|]. split; [reflexivity|].
    destruct (last (d :: ds) (RDir1 [] [] [] [] [] [])) as [? ? [|? ?]|]; try exact I. reflexivity. }
  destruct (directives_runs d ds [125] Hwf Hf0) as [m [Hg2 [Hm [[c Hc] _]]]].
  exists c. split; [exact Hc|]. split; [exact Hg2|]. split.
  - destruct (rdir_text_head d) as [t0 E0].
    assert (Hhead : exists t', dirs_text (d :: ds) = 64 :: t').
    { unfold dirs_text. cbn [map items_text]. change (it_text (rdir_item d)) with (rdir_text d). rewrite E0. eexists; reflexivity. }
    destruct Hhead as [t' Ht']. rewrite Hc in Ht'. destruct c as [|c0 c'].
    + cbn [app] in Ht'. rewrite Ht' in Hg2. cbn in Hg2. discriminate.
    + cbn [app] in Ht'. inversion Ht'; subst. eexists; reflexivity.
  - intros k Hf i. destruct (directives_runs d ds k Hwf Hf) as [m' [_ [Hm' [_ Hrun]]]].
    assert (Hmc : m' = slen c) by (rewrite Hc, slen_app in Hm'; lia).
    specialize (Hrun i). rewrite Hc, <- app_assoc in Hrun. rewrite <- Hmc. exact Hrun.
Qed.
