(** C07 — correspondence: the model's pair tree and AST against pest's and the real builder's, and the
    spec-side predicate on the implementation's outputs. *)
From V Require Import Base.Util Gql.Ast Peg.Peg Gen.C07_grammar_gen C07.Builder C07.Model C07.AstEq.

(** one pair in pre-order, as the harness prints pest's token queue *)
Inductive tok := T (r : rule) (s e n : N).

Fixpoint toks_of_pair (p : pair rule) : list tok :=
  match p with
  | Pair r s e kids =>
      T r s e (N.of_nat (length kids)) ::
      (fix go (l : list (pair rule)) : list tok := match l with [] => [] | x :: l' => toks_of_pair x ++ go l' end) kids
  end.
Definition toks_of (l : list (pair rule)) : list tok := flat_map toks_of_pair l.

Definition tok_eqb (a b : tok) : bool :=
  match a, b with T r s e n, T r' s' e' n' => rule_eqb r r' && N.eqb s s' && N.eqb e e' && N.eqb n n' end.

Inductive case :=
| COp (file : N) (inp : str) (tree : option (list tok)) (ast : presult opdoc) (canon_same : bool)
| CTs (file : N) (inp : str) (tree : option (list tok)) (ast : presult tsdoc) (canon_same : bool).

Definition tree_agrees (start : rule) (inp : str) (tree : option (list tok)) : bool :=
  match parse_pairs start inp, tree with
  | Ok ps, Some t => list_eqb tok_eqb (toks_of ps) t
  | Fail, None => true
  | _, _ => false
  end.

Definition presult_eqb {A} (eqb : A -> A -> bool) (a b : presult A) : bool :=
  match a, b with
  | POk x, POk y => eqb x y
  | PErr, PErr => true
  | PPanic k, PPanic k' => N.eqb k k'
  | _, _ => false
  end.

Definition agree (c : case) : bool :=
  match c with
  | COp file inp tree ast _ =>
      tree_agrees R_ExecutableDocument inp tree && presult_eqb opdoc_eqb (parse_operation_document file inp) ast
  | CTs file inp tree ast _ =>
      tree_agrees R_TypeSystemExtensionDocument inp tree && presult_eqb tsdoc_eqb (parse_type_system_document file inp) ast
  end.

Definition holds (c : case) : bool :=
  match c with
  | COp _ _ _ _ same => same
  | CTs _ _ _ _ same => same
  end.
