(** C07 — correspondence: the model's pair tree and AST against pest's and the real builder's, and the
    spec-side predicate on the implementation's outputs. *)
From V Require Import Base.Util Gql.Ast Peg.Peg Gen.C07_grammar_gen C07.Builder C07.Model C07.AstEq C07.AstEqNP C07.Spec.

(** one pair in pre-order, as the harness prints pest's token queue *)
Inductive tok := T (r : rule) (s e n : N).

Fixpoint toks_of_pair (p : pair rule) : list tok :=
  match p with
  | Pair r s e kids =>
      T r s e (N.of_nat (length kids)) ::
      (fix go (l : list (pair rule)) : list tok := match l with [] => [] | x :: l' => toks_of_pair x ++ go l' end) kids
  end.
Definition toks_of (l : list (pair rule)) : list tok := flat_map toks_of_pair l.

Definition tok_eqb (a b : tok) : bool :=
  match a, b with T r s e n, T r' s' e' n' => rule_eqb r r' && N.eqb s s' && N.eqb e e' && N.eqb n n' end.

Inductive case :=
| COp (file : N) (inp : str) (tree : option (list tok)) (ast : presult opdoc) (canon_same : bool) (expect : N) (expected : option opdoc)
| CTs (file : N) (inp : str) (tree : option (list tok)) (ast : presult tsdoc) (canon_same : bool) (expect : N) (expected : option tsdoc).
(** [expected]: the abstract document the generator built this text from -- constructed from the generator's own
    choices (names, values, types, directives, descriptions, default values, members, locations, ...), never by
    parsing -- as a term of Gql/Ast.v with dummy positions. *)
(** [canon_same]: the position-erased AST equals that of the canonical rendering of the same token
    sequence (computed by the harness on the implementation's outputs; true when there is no partner).
    [expect] = 1: the harness built the text from the grammar of the specification, so it is a document of
    the language and the property speaks about it; 2: the text is known not to be in the language and must
    be rejected (a syntax error, not a result and not a panic); 0: nothing is claimed. *)

Definition tree_agrees (start : rule) (inp : str) (tree : option (list tok)) : bool :=
  match parse_pairs start inp, tree with
  | Ok ps, Some t => list_eqb tok_eqb (toks_of ps) t
  | Fail, None => true
  | _, _ => false
  end.

Definition presult_eqb {A} (eqb : A -> A -> bool) (a b : presult A) : bool :=
  match a, b with
  | POk x, POk y => eqb x y
  | PErr, PErr => true
  | PPanic k, PPanic k' => N.eqb k k'
  | _, _ => false
  end.

Definition agree (c : case) : bool :=
  match c with
  | COp file inp tree ast _ _ _ =>
      tree_agrees R_ExecutableDocument inp tree && presult_eqb opdoc_eqb (parse_operation_document file inp) ast
  | CTs file inp tree ast _ _ _ =>
      tree_agrees R_TypeSystemExtensionDocument inp tree && presult_eqb tsdoc_eqb (parse_type_system_document file inp) ast
  end.

(** the property, read on the implementation's own output: for a text of the language the parse must
    succeed, every positioned node must sit on its token (Spec.v), strings must carry the value the
    specification gives them, the result must not depend on ignored tokens, and -- where the generator supplied it -- the position-erased
    result must be the abstract document the text was generated from *)
Definition matches_expected {A} (eqb : A -> A -> bool) (d : A) (expected : option A) : bool :=
  match expected with Some e => eqb d e | None => true end.

Definition holds (c : case) : bool :=
  match c with
  | COp file inp _ ast same expect expected =>
      if N.eqb expect 1 then
        match ast with POk d => ck_opdoc inp file d && same && matches_expected opdoc_eqb_np d expected | _ => false end
      else if N.eqb expect 2 then match ast with PErr => true | _ => false end
      else true
  | CTs file inp _ ast same expect expected =>
      if N.eqb expect 1 then
        match ast with POk d => ck_tsdoc inp file d && same && matches_expected tsdoc_eqb_np d expected | _ => false end
      else if N.eqb expect 2 then match ast with PErr => true | _ => false end
      else true
  end.
