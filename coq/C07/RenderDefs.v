(** C07 — proofs, part 13: parse_render, sixth instalment (variable definitions, operation and fragment definitions,
    executable documents). *)
From V Require Import Base.Util Gql.Ast Peg.Peg Peg.PegProps Gen.C07_grammar_gen C07.Builder C07.Model C07.Spec C07.Proofs C07.Lexical C07.Strings C07.Numbers C07.Fuel C07.Render C07.RenderValues C07.RenderArgs C07.RenderDirs C07.RenderValid C07.RenderSel.
Local Open Scope N_scope.

(** ** variables and default values *)
Definition var_text (g n : str) : str := [36] ++ g ++ n.
Definition var_tree (g n : str) (j : N) : pr :=
  Pair R_Variable j (j + slen (var_text g n)) [Pair R_Name (j + 1 + slen g) (j + 1 + slen g + slen n) []].

Lemma variable_runs g n rest i : ws g = true -> is_name n = true -> not_name_cont_next rest ->
  runs G true ANon (Call R_Variable) (var_text g n ++ rest) i (Ok (rest, i + slen (var_text g n), [var_tree g n i])).
Proof.
  intros Hg Hn Hr. unfold var_tree, var_text. enter_rec_n R_Variable.
  assert (Hlen : i + slen ([36] ++ g ++ n) = i + 1 + slen g + slen n) by (rewrite !slen_app; change (slen [36]) with 1; lia).
  rewrite Hlen. rewrite <- !app_assoc.
  replace [Pair R_Name (i + 1 + slen g) (i + 1 + slen g + slen n) []] with (@nil pr ++ @nil pr ++ [Pair R_Name (i + 1 + slen g) (i + 1 + slen g + slen n) []]) by reflexivity.
  destruct (name_head n Hn) as [c [t [En Hc]]].
  eapply (runs_SeqS_ok gse gse_eq).
  - exact (runs_Lit_ok G true ANon [36] (g ++ n ++ rest) i).
  - change (slen [36]) with 1. apply skip_ws; [exact Hg|]. rewrite En. cbn [app]. apply name_start_token; exact Hc.
  - apply name_runs; assumption.
Qed.

Definition dv_text (dv : option (str * rval * str)) : str :=
  match dv with Some (ge, v, gv) => [61] ++ ge ++ render_val v ++ gv | None => [] end.
Definition dv_tree (ge : str) (v : rval) (j : N) : pr :=
  Pair R_DefaultValue j (j + slen ([61] ++ ge ++ render_val v)) [val_tree v (j + 1 + slen ge)].
Definition dv_o (dv : option (str * rval * str)) : oelt :=
  match dv with Some (ge, v, gv) => Some ([61] ++ ge ++ render_val v, gv, dv_tree ge v) | None => None end.
Lemma dv_o_text dv : o_text (dv_o dv) = dv_text dv.
Proof. destruct dv as [[[ge v] gv]|]; [|reflexivity]. cbn [dv_o o_text dv_text]. rewrite <- !app_assoc. reflexivity. Qed.
Definition wf_dv (dv : option (str * rval * str)) : bool :=
  match dv with Some (ge, v, gv) => ws ge && wf_val v && ws gv | None => true end.

Lemma defaultvalue_runs ge v rest i : ws ge = true -> wf_val v = true -> follow_val rest ->
  runs G true ANon (Call R_DefaultValue) (([61] ++ ge ++ render_val v) ++ rest) i
    (Ok (rest, i + slen ([61] ++ ge ++ render_val v), [dv_tree ge v i])).
Proof.
  intros Hge Hv Hf. unfold dv_tree. enter_rec_n R_DefaultValue.
  replace (([61] ++ ge ++ render_val v) ++ rest) with ([61] ++ ge ++ (render_val v ++ rest)) by (rewrite <- !app_assoc; reflexivity).
  replace (i + slen ([61] ++ ge ++ render_val v)) with (i + 1 + slen ge + slen (render_val v)) by (rewrite !slen_app; change (slen [61]) with 1; lia).
  replace [val_tree v (i + 1 + slen ge)] with (@nil pr ++ @nil pr ++ [val_tree v (i + 1 + slen ge)]) by reflexivity.
  destruct (render_val_head v Hv) as [c [r [E Hc]]].
  eapply (runs_SeqS_ok gse gse_eq).
  - exact (runs_Lit_ok G true ANon [61] (ge ++ render_val v ++ rest) i).
  - change (slen [61]) with 1. apply skip_ws; [exact Hge|]. rewrite E. cbn [app]. apply vstart_token; exact Hc.
  - apply value_runs; assumption.
Qed.
Lemma defaultvalue_fails k i : hdP k (fun d => N.eqb 61 d = false) -> runs G true ANon (Call R_DefaultValue) k i Fail.
Proof. intros H. enter_fail_n R_DefaultValue. apply (runs_SeqS_fail1 gse gse_eq). apply lit_fails_follow; exact H. Qed.

Lemma hd_dv dv R (P : N -> Prop) : P 61 -> (dv = None -> hdP R P) -> hdP (dv_text dv ++ R) P.
Proof. intros H1 H2. destruct dv as [[[ge v] gv]|]; [exact H1|exact (H2 eq_refl)]. Qed.

(** ** one variable definition:  "$" g name ga ":" gb Type gt ("=" ge Value gv)? Directives? *)
Inductive rvardef := RVarDef (g n ga gb : str) (t : rty) (gt : str) (dv : option (str * rval * str)) (ds : list rdir).
Definition vd_full (d : rvardef) : str :=
  match d with RVarDef g n ga gb t gt dv ds => var_text g n ++ ga ++ [58] ++ gb ++ render_ty t ++ gt ++ dv_text dv ++ dirs_text ds end.
Definition wf_vd (d : rvardef) : bool :=
  match d with RVarDef g n ga gb t gt dv ds =>
    ws g && is_name n && ws ga && ws gb && wf_rty t && ws gt && wf_dv dv && forallb rdir_wf ds end.
(** what follows a variable definition (after its trivia): the next one or the closing parenthesis *)
Definition vd_follow (k : str) : Prop := exists c t, k = c :: t /\ (c = 36 \/ c = 41).

Definition vd_elts g n ga gb t gt dv ds cd : list celt :=
  [(Call R_Variable, var_text g n, ga, fun j => [var_tree g n j]); (Lit [58], [58], gb, fun _ => []);
   (Call R_Type, render_ty t, gt, fun j => [ty_tree t j]);
   opt_elt (Call R_DefaultValue) (dv_o dv); opt_elt (Call R_Directives) (dirs_o ds cd [])].
Definition vd_txt g n ga gb t gt dv cd : str := var_text g n ++ ga ++ [58] ++ gb ++ render_ty t ++ gt ++ dv_text dv ++ cd.

Lemma vd_follow_facts k : vd_follow k ->
  at_token k /\ hdP k (fun d => is_name_cont d = false) /\ hdP k (fun d => N.eqb d 33 = false) /\ hdP k (fun d => N.eqb 61 d = false)
  /\ hdP k (fun d => N.eqb 64 d = false) /\ hdP k (fun d => N.eqb 40 d = false) /\ hdP k (fun d => is_punct d = true).
Proof. intros [c [t [-> [-> | ->]]]]; repeat split; reflexivity. Qed.

Lemma vd_chain g n ga gb t gt dv ds cd k :
  wf_vd (RVarDef g n ga gb t gt dv ds) = true ->
  dirs_text ds = cd ++ dirs_tail ds -> dirs_run ds cd -> vd_follow k ->
  chain_ok (vd_elts g n ga gb t gt dv ds cd) (dirs_tail ds ++ k).
Proof.
  intros Hwf Hcd Hdrun Hk. cbn [wf_vd] in Hwf.
  apply andb_true_iff in Hwf. destruct Hwf as [Hwf Hds]. apply andb_true_iff in Hwf. destruct Hwf as [Hwf Hdv].
  apply andb_true_iff in Hwf. destruct Hwf as [Hwf Hgt]. apply andb_true_iff in Hwf. destruct Hwf as [Hwf Ht].
  apply andb_true_iff in Hwf. destruct Hwf as [Hwf Hgb]. apply andb_true_iff in Hwf. destruct Hwf as [Hwf Hga].
  apply andb_true_iff in Hwf. destruct Hwf as [Hg Hn].
  destruct (vd_follow_facts k Hk) as [Hk1 [Hk2 [Hk3 [Hk4 [Hk5 [Hk6 Hk7]]]]]].
  set (K := dirs_tail ds ++ k). set (R5 := dirs_text ds ++ k). set (R4 := dv_text dv ++ R5).
  unfold vd_elts.
  set (e5 := opt_elt (Call R_Directives) (dirs_o ds cd [])). set (e4 := opt_elt (Call R_DefaultValue) (dv_o dv)).
  set (e3 := (Call R_Type, render_ty t, gt, fun j => [ty_tree t j])). set (e2 := (Lit [58], [58], gb, fun _ : N => @nil pr)).
  assert (E5 : chain_txt [e5] K = R5) by (apply spread_tail; exact Hcd).
  assert (E4 : chain_txt [e4; e5] K = R4) by (rewrite chain_txt_cons, E5; unfold e4; rewrite opt_elt_txt, dv_o_text; reflexivity).
  assert (E3 : chain_txt [e3; e4; e5] K = render_ty t ++ gt ++ R4) by (rewrite chain_txt_cons, E4; reflexivity).
  assert (E2 : chain_txt [e2; e3; e4; e5] K = [58] ++ gb ++ render_ty t ++ gt ++ R4) by (rewrite chain_txt_cons, E3; reflexivity).
  cbn [chain_ok]. rewrite E2, E3, E4, E5. cbn [chain_txt]. unfold e2, e3. cbn [c_text c_gap c_exp c_tree fst snd].
  assert (Htok5 : at_token R5) by (apply (hd_dirs ds k (fun d => is_wsc d = false /\ N.eqb d 35 = false)); [split; reflexivity|intros _; exact Hk1]).
  assert (Htok4 : at_token R4) by (apply (hd_dv dv R5 (fun d => is_wsc d = false /\ N.eqb d 35 = false)); [split; reflexivity|intros _; exact Htok5]).
  destruct (render_head t Ht) as [ct [rt [Et Hct]]].
  split; [exact Hga|]. split; [intros H; discriminate|]. split; [intros _; split; reflexivity|].
  split; [intros i; apply variable_runs; [exact Hg|exact Hn|apply ws_colon_not_name_cont; exact Hga]|].
  split; [exact Hgb|]. split; [intros H; discriminate|]. split; [intros _; rewrite Et; cbn [app]; apply token_head; exact Hct|].
  split; [intros i; exact (runs_Lit_ok G true ANon [58] (gb ++ render_ty t ++ gt ++ R4) i)|].
  split; [exact Hgt|]. split; [intros H; discriminate|]. split; [intros _; exact Htok4|].
  split.
  { intros i. apply type_runs; [exact Ht|]. exists gt, R4. split; [reflexivity|]. split; [exact Hgt|]. split; [exact Htok4|]. split.
    - apply (hd_dv dv R5 (fun d => N.eqb d 33 = false)); [reflexivity|]. intros _.
      apply (hd_dirs ds k (fun d => N.eqb d 33 = false)); [reflexivity|]. intros _. exact Hk3.
    - intros _. apply (hd_dv dv R5 (fun d => is_name_cont d = false)); [reflexivity|]. intros _.
      apply (hd_dirs ds k (fun d => is_name_cont d = false)); [reflexivity|]. intros _. exact Hk2. }
  split; [apply ws_opt_gap; intros t0 g' T E; destruct dv as [[[ge v] gv]|]; [|discriminate]; inversion E; subst;
          cbn [wf_dv] in Hdv; apply andb_true_iff in Hdv; tauto|].
  split; [intros H; discriminate|]. split; [intros _; exact Htok5|].
  split.
  { unfold e4. apply opt_elt_runs.
    - intros t0 g' T E i. destruct dv as [[[ge v] gv]|]; [|discriminate]. inversion E; subst.
      cbn [wf_dv] in Hdv. apply andb_true_iff in Hdv. destruct Hdv as [Hdv Hgv]. apply andb_true_iff in Hdv. destruct Hdv as [Hge Hv].
      apply defaultvalue_runs; [exact Hge|exact Hv|]. exists g', R5. split; [reflexivity|]. split; [exact Hgv|]. split; [exact Htok5|].
      intros _. apply (hd_dirs ds k (fun d => is_punct d = true)); [reflexivity|]. intros _. exact Hk7.
    - intros E i. apply defaultvalue_fails.
      apply (hd_dirs ds k (fun d => N.eqb 61 d = false)); [reflexivity|]. intros _. exact Hk4. }
  split; [apply ws_opt_gap; intros t0 g' T E; destruct (dirs_o_some _ _ _ _ _ _ E) as [_ [_ [-> _]]]; reflexivity|].
  split; [intros _; unfold e5; destruct ds; reflexivity|]. split; [intros H; contradiction|].
  split; [|exact I].
  unfold e5. apply opt_elt_runs.
  - intros t0 g' T E i. destruct (dirs_o_some _ _ _ _ _ _ E) as [Hne [-> [-> ->]]]. cbn [app].
    apply Hdrun; [exact Hne|].
    split; [exact Hk1|]. split; [exact Hk6|]. split; [exact Hk5|].
    destruct (last ds (RDir1 [] [] [] [] [] [])) as [? ? [|? ?]|]; try exact I. exact Hk2.
  - intros E i. apply directives_fails. destruct ds as [|d r]; [|discriminate]. cbn [dirs_tail app]. exact Hk5.
Qed.

Definition vd_tree g n ga gb t gt dv ds cd (i : N) : pr :=
  Pair R_VariableDefinition i (i + slen (vd_txt g n ga gb t gt dv cd)) (chain_trees (vd_elts g n ga gb t gt dv ds cd) i).

Lemma vd_runs g n ga gb t gt dv ds cd k :
  wf_vd (RVarDef g n ga gb t gt dv ds) = true ->
  dirs_text ds = cd ++ dirs_tail ds -> (ds = [] -> cd = []) -> dirs_run ds cd -> vd_follow k ->
  forall i, runs G true ANon (Call R_VariableDefinition) (vd_txt g n ga gb t gt dv cd ++ dirs_tail ds ++ k) i
    (Ok (dirs_tail ds ++ k, i + slen (vd_txt g n ga gb t gt dv cd), [vd_tree g n ga gb t gt dv ds cd i])).
Proof.
  intros Hwf Hcd Hcd0 Hdrun Hk i.
  pose proof (vd_chain g n ga gb t gt dv ds cd k Hwf Hcd Hdrun Hk) as Hok.
  assert (Hne : vd_elts g n ga gb t gt dv ds cd <> []) by (unfold vd_elts; discriminate).
  pose proof (chain_runs _ _ Hne Hok i) as H.
  assert (Htxt : chain_txt (vd_elts g n ga gb t gt dv ds cd) (dirs_tail ds ++ k) = vd_txt g n ga gb t gt dv cd ++ dirs_tail ds ++ k).
  { unfold vd_elts. do 4 rewrite chain_txt_cons. rewrite (spread_tail ds cd k Hcd), opt_elt_txt, dv_o_text. cbn [c_text c_gap fst snd].
    unfold vd_txt. rewrite Hcd, <- !app_assoc. reflexivity. }
  assert (Hlen : chain_len (vd_elts g n ga gb t gt dv ds cd) = slen (vd_txt g n ga gb t gt dv cd)).
  { unfold vd_elts, vd_txt. cbn [chain_len]. rewrite !opt_elt_len, dv_o_text, (dirs_o_text0 ds cd Hcd0). cbn [c_text c_gap fst snd].
    rewrite !slen_app. lia. }
  rewrite Htxt, Hlen in H.
  unfold vd_elts at 1 in H. cbn [map seqs] in H. rewrite !c_exp_opt in H. cbn [c_exp fst] in H.
  unfold vd_tree. enter_rec_n R_VariableDefinition. exact H.
Qed.

(** abstract variable definitions *)
Definition avardef := (str * aty * option aval * list (str * option (list (str * aval))))%type.
Definition erase_vd (d : rvardef) : avardef :=
  match d with RVarDef _ n _ _ t _ dv ds =>
    (n, erase_rty t, match dv with Some (_, v, _) => Some (erase_rval v) | None => None end, map rdir_erase ds) end.
Definition vd_erase (d : vardef) : avardef :=
  (vd_name d, ty_erase (vd_type d), option_map val_erase (vd_default d), map dir_erase (vd_dirs d)).

Lemma dv_build dv pre post file : exists dv',
  omapM (build_default_value (pre ++ dv_text dv ++ post) file) (o_pair (dv_o dv) (slen pre)) = BOk dv'
  /\ option_map val_erase dv' = match dv with Some (_, v, _) => Some (erase_rval v) | None => None end.
Proof.
  destruct dv as [[[ge v] gv]|]; [|exists None; split; reflexivity].
  cbn [dv_o o_pair omapM dv_text]. unfold dv_tree, build_default_value, only_child. cbn [pair_kids].
  destruct (build_value_ok v (pre ++ [61] ++ ge) (gv ++ post) file) as [v' [Hb He]].
  replace (pre ++ ([61] ++ ge ++ render_val v ++ gv) ++ post) with ((pre ++ [61] ++ ge) ++ render_val v ++ gv ++ post) by (rewrite <- !app_assoc; reflexivity).
  replace (slen pre + 1 + slen ge) with (slen (pre ++ [61] ++ ge)) by (rewrite !slen_app; change (slen [61]) with 1; lia).
  rewrite Hb. exists (Some v'). split; [reflexivity|]. cbn [option_map]. rewrite He. reflexivity.
Qed.

Lemma build_type_ok t pre rest file : wf_rty t = true ->
  exists ty', build_type (pre ++ render_ty t ++ rest) file (ty_tree t (slen pre)) = BOk ty' /\ ty_erase ty' = erase_rty t.
Proof.
  intros Hwf. destruct (build_inner file t Hwf pre rest) as [ty' [Hb He]]. exists ty'. split; [|exact He].
  unfold build_type, only_child. rewrite ty_tree_inner. cbn [pair_kids]. exact Hb.
Qed.

Lemma vd_build g n ga gb t gt dv ds cd pre rest file :
  wf_rty t = true ->
  dirs_text ds = cd ++ dirs_tail ds ->
  exists vd', build_variable_definition (pre ++ vd_txt g n ga gb t gt dv cd ++ dirs_tail ds ++ rest) file (vd_tree g n ga gb t gt dv ds cd (slen pre)) = BOk vd'
              /\ vd_erase vd' = erase_vd (RVarDef g n ga gb t gt dv ds).
Proof.
  intros Ht Hcd.
  set (inp := pre ++ vd_txt g n ga gb t gt dv cd ++ dirs_tail ds ++ rest).
  set (e4 := opt_elt (Call R_DefaultValue) (dv_o dv)). set (e5 := opt_elt (Call R_Directives) (dirs_o ds cd [])).
  pose proof (opt_elt_len (Call R_DefaultValue) (dv_o dv)) as L4. rewrite dv_o_text in L4. fold e4 in L4.
  set (o2 := slen pre + slen (var_text g n) + slen ga). set (o3 := o2 + slen [58] + slen gb).
  set (o4 := o3 + slen (render_ty t) + slen gt). set (o5 := o4 + slen (c_text e4) + slen (c_gap e4)).
  assert (HV : inp = (pre ++ [36] ++ g) ++ n ++ (ga ++ [58] ++ gb ++ render_ty t ++ gt ++ dv_text dv ++ dirs_text ds ++ rest))
    by (unfold inp, vd_txt, var_text; rewrite Hcd, <- !app_assoc; reflexivity).
  assert (HT : inp = (pre ++ var_text g n ++ ga ++ [58] ++ gb) ++ render_ty t ++ (gt ++ dv_text dv ++ dirs_text ds ++ rest))
    by (unfold inp, vd_txt; rewrite Hcd, <- !app_assoc; reflexivity).
  assert (HD : inp = (pre ++ var_text g n ++ ga ++ [58] ++ gb ++ render_ty t ++ gt) ++ dv_text dv ++ (dirs_text ds ++ rest))
    by (unfold inp, vd_txt; rewrite Hcd, <- !app_assoc; reflexivity).
  assert (HC : inp = (pre ++ var_text g n ++ ga ++ [58] ++ gb ++ render_ty t ++ gt ++ dv_text dv) ++ dirs_text ds ++ rest)
    by (unfold inp, vd_txt; rewrite Hcd, <- !app_assoc; reflexivity).
  assert (O3 : o3 = slen (pre ++ var_text g n ++ ga ++ [58] ++ gb)) by (unfold o3, o2; rewrite !slen_app; lia).
  assert (O4 : o4 = slen (pre ++ var_text g n ++ ga ++ [58] ++ gb ++ render_ty t ++ gt)) by (unfold o4; rewrite O3, !slen_app; lia).
  assert (O5 : o5 = slen (pre ++ var_text g n ++ ga ++ [58] ++ gb ++ render_ty t ++ gt ++ dv_text dv)) by (unfold o5; rewrite O4, !slen_app; lia).
  destruct (build_type_ok t (pre ++ var_text g n ++ ga ++ [58] ++ gb) (gt ++ dv_text dv ++ dirs_text ds ++ rest) file Ht) as [ty' [T1 T2]].
  rewrite <- HT, <- O3 in T1.
  destruct (dv_build dv (pre ++ var_text g n ++ ga ++ [58] ++ gb ++ render_ty t ++ gt) (dirs_text ds ++ rest) file) as [dv' [D1 D2]]. rewrite <- HD, <- O4 in D1.
  destruct (dirs_build ds cd [] (pre ++ var_text g n ++ ga ++ [58] ++ gb ++ render_ty t ++ gt ++ dv_text dv) rest file) as [ds' [C1 C2]]. rewrite <- HC, <- O5 in C1.
  unfold vd_tree, vd_elts, build_variable_definition. cbn [pair_kids].
  rewrite !chain_trees_cons. cbn [chain_trees]. fold e4 e5. rewrite app_nil_r.
  cbn [c_tree c_text c_gap fst snd app]. fold o2. fold o3. fold o4. fold o5.
  rewrite (slot_req_hit R_Variable) by reflexivity.
  rewrite (slot_req_hit R_Type) by reflexivity.
  unfold e4. rewrite (slot_opt_elt R_DefaultValue).
  2:{ intros t0 g' T E. destruct dv as [[[ge v] gv]|]; [|discriminate]. inversion E; subst. reflexivity. }
  2:{ intros _. rewrite <- (app_nil_r (c_tree e5 o5)). unfold e5. apply hdR_opt; [|intros _; exact I].
      intros t0 g' T E. destruct (dirs_o_some _ _ _ _ _ _ E) as [_ [_ [_ ->]]]. reflexivity. }
  rewrite <- (app_nil_r (c_tree e5 o5)). unfold e5. rewrite (slot_opt_elt R_Directives).
  2:{ intros t0 g' T E. destruct (dirs_o_some _ _ _ _ _ _ E) as [_ [_ [_ ->]]]. reflexivity. }
  2:{ intros _. exact I. }
  fold inp. unfold build_variable at 1, only_child, var_tree. cbn [pair_kids bbind]. rewrite T1. cbn [bbind]. rewrite D1. cbn [bbind]. rewrite C1. cbn [bbind].
  eexists. split; [reflexivity|]. unfold vd_erase, erase_vd. cbn [vd_name vd_type vd_default vd_dirs fst snd]. rewrite T2, D2, C2.
  f_equal. f_equal. f_equal. unfold as_str. cbn [pair_start pair_end]. rewrite HV. apply substr_mid'. rewrite !slen_app. change (slen [36]) with 1. lia.
Qed.

Lemma vd_valid g n ga gb t gt dv ds cd pre rest : dirs_text ds = cd ++ dirs_tail ds ->
  valid (pre ++ vd_txt g n ga gb t gt dv cd ++ dirs_tail ds ++ rest) (vd_tree g n ga gb t gt dv ds cd (slen pre)).
Proof.
  intros Hcd. unfold vd_tree. apply valid_node; [discriminate|].
  assert (Htxt : vd_txt g n ga gb t gt dv cd ++ dirs_tail ds ++ rest = chain_txt (vd_elts g n ga gb t gt dv ds cd) (dirs_tail ds ++ rest)).
  { unfold vd_elts. do 4 rewrite chain_txt_cons. rewrite (spread_tail ds cd rest Hcd), opt_elt_txt, dv_o_text. cbn [c_text c_gap fst snd].
    unfold vd_txt. rewrite Hcd, <- !app_assoc. reflexivity. }
  rewrite Htxt. apply chain_trees_valid. unfold vd_elts. cbn [chain_valid]. repeat split.
  - intros pre'. cbn [c_tree snd]. constructor; [|constructor]. unfold var_tree. apply valid_node; [discriminate|]. constructor; [apply leaf_valid; discriminate|constructor].
  - intros pre'. constructor.
  - intros pre'. cbn [c_tree snd]. constructor; [apply ty_tree_valid|constructor].
  - apply opt_elt_valid. intros t0 g' T E pre'. destruct dv as [[[ge v] gv]|]; [|discriminate]. inversion E; subst.
    unfold dv_tree. apply valid_node; [discriminate|]. constructor; [|constructor].
    set (TAIL := chain_txt _ _).
    replace (pre' ++ (61 :: ge ++ render_val v) ++ g' ++ TAIL) with ((pre' ++ [61] ++ ge) ++ render_val v ++ (g' ++ TAIL)) by (cbn [app]; rewrite <- ?app_assoc; cbn [app]; rewrite <- ?app_assoc; reflexivity).
    replace (slen pre' + 1 + slen ge) with (slen (pre' ++ [61] ++ ge)) by (rewrite !slen_app; change (slen [61]) with 1; lia).
    apply value_valid.
  - cbn [chain_txt]. apply opt_elt_valid. intros t0 g' T E pre'. destruct (dirs_o_some _ _ _ _ _ _ E) as [_ [-> [-> ->]]]. cbn [app].
    replace (pre' ++ cd ++ dirs_tail ds ++ rest) with (pre' ++ dirs_text ds ++ rest) by (rewrite Hcd, <- !app_assoc; reflexivity).
    apply directives_pair_valid.
Qed.

(** a variable definition as an item of the list *)
Definition vd_ok (d : rvardef) : Prop := exists (txt gap : str) (T : N -> pr),
  txt ++ gap = vd_full d /\ ws gap = true /\ (exists t, txt = 36 :: t) /\
  (forall i, pair_rule (T i) = R_VariableDefinition) /\
  (forall k i, vd_follow k -> runs G true ANon (Call R_VariableDefinition) (txt ++ gap ++ k) i (Ok (gap ++ k, i + slen txt, [T i]))) /\
  (forall pre rest file, exists vd', build_variable_definition (pre ++ txt ++ gap ++ rest) file (T (slen pre)) = BOk vd' /\ vd_erase vd' = erase_vd d) /\
  (forall pre rest, valid (pre ++ txt ++ gap ++ rest) (T (slen pre))).

Lemma wf_vd_ok d : wf_vd d = true -> vd_ok d.
Proof.
  destruct d as [g n ga gb t gt dv ds]. intros Hwf.
  assert (Hds : forallb rdir_wf ds = true) by (cbn [wf_vd] in Hwf; apply andb_true_iff in Hwf; tauto).
  assert (Ht : wf_rty t = true) by (cbn [wf_vd] in Hwf; repeat (apply andb_true_iff in Hwf; destruct Hwf as [Hwf ?]); assumption).
  destruct (dirs_split' ds Hds) as [cd [Hcd [Hgd [Hcd0 [_ Hdrun]]]]].
  exists (vd_txt g n ga gb t gt dv cd), (dirs_tail ds), (vd_tree g n ga gb t gt dv ds cd).
  split; [cbn [vd_full]; unfold vd_txt; rewrite Hcd, <- !app_assoc; reflexivity|]. split; [exact Hgd|].
  split; [unfold vd_txt, var_text; cbn [app]; eexists; reflexivity|].
  split; [intros i; reflexivity|]. split.
  - intros k i Hk. apply vd_runs; assumption.
  - split; [intros pre rest file; apply vd_build; assumption|intros pre rest; apply vd_valid; exact Hcd].
Qed.

(** ** VariablesDefinition:  "(" g0 VariableDefinition+ ")" *)
Definition vds_body (l : list rvardef) : str := flat_map vd_full l.
Definition vds_text (g0 : str) (l : list rvardef) : str := [40] ++ g0 ++ vds_body l ++ [41].
Definition wf_vds (g0 : str) (l : list rvardef) : bool := ws g0 && negb (match l with [] => true | _ => false end) && forallb wf_vd l.

Lemma variabledefinition_fails k i : hdP k (fun d => N.eqb 36 d = false) -> runs G true ANon (Call R_VariableDefinition) k i Fail.
Proof.
  intros H. enter_fail_n R_VariableDefinition. apply (runs_SeqS_fail1 gse gse_eq).
  enter_fail_n R_Variable. apply (runs_SeqS_fail1 gse gse_eq). apply lit_fails_follow; exact H.
Qed.

Lemma vds_items : forall l, forallb wf_vd l = true ->
  exists its : list item,
    items_text its = vds_body l /\ length its = length l /\
    (forall rest, items_ok (Call R_VariableDefinition) [41] rest its) /\
    (forall i, forallb (is_rule R_VariableDefinition) (items_trees its i) = true) /\
    (forall pre post file, exists vs,
        mapM (build_variable_definition (pre ++ items_text its ++ post) file) (items_trees its (slen pre)) = BOk vs
        /\ map vd_erase vs = map erase_vd l) /\
    Forall item_valid its.
Proof.
  induction l as [|d r IH]; intros Hall.
  { exists []. split; [reflexivity|]. split; [reflexivity|]. split; [intros rest; exact I|]. split; [intros i; reflexivity|].
    split; [|constructor]. intros pre post file. exists []. split; reflexivity. }
  cbn [forallb] in Hall. apply andb_true_iff in Hall. destruct Hall as [Hd Hr].
  destruct (IH Hr) as [its [Htxt [Hlen [Hok [Hrules [Hbuild Hvalid]]]]]].
  destruct (wf_vd_ok d Hd) as [txt [gap [T [Hfull [Hgap [[t0 Etxt] [Hrule [Hrun [Hb Hv]]]]]]]]].
  exists ((txt, gap, fun i => [T i]) :: its).
  split; [cbn [items_text]; unfold it_text, it_gap; cbn [fst snd]; rewrite Htxt; unfold vds_body; cbn [flat_map]; rewrite <- Hfull, <- app_assoc; reflexivity|].
  split; [cbn [length]; rewrite Hlen; reflexivity|].
  split.
  { intros rest. cbn [items_ok]. split; [|apply Hok].
    unfold item_ok, it_text, it_gap, it_tree. cbn [fst snd].
    split; [exact Hgap|]. split; [rewrite Etxt; split; reflexivity|].
    intros i. apply Hrun. rewrite Htxt.
    destruct r as [|d2 r2]; [cbn [vds_body flat_map app]; eexists; eexists; split; [reflexivity|right; reflexivity]|].
    unfold vds_body. cbn [flat_map]. destruct d2. cbn [vd_full]. unfold var_text. cbn [app]. eexists; eexists; split; [reflexivity|left; reflexivity]. }
  split.
  { intros i. cbn [items_trees]. unfold it_tree at 1. cbn [snd app forallb]. unfold is_rule at 1. rewrite Hrule.
    change (rule_eqb R_VariableDefinition R_VariableDefinition) with true. cbn [andb]. apply Hrules. }
  split.
  2:{ constructor; [|exact Hvalid]. intros pre rest. unfold it_text, it_gap, it_tree. cbn [fst snd]. constructor; [apply Hv|constructor]. }
  intros pre post file.
  cbn [items_text items_trees]. unfold it_text, it_gap, it_tree. cbn [fst snd app].
  destruct (Hb pre (items_text its ++ post) file) as [vd' [Hb1 Hb2]].
  destruct (Hbuild (pre ++ txt ++ gap) post file) as [vs [Hl1 Hl2]].
  exists (vd' :: vs). split; [|cbn [map]; rewrite Hb2, Hl2; reflexivity].
  rewrite mapM_cons.
  replace (pre ++ (txt ++ gap ++ items_text its) ++ post) with (pre ++ txt ++ gap ++ items_text its ++ post) by (rewrite <- !app_assoc; reflexivity).
  rewrite Hb1.
  replace (pre ++ txt ++ gap ++ items_text its ++ post) with ((pre ++ txt ++ gap) ++ items_text its ++ post) by (rewrite <- !app_assoc; reflexivity).
  replace (slen pre + slen txt + slen gap) with (slen (pre ++ txt ++ gap)) by (rewrite !slen_app; lia).
  rewrite Hl1. reflexivity.
Qed.

Definition vds_ok (g0 : str) (l : list rvardef) : Prop := exists T : N -> pr,
  (forall i, pair_rule (T i) = R_VariablesDefinition) /\
  (forall rest i, runs G true ANon (Call R_VariablesDefinition) (vds_text g0 l ++ rest) i (Ok (rest, i + slen (vds_text g0 l), [T i]))) /\
  (forall pre rest file, exists v', build_variables_definition (pre ++ vds_text g0 l ++ rest) file (T (slen pre)) = BOk v'
                                    /\ map vd_erase (vds_list v') = map erase_vd l) /\
  (forall pre rest, valid (pre ++ vds_text g0 l ++ rest) (T (slen pre))).

Lemma wf_vds_ok g0 l : wf_vds g0 l = true -> vds_ok g0 l.
Proof.
  unfold wf_vds. intros H. apply andb_true_iff in H. destruct H as [H Hall]. apply andb_true_iff in H. destruct H as [Hg0 Hne].
  apply negb_true_iff in Hne.
  destruct (vds_items l Hall) as [its [Htxt [Hlen [Hok [Hrules [Hbuild Hvalid]]]]]].
  destruct its as [|it its']; [destruct l; discriminate|].
  set (txt := vds_text g0 l).
  assert (Hclose : forall rest, at_token ([41] ++ rest)) by (intros rest; split; reflexivity).
  exists (fun i => Pair R_VariablesDefinition i (i + slen txt) (items_trees (it :: its') (i + 1 + slen g0))).
  split; [intros i; reflexivity|]. split; [|split].
  - intros rest i. fold txt.
    assert (Ht : txt ++ rest = [40] ++ g0 ++ (items_text (it :: its') ++ [41] ++ rest)).
    { unfold txt, vds_text. rewrite Htxt, <- !app_assoc. reflexivity. }
    assert (Hl : i + slen txt = i + 1 + slen g0 + slen (items_text (it :: its')) + 1).
    { unfold txt, vds_text. rewrite Htxt, !slen_app. change (slen [40]) with 1. change (slen [41]) with 1. lia. }
    rewrite Ht, Hl. enter_rec_n R_VariablesDefinition.
    replace (items_trees (it :: its') (i + 1 + slen g0)) with (@nil pr ++ @nil pr ++ items_trees (it :: its') (i + 1 + slen g0)) by reflexivity.
    eapply (runs_SeqS_ok gse gse_eq).
    + exact (runs_Lit_ok G true ANon [40] (g0 ++ items_text (it :: its') ++ [41] ++ rest) i).
    + apply skip_ws; [exact Hg0|]. apply (items_tail_token (Call R_VariableDefinition) [41] rest (Hclose rest) (it :: its') (Hok rest)).
    + change (slen [40]) with 1.
      pose proof (items_plus_close (Call R_VariableDefinition) [41] rest (Hclose rest)
                    (fun j => variabledefinition_fails ([41] ++ rest) j eq_refl) it its' (i + 1 + slen g0) (Hok rest)) as Hp.
      change (slen [41]) with 1 in Hp. exact Hp.
  - intros pre rest file. fold txt.
    destruct (Hbuild (pre ++ [40] ++ g0) ([41] ++ rest) file) as [vs [Hl1 Hl2]].
    assert (Hinp : pre ++ txt ++ rest = (pre ++ [40] ++ g0) ++ items_text (it :: its') ++ [41] ++ rest).
    { unfold txt, vds_text. rewrite Htxt, <- !app_assoc. reflexivity. }
    unfold build_variables_definition, all_children. cbn [pair_kids]. rewrite Hrules, Hinp.
    replace (slen pre + 1 + slen g0) with (slen (pre ++ [40] ++ g0)) by (rewrite !slen_app; change (slen [40]) with 1; lia).
    rewrite Hl1. cbn [bbind]. eexists. split; [reflexivity|]. cbn [vds_list]. exact Hl2.
  - intros pre rest. fold txt. apply valid_node; [discriminate|].
    assert (Hinp : pre ++ txt ++ rest = (pre ++ [40] ++ g0) ++ items_text (it :: its') ++ [41] ++ rest).
    { unfold txt, vds_text. rewrite Htxt, <- !app_assoc. reflexivity. }
    rewrite Hinp. replace (slen pre + 1 + slen g0) with (slen (pre ++ [40] ++ g0)) by (rewrite !slen_app; change (slen [40]) with 1; lia).
    apply items_valid; exact Hvalid.
Qed.

(** ** operation definitions *)
Definition kw_text (ot : optype) : str :=
  match ot with Query => s "query" | Mutation => s "mutation" | Subscription => s "subscription" end.
Definition kw_rule (ot : optype) : rule :=
  match ot with Query => R_KEYWORD_query | Mutation => R_KEYWORD_mutation | Subscription => R_KEYWORD_subscription end.
Definition optype_tree (ot : optype) (j : N) : pr :=
  Pair R_OperationType j (j + slen (kw_text ot)) [Pair (kw_rule ot) j (j + slen (kw_text ot)) []].

Lemma optype_runs ot rest i : not_name_cont_next rest ->
  runs G true ANon (Call R_OperationType) (kw_text ot ++ rest) i (Ok (rest, i + slen (kw_text ot), [optype_tree ot i])).
Proof.
  intros Hr. unfold optype_tree. enter_rec_n R_OperationType. destruct ot; cbn [kw_text kw_rule].
  - apply runs_Alt_l. exact (keyword_ok R_KEYWORD_query (s "query") rest true i eq_refl Hr).
  - apply runs_Alt_r; [exact (keyword_fails_head R_KEYWORD_query _ 113 109 _ true i eq_refl eq_refl)|].
    apply runs_Alt_l. exact (keyword_ok R_KEYWORD_mutation (s "mutation") rest true i eq_refl Hr).
  - apply runs_Alt_r; [exact (keyword_fails_head R_KEYWORD_query _ 113 115 _ true i eq_refl eq_refl)|].
    apply runs_Alt_r; [exact (keyword_fails_head R_KEYWORD_mutation _ 109 115 _ true i eq_refl eq_refl)|].
    exact (keyword_ok R_KEYWORD_subscription (s "subscription") rest true i eq_refl Hr).
Qed.
Lemma optype_fails c t i : N.eqb 113 c = false -> N.eqb 109 c = false -> N.eqb 115 c = false ->
  runs G true ANon (Call R_OperationType) (c :: t) i Fail.
Proof.
  intros H1 H2 H3. enter_fail_n R_OperationType.
  apply runs_Alt_r; [exact (keyword_fails_head R_KEYWORD_query _ 113 c t true i eq_refl H1)|].
  apply runs_Alt_r; [exact (keyword_fails_head R_KEYWORD_mutation _ 109 c t true i eq_refl H2)|].
  exact (keyword_fails_head R_KEYWORD_subscription _ 115 c t true i eq_refl H3).
Qed.

Lemma follow_dirs_brace ds X : follow_dirs ds (123 :: X).
Proof.
  split; [split; reflexivity|]. split; [reflexivity|]. split; [reflexivity|].
  destruct (last ds (RDir1 [] [] [] [] [] [])) as [? ? [|? ?]|]; try exact I. reflexivity.
Qed.

Definition name_o (name : option (str * str)) : oelt :=
  match name with Some (n, g2) => Some (n, g2, fun j => Pair R_Name j (j + slen n) []) | None => None end.
Definition oname_text (name : option (str * str)) : str := match name with Some (n, g2) => n ++ g2 | None => [] end.
Lemma name_o_text name : o_text (name_o name) = oname_text name.
Proof. destruct name as [[n g2]|]; reflexivity. Qed.

Definition vars_o (vars : option (str * list rvardef * str)) (Tv : N -> pr) : oelt :=
  match vars with Some (g0, l, g3) => Some (vds_text g0 l, g3, Tv) | None => None end.
Definition ovars_text (vars : option (str * list rvardef * str)) : str :=
  match vars with Some (g0, l, g3) => vds_text g0 l ++ g3 | None => [] end.
Lemma vars_o_text vars Tv : o_text (vars_o vars Tv) = ovars_text vars.
Proof. destruct vars as [[[g0 l] g3]|]; reflexivity. Qed.

Lemma hd_name name R (P : N -> Prop) : (forall n g2 c t, name = Some (n, g2) -> n = c :: t -> P c) -> (name = None -> hdP R P) ->
  (forall n g2, name = Some (n, g2) -> n <> []) -> hdP (oname_text name ++ R) P.
Proof.
  intros H1 H2 H3. destruct name as [[n g2]|]; [|exact (H2 eq_refl)].
  destruct n as [|c t]; [exfalso; exact (H3 [] g2 eq_refl eq_refl)|]. exact (H1 (c :: t) g2 c t eq_refl eq_refl).
Qed.
Lemma hd_vars vars R (P : N -> Prop) : P 40 -> (vars = None -> hdP R P) -> hdP (ovars_text vars ++ R) P.
Proof. intros H1 H2. destruct vars as [[[g0 l] g3]|]; [exact H1|exact (H2 eq_refl)]. Qed.

Definition wf_oname (g1 : str) (name : option (str * str)) : bool :=
  match name with Some (n, g2) => is_name n && ws g2 && negb (match g1 with [] => true | _ => false end) | None => true end.
Definition wf_ovars (vars : option (str * list rvardef * str)) : bool :=
  match vars with Some (g0, l, g3) => wf_vds g0 l && ws g3 | None => true end.

Definition op_elts ot g1 name vars Tv ds cd ss Tf : list celt :=
  [(Call R_OperationType, kw_text ot, g1, fun j => [optype_tree ot j]); opt_elt (Call R_Name) (name_o name);
   opt_elt (Call R_VariablesDefinition) (vars_o vars Tv); opt_elt (Call R_Directives) (dirs_o ds cd (dirs_tail ds));
   (Call R_SelectionSet, ss_text ss, [], fun j => [Tf j])].
Definition op_txt ot g1 name vars ds ss : str := kw_text ot ++ g1 ++ oname_text name ++ ovars_text vars ++ dirs_text ds ++ ss_text ss.

Definition vds_runs g0 l (Tv : N -> pr) : Prop :=
  forall rest i, runs G true ANon (Call R_VariablesDefinition) (vds_text g0 l ++ rest) i (Ok (rest, i + slen (vds_text g0 l), [Tv i])).

Lemma variablesdefinition_fails k i : hdP k (fun d => N.eqb 40 d = false) -> runs G true ANon (Call R_VariablesDefinition) k i Fail.
Proof. intros H. enter_fail_n R_VariablesDefinition. apply (runs_SeqS_fail1 gse gse_eq). apply lit_fails_follow; exact H. Qed.

Lemma op_chain ot g1 name vars Tv ds cd ss Tf K :
  ws g1 = true -> wf_oname g1 name = true -> wf_ovars vars = true -> forallb rdir_wf ds = true ->
  dirs_text ds = cd ++ dirs_tail ds -> ws (dirs_tail ds) = true -> dirs_run ds cd ->
  (forall g0 l g3, vars = Some (g0, l, g3) -> vds_runs g0 l Tv) -> ss_runs ss Tf ->
  chain_ok (op_elts ot g1 name vars Tv ds cd ss Tf) K.
Proof.
  intros Hg1 Hname Hvars Hds Hcd Hgd Hdrun Hvruns Hss.
  set (R5 := ss_text ss ++ K). set (R4 := dirs_text ds ++ R5). set (R3 := ovars_text vars ++ R4). set (R2 := oname_text name ++ R3).
  unfold op_elts.
  set (e2 := opt_elt (Call R_Name) (name_o name)). set (e3 := opt_elt (Call R_VariablesDefinition) (vars_o vars Tv)).
  set (e4 := opt_elt (Call R_Directives) (dirs_o ds cd (dirs_tail ds))). set (e5 := (Call R_SelectionSet, ss_text ss, [], fun j => [Tf j])).
  assert (E5 : chain_txt [e5] K = R5) by reflexivity.
  assert (E4 : chain_txt [e4; e5] K = R4) by (rewrite chain_txt_cons, E5; unfold e4; rewrite opt_elt_txt, (dirs_o_text ds cd (dirs_tail ds) Hcd); reflexivity).
  assert (E3 : chain_txt [e3; e4; e5] K = R3) by (rewrite chain_txt_cons, E4; unfold e3; rewrite opt_elt_txt, vars_o_text; reflexivity).
  assert (E2 : chain_txt [e2; e3; e4; e5] K = R2) by (rewrite chain_txt_cons, E3; unfold e2; rewrite opt_elt_txt, name_o_text; reflexivity).
  cbn [chain_ok]. rewrite E2, E3, E4, E5. cbn [chain_txt]. unfold e5. cbn [c_text c_gap c_exp c_tree fst snd].
  destruct (ss_text_head ss) as [st Est].
  assert (H5 : forall P : N -> Prop, P 123 -> hdP R5 P) by (intros P HP; unfold R5; rewrite Est; exact HP).
  assert (H4 : forall P : N -> Prop, P 123 -> P 64 -> hdP R4 P) by (intros P HP HQ; apply hd_dirs; [exact HQ|intros _; apply H5; exact HP]).
  assert (H3 : forall P : N -> Prop, P 123 -> P 64 -> P 40 -> hdP R3 P) by (intros P HP HQ HR; apply hd_vars; [exact HR|intros _; apply H4; assumption]).
  assert (Hnm : forall n g2, name = Some (n, g2) -> is_name n = true /\ ws g2 = true /\ g1 <> []).
  { intros n g2 ->. cbn [wf_oname] in Hname. apply andb_true_iff in Hname. destruct Hname as [Hname Hne]. apply andb_true_iff in Hname.
    destruct Hname as [Hn Hg2]. apply negb_true_iff in Hne. repeat split; try assumption. intros ->. discriminate. }
  assert (Htok2 : at_token R2).
  { apply (hd_name name R3 (fun d => is_wsc d = false /\ N.eqb d 35 = false)).
    - intros n g2 c t E En. destruct (Hnm n g2 E) as [Hn _]. rewrite En in Hn. unfold is_name in Hn. apply andb_true_iff in Hn.
      exact (name_start_token c [] (proj1 Hn)).
    - intros _. apply (H3 (fun d => is_wsc d = false /\ N.eqb d 35 = false)); split; reflexivity.
    - intros n g2 E En. destruct (Hnm n g2 E) as [Hn _]. rewrite En in Hn. discriminate. }
  split; [exact Hg1|]. split; [intros H; discriminate|]. split; [intros _; exact Htok2|].
  split.
  { intros i. apply optype_runs. apply ws_then_not_name_cont; [exact Hg1|]. intros Eg.
    apply (hd_name name R3 (fun d => is_name_cont d = false)).
    - intros n g2 c t E _. destruct (Hnm n g2 E) as [_ [_ Hne]]. contradiction.
    - intros _. apply (H3 (fun d => is_name_cont d = false)); reflexivity.
    - intros n g2 E _. destruct (Hnm n g2 E) as [_ [_ Hne]]. contradiction. }
  split; [apply ws_opt_gap; intros t g' T E; destruct name as [[n g2]|]; [|discriminate]; inversion E; subst; exact (proj1 (proj2 (Hnm _ _ eq_refl)))|].
  split; [intros H; discriminate|].
  split; [intros _; apply (H3 (fun d => is_wsc d = false /\ N.eqb d 35 = false)); split; reflexivity|].
  split.
  { unfold e2. apply opt_elt_runs.
    - intros t g' T E i. destruct name as [[n g2]|]; [|discriminate]. inversion E; subst. destruct (Hnm _ _ eq_refl) as [Hn [Hg2 _]].
      apply name_runs; [exact Hn|]. apply ws_then_not_name_cont; [exact Hg2|]. intros _. apply (H3 (fun d => is_name_cont d = false)); reflexivity.
    - intros E i. pose proof (H3 (fun d => is_name_start d = false) eq_refl eq_refl eq_refl) as Hh.
      assert (Hne : R3 <> []).
      { unfold R3, R4, R5. rewrite Est. intros Habs. apply app_eq_nil in Habs. destruct Habs as [_ Habs]. apply app_eq_nil in Habs. destruct Habs as [_ Habs]. discriminate. }
      destruct R3 as [|c0 t0]; [contradiction|]. apply name_fails; exact Hh. }
  split; [apply ws_opt_gap; intros t g' T E; destruct vars as [[[g0 l] g3]|]; [|discriminate]; inversion E; subst;
          cbn [wf_ovars] in Hvars; apply andb_true_iff in Hvars; tauto|].
  split; [intros H; discriminate|].
  split; [intros _; apply (H4 (fun d => is_wsc d = false /\ N.eqb d 35 = false)); split; reflexivity|].
  split.
  { unfold e3. apply opt_elt_runs.
    - intros t g' T E i. destruct vars as [[[g0 l] g3]|]; [|discriminate]. inversion E; subst. apply (Hvruns g0 l g' eq_refl).
    - intros E i. apply variablesdefinition_fails. apply (H4 (fun d => N.eqb 40 d = false)); reflexivity. }
  split; [apply ws_opt_gap; intros t g' T E; destruct (dirs_o_some _ _ _ _ _ _ E) as [_ [_ [-> _]]]; exact Hgd|].
  split; [intros H; discriminate|].
  split; [intros _; apply (H5 (fun d => is_wsc d = false /\ N.eqb d 35 = false)); split; reflexivity|].
  split.
  { unfold e4. apply opt_elt_runs.
    - intros t g' T E i. destruct (dirs_o_some _ _ _ _ _ _ E) as [Hne [-> [-> ->]]].
      apply Hdrun; [exact Hne|]. unfold R5. rewrite Est. apply follow_dirs_brace.
    - intros E i. apply directives_fails. apply (H5 (fun d => N.eqb 64 d = false)); reflexivity. }
  split; [reflexivity|]. split; [intros _; reflexivity|]. split; [intros H; contradiction|].
  split; [|exact I].
  intros i. cbn [app]. apply Hss.
Qed.

Definition op_def_tree ot g1 name vars Tv ds cd ss Tf (i : N) : pr :=
  let e := i + slen (op_txt ot g1 name vars ds ss) in
  Pair R_ExecutableDefinition i e [Pair R_OperationDefinition i e (chain_trees (op_elts ot g1 name vars Tv ds cd ss Tf) i)].

Lemma op_chain_txt ot g1 name vars Tv ds cd ss Tf K : dirs_text ds = cd ++ dirs_tail ds ->
  chain_txt (op_elts ot g1 name vars Tv ds cd ss Tf) K = op_txt ot g1 name vars ds ss ++ K.
Proof.
  intros Hcd. unfold op_elts, op_txt. rewrite !chain_txt_cons. cbn [chain_txt].
  rewrite !opt_elt_txt, name_o_text, vars_o_text, (dirs_o_text ds cd (dirs_tail ds) Hcd).
  cbn [c_text c_gap fst snd app]. rewrite <- !app_assoc. reflexivity.
Qed.
Lemma op_chain_len ot g1 name vars Tv ds cd ss Tf : dirs_text ds = cd ++ dirs_tail ds ->
  chain_len (op_elts ot g1 name vars Tv ds cd ss Tf) = slen (op_txt ot g1 name vars ds ss).
Proof.
  intros Hcd. unfold op_elts, op_txt. cbn [chain_len].
  rewrite !opt_elt_len, name_o_text, vars_o_text, (dirs_o_text ds cd (dirs_tail ds) Hcd).
  cbn [c_text c_gap fst snd]. rewrite !slen_app. change (slen []) with 0. lia.
Qed.

Lemma op_def_runs ot g1 name vars Tv ds cd ss Tf K :
  ws g1 = true -> wf_oname g1 name = true -> wf_ovars vars = true -> forallb rdir_wf ds = true ->
  dirs_text ds = cd ++ dirs_tail ds -> ws (dirs_tail ds) = true -> dirs_run ds cd ->
  (forall g0 l g3, vars = Some (g0, l, g3) -> vds_runs g0 l Tv) -> ss_runs ss Tf ->
  forall i, runs G true ANon (Call R_ExecutableDefinition) (op_txt ot g1 name vars ds ss ++ K) i
    (Ok (K, i + slen (op_txt ot g1 name vars ds ss), [op_def_tree ot g1 name vars Tv ds cd ss Tf i])).
Proof.
  intros Hg1 Hname Hvars Hds Hcd Hgd Hdrun Hvruns Hss i.
  pose proof (op_chain ot g1 name vars Tv ds cd ss Tf K Hg1 Hname Hvars Hds Hcd Hgd Hdrun Hvruns Hss) as Hok.
  assert (Hne : op_elts ot g1 name vars Tv ds cd ss Tf <> []) by (unfold op_elts; discriminate).
  pose proof (chain_runs _ _ Hne Hok i) as H.
  rewrite (op_chain_txt ot g1 name vars Tv ds cd ss Tf _ Hcd), (op_chain_len ot g1 name vars Tv ds cd ss Tf Hcd) in H.
  unfold op_elts at 1 in H. cbn [map seqs] in H. rewrite !c_exp_opt in H. cbn [c_exp fst] in H.
  unfold op_def_tree. cbn zeta.
  enter_rec_n R_ExecutableDefinition. apply runs_Alt_l. enter_rec_n R_OperationDefinition. apply runs_Alt_l. exact H.
Qed.

Definition anon_tree (ss : rss) (Tf : N -> pr) (i : N) : pr :=
  let e := i + slen (ss_text ss) in Pair R_ExecutableDefinition i e [Pair R_OperationDefinition i e [Tf i]].

Lemma anon_def_runs ss Tf K : ss_runs ss Tf ->
  forall i, runs G true ANon (Call R_ExecutableDefinition) (ss_text ss ++ K) i (Ok (K, i + slen (ss_text ss), [anon_tree ss Tf i])).
Proof.
  intros Hss i. unfold anon_tree. cbn zeta.
  enter_rec_n R_ExecutableDefinition. apply runs_Alt_l. enter_rec_n R_OperationDefinition.
  apply runs_Alt_r; [|apply Hss].
  destruct (ss_text_head ss) as [st ->]. cbn [app].
  apply (runs_SeqS_fail1 gse gse_eq). apply optype_fails; reflexivity.
Qed.

(** abstract definitions *)
Notation adirs := (list (str * option (list (str * aval)))).
Inductive adef :=
| AOp (t : optype) (name : option str) (vars : option (list avardef)) (ds : adirs) (sel : list asel)
| AFrag (n c : str) (ds : adirs) (sel : list asel)
| AImport.
Definition def_erase (d : execdef) : adef :=
  match d with
  | DOp o => AOp (op_type o) (option_map iname (op_name o)) (option_map (fun v => map vd_erase (vds_list v)) (op_vars o))
                 (map dir_erase (op_dirs o)) (ss_erase (op_sel o))
  | DFrag f => AFrag (iname (fr_name f)) (iname (fr_cond f)) (map dir_erase (fr_dirs f)) (ss_erase (fr_sel f))
  | DImport _ => AImport
  end.

Lemma anon_def_build ss Tf pre rest file : (forall i, pair_rule (Tf i) = R_SelectionSet) -> ss_builds ss Tf ->
  exists d, build_executable_definition (pre ++ ss_text ss ++ rest) file (anon_tree ss Tf (slen pre)) = BOk d
            /\ def_erase d = AOp Query None None [] (erase_ss ss).
Proof.
  intros Hrule Hb. destruct (Hb pre rest file) as [ss' [B1 B2]].
  unfold anon_tree, build_executable_definition, only_child. cbn zeta. cbn [pair_kids pair_rule].
  assert (Hnot : forall r, r <> R_SelectionSet -> is_rule r (Tf (slen pre)) = false).
  { intros r Hr. unfold is_rule. rewrite Hrule. destruct r; try reflexivity. contradiction. }
  unfold slot_opt. rewrite !Hnot by discriminate. rewrite (slot_req_hit R_SelectionSet) by (unfold is_rule; rewrite Hrule; reflexivity).
  cbn [bbind omapM build_directives_opt]. rewrite B1. cbn [bbind].
  eexists. split; [reflexivity|]. cbn [def_erase op_type op_name op_vars op_dirs op_sel option_map map]. rewrite B2. reflexivity.
Qed.

Definition vds_builds g0 l (Tv : N -> pr) : Prop :=
  forall pre rest file, exists v', build_variables_definition (pre ++ vds_text g0 l ++ rest) file (Tv (slen pre)) = BOk v'
                                   /\ map vd_erase (vds_list v') = map erase_vd l.
Definition ovars_erase (vars : option (str * list rvardef * str)) : option (list avardef) :=
  match vars with Some (_, l, _) => Some (map erase_vd l) | None => None end.

Lemma vars_build vars Tv pre post file : (forall g0 l g3, vars = Some (g0, l, g3) -> vds_builds g0 l Tv) -> exists vs',
  omapM (build_variables_definition (pre ++ ovars_text vars ++ post) file) (o_pair (vars_o vars Tv) (slen pre)) = BOk vs'
  /\ option_map (fun v => map vd_erase (vds_list v)) vs' = ovars_erase vars.
Proof.
  intros H. destruct vars as [[[g0 l] g3]|]; [|exists None; split; reflexivity].
  cbn [vars_o o_pair omapM ovars_text ovars_erase]. rewrite <- app_assoc.
  destruct (H g0 l g3 eq_refl pre (g3 ++ post) file) as [v' [Hb He]]. rewrite Hb.
  exists (Some v'). split; [reflexivity|]. cbn [option_map]. rewrite He. reflexivity.
Qed.

Lemma oname_build name pre post :
  option_map iname (option_map (to_ident (pre ++ oname_text name ++ post) 0) (o_pair (name_o name) (slen pre))) = option_map fst name.
Proof.
  destruct name as [[n g2]|]; [|reflexivity]. cbn [name_o o_pair option_map oname_text to_ident iname fst]. f_equal.
  unfold as_str. cbn [pair_start pair_end]. rewrite <- app_assoc. apply substr_mid.
Qed.

Lemma op_def_build ot g1 name vars Tv ds cd ss Tf pre rest file :
  dirs_text ds = cd ++ dirs_tail ds ->
  (forall g0 l g3, vars = Some (g0, l, g3) -> (forall i, pair_rule (Tv i) = R_VariablesDefinition) /\ vds_builds g0 l Tv) ->
  (forall i, pair_rule (Tf i) = R_SelectionSet) -> ss_builds ss Tf ->
  exists d, build_executable_definition (pre ++ op_txt ot g1 name vars ds ss ++ rest) file (op_def_tree ot g1 name vars Tv ds cd ss Tf (slen pre)) = BOk d
            /\ def_erase d = AOp ot (option_map fst name) (ovars_erase vars) (map rdir_erase ds) (erase_ss ss).
Proof.
  intros Hcd Hv Hrule Hb.
  set (inp := pre ++ op_txt ot g1 name vars ds ss ++ rest).
  set (e2 := opt_elt (Call R_Name) (name_o name)). set (e3 := opt_elt (Call R_VariablesDefinition) (vars_o vars Tv)).
  set (e4 := opt_elt (Call R_Directives) (dirs_o ds cd (dirs_tail ds))).
  pose proof (opt_elt_len (Call R_Name) (name_o name)) as L2. rewrite name_o_text in L2. fold e2 in L2.
  pose proof (opt_elt_len (Call R_VariablesDefinition) (vars_o vars Tv)) as L3. rewrite vars_o_text in L3. fold e3 in L3.
  pose proof (opt_elt_len (Call R_Directives) (dirs_o ds cd (dirs_tail ds))) as L4. rewrite (dirs_o_text ds cd (dirs_tail ds) Hcd) in L4. fold e4 in L4.
  set (o2 := slen pre + slen (kw_text ot) + slen g1).
  set (o3 := o2 + slen (c_text e2) + slen (c_gap e2)).
  set (o4 := o3 + slen (c_text e3) + slen (c_gap e3)).
  set (o5 := o4 + slen (c_text e4) + slen (c_gap e4)).
  assert (HK : inp = pre ++ kw_text ot ++ (g1 ++ oname_text name ++ ovars_text vars ++ dirs_text ds ++ ss_text ss ++ rest))
    by (unfold inp, op_txt; rewrite <- !app_assoc; reflexivity).
  assert (HN : inp = (pre ++ kw_text ot ++ g1) ++ oname_text name ++ (ovars_text vars ++ dirs_text ds ++ ss_text ss ++ rest))
    by (unfold inp, op_txt; rewrite <- !app_assoc; reflexivity).
  assert (HV : inp = (pre ++ kw_text ot ++ g1 ++ oname_text name) ++ ovars_text vars ++ (dirs_text ds ++ ss_text ss ++ rest))
    by (unfold inp, op_txt; rewrite <- !app_assoc; reflexivity).
  assert (HC : inp = (pre ++ kw_text ot ++ g1 ++ oname_text name ++ ovars_text vars) ++ dirs_text ds ++ (ss_text ss ++ rest))
    by (unfold inp, op_txt; rewrite <- !app_assoc; reflexivity).
  assert (HD : inp = (pre ++ kw_text ot ++ g1 ++ oname_text name ++ ovars_text vars ++ dirs_text ds) ++ ss_text ss ++ rest)
    by (unfold inp, op_txt; rewrite <- !app_assoc; reflexivity).
  assert (O2 : o2 = slen (pre ++ kw_text ot ++ g1)) by (unfold o2; rewrite !slen_app; lia).
  assert (O3 : o3 = slen (pre ++ kw_text ot ++ g1 ++ oname_text name)) by (unfold o3; rewrite O2, !slen_app; lia).
  assert (O4 : o4 = slen (pre ++ kw_text ot ++ g1 ++ oname_text name ++ ovars_text vars)) by (unfold o4; rewrite O3, !slen_app; lia).
  assert (O5 : o5 = slen (pre ++ kw_text ot ++ g1 ++ oname_text name ++ ovars_text vars ++ dirs_text ds)) by (unfold o5; rewrite O4, !slen_app; lia).
  pose proof (oname_build name (pre ++ kw_text ot ++ g1) (ovars_text vars ++ dirs_text ds ++ ss_text ss ++ rest)) as N1. rewrite <- HN, <- O2 in N1.
  destruct (vars_build vars Tv (pre ++ kw_text ot ++ g1 ++ oname_text name) (dirs_text ds ++ ss_text ss ++ rest) file (fun g0 l g3 E => proj2 (Hv g0 l g3 E))) as [vs' [V1 V2]].
  rewrite <- HV, <- O3 in V1.
  destruct (dirs_build ds cd (dirs_tail ds) (pre ++ kw_text ot ++ g1 ++ oname_text name ++ ovars_text vars) (ss_text ss ++ rest) file) as [ds' [C1 C2]]. rewrite <- HC, <- O4 in C1.
  destruct (Hb (pre ++ kw_text ot ++ g1 ++ oname_text name ++ ovars_text vars ++ dirs_text ds) rest file) as [ss' [D1 D2]]. rewrite <- HD, <- O5 in D1.
  assert (Hot : str_to_operation_type (as_str inp (optype_tree ot (slen pre))) = BOk ot).
  { unfold as_str, optype_tree. cbn [pair_start pair_end]. rewrite HK, substr_mid. destruct ot; reflexivity. }
  unfold op_def_tree, op_elts, build_executable_definition, only_child. cbn zeta. cbn [pair_kids pair_rule].
  rewrite !chain_trees_cons. cbn [chain_trees]. fold e2 e3 e4. rewrite app_nil_r.
  cbn [c_tree c_text c_gap fst snd app]. fold o2. fold o3. fold o4. fold o5.
  assert (Hss_not : forall r, r <> R_SelectionSet -> is_rule r (Tf o5) = false).
  { intros r Hr. unfold is_rule. rewrite (Hrule o5). destruct r; try reflexivity. contradiction. }
  unfold slot_opt at 1. change (is_rule R_OperationType (optype_tree ot (slen pre))) with true. cbn iota.
  unfold e2. rewrite (slot_opt_elt R_Name).
  2:{ intros t g' T E. destruct name as [[n g2]|]; [|discriminate]. inversion E; subst. reflexivity. }
  2:{ intros _. apply hdR_opt.
      - intros t g' T E. destruct vars as [[[g0 l] g3]|]; [|discriminate]. inversion E; subst. unfold is_rule. rewrite (proj1 (Hv g0 l g' eq_refl) o3). reflexivity.
      - intros _. apply hdR_opt.
        + intros t g' T E. destruct (dirs_o_some _ _ _ _ _ _ E) as [_ [_ [_ ->]]]. reflexivity.
        + intros _. apply Hss_not. discriminate. }
  unfold e3. rewrite (slot_opt_elt R_VariablesDefinition).
  2:{ intros t g' T E. destruct vars as [[[g0 l] g3]|]; [|discriminate]. inversion E; subst. unfold is_rule. rewrite (proj1 (Hv g0 l g' eq_refl) o3). reflexivity. }
  2:{ intros _. apply hdR_opt.
      - intros t g' T E. destruct (dirs_o_some _ _ _ _ _ _ E) as [_ [_ [_ ->]]]. reflexivity.
      - intros _. apply Hss_not. discriminate. }
  unfold e4. rewrite (slot_opt_elt R_Directives).
  2:{ intros t g' T E. destruct (dirs_o_some _ _ _ _ _ _ E) as [_ [_ [_ ->]]]. reflexivity. }
  2:{ intros _. apply Hss_not. discriminate. }
  rewrite (slot_req_hit R_SelectionSet) by (unfold is_rule; rewrite (Hrule o5); reflexivity).
  fold inp. rewrite Hot. cbn [bbind]. rewrite V1. cbn [bbind]. rewrite C1. cbn [bbind]. rewrite D1. cbn [bbind].
  eexists. split; [reflexivity|]. cbn [def_erase op_type op_name op_vars op_dirs op_sel]. rewrite V2, C2, D2. f_equal.
  rewrite <- N1. destruct (o_pair (name_o name) o2); reflexivity.
Qed.

(** ** fragment definitions:  "fragment" g1 name gw "on" gc Type gt Directives? SelectionSet *)
Definition K_frag : str := s "fragment".
Definition frag_elts g1 n gw gc t gt ds cd ss Tf : list celt :=
  [(Call R_KEYWORD_fragment, K_frag, g1, fun j => [Pair R_KEYWORD_fragment j (j + slen K_frag) []]);
   (Call R_FragmentName, n, gw, fun j => [fragname_tree n j]);
   (Call R_TypeCondition, K_on ++ gc ++ t, gt, fun j => [typecond_tree gc t j]);
   opt_elt (Call R_Directives) (dirs_o ds cd (dirs_tail ds));
   (Call R_SelectionSet, ss_text ss, [], fun j => [Tf j])].
Definition frag_txt g1 n gw gc t gt ds ss : str := K_frag ++ g1 ++ n ++ gw ++ (K_on ++ gc ++ t) ++ gt ++ dirs_text ds ++ ss_text ss.
Definition nonempty (w : str) : bool := negb (match w with [] => true | _ => false end).
Definition wf_frag g1 n gw gc t gt (ds : list rdir) : bool :=
  ws g1 && nonempty g1 && is_name n && str_neq n K_on && ws gw && nonempty gw && ws gc && nonempty gc && is_name t && ws gt && forallb rdir_wf ds.
Lemma nonempty_ne w : nonempty w = true -> w <> [].
Proof. intros H ->. discriminate. Qed.

Lemma frag_chain g1 n gw gc t gt ds cd ss Tf K :
  wf_frag g1 n gw gc t gt ds = true ->
  dirs_text ds = cd ++ dirs_tail ds -> ws (dirs_tail ds) = true -> dirs_run ds cd -> ss_runs ss Tf ->
  chain_ok (frag_elts g1 n gw gc t gt ds cd ss Tf) K.
Proof.
  intros Hwf Hcd Hgd Hdrun Hss. unfold wf_frag in Hwf.
  repeat (apply andb_true_iff in Hwf; let H := fresh "W" in destruct Hwf as [Hwf H]).
  rename Hwf into Hg1, W into Hds, W0 into Hgt, W1 into Ht, W2 into Hgcne, W3 into Hgc, W4 into Hgwne, W5 into Hgw, W6 into Hon, W7 into Hn, W8 into Hg1ne.
  apply nonempty_ne in Hgcne, Hgwne, Hg1ne.
  set (R5 := ss_text ss ++ K). set (R4 := dirs_text ds ++ R5).
  unfold frag_elts.
  set (e4 := opt_elt (Call R_Directives) (dirs_o ds cd (dirs_tail ds))). set (e5 := (Call R_SelectionSet, ss_text ss, [], fun j => [Tf j])).
  set (e3 := (Call R_TypeCondition, K_on ++ gc ++ t, gt, fun j => [typecond_tree gc t j])).
  set (e2 := (Call R_FragmentName, n, gw, fun j => [fragname_tree n j])).
  assert (E5 : chain_txt [e5] K = R5) by reflexivity.
  assert (E4 : chain_txt [e4; e5] K = R4) by (rewrite chain_txt_cons, E5; unfold e4; rewrite opt_elt_txt, (dirs_o_text ds cd (dirs_tail ds) Hcd); reflexivity).
  assert (E3 : chain_txt [e3; e4; e5] K = (K_on ++ gc ++ t) ++ gt ++ R4) by (rewrite chain_txt_cons, E4; reflexivity).
  assert (E2 : chain_txt [e2; e3; e4; e5] K = n ++ gw ++ (K_on ++ gc ++ t) ++ gt ++ R4) by (rewrite chain_txt_cons, E3; reflexivity).
  cbn [chain_ok]. rewrite E2, E3, E4, E5. cbn [chain_txt]. unfold e2, e3, e5. cbn [c_text c_gap c_exp c_tree fst snd].
  destruct (ss_text_head ss) as [st Est].
  assert (H5 : forall P : N -> Prop, P 123 -> hdP R5 P) by (intros P HP; unfold R5; rewrite Est; exact HP).
  assert (H4 : forall P : N -> Prop, P 123 -> P 64 -> hdP R4 P) by (intros P HP HQ; apply hd_dirs; [exact HQ|intros _; apply H5; exact HP]).
  destruct (name_head n Hn) as [c0 [t0 [En Hc0]]].
  split; [exact Hg1|]. split; [intros H; discriminate|]. split; [intros _; rewrite En; cbn [app]; apply name_start_token; exact Hc0|].
  split; [intros i; exact (keyword_ok R_KEYWORD_fragment K_frag _ true i eq_refl (ws_nonempty_not_name_cont g1 _ Hg1 Hg1ne))|].
  split; [exact Hgw|]. split; [intros H; discriminate|]. split; [intros _; split; reflexivity|].
  split; [intros i; apply fragname_runs; [exact Hn|exact Hon|apply ws_nonempty_not_name_cont; assumption]|].
  split; [exact Hgt|]. split; [intros H; discriminate|].
  split; [intros _; apply (H4 (fun d => is_wsc d = false /\ N.eqb d 35 = false)); split; reflexivity|].
  split.
  { intros i. apply typecond_runs; [exact Hgc|exact Hgcne|exact Ht|].
    apply ws_then_not_name_cont; [exact Hgt|]. intros _. apply (H4 (fun d => is_name_cont d = false)); reflexivity. }
  split; [apply ws_opt_gap; intros t1 g' T E; destruct (dirs_o_some _ _ _ _ _ _ E) as [_ [_ [-> _]]]; exact Hgd|].
  split; [intros H; discriminate|].
  split; [intros _; apply (H5 (fun d => is_wsc d = false /\ N.eqb d 35 = false)); split; reflexivity|].
  split.
  { unfold e4. apply opt_elt_runs.
    - intros t1 g' T E i. destruct (dirs_o_some _ _ _ _ _ _ E) as [Hne [-> [-> ->]]].
      apply Hdrun; [exact Hne|]. unfold R5. rewrite Est. apply follow_dirs_brace.
    - intros E i. apply directives_fails. apply (H5 (fun d => N.eqb 64 d = false)); reflexivity. }
  split; [reflexivity|]. split; [intros _; reflexivity|]. split; [intros H; contradiction|].
  split; [|exact I].
  intros i. cbn [app]. apply Hss.
Qed.

Definition frag_def_tree g1 n gw gc t gt ds cd ss Tf (i : N) : pr :=
  let e := i + slen (frag_txt g1 n gw gc t gt ds ss) in
  Pair R_ExecutableDefinition i e [Pair R_FragmentDefinition i e (chain_trees (frag_elts g1 n gw gc t gt ds cd ss Tf) i)].

Lemma frag_chain_txt g1 n gw gc t gt ds cd ss Tf K : dirs_text ds = cd ++ dirs_tail ds ->
  chain_txt (frag_elts g1 n gw gc t gt ds cd ss Tf) K = frag_txt g1 n gw gc t gt ds ss ++ K.
Proof.
  intros Hcd. unfold frag_elts, frag_txt. rewrite !chain_txt_cons. cbn [chain_txt].
  rewrite !opt_elt_txt, (dirs_o_text ds cd (dirs_tail ds) Hcd).
  cbn [c_text c_gap fst snd app]. rewrite <- !app_assoc. reflexivity.
Qed.
Lemma frag_chain_len g1 n gw gc t gt ds cd ss Tf : dirs_text ds = cd ++ dirs_tail ds ->
  chain_len (frag_elts g1 n gw gc t gt ds cd ss Tf) = slen (frag_txt g1 n gw gc t gt ds ss).
Proof.
  intros Hcd. unfold frag_elts, frag_txt. cbn [chain_len].
  rewrite !opt_elt_len, (dirs_o_text ds cd (dirs_tail ds) Hcd).
  cbn [c_text c_gap fst snd]. rewrite !slen_app. change (slen []) with 0. lia.
Qed.

Lemma frag_def_runs g1 n gw gc t gt ds cd ss Tf K :
  wf_frag g1 n gw gc t gt ds = true ->
  dirs_text ds = cd ++ dirs_tail ds -> ws (dirs_tail ds) = true -> dirs_run ds cd -> ss_runs ss Tf ->
  forall i, runs G true ANon (Call R_ExecutableDefinition) (frag_txt g1 n gw gc t gt ds ss ++ K) i
    (Ok (K, i + slen (frag_txt g1 n gw gc t gt ds ss), [frag_def_tree g1 n gw gc t gt ds cd ss Tf i])).
Proof.
  intros Hwf Hcd Hgd Hdrun Hss i.
  pose proof (frag_chain g1 n gw gc t gt ds cd ss Tf K Hwf Hcd Hgd Hdrun Hss) as Hok.
  assert (Hne : frag_elts g1 n gw gc t gt ds cd ss Tf <> []) by (unfold frag_elts; discriminate).
  pose proof (chain_runs _ _ Hne Hok i) as H.
  rewrite (frag_chain_txt g1 n gw gc t gt ds cd ss Tf _ Hcd), (frag_chain_len g1 n gw gc t gt ds cd ss Tf Hcd) in H.
  unfold frag_elts at 1 in H. cbn [map seqs] in H. rewrite !c_exp_opt in H. cbn [c_exp fst] in H.
  unfold frag_def_tree. cbn zeta.
  enter_rec_n R_ExecutableDefinition.
  apply runs_Alt_r.
  { unfold frag_txt, K_frag. cbn [app s]. enter_fail_n R_OperationDefinition.
    apply runs_Alt_r; [apply (runs_SeqS_fail1 gse gse_eq); apply optype_fails; reflexivity|].
    apply selectionset_fails. reflexivity. }
  apply runs_Alt_l. enter_rec_n R_FragmentDefinition. exact H.
Qed.

Lemma frag_def_build g1 n gw gc t gt ds cd ss Tf pre rest file :
  dirs_text ds = cd ++ dirs_tail ds -> (forall i, pair_rule (Tf i) = R_SelectionSet) -> ss_builds ss Tf ->
  exists d, build_executable_definition (pre ++ frag_txt g1 n gw gc t gt ds ss ++ rest) file (frag_def_tree g1 n gw gc t gt ds cd ss Tf (slen pre)) = BOk d
            /\ def_erase d = AFrag n t (map rdir_erase ds) (erase_ss ss).
Proof.
  intros Hcd Hrule Hb.
  set (inp := pre ++ frag_txt g1 n gw gc t gt ds ss ++ rest).
  set (e4 := opt_elt (Call R_Directives) (dirs_o ds cd (dirs_tail ds))).
  pose proof (opt_elt_len (Call R_Directives) (dirs_o ds cd (dirs_tail ds))) as L4. rewrite (dirs_o_text ds cd (dirs_tail ds) Hcd) in L4. fold e4 in L4.
  set (o2 := slen pre + slen K_frag + slen g1). set (o3 := o2 + slen n + slen gw).
  set (o4 := o3 + slen (K_on ++ gc ++ t) + slen gt). set (o5 := o4 + slen (c_text e4) + slen (c_gap e4)).
  assert (HN : inp = (pre ++ K_frag ++ g1) ++ n ++ (gw ++ (K_on ++ gc ++ t) ++ gt ++ dirs_text ds ++ ss_text ss ++ rest))
    by (unfold inp, frag_txt; rewrite <- !app_assoc; reflexivity).
  assert (HT : inp = (pre ++ K_frag ++ g1 ++ n ++ gw) ++ cond_text (Some (gc, t, gt)) ++ (dirs_text ds ++ ss_text ss ++ rest))
    by (unfold inp, frag_txt; cbn [cond_text]; rewrite <- !app_assoc; reflexivity).
  assert (HC : inp = (pre ++ K_frag ++ g1 ++ n ++ gw ++ (K_on ++ gc ++ t) ++ gt) ++ dirs_text ds ++ (ss_text ss ++ rest))
    by (unfold inp, frag_txt; rewrite <- !app_assoc; reflexivity).
  assert (HD : inp = (pre ++ K_frag ++ g1 ++ n ++ gw ++ (K_on ++ gc ++ t) ++ gt ++ dirs_text ds) ++ ss_text ss ++ rest)
    by (unfold inp, frag_txt; rewrite <- !app_assoc; reflexivity).
  assert (O2 : o2 = slen (pre ++ K_frag ++ g1)) by (unfold o2; rewrite !slen_app; lia).
  assert (O3 : o3 = slen (pre ++ K_frag ++ g1 ++ n ++ gw)) by (unfold o3; rewrite O2, !slen_app; lia).
  assert (O4 : o4 = slen (pre ++ K_frag ++ g1 ++ n ++ gw ++ (K_on ++ gc ++ t) ++ gt)) by (unfold o4; rewrite O3, !slen_app; lia).
  assert (O5 : o5 = slen (pre ++ K_frag ++ g1 ++ n ++ gw ++ (K_on ++ gc ++ t) ++ gt ++ dirs_text ds)) by (unfold o5; rewrite O4, !slen_app; lia).
  destruct (cond_build (Some (gc, t, gt)) (pre ++ K_frag ++ g1 ++ n ++ gw) (dirs_text ds ++ ss_text ss ++ rest) file) as [c' [T1 T2]].
  rewrite <- HT, <- O3 in T1. cbn [cond_o o_pair omapM] in T1.
  destruct (dirs_build ds cd (dirs_tail ds) (pre ++ K_frag ++ g1 ++ n ++ gw ++ (K_on ++ gc ++ t) ++ gt) (ss_text ss ++ rest) file) as [ds' [C1 C2]]. rewrite <- HC, <- O4 in C1.
  destruct (Hb (pre ++ K_frag ++ g1 ++ n ++ gw ++ (K_on ++ gc ++ t) ++ gt ++ dirs_text ds) rest file) as [ss' [D1 D2]]. rewrite <- HD, <- O5 in D1.
  destruct (build_type_condition inp file (typecond_tree gc t o3)) as [cid|] eqn:Ecid; [|discriminate T1].
  assert (Ec : c' = Some cid) by (injection T1; auto). subst c'. cbn [option_map] in T2. assert (T2' : iname cid = t) by (injection T2; auto).
  unfold frag_def_tree, frag_elts, build_executable_definition, only_child. cbn zeta. cbn [pair_kids pair_rule].
  rewrite !chain_trees_cons. cbn [chain_trees]. fold e4. rewrite app_nil_r.
  cbn [c_tree c_text c_gap fst snd app]. fold o2. fold o3. fold o4. fold o5.
  rewrite (slot_req_hit R_KEYWORD_fragment) by reflexivity.
  rewrite (slot_req_hit R_FragmentName) by reflexivity.
  rewrite (slot_req_hit R_TypeCondition) by reflexivity.
  assert (Hss_not : forall r, r <> R_SelectionSet -> is_rule r (Tf o5) = false).
  { intros r Hr. unfold is_rule. rewrite (Hrule o5). destruct r; try reflexivity. contradiction. }
  unfold e4. rewrite (slot_opt_elt R_Directives).
  2:{ intros t1 g' T E. destruct (dirs_o_some _ _ _ _ _ _ E) as [_ [_ [_ ->]]]. reflexivity. }
  2:{ intros _. apply Hss_not. discriminate. }
  rewrite (slot_req_hit R_SelectionSet) by (unfold is_rule; rewrite (Hrule o5); reflexivity).
  fold inp. rewrite Ecid. cbn [bbind]. rewrite C1. cbn [bbind]. rewrite D1. cbn [bbind].
  eexists. split; [reflexivity|]. cbn [def_erase fr_name fr_cond fr_dirs fr_sel to_ident iname]. rewrite C2, D2, T2'. f_equal.
  unfold as_str, fragname_tree. cbn [pair_start pair_end]. rewrite O2, HN. apply substr_mid.
Qed.

(** ** executable definitions and documents *)
Inductive rdef :=
| RAnon (ss : rss) (gap : str)
| ROp (ot : optype) (g1 : str) (name : option (str * str)) (vars : option (str * list rvardef * str)) (ds : list rdir) (ss : rss) (gap : str)
| RFrag (g1 n gw gc t gt : str) (ds : list rdir) (ss : rss) (gap : str).

Definition def_txt (d : rdef) : str :=
  match d with
  | RAnon ss _ => ss_text ss
  | ROp ot g1 name vars ds ss _ => op_txt ot g1 name vars ds ss
  | RFrag g1 n gw gc t gt ds ss _ => frag_txt g1 n gw gc t gt ds ss
  end.
Definition def_gap (d : rdef) : str :=
  match d with RAnon _ g | ROp _ _ _ _ _ _ g | RFrag _ _ _ _ _ _ _ _ g => g end.
Definition wf_def (d : rdef) : bool :=
  match d with
  | RAnon ss gap => wf_ss ss && ws gap
  | ROp ot g1 name vars ds ss gap => ws g1 && wf_oname g1 name && wf_ovars vars && forallb rdir_wf ds && wf_ss ss && ws gap
  | RFrag g1 n gw gc t gt ds ss gap => wf_frag g1 n gw gc t gt ds && wf_ss ss && ws gap
  end.
Definition erase_def (d : rdef) : adef :=
  match d with
  | RAnon ss _ => AOp Query None None [] (erase_ss ss)
  | ROp ot _ name vars ds ss _ => AOp ot (option_map fst name) (ovars_erase vars) (map rdir_erase ds) (erase_ss ss)
  | RFrag _ n _ _ t _ ds ss _ => AFrag n t (map rdir_erase ds) (erase_ss ss)
  end.

Definition def_ok (d : rdef) : Prop := exists T : N -> pr,
  (forall i, pair_rule (T i) = R_ExecutableDefinition) /\
  (forall K i, runs G true ANon (Call R_ExecutableDefinition) (def_txt d ++ K) i (Ok (K, i + slen (def_txt d), [T i]))) /\
  (forall pre rest file, exists d', build_executable_definition (pre ++ def_txt d ++ rest) file (T (slen pre)) = BOk d' /\ def_erase d' = erase_def d) /\
  (forall pre rest, valid (pre ++ def_txt d ++ rest) (T (slen pre))).

Lemma anon_valid ss Tf pre rest : ss_valid ss Tf -> valid (pre ++ ss_text ss ++ rest) (anon_tree ss Tf (slen pre)).
Proof.
  intros Hv. unfold anon_tree. cbn zeta. apply valid_node; [discriminate|]. constructor; [|constructor].
  apply valid_node; [discriminate|]. constructor; [apply Hv|constructor].
Qed.

Lemma op_valid ot g1 name vars Tv ds cd ss Tf pre rest :
  dirs_text ds = cd ++ dirs_tail ds ->
  (forall g0 l g3, vars = Some (g0, l, g3) -> forall pre rest, valid (pre ++ vds_text g0 l ++ rest) (Tv (slen pre))) -> ss_valid ss Tf ->
  valid (pre ++ op_txt ot g1 name vars ds ss ++ rest) (op_def_tree ot g1 name vars Tv ds cd ss Tf (slen pre)).
Proof.
  intros Hcd Hvv Hv. unfold op_def_tree. cbn zeta.
  apply valid_node; [discriminate|]. constructor; [|constructor]. apply valid_node; [discriminate|].
  rewrite <- (op_chain_txt ot g1 name vars Tv ds cd ss Tf _ Hcd). apply chain_trees_valid.
  unfold op_elts. cbn [chain_valid]. repeat split.
  - intros pre'. cbn [c_tree snd]. constructor; [|constructor]. unfold optype_tree. apply valid_node; [discriminate|].
    constructor; [apply leaf_valid; destruct ot; discriminate|constructor].
  - apply opt_elt_valid. intros t g' T E pre'. destruct name as [[n g2]|]; [|discriminate]. inversion E; subst. apply leaf_valid; discriminate.
  - apply opt_elt_valid. intros t g' T E pre'. destruct vars as [[[g0 l] g3]|]; [|discriminate]. inversion E; subst. apply (Hvv g0 l g' eq_refl).
  - apply opt_elt_valid. apply dirs_o_valid; exact Hcd.
  - intros pre'. cbn [c_tree c_text c_gap fst snd chain_txt app]. constructor; [apply Hv|constructor].
Qed.

Lemma frag_valid g1 n gw gc t gt ds cd ss Tf pre rest :
  dirs_text ds = cd ++ dirs_tail ds -> ss_valid ss Tf ->
  valid (pre ++ frag_txt g1 n gw gc t gt ds ss ++ rest) (frag_def_tree g1 n gw gc t gt ds cd ss Tf (slen pre)).
Proof.
  intros Hcd Hv. unfold frag_def_tree. cbn zeta.
  apply valid_node; [discriminate|]. constructor; [|constructor]. apply valid_node; [discriminate|].
  rewrite <- (frag_chain_txt g1 n gw gc t gt ds cd ss Tf _ Hcd). apply chain_trees_valid.
  unfold frag_elts. cbn [chain_valid]. repeat split.
  - intros pre'. cbn [c_tree snd]. constructor; [apply leaf_valid; discriminate|constructor].
  - intros pre'. cbn [c_tree snd]. constructor; [|constructor]. unfold fragname_tree. apply valid_node; [discriminate|]. constructor; [apply leaf_valid; discriminate|constructor].
  - intros pre'. cbn [c_tree snd]. constructor; [|constructor]. unfold typecond_tree. apply valid_node; [discriminate|].
    constructor; [apply leaf_valid; discriminate|]. constructor; [|constructor].
    cbn [core_tree]. apply valid_node; [discriminate|]. constructor; [apply leaf_valid; discriminate|constructor].
  - apply opt_elt_valid. apply dirs_o_valid; exact Hcd.
  - intros pre'. cbn [c_tree c_text c_gap fst snd chain_txt app]. constructor; [apply Hv|constructor].
Qed.

Lemma wf_def_ok d : wf_def d = true -> def_ok d.
Proof.
  destruct d as [ss gap|ot g1 name vars ds ss gap|g1 n gw gc t gt ds ss gap]; cbn [wf_def]; intros Hwf.
  - apply andb_true_iff in Hwf. destruct Hwf as [Hss _]. destruct (proj2 wf_sel_ss_ok ss Hss) as [Tf [H1 [H2 [H3 H4]]]].
    exists (anon_tree ss Tf). split; [intros i; reflexivity|]. split; [|split].
    + intros K i. apply anon_def_runs; exact H2.
    + intros pre rest file. apply anon_def_build; assumption.
    + intros pre rest. apply anon_valid; exact H4.
  - apply andb_true_iff in Hwf. destruct Hwf as [Hwf _]. apply andb_true_iff in Hwf. destruct Hwf as [Hwf Hss].
    apply andb_true_iff in Hwf. destruct Hwf as [Hwf Hds]. apply andb_true_iff in Hwf. destruct Hwf as [Hwf Hvars].
    apply andb_true_iff in Hwf. destruct Hwf as [Hg1 Hname].
    destruct (proj2 wf_sel_ss_ok ss Hss) as [Tf [H1 [H2 [H3 H4]]]].
    destruct (dirs_split' ds Hds) as [cd [Hcd [Hgd [_ [_ Hdrun]]]]].
    assert (HTv : exists Tv, forall g0 l g3, vars = Some (g0, l, g3) -> (forall i, pair_rule (Tv i) = R_VariablesDefinition) /\ vds_runs g0 l Tv /\ vds_builds g0 l Tv
                                                                     /\ (forall pre rest, valid (pre ++ vds_text g0 l ++ rest) (Tv (slen pre)))).
    { destruct vars as [[[g0 l] g3]|].
      - cbn [wf_ovars] in Hvars. apply andb_true_iff in Hvars. destruct Hvars as [Hv _]. destruct (wf_vds_ok g0 l Hv) as [Tv [V1 [V2 [V3 V4]]]].
        exists Tv. intros g0' l' g3' E. inversion E; subst. repeat split; assumption.
      - exists (fun i => Pair R_EOI i i []). intros g0 l g3 E. discriminate. }
    destruct HTv as [Tv HTv].
    exists (op_def_tree ot g1 name vars Tv ds cd ss Tf). split; [intros i; reflexivity|]. split; [|split].
    + intros K i. apply op_def_runs; try assumption. intros g0 l g3 E. apply (HTv g0 l g3 E).
    + intros pre rest file. apply op_def_build; try assumption. intros g0 l g3 E. destruct (HTv g0 l g3 E) as [V1 [_ [V3 _]]]. split; assumption.
    + intros pre rest. apply op_valid; try assumption. intros g0 l g3 E. apply (HTv g0 l g3 E).
  - apply andb_true_iff in Hwf. destruct Hwf as [Hwf _]. apply andb_true_iff in Hwf. destruct Hwf as [Hfr Hss].
    destruct (proj2 wf_sel_ss_ok ss Hss) as [Tf [H1 [H2 [H3 H4]]]].
    assert (Hds : forallb rdir_wf ds = true) by (unfold wf_frag in Hfr; apply andb_true_iff in Hfr; tauto).
    destruct (dirs_split' ds Hds) as [cd [Hcd [Hgd [_ [_ Hdrun]]]]].
    exists (frag_def_tree g1 n gw gc t gt ds cd ss Tf). split; [intros i; reflexivity|]. split; [|split].
    + intros K i. apply frag_def_runs; assumption.
    + intros pre rest file. apply frag_def_build; assumption.
    + intros pre rest. apply frag_valid; assumption.
Qed.

Lemma def_txt_head d : exists c t, def_txt d = c :: t /\ at_token (c :: t).
Proof.
  destruct d as [ss gap|ot g1 name vars ds ss gap|g1 n gw gc t gt ds ss gap]; cbn [def_txt].
  - destruct (ss_text_head ss) as [t ->]. eexists; eexists; split; [reflexivity|split; reflexivity].
  - unfold op_txt. destruct ot; cbn [kw_text s app]; eexists; eexists; (split; [reflexivity|split; reflexivity]).
  - unfold frag_txt, K_frag. cbn [s app]. eexists; eexists; split; [reflexivity|split; reflexivity].
Qed.

Definition defs_body (defs : list rdef) : str := flat_map (fun d => def_txt d ++ def_gap d) defs.
Definition doc_text (g0 : str) (defs : list rdef) : str := g0 ++ defs_body defs.
Definition wf_doc (g0 : str) (defs : list rdef) : bool :=
  ws g0 && negb (match defs with [] => true | _ => false end) && forallb wf_def defs.

Lemma def_gap_ws d : wf_def d = true -> ws (def_gap d) = true.
Proof. destruct d; cbn [wf_def def_gap]; intros H; apply andb_true_iff in H; tauto. Qed.

Lemma keyword_fails_nil r c0 l sk i : keyword_of r = Some (c0 :: l) -> runs G sk ANon (Call r) [] i Fail.
Proof.
  intros Hk. destruct (keyword_regime r (c0 :: l) ANon Hk) as [Hsk [Hat _]].
  apply (@runs_Call_fail _ G sk ANon r). rewrite Hsk, Hat. exact (keyword_body_runs r (c0 :: l) Hk [] i).
Qed.

Lemma executabledefinition_fails_end i : runs G true ANon (Call R_ExecutableDefinition) [] i Fail.
Proof.
  enter_fail_n R_ExecutableDefinition.
  apply runs_Alt_r.
  { enter_fail_n R_OperationDefinition.
    apply runs_Alt_r; [|apply selectionset_fails; exact I].
    apply (runs_SeqS_fail1 gse gse_eq). enter_fail_n R_OperationType.
    apply runs_Alt_r; [exact (keyword_fails_nil R_KEYWORD_query _ _ true i eq_refl)|].
    apply runs_Alt_r; [exact (keyword_fails_nil R_KEYWORD_mutation _ _ true i eq_refl)|].
    exact (keyword_fails_nil R_KEYWORD_subscription _ _ true i eq_refl). }
  apply runs_Alt_r.
  { enter_fail_n R_FragmentDefinition. apply (runs_SeqS_fail1 gse gse_eq). exact (keyword_fails_nil R_KEYWORD_fragment _ _ true i eq_refl). }
  enter_fail_n R_ext_ImportStatement. apply (runs_SeqS_fail1 gse gse_eq). apply runs_Lit_nil_fail.
Qed.

Lemma defs_items : forall defs, forallb wf_def defs = true ->
  exists its : list item,
    items_text its = defs_body defs /\ length its = length defs /\
    items_ok (Call R_ExecutableDefinition) [] [] its /\
    (forall i, forallb (is_rule R_ExecutableDefinition) (items_trees its i) = true) /\
    (forall pre post file, exists l,
        mapM (build_executable_definition (pre ++ items_text its ++ post) file) (items_trees its (slen pre)) = BOk l
        /\ map def_erase l = map erase_def defs) /\
    Forall item_valid its.
Proof.
  induction defs as [|d r IH]; intros Hall.
  { exists []. split; [reflexivity|]. split; [reflexivity|]. split; [exact I|]. split; [intros i; reflexivity|].
    split; [|constructor]. intros pre post file. exists []. split; reflexivity. }
  cbn [forallb] in Hall. apply andb_true_iff in Hall. destruct Hall as [Hd Hr].
  destruct (IH Hr) as [its [Htxt [Hlen [Hok [Hrules [Hbuild Hvalid]]]]]].
  destruct (wf_def_ok d Hd) as [T [Hrule [Hrun [Hb Hv]]]].
  exists ((def_txt d, def_gap d, fun i => [T i]) :: its).
  split; [cbn [items_text]; unfold it_text, it_gap; cbn [fst snd]; rewrite Htxt; unfold defs_body; cbn [flat_map]; rewrite <- app_assoc; reflexivity|].
  split; [cbn [length]; rewrite Hlen; reflexivity|].
  split.
  { cbn [items_ok]. split; [|exact Hok].
    unfold item_ok, it_text, it_gap, it_tree. cbn [fst snd].
    split; [apply def_gap_ws; exact Hd|]. split; [destruct (def_txt_head d) as [c [t [-> Ht]]]; exact Ht|].
    intros i. apply Hrun. }
  split.
  { intros i. cbn [items_trees]. unfold it_tree at 1. cbn [snd app forallb]. unfold is_rule at 1. rewrite Hrule.
    change (rule_eqb R_ExecutableDefinition R_ExecutableDefinition) with true. cbn [andb]. apply Hrules. }
  split.
  2:{ constructor; [|exact Hvalid]. intros pre rest. unfold it_text, it_gap, it_tree. cbn [fst snd]. constructor; [apply Hv|constructor]. }
  intros pre post file.
  cbn [items_text items_trees]. unfold it_text, it_gap, it_tree. cbn [fst snd app].
  destruct (Hb pre (def_gap d ++ items_text its ++ post) file) as [d' [Hb1 Hb2]].
  destruct (Hbuild (pre ++ def_txt d ++ def_gap d) post file) as [l [Hl1 Hl2]].
  exists (d' :: l). split; [|cbn [map]; rewrite Hb2, Hl2; reflexivity].
  rewrite mapM_cons.
  replace (pre ++ (def_txt d ++ def_gap d ++ items_text its) ++ post) with (pre ++ def_txt d ++ def_gap d ++ items_text its ++ post) by (rewrite <- !app_assoc; reflexivity).
  rewrite Hb1.
  replace (pre ++ def_txt d ++ def_gap d ++ items_text its ++ post) with ((pre ++ def_txt d ++ def_gap d) ++ items_text its ++ post) by (rewrite <- !app_assoc; reflexivity).
  replace (slen pre + slen (def_txt d) + slen (def_gap d)) with (slen (pre ++ def_txt d ++ def_gap d)) by (rewrite !slen_app; lia).
  rewrite Hl1. reflexivity.
Qed.

Lemma runs_Soi sk a inp : runs G sk a Soi inp 0 (Ok (inp, 0, [])).
Proof. intros [|f]; [left|right]; reflexivity. Qed.
Lemma eoi_runs i : runs G true ANon (Call R_EOI) [] i (Ok ([], i, [Pair R_EOI i i []])).
Proof. enter_rec_n R_EOI. intros [|f]; [left|right]; reflexivity. Qed.

Lemma filter_defs : forall l e, forallb (is_rule R_ExecutableDefinition) l = true ->
  filter (is_rule R_ExecutableDefinition) (l ++ [Pair R_EOI e e []]) = l.
Proof.
  induction l as [|p r IH]; intros e H; [reflexivity|]. cbn [forallb] in H. apply andb_true_iff in H. destruct H as [Hp Hr].
  cbn [app filter]. rewrite Hp, (IH e Hr). reflexivity.
Qed.

(** the document: leading trivia, definitions each followed by its trivia, end of input *)
Definition adoc := list adef.
Theorem document_runs g0 defs : wf_doc g0 defs = true ->
  exists T : pr,
    runs G true ANon (Call R_ExecutableDocument) (doc_text g0 defs) 0 (Ok ([], slen (doc_text g0 defs), [T]))
    /\ validate_string_values (doc_text g0 defs) [T] = VOk
    /\ forall file, exists doc, build_operation_document (doc_text g0 defs) file [T] = BOk doc
                                /\ map def_erase (od_defs doc) = map erase_def defs.
Proof.
  unfold wf_doc. intros H. apply andb_true_iff in H. destruct H as [H Hall]. apply andb_true_iff in H. destruct H as [Hg0 Hne].
  apply negb_true_iff in Hne.
  destruct (defs_items defs Hall) as [its [Htxt [Hlen [Hok [Hrules [Hbuild Hvalid]]]]]].
  destruct its as [|it its']; [destruct defs; discriminate|].
  set (inp := doc_text g0 defs). set (e := slen inp).
  assert (Hend : at_token ([] ++ @nil N)) by exact I.
  destruct (items_plus (Call R_ExecutableDefinition) [] [] Hend (fun j => executabledefinition_fails_end j) it its' Hok) as [m [Hg2 [Hm [_ Hplus]]]].
  set (g2 := tailgap [] its') in *.
  exists (Pair R_ExecutableDocument 0 e (items_trees (it :: its') (slen g0) ++ [Pair R_EOI e e []])).
  assert (Hinp : inp = g0 ++ (it_text it ++ it_gap it ++ (items_text its' ++ [] ++ []))).
  { unfold inp, doc_text. rewrite <- Htxt. cbn [items_text]. rewrite !app_nil_r. reflexivity. }
  assert (He : e = 0 + slen g0 + m + slen g2).
  { unfold e. rewrite Hinp, !slen_app. change (slen []) with 0. cbn [items_text] in Hm. lia. }
  split; [|split].
  - enter_rec_n R_ExecutableDocument. fold inp. rewrite Hinp.
    replace (items_trees (it :: its') (slen g0) ++ [Pair R_EOI e e []])
      with (@nil pr ++ @nil pr ++ (items_trees (it :: its') (0 + slen g0) ++ @nil pr ++ [Pair R_EOI e e []])) by reflexivity.
    rewrite He at 1.
    eapply (runs_SeqS_ok gse gse_eq); [apply runs_Soi| |].
    + apply skip_ws; [exact Hg0|]. pose proof (items_tail_token (Call R_ExecutableDefinition) [] [] Hend (it :: its') Hok) as Ht.
      cbn [items_text] in Ht. rewrite <- !app_assoc in Ht. exact Ht.
    + eapply (runs_SeqS_ok gse gse_eq); [apply Hplus| |].
      * cbn [app]. apply (skip_ws g2 []); [exact Hg2|exact I].
      * rewrite He. apply eoi_runs.
  - cbn [validate_string_values].
    assert (Hv : valid inp (Pair R_ExecutableDocument 0 e (items_trees (it :: its') (slen g0) ++ [Pair R_EOI e e []]))).
    { apply valid_node; [discriminate|]. apply Forall_app. split; [|constructor; [apply leaf_valid; discriminate|constructor]].
      assert (Hinp2 : inp = g0 ++ items_text (it :: its') ++ []) by (unfold inp, doc_text; rewrite <- Htxt, app_nil_r; reflexivity).
      rewrite Hinp2. apply items_valid; exact Hvalid. }
    fold inp. unfold valid in Hv. rewrite Hv. reflexivity.
  - intros file. unfold build_operation_document. cbn [pair_rule pair_kids]. rewrite filter_defs by apply Hrules.
    destruct (Hbuild g0 [] file) as [l [Hl1 Hl2]]. fold inp. 
    assert (Hinp2 : inp = g0 ++ items_text (it :: its') ++ []) by (unfold inp, doc_text; rewrite <- Htxt, app_nil_r; reflexivity).
    rewrite Hinp2, Hl1. cbn [bbind]. eexists. split; [reflexivity|]. cbn [od_defs]. exact Hl2.
Qed.


(** ** the whole parser on a rendered document *)
Lemma parse_with_of_runs f start inp inp' i' ps :
  runs G true ANon (Call start) inp 0 (Ok (inp', i', ps)) -> parse_with G f start inp <> OutOfFuel -> parse_with G f start inp = Ok ps.
Proof.
  intros Hrun Hnf. unfold parse_with in *.
  destruct (Hrun f) as [E|E].
  - rewrite E in Hnf. exfalso. apply Hnf. reflexivity.
  - rewrite E. reflexivity.
Qed.
Lemma parse_pairs_of_runs start inp inp' i' ps :
  runs G true ANon (Call start) inp 0 (Ok (inp', i', ps)) -> parse_pairs start inp = Ok ps.
Proof.
  intros Hrun. pose proof (parse_pairs_never_out_of_fuel start inp) as Hnf.
  rewrite parse_pairs_unfold in *. apply (parse_with_of_runs _ _ _ _ _ _ Hrun Hnf).
Qed.

(** parse_render for executable documents: for every well-formed rendering (leading trivia, then anonymous
    queries, operations with optional name / variable definitions / directives, fragment definitions, each followed by
    its trivia; selection sets, arguments and values of any depth inside; whitespace trivia in every gap) the whole
    model parser -- pest parse, validation pass, builder -- returns a document whose position-erased form is the
    erasure of the rendering *)
Theorem parse_render_operation_document : forall g0 defs file, wf_doc g0 defs = true ->
  exists doc, parse_operation_document file (doc_text g0 defs) = POk doc
              /\ map def_erase (od_defs doc) = map erase_def defs.
Proof.
  intros g0 defs file Hwf. destruct (document_runs g0 defs Hwf) as [T [Hrun [Hval Hbuild]]].
  destruct (Hbuild file) as [doc [Hb He]]. exists doc. split; [|exact He].
  unfold parse_operation_document. rewrite (parse_pairs_of_runs _ _ _ _ _ Hrun).
  unfold after_validation. rewrite Hval, Hb. reflexivity.
Qed.

(** a document inside the fragment: an anonymous query, a named query with variables and directives, a fragment *)
Definition ex_doc : list rdef :=
  [RAnon (RSS [] [RField None (s "a") [] None [] None]) [10];
   ROp Query [32] (Some (s "Q", [])) (Some ([], [RVarDef [] (s "v") [] [32] (RNonNull (RNamed (s "Int")) []) [32] (Some ([32], RInt (s "1"), [])) [RDir0 [] (s "d") []]], [32]))
       [RDir1 [] (s "e") [] [] [((s "x", [], [32]), (RStr (s "hi"), []))] [32]] ex_ss [10];
   RFrag [32] (s "F") [32] [32] (s "T") [32] [] (RSS [32] [RSpread [] (s "G") [32] []]) []].
Example ex_doc_wf : wf_doc [32] ex_doc = true.
Proof. vm_compute. reflexivity. Qed.
Example ex_doc_text : doc_text [32] ex_doc = s " {a}
query Q($v: Int! = 1@d) @e(x: ""hi"") { a: b(x: 1) @d { c }
...F @e
... on T {d},...@f{e}}
fragment F on T { ...G }".
Proof. vm_compute. reflexivity. Qed.
