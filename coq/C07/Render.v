(** C07 — proofs, part 7: parse_render, first instalment (types).
    The round trip "render an abstract thing with arbitrary legal trivia, parse it, get the thing back" for
    type expressions: [rty] carries the whitespace trivia (BOM, tab, space, LF, CR, comma -- no comments) of
    every gap, [render_ty] is the text, [ty_tree] the exact pair tree pest produces, and the builder returns a
    type whose position-erased form is the abstract type.  Tools proved on the way and reusable for the
    other productions: the implicit skip over a whitespace run ([skip_ws]), sequences of a skipping rule
    ([runs_SeqS_*]), names in the render direction ([name_runs], [name_fails]). *)
From V Require Import Base.Util Gql.Ast Peg.Peg Peg.PegProps Gen.C07_grammar_gen C07.Builder C07.Model C07.Spec C07.Proofs C07.Lexical C07.Strings.
Local Open Scope N_scope.
Notation G := gql_grammar.

(** ** sequences in a skipping rule under NonAtomic: x, the implicit skip, y *)
Section SkipSeq.
Variable se : pexp rule.
Hypothesis Hse : skip_exp G = Some se.

Lemma run_Seq_sk f x y inp i :
  run G (S f) true ANon (Seq x y) inp i =
  match run G f true ANon x inp i with
  | Ok (inp1, i1, p1) =>
      match run G f false ANon se inp1 i1 with
      | Ok (inp2, i2, p2) =>
          match run G f true ANon y inp2 i2 with
          | Ok (inp3, i3, p3) => Ok (inp3, i3, p1 ++ p2 ++ p3)
          | Fail => Fail
          | OutOfFuel => OutOfFuel
          end
      | Fail => Fail
      | OutOfFuel => OutOfFuel
      end
  | Fail => Fail
  | OutOfFuel => OutOfFuel
  end.
Proof. cbn [run]. rewrite Hse. reflexivity. Qed.

Lemma runs_SeqS_ok x y inp i inp1 i1 p1 inp2 i2 p2 inp3 i3 p3 :
  runs G true ANon x inp i (Ok (inp1, i1, p1)) -> runs G false ANon se inp1 i1 (Ok (inp2, i2, p2)) ->
  runs G true ANon y inp2 i2 (Ok (inp3, i3, p3)) ->
  runs G true ANon (Seq x y) inp i (Ok (inp3, i3, p1 ++ p2 ++ p3)).
Proof.
  intros Hx Hs Hy [|f]; [left; reflexivity|]. rewrite run_Seq_sk.
  destruct (Hx f) as [E|E]; rewrite E; [left; reflexivity|].
  destruct (Hs f) as [E2|E2]; rewrite E2; [left; reflexivity|].
  destruct (Hy f) as [E3|E3]; rewrite E3; [left|right]; reflexivity.
Qed.

Lemma runs_SeqS_fail1 x y inp i : runs G true ANon x inp i Fail -> runs G true ANon (Seq x y) inp i Fail.
Proof. intros Hx [|f]; [left; reflexivity|]. rewrite run_Seq_sk. destruct (Hx f) as [E|E]; rewrite E; [left|right]; reflexivity. Qed.

Lemma runs_SeqS_fail2 x y inp i inp1 i1 p1 inp2 i2 p2 :
  runs G true ANon x inp i (Ok (inp1, i1, p1)) -> runs G false ANon se inp1 i1 (Ok (inp2, i2, p2)) ->
  runs G true ANon y inp2 i2 Fail -> runs G true ANon (Seq x y) inp i Fail.
Proof.
  intros Hx Hs Hy [|f]; [left; reflexivity|]. rewrite run_Seq_sk.
  destruct (Hx f) as [E|E]; rewrite E; [left; reflexivity|].
  destruct (Hs f) as [E2|E2]; rewrite E2; [left; reflexivity|].
  destruct (Hy f) as [E3|E3]; rewrite E3; [left|right]; reflexivity.
Qed.
End SkipSeq.

Definition gse : pexp rule := Eval vm_compute in match skip_exp G with Some se => se | None => Any end.
Lemma gse_eq : skip_exp G = Some gse.
Proof. reflexivity. Qed.

(** ** whitespace trivia (no comments): BOM, tab, space, LF, CR, comma *)
Definition is_wsc (c : N) : bool :=
  N.eqb c 65279 || N.eqb c 9 || N.eqb c 32 || N.eqb c 10 || N.eqb c 13 || N.eqb c 44.
Definition ws (w : str) : bool := forallb is_wsc w.
(** the next thing is a token character (not trivia, not a comment) or the end *)
Definition at_token (rest : str) : Prop := match rest with d :: _ => is_wsc d = false /\ N.eqb d 35 = false | [] => True end.

Ltac enter_silent r a :=
  apply (@runs_Call_silent _ G _ a r); [reflexivity|];
  let sk := eval vm_compute in (body_sk G r) in change (body_sk G r) with sk;
  let ab := eval vm_compute in (body_atomicity G r a) in change (body_atomicity G r a) with ab;
  expose_body r.

Ltac alts_fail tac := first [ apply runs_Alt_r; [alts_fail tac | alts_fail tac] | tac ].

Lemma ws_fails_at_token rest i : at_token rest -> runs G false ANon (Call R_WHITESPACE) rest i Fail.
Proof.
  intros Hr. enter_fail R_WHITESPACE ANon.
  destruct rest as [|d r]; [alts_fail ltac:(apply runs_Lit_nil_fail)|].
  destruct Hr as [Hd _]. unfold is_wsc in Hd. repeat (apply orb_false_iff in Hd; destruct Hd as [Hd ?]).
  alts_fail ltac:(apply runs_Lit_head_fail; rewrite N.eqb_sym; assumption).
Qed.

(** one WHITESPACE: a single trivia character, or CR LF together *)
Lemma ws_one c t i : is_wsc c = true -> (N.eqb c 13 && match t with d :: _ => N.eqb d 10 | [] => false end = false) ->
  runs G false ANon (Call R_WHITESPACE) (c :: t) i (Ok (t, i + 1, [])).
Proof.
  intros Hc Hcrlf. enter_silent R_WHITESPACE ANon.
  unfold is_wsc in Hc.
  destruct (N.eqb_spec c 65279) as [->|H1]; [apply runs_Alt_l; exact (runs_Lit_ok G false AAtomic [65279] t i)|].
  apply runs_Alt_r; [apply runs_Lit_head_fail; apply N.eqb_neq; congruence|].
  destruct (N.eqb_spec c 9) as [->|H2]; [apply runs_Alt_l; exact (runs_Lit_ok G false AAtomic [9] t i)|].
  apply runs_Alt_r; [apply runs_Lit_head_fail; apply N.eqb_neq; congruence|].
  destruct (N.eqb_spec c 32) as [->|H3]; [apply runs_Alt_l; exact (runs_Lit_ok G false AAtomic [32] t i)|].
  apply runs_Alt_r; [apply runs_Lit_head_fail; apply N.eqb_neq; congruence|].
  destruct (N.eqb_spec c 10) as [->|H4]; [apply runs_Alt_l; apply runs_Alt_l; exact (runs_Lit_ok G false AAtomic [10] t i)|].
  destruct (N.eqb_spec c 13) as [->|H5].
  - apply runs_Alt_l. apply runs_Alt_r; [apply runs_Lit_head_fail; reflexivity|].
    apply runs_Alt_r; [|exact (runs_Lit_ok G false AAtomic [13] t i)].
    pose proof (runs_Lit G false AAtomic [13; 10] (13 :: t) i) as H. cbn [strip_prefix] in H. change (N.eqb 13 13) with true in H. cbn iota in H.
    cbn [andb] in Hcrlf. destruct t as [|d t']; [exact H|]. rewrite (N.eqb_sym 10 d), Hcrlf in H. exact H.
  - destruct (N.eqb_spec c 44) as [->|H6]; [|cbn in Hc; discriminate].
    apply runs_Alt_r; [alts_fail ltac:(apply runs_Lit_head_fail; reflexivity)|]. exact (runs_Lit_ok G false AAtomic [44] t i).
Qed.

Lemma ws_crlf t i : runs G false ANon (Call R_WHITESPACE) (13 :: 10 :: t) i (Ok (t, i + 2, [])).
Proof.
  enter_silent R_WHITESPACE ANon.
  do 3 (apply runs_Alt_r; [apply runs_Lit_head_fail; reflexivity|]).
  apply runs_Alt_l. apply runs_Alt_r; [apply runs_Lit_head_fail; reflexivity|]. apply runs_Alt_l.
  exact (runs_Lit_ok G false AAtomic [13; 10] t i).
Qed.

(** WHITESPACE* consumes a whole run of trivia characters *)
Lemma ws_reps : forall n w rest i, (length w <= n)%nat -> ws w = true -> at_token rest ->
  repss G false ANon (Call R_WHITESPACE) (w ++ rest) i (Ok (rest, i + slen w, [])).
Proof.
  induction n as [|n IH]; intros w rest i Hn Hw Hr.
  - destruct w; [|cbn in Hn; lia]. cbn [app]. change (slen []) with 0. rewrite N.add_0_r.
    apply repss_stop. apply ws_fails_at_token; exact Hr.
  - destruct w as [|c w].
    + cbn [app]. change (slen []) with 0. rewrite N.add_0_r. apply repss_stop. apply ws_fails_at_token; exact Hr.
    + cbn [ws forallb] in Hw. apply andb_true_iff in Hw. destruct Hw as [Hc Hw]. cbn [length] in Hn.
      change (@nil pr) with (@nil pr ++ @nil pr).
      destruct (N.eqb c 13 && match w ++ rest with d :: _ => N.eqb d 10 | [] => false end) eqn:Ecr.
      * apply andb_true_iff in Ecr. destruct Ecr as [E13 E10]. apply N.eqb_eq in E13. subst c.
        destruct w as [|d w'].
        -- (* the LF would be the first character of rest: it is trivia, contradiction with at_token *)
           cbn [app] in E10. destruct rest as [|d r]; [discriminate|]. apply N.eqb_eq in E10. subst d.
           destruct Hr as [Hd _]. vm_compute in Hd. discriminate.
        -- cbn [app] in E10. apply N.eqb_eq in E10. subst d.
           cbn [ws forallb] in Hw. apply andb_true_iff in Hw. destruct Hw as [_ Hw']. cbn [length] in Hn.
           replace (i + slen (13 :: 10 :: w')) with (i + 2 + slen w') by (unfold slen; cbn [length]; lia).
           eapply repss_step; [apply ws_crlf|]. apply IH; [lia|exact Hw'|exact Hr].
      * replace (i + slen (c :: w)) with (i + 1 + slen w) by (unfold slen; cbn [length]; lia).
        eapply repss_step; [apply ws_one; [exact Hc|exact Ecr]|]. apply IH; [lia|exact Hw|exact Hr].
Qed.

Lemma comment_fails_at_token rest i : at_token rest -> runs G false ANon (Call R_COMMENT) rest i Fail.
Proof.
  intros Hr. enter_fail R_COMMENT ANon. apply runs_Seq_fail1.
  destruct rest as [|d r]; [apply runs_Lit_nil_fail|]. destruct Hr as [_ Hd]. apply runs_Lit_head_fail. rewrite N.eqb_sym. exact Hd.
Qed.

(** the implicit skip over whitespace trivia *)
Lemma skip_ws w rest i : ws w = true -> at_token rest ->
  runs G false ANon gse (w ++ rest) i (Ok (rest, i + slen w, [])).
Proof.
  intros Hw Hr. unfold gse.
  change (@nil pr) with (@nil pr ++ @nil pr).
  apply (@runs_Seq_ok _ G ANon _ _ (w ++ rest) i rest (i + slen w) [] rest (i + slen w) []).
  - destruct w as [|c w'].
    + cbn [app]. change (slen []) with 0. rewrite N.add_0_r. apply runs_Star_stop. apply ws_fails_at_token; exact Hr.
    + pose proof (ws_reps (length (c :: w')) (c :: w') rest i (le_n _) Hw Hr) as H.
      (* Star x = x then reps: same as reps one level up *)
      intros [|f]; [left; reflexivity|]. rewrite run_Star_S.
      destruct (H (S f)) as [E|E].
      * rewrite reps_S_nosk in E.
        destruct (run G f false ANon (Call R_WHITESPACE) ((c :: w') ++ rest) i) as [[[a1 b1] c1]| |]; [|discriminate E|left; reflexivity].
        destruct (reps G f false ANon (Call R_WHITESPACE) a1 b1) as [[[a2 b2] c2]| |]; [discriminate E|discriminate E|left; reflexivity].
      * rewrite reps_S_nosk in E.
        destruct (run G f false ANon (Call R_WHITESPACE) ((c :: w') ++ rest) i) as [[[a1 b1] c1]| |] eqn:E1.
        -- destruct (reps G f false ANon (Call R_WHITESPACE) a1 b1) as [[[a2 b2] c2]| |]; [right; exact E|discriminate E|discriminate E].
        -- exfalso. inversion E as [[Hx Hy]]. assert (slen (c :: w') = 0) by lia. unfold slen in H0. cbn [length] in H0. lia.
        -- discriminate E.
  - apply runs_Star_stop. apply runs_Seq_fail1. apply comment_fails_at_token; exact Hr.
Qed.

(** ** names *)
Definition not_name_cont_next (rest : str) : Prop := match rest with d :: _ => is_name_cont d = false | [] => True end.

Lemma span_all P : forall (u rest : str), forallb P u = true -> match rest with d :: _ => P d = false | [] => True end ->
  span P (u ++ rest) = (u, rest).
Proof.
  induction u as [|c u IH]; intros rest Hu Hr; cbn [app span].
  - destruct rest as [|d r]; [reflexivity|]. cbn [span]. rewrite Hr. reflexivity.
  - cbn [forallb] in Hu. apply andb_true_iff in Hu. destruct Hu as [Hc Hu]. rewrite Hc, (IH rest Hu Hr). reflexivity.
Qed.

Lemma name_runs n rest sk i : is_name n = true -> not_name_cont_next rest ->
  runs G sk ANon (Call R_Name) (n ++ rest) i (Ok (rest, i + slen n, [Pair R_Name i (i + slen n) []])).
Proof.
  intros Hn Hr. apply (@runs_Call_rec _ G sk ANon R_Name); [reflexivity|].
  change (body_sk G R_Name) with false. change (body_atomicity G R_Name ANon) with AAtomic.
  intros fuel. destruct (name_body_spec fuel (n ++ rest) i) as [E|E]; [left; exact E|right]. rewrite E.
  destruct n as [|c u]; [discriminate|]. unfold is_name in Hn. apply andb_true_iff in Hn. destruct Hn as [Hc Hu].
  cbn [app]. rewrite Hc. rewrite (span_all is_name_cont u rest Hu Hr). cbn [fst snd].
  replace (i + slen (c :: u)) with (i + 1 + N.of_nat (length u)) by (unfold slen; cbn [length]; lia). reflexivity.
Qed.

Lemma name_fails c t sk i : is_name_start c = false -> runs G sk ANon (Call R_Name) (c :: t) i Fail.
Proof.
  intros Hc. apply (@runs_Call_fail _ G sk ANon R_Name).
  change (body_sk G R_Name) with false. change (body_atomicity G R_Name ANon) with AAtomic.
  intros fuel. destruct (name_body_spec fuel (c :: t) i) as [E|E]; [left; exact E|right]. rewrite E, Hc. reflexivity.
Qed.

(** ** types with whitespace trivia *)
Inductive rty := RNamed (n : str) | RList (g1 : str) (t : rty) (g2 : str) | RNonNull (t : rty) (g : str).

Fixpoint render_ty (t : rty) : str :=
  match t with
  | RNamed n => n
  | RList g1 t g2 => [91] ++ g1 ++ render_ty t ++ g2 ++ [93]
  | RNonNull t g => render_ty t ++ g ++ [33]
  end.

Fixpoint wf_rty (t : rty) : bool :=
  match t with
  | RNamed n => is_name n
  | RList g1 t g2 => ws g1 && wf_rty t && ws g2
  | RNonNull t g => ws g && wf_rty t && match t with RNonNull _ _ => false | _ => true end
  end.

(** what may follow a type: trivia, then a token that is not "!" ; directly after it, no name character *)
Definition follow_ty (rest : str) : Prop :=
  exists w r', rest = w ++ r' /\ ws w = true /\ at_token r' /\
               match r' with d :: _ => N.eqb d 33 = false | [] => True end /\
               (w = [] -> not_name_cont_next r').

Lemma follow_not_name_cont rest : follow_ty rest -> not_name_cont_next rest.
Proof.
  intros [w [r' [-> [Hw [_ [_ Hn]]]]]]. destruct w as [|c w]; [apply Hn; reflexivity|].
  cbn [app not_name_cont_next]. cbn [ws forallb] in Hw. apply andb_true_iff in Hw. destruct Hw as [Hc _].
  unfold is_wsc in Hc. unfold is_name_cont, is_name_start, is_digit.
  repeat (apply orb_true_iff in Hc; destruct Hc as [Hc|Hc]); apply N.eqb_eq in Hc; subst c; reflexivity.
Qed.

(** the NamedType / ListType pair of a non-NonNull type at offset i, and the Type pair *)
Fixpoint core_tree (t : rty) (i : N) : pr :=
  match t with
  | RNamed n => Pair R_NamedType i (i + slen n) [Pair R_Name i (i + slen n) []]
  | RList g1 t' g2 =>
      Pair R_ListType i (i + slen (render_ty t))
        [Pair R_Type (i + 1 + slen g1) (i + 1 + slen g1 + slen (render_ty t'))
           [match t' with
            | RNonNull t'' g => Pair R_NonNullType (i + 1 + slen g1) (i + 1 + slen g1 + slen (render_ty t')) [core_tree t'' (i + 1 + slen g1)]
            | _ => core_tree t' (i + 1 + slen g1)
            end]]
  | RNonNull t' g => core_tree t' i   (* not used *)
  end.
Definition ty_tree (t : rty) (i : N) : pr :=
  Pair R_Type i (i + slen (render_ty t))
    [match t with
     | RNonNull t' g => Pair R_NonNullType i (i + slen (render_ty t)) [core_tree t' i]
     | _ => core_tree t i
     end].

Lemma core_tree_list g1 t' g2 i :
  core_tree (RList g1 t' g2) i = Pair R_ListType i (i + slen (render_ty (RList g1 t' g2))) [ty_tree t' (i + 1 + slen g1)].
Proof. reflexivity. Qed.

Lemma render_head t : wf_rty t = true -> exists c r, render_ty t = c :: r /\ (is_name_start c = true \/ c = 91).
Proof.
  induction t as [n|g1 t IH g2|t IH g]; intros H; cbn [render_ty wf_rty] in *.
  - destruct n as [|c r]; [discriminate|]. exists c, r. split; [reflexivity|left]. unfold is_name in H. apply andb_true_iff in H. tauto.
  - eexists _, _. split; [reflexivity|right; reflexivity].
  - apply andb_true_iff in H. destruct H as [H _]. apply andb_true_iff in H. destruct H as [_ H].
    destruct (IH H) as [c [r [E Hc]]]. rewrite E. exists c, (r ++ g ++ [33]). split; [reflexivity|exact Hc].
Qed.

Lemma token_head c r : (is_name_start c = true \/ c = 91) -> at_token (c :: r).
Proof.
  intros [H| ->]; [|split; reflexivity]. split.
  - unfold is_wsc. repeat (apply orb_false_iff; split); apply N.eqb_neq; intros ->; vm_compute in H; discriminate.
  - apply N.eqb_neq; intros ->; vm_compute in H; discriminate.
Qed.

Ltac enter_rec_n r :=
  apply (@runs_Call_rec _ G true ANon r); [reflexivity|];
  let sk := eval vm_compute in (body_sk G r) in change (body_sk G r) with sk;
  let ab := eval vm_compute in (body_atomicity G r ANon) in change (body_atomicity G r ANon) with ab;
  expose_body r.
Ltac enter_fail_n r :=
  apply (@runs_Call_fail _ G true ANon r);
  let sk := eval vm_compute in (body_sk G r) in change (body_sk G r) with sk;
  let ab := eval vm_compute in (body_atomicity G r ANon) in change (body_atomicity G r ANon) with ab;
  expose_body r.

Lemma namedtype_runs n rest i : is_name n = true -> not_name_cont_next rest ->
  runs G true ANon (Call R_NamedType) (n ++ rest) i (Ok (rest, i + slen n, [core_tree (RNamed n) i])).
Proof. intros Hn Hr. cbn [core_tree]. enter_rec_n R_NamedType. apply name_runs; assumption. Qed.

Lemma namedtype_fails c t i : is_name_start c = false -> runs G true ANon (Call R_NamedType) (c :: t) i Fail.
Proof. intros Hc. enter_fail_n R_NamedType. apply name_fails; exact Hc. Qed.

Lemma listtype_fails c t i : N.eqb 91 c = false -> runs G true ANon (Call R_ListType) (c :: t) i Fail.
Proof. intros Hc. enter_fail_n R_ListType. apply (runs_SeqS_fail1 gse gse_eq). apply runs_Lit_head_fail; exact Hc. Qed.

Lemma slen_cons c l : slen (c :: l) = 1 + slen l.
Proof. unfold slen. cbn [length]. lia. Qed.

Lemma follow_close_bracket g2 rest : ws g2 = true -> follow_ty (g2 ++ 93 :: rest).
Proof.
  intros Hg. exists g2, (93 :: rest). split; [reflexivity|]. split; [exact Hg|].
  split; [split; reflexivity|]. split; [reflexivity|]. intros _. reflexivity.
Qed.

Lemma listtype_runs g1 t g2 rest i :
  wf_rty (RList g1 t g2) = true ->
  (forall rest i, follow_ty rest ->
     runs G true ANon (Call R_Type) (render_ty t ++ rest) i (Ok (rest, i + slen (render_ty t), [ty_tree t i]))) ->
  runs G true ANon (Call R_ListType) (render_ty (RList g1 t g2) ++ rest) i
    (Ok (rest, i + slen (render_ty (RList g1 t g2)), [core_tree (RList g1 t g2) i])).
Proof.
  intros Hwf IH. cbn [wf_rty] in Hwf. apply andb_true_iff in Hwf. destruct Hwf as [Hwf Hg2].
  apply andb_true_iff in Hwf. destruct Hwf as [Hg1 Hwt].
  rewrite core_tree_list. enter_rec_n R_ListType.
  destruct (render_head t Hwt) as [c [r [Ehead Hc]]].
  assert (Htxt : render_ty (RList g1 t g2) ++ rest = [91] ++ g1 ++ (render_ty t ++ (g2 ++ 93 :: rest))).
  { cbn [render_ty]. rewrite <- !app_assoc. reflexivity. }
  rewrite Htxt.
  assert (Hlen : i + slen (render_ty (RList g1 t g2)) = i + 1 + slen g1 + slen (render_ty t) + slen g2 + 1).
  { cbn [render_ty]. rewrite !slen_app. change (slen [91]) with 1. change (slen [93]) with 1. lia. }
  rewrite Hlen.
  replace [ty_tree t (i + 1 + slen g1)] with (@nil pr ++ @nil pr ++ ([ty_tree t (i + 1 + slen g1)] ++ @nil pr ++ @nil pr)) by (cbn [app]; reflexivity).
  eapply (runs_SeqS_ok gse gse_eq).
  - exact (runs_Lit_ok G true ANon [91] (g1 ++ render_ty t ++ g2 ++ 93 :: rest) i).
  - change (slen [91]) with 1. apply skip_ws; [exact Hg1|]. rewrite Ehead. cbn [app]. apply token_head; exact Hc.
  - eapply (runs_SeqS_ok gse gse_eq).
    + apply IH. apply follow_close_bracket; exact Hg2.
    + apply skip_ws; [exact Hg2|]. split; reflexivity.
    + exact (runs_Lit_ok G true ANon [93] rest (i + 1 + slen g1 + slen (render_ty t) + slen g2)).
Qed.

Lemma follow_split rest : follow_ty rest ->
  exists w r', rest = w ++ r' /\ ws w = true /\ at_token r' /\
    forall i, runs G true ANon (Lit [33]) r' i Fail.
Proof.
  intros [w [r' [E [Hw [Ht [Hb _]]]]]]. exists w, r'. repeat split; try assumption.
  intros i. destruct r' as [|d r]; [apply runs_Lit_nil_fail|apply runs_Lit_head_fail; rewrite N.eqb_sym; exact Hb].
Qed.

(** a NamedType / ListType followed by something that is not "!": NonNullType does not match *)
Lemma nonnull_fails_named n rest i : is_name n = true -> follow_ty rest ->
  runs G true ANon (Call R_NonNullType) (n ++ rest) i Fail.
Proof.
  intros Hn Hf. pose proof (follow_not_name_cont _ Hf) as Hnc.
  destruct (follow_split _ Hf) as [w [r' [E [Hw [Ht Hbang]]]]].
  enter_fail_n R_NonNullType. apply runs_Alt_r.
  - eapply (runs_SeqS_fail2 gse gse_eq).
    + apply namedtype_runs; assumption.
    + rewrite E. apply skip_ws; assumption.
    + apply Hbang.
  - destruct n as [|c u]; [discriminate|]. cbn [app]. apply (runs_SeqS_fail1 gse gse_eq). apply listtype_fails.
    unfold is_name in Hn. apply andb_true_iff in Hn. destruct Hn as [Hc _].
    apply N.eqb_neq. intros <-. vm_compute in Hc. discriminate.
Qed.

(** the NamedType / ListType pair of a type that is not a NonNull *)
Definition core_runs (t : rty) : Prop :=
  match t with
  | RNamed n => forall rest i, not_name_cont_next rest ->
      runs G true ANon (Call R_NamedType) (n ++ rest) i (Ok (rest, i + slen n, [core_tree t i]))
  | RList _ _ _ => forall rest i,
      runs G true ANon (Call R_ListType) (render_ty t ++ rest) i (Ok (rest, i + slen (render_ty t), [core_tree t i]))
  | RNonNull _ _ => True
  end.
Definition type_runs_stmt (t : rty) : Prop := forall rest i, follow_ty rest ->
  runs G true ANon (Call R_Type) (render_ty t ++ rest) i (Ok (rest, i + slen (render_ty t), [ty_tree t i])).

Lemma ws_head_not_name_cont g rest : ws g = true -> not_name_cont_next (g ++ 33 :: rest).
Proof.
  intros Hg. destruct g as [|c g0]; [reflexivity|]. cbn [app not_name_cont_next].
  cbn [ws forallb] in Hg. apply andb_true_iff in Hg. destruct Hg as [Hc _].
  unfold is_wsc in Hc. repeat (apply orb_true_iff in Hc; destruct Hc as [Hc|Hc]); apply N.eqb_eq in Hc; subst c; reflexivity.
Qed.

Lemma type_runs_both : forall t, wf_rty t = true -> type_runs_stmt t /\ core_runs t.
Proof.
  induction t as [n|g1 t IH g2|t IH g]; intros Hwf.
  - (* Named *)
    cbn [wf_rty] in Hwf. split.
    + intros rest i Hf. unfold ty_tree. cbn [render_ty]. enter_rec_n R_Type.
      apply runs_Alt_r; [apply nonnull_fails_named; assumption|].
      apply runs_Alt_l. apply namedtype_runs; [exact Hwf|apply follow_not_name_cont; exact Hf].
    + intros rest i Hn. apply namedtype_runs; assumption.
  - (* List *)
    pose proof Hwf as Hwf0. cbn [wf_rty] in Hwf. apply andb_true_iff in Hwf. destruct Hwf as [Hwf Hg2].
    apply andb_true_iff in Hwf. destruct Hwf as [Hg1 Hwt].
    assert (Hlist : core_runs (RList g1 t g2)).
    { intros rest0 i0. apply listtype_runs; [exact Hwf0|]. exact (proj1 (IH Hwt)). }
    split; [|exact Hlist].
    intros rest i Hf. unfold ty_tree. enter_rec_n R_Type.
    destruct (follow_split _ Hf) as [w [r' [E [Hw [Ht Hbang]]]]].
    assert (Hhead : render_ty (RList g1 t g2) ++ rest = 91 :: (g1 ++ render_ty t ++ g2 ++ [93]) ++ rest) by reflexivity.
    apply runs_Alt_r.
    { enter_fail_n R_NonNullType. apply runs_Alt_r.
      - rewrite Hhead. apply (runs_SeqS_fail1 gse gse_eq). apply namedtype_fails. reflexivity.
      - eapply (runs_SeqS_fail2 gse gse_eq); [apply Hlist| |apply Hbang]. rewrite E. apply skip_ws; assumption. }
    apply runs_Alt_r; [rewrite Hhead; apply namedtype_fails; reflexivity|].
    apply Hlist.
  - (* NonNull *)
    cbn [wf_rty] in Hwf. apply andb_true_iff in Hwf. destruct Hwf as [Hwf Hnn].
    apply andb_true_iff in Hwf. destruct Hwf as [Hg Hwt].
    split; [|exact I].
    intros rest i Hf. unfold ty_tree. enter_rec_n R_Type. apply runs_Alt_l. enter_rec_n R_NonNullType.
    assert (Htxt : render_ty (RNonNull t g) ++ rest = render_ty t ++ (g ++ 33 :: rest)).
    { cbn [render_ty]. rewrite <- !app_assoc. reflexivity. }
    assert (Hlen : i + slen (render_ty (RNonNull t g)) = i + slen (render_ty t) + slen g + 1).
    { cbn [render_ty]. rewrite !slen_app. change (slen [33]) with 1. lia. }
    rewrite Htxt, Hlen.
    assert (Hbang_tok : at_token (33 :: rest)) by (split; reflexivity).
    replace [core_tree t i] with ([core_tree t i] ++ @nil pr ++ @nil pr) by reflexivity.
    destruct (IH Hwt) as [_ Hcore].
    destruct t as [n|g1 t' g2|t' g'].
    + apply runs_Alt_l. eapply (runs_SeqS_ok gse gse_eq).
      * cbn [render_ty]. apply Hcore. apply ws_head_not_name_cont; exact Hg.
      * apply skip_ws; assumption.
      * exact (runs_Lit_ok G true ANon [33] rest (i + slen (render_ty (RNamed n)) + slen g)).
    + assert (Hhead : render_ty (RList g1 t' g2) ++ g ++ 33 :: rest = 91 :: (g1 ++ render_ty t' ++ g2 ++ [93]) ++ g ++ 33 :: rest) by reflexivity.
      apply runs_Alt_r.
      { rewrite Hhead. apply (runs_SeqS_fail1 gse gse_eq). apply namedtype_fails. reflexivity. }
      eapply (runs_SeqS_ok gse gse_eq).
      * apply Hcore.
      * apply skip_ws; assumption.
      * exact (runs_Lit_ok G true ANon [33] rest (i + slen (render_ty (RList g1 t' g2)) + slen g)).
    + discriminate Hnn.
Qed.

(** parse direction of the round trip for types: any type expression, any whitespace trivia *)
Theorem type_runs : forall t, wf_rty t = true -> forall rest i, follow_ty rest ->
  runs G true ANon (Call R_Type) (render_ty t ++ rest) i (Ok (rest, i + slen (render_ty t), [ty_tree t i])).
Proof. intros t Hwf. exact (proj1 (type_runs_both t Hwf)). Qed.

(** ** the builder on those trees *)
Inductive aty := ANamed (n : str) | AList (t : aty) | ANonNull (t : aty).
Fixpoint erase_rty (t : rty) : aty :=
  match t with RNamed n => ANamed n | RList _ t' _ => AList (erase_rty t') | RNonNull t' _ => ANonNull (erase_rty t') end.
Fixpoint ty_erase (t : ty) : aty :=
  match t with TNamed id => ANamed (iname id) | TList _ t' => AList (ty_erase t') | TNonNull t' => ANonNull (ty_erase t') end.

Definition inner_tree (t : rty) (i : N) : pr :=
  match t with
  | RNonNull t' g => Pair R_NonNullType i (i + slen (render_ty t)) [core_tree t' i]
  | _ => core_tree t i
  end.
Lemma ty_tree_inner t i : ty_tree t i = Pair R_Type i (i + slen (render_ty t)) [inner_tree t i].
Proof. destruct t; reflexivity. Qed.

Lemma build_inner file : forall t, wf_rty t = true -> forall pre rest,
  exists ty', build_type_of (pre ++ render_ty t ++ rest) file (inner_tree t (slen pre)) = BOk ty'
              /\ ty_erase ty' = erase_rty t.
Proof.
  induction t as [n|g1 t IH g2|t IH g]; intros Hwf pre rest.
  - cbn [inner_tree core_tree render_ty]. eexists. split; [reflexivity|].
    cbn [ty_erase erase_rty to_ident iname]. unfold as_str. cbn [pair_start pair_end]. rewrite substr_mid. reflexivity.
  - cbn [wf_rty] in Hwf. apply andb_true_iff in Hwf. destruct Hwf as [Hwf _]. apply andb_true_iff in Hwf. destruct Hwf as [_ Hwt].
    unfold inner_tree. rewrite core_tree_list, ty_tree_inner.
    assert (Hinp : pre ++ render_ty (RList g1 t g2) ++ rest = (pre ++ [91] ++ g1) ++ render_ty t ++ (g2 ++ [93] ++ rest)).
    { cbn [render_ty]. rewrite <- !app_assoc. reflexivity. }
    assert (Hoff : slen pre + 1 + slen g1 = slen (pre ++ [91] ++ g1)).
    { rewrite !slen_app. change (slen [91]) with 1. lia. }
    destruct (IH Hwt (pre ++ [91] ++ g1) (g2 ++ [93] ++ rest)) as [ty' [Hb He]].
    exists (TList (to_pos (pre ++ render_ty (RList g1 t g2) ++ rest) file
                     (Pair R_ListType (slen pre) (slen pre + slen (render_ty (RList g1 t g2))) [Pair R_Type (slen pre + 1 + slen g1) (slen pre + 1 + slen g1 + slen (render_ty t)) [inner_tree t (slen pre + 1 + slen g1)]])) ty').
    split; [|cbn [ty_erase erase_rty]; rewrite He; reflexivity].
    cbn [build_type_of]. rewrite Hoff, Hinp, Hb. reflexivity.
  - cbn [wf_rty] in Hwf. apply andb_true_iff in Hwf. destruct Hwf as [Hwf Hnn]. apply andb_true_iff in Hwf. destruct Hwf as [_ Hwt].
    assert (Hinp : pre ++ render_ty (RNonNull t g) ++ rest = pre ++ render_ty t ++ (g ++ [33] ++ rest)).
    { cbn [render_ty]. rewrite <- !app_assoc. reflexivity. }
    destruct (IH Hwt pre (g ++ [33] ++ rest)) as [ty' [Hb He]].
    exists (TNonNull ty'). split; [|cbn [ty_erase erase_rty]; rewrite He; reflexivity].
    cbn [inner_tree]. rewrite Hinp.
    destruct t as [n|g1 t' g2|t' g']; [| |discriminate Hnn]; cbn [inner_tree] in Hb.
    + cbn [build_type_of core_tree pair_rule bbind] in Hb |- *. inversion Hb. reflexivity.
    + rewrite core_tree_list in Hb |- *. cbn [build_type_of pair_rule]. cbn [build_type_of] in Hb. rewrite Hb. reflexivity.
Qed.

(** parse_render for types: any well-formed type expression with any whitespace trivia, in any surroundings
    that may follow a type, is parsed to one Type pair over exactly its text, and the builder returns the type
    it denotes *)
Theorem parse_render_type : forall t pre rest file, wf_rty t = true -> follow_ty rest ->
  let inp := pre ++ render_ty t ++ rest in
  let i := slen pre in
  runs G true ANon (Call R_Type) (render_ty t ++ rest) i (Ok (rest, i + slen (render_ty t), [ty_tree t i]))
  /\ exists ty', build_type inp file (ty_tree t i) = BOk ty' /\ ty_erase ty' = erase_rty t.
Proof.
  intros t pre rest file Hwf Hf inp i. split; [apply type_runs; assumption|].
  destruct (build_inner file t Hwf pre rest) as [ty' [Hb He]]. exists ty'. split; [|exact He].
  unfold build_type, only_child. rewrite ty_tree_inner. cbn [pair_kids]. exact Hb.
Qed.

(** non-vacuity: a nested type with trivia, its follow condition, and the same text through the whole parser *)
Definition ex_rty : rty := RNonNull (RList [32; 10] (RNonNull (RList [] (RNamed (s "Int")) [44]) [32]) [9]) [].
Example ex_rty_wf : wf_rty ex_rty = true /\ erase_rty ex_rty = ANonNull (AList (ANonNull (AList (ANamed (s "Int"))))).
Proof. split; vm_compute; reflexivity. Qed.
Example ex_rty_follow : follow_ty (s " = 1) { a }").
Proof. exists [32], (s "= 1) { a }"). repeat split; try reflexivity. Qed.
Example ex_rty_whole_parser :
  exists d o vs v, parse_operation_document 0 (s "query ($a: " ++ render_ty ex_rty ++ s " = 1) { a }") = POk d /\
    od_defs d = [DOp o] /\ op_vars o = Some vs /\ vds_list vs = [v] /\ ty_erase (vd_type v) = erase_rty ex_rty.
Proof. do 4 eexists. split; [vm_compute; reflexivity|]. repeat split. Qed.
