(** C07 — proofs, part 3: string_lex.  For every string value (any scalar values, any length) the quoted
    rendering -- mandatory escapes for quote, backslash, LF, CR, plus \b \f \t -- is lexed by the translated
    grammar as exactly one StringValue token with one StringCharacter pair per character, and the builder
    decodes that tree back to the value; the specification's reading of the same text (Spec.string_at) is
    the same value.  Built on the symbolic-execution lemmas of Peg/PegProps.v ([runs]). *)
From V Require Import Base.Util Gql.Ast Peg.Peg Peg.PegProps Gen.C07_grammar_gen C07.Builder C07.Model C07.Spec C07.Proofs C07.Lexical.
Local Open Scope N_scope.
Notation G := gql_grammar.

(** enter a call of a concrete rule that records a pair / is silent in this context *)
Ltac enter_rec r a :=
  apply (@runs_Call_rec _ G _ a r); [reflexivity|];
  let sk := eval vm_compute in (body_sk G r) in change (body_sk G r) with sk;
  let ab := eval vm_compute in (body_atomicity G r a) in change (body_atomicity G r a) with ab;
  expose_body r.
Ltac enter_fail r a :=
  apply (@runs_Call_fail _ G _ a r);
  let sk := eval vm_compute in (body_sk G r) in change (body_sk G r) with sk;
  let ab := eval vm_compute in (body_atomicity G r a) in change (body_atomicity G r a) with ab;
  expose_body r.

Lemma char_plain c t i :
  N.eqb 34 c = false -> N.eqb 92 c = false -> N.eqb 10 c = false -> N.eqb 13 c = false ->
  runs G false ACompound (Call R_StringCharacter) (c :: t) i
    (Ok (t, i + 1, [Pair R_StringCharacter i (i + 1) [Pair R_NormalStringCharacter i (i + 1) []]])).
Proof.
  intros H34 H92 H10 H13.
  enter_rec R_StringCharacter ACompound.
  apply runs_Alt_r. { enter_fail R_EscapedUnicodeBrace ACompound. apply runs_Seq_fail1. apply runs_Lit_head_fail; exact H92. }
  apply runs_Alt_r. { enter_fail R_EscapedUnicode4 ACompound. apply runs_Seq_fail1. apply runs_Lit_head_fail; exact H92. }
  apply runs_Alt_r. { enter_fail R_EscapedCharacter ACompound. apply runs_Seq_fail1. apply runs_Lit_head_fail; exact H92. }
  enter_rec R_NormalStringCharacter ACompound.
  change (@nil pr) with (@nil pr ++ @nil pr).
  eapply runs_Seq_ok.
  - apply runs_Not_ok.
    apply runs_Alt_r; [apply runs_Lit_head_fail; exact H34|].
    apply runs_Alt_r; [apply runs_Lit_head_fail; exact H92|].
    apply runs_Alt_r; [apply runs_Lit_head_fail; exact H10|].
    apply runs_Alt_r; [apply runs_Lit_head_fail; exact H13|].
    apply runs_Lit_head_fail; exact H13.
  - exact (runs_Any G false AAtomic (c :: t) i).
Qed.

Definition esc_letter_ok (e : N) : bool :=
  N.eqb 34 e || (N.eqb 92 e || (N.eqb 47 e || (N.eqb 98 e || (N.eqb 102 e || (N.eqb 110 e || (N.eqb 114 e || N.eqb 116 e)))))).

Lemma class_escape_letters :
  is_class G AAtomic
    (Alt (Lit [34]) (Alt (Lit [92]) (Alt (Lit [47]) (Alt (Lit [98]) (Alt (Lit [102]) (Alt (Lit [110]) (Alt (Lit [114]) (Lit (R:=rule) [116]))))))))
    esc_letter_ok.
Proof. unfold esc_letter_ok. repeat first [apply class_Alt | apply class_Lit1]. Qed.

Lemma char_escaped e t i :
  esc_letter_ok e = true -> N.eqb 117 e = false ->
  runs G false ACompound (Call R_StringCharacter) (92 :: e :: t) i
    (Ok (t, i + 1 + 1, [Pair R_StringCharacter i (i + 1 + 1) [Pair R_EscapedCharacter i (i + 1 + 1) []]])).
Proof.
  intros Hok H117.
  assert (Hu : forall a rest0, runs G false a (Seq (Lit [92; 117]) rest0) (92 :: e :: t) i Fail).
  { intros a rest0. apply runs_Seq_fail1. pose proof (runs_Lit G false a [92; 117] (92 :: e :: t) i) as H.
    cbn [strip_prefix] in H. change (N.eqb 92 92) with true in H. cbn iota in H. rewrite H117 in H. exact H. }
  enter_rec R_StringCharacter ACompound.
  apply runs_Alt_r. { enter_fail R_EscapedUnicodeBrace ACompound. apply Hu. }
  apply runs_Alt_r. { enter_fail R_EscapedUnicode4 ACompound. apply Hu. }
  apply runs_Alt_l.
  enter_rec R_EscapedCharacter ACompound.
  change (@nil pr) with (@nil pr ++ @nil pr).
  eapply runs_Seq_ok.
  - exact (runs_Lit_ok G false AAtomic [92] (e :: t) i).
  - pose proof (runs_class (e :: t) (i + slen [92]) class_escape_letters) as H.
    cbn [class_result] in H. rewrite Hok in H. exact H.
Qed.

(** StringCharacter does not match at a closing quote *)
Lemma char_stops_at_quote t i :
  runs G false ACompound (Call R_StringCharacter) (34 :: t) i Fail.
Proof.
  enter_fail R_StringCharacter ACompound.
  apply runs_Alt_r. { enter_fail R_EscapedUnicodeBrace ACompound. apply runs_Seq_fail1. apply runs_Lit_head_fail; reflexivity. }
  apply runs_Alt_r. { enter_fail R_EscapedUnicode4 ACompound. apply runs_Seq_fail1. apply runs_Lit_head_fail; reflexivity. }
  apply runs_Alt_r. { enter_fail R_EscapedCharacter ACompound. apply runs_Seq_fail1. apply runs_Lit_head_fail; reflexivity. }
  enter_fail R_NormalStringCharacter ACompound.
  apply runs_Seq_fail1. eapply runs_Not_fail. apply runs_Alt_l. exact (runs_Lit_ok G false AAtomic [34] t i).
Qed.

(** ** rendering a string value: the quoted form with the escapes that are mandatory (and \b \f \t) *)
Definition esc_of (c : N) : option N :=
  if N.eqb c 34 then Some 34 else if N.eqb c 92 then Some 92 else if N.eqb c 8 then Some 98
  else if N.eqb c 12 then Some 102 else if N.eqb c 10 then Some 110 else if N.eqb c 13 then Some 114
  else if N.eqb c 9 then Some 116 else None.
Definition enc (c : N) : str := match esc_of c with Some e => [92; e] | None => [c] end.
Definition kind (c : N) : rule := match esc_of c with Some _ => R_EscapedCharacter | None => R_NormalStringCharacter end.
Definition encs (v : str) : str := flat_map enc v.
Definition quote (v : str) : str := 34 :: encs v ++ [34].

Fixpoint char_pairs (v : str) (i : N) : list pr :=
  match v with
  | [] => []
  | c :: v' => let j := i + slen (enc c) in
               Pair R_StringCharacter i j [Pair (kind c) i j []] :: char_pairs v' j
  end.

Lemma esc_of_cases c :
  (exists e, esc_of c = Some e /\ esc_letter_ok e = true /\ N.eqb 117 e = false /\ escaped_char e = BOk c) \/
  (esc_of c = None /\ N.eqb 34 c = false /\ N.eqb 92 c = false /\ N.eqb 10 c = false /\ N.eqb 13 c = false).
Proof.
  unfold esc_of.
  destruct (N.eqb_spec c 34) as [->|H34]; [left; eexists; repeat split|].
  destruct (N.eqb_spec c 92) as [->|H92]; [left; eexists; repeat split|].
  destruct (N.eqb_spec c 8) as [->|H8]; [left; eexists; repeat split|].
  destruct (N.eqb_spec c 12) as [->|H12]; [left; eexists; repeat split|].
  destruct (N.eqb_spec c 10) as [->|H10]; [left; eexists; repeat split|].
  destruct (N.eqb_spec c 13) as [->|H13]; [left; eexists; repeat split|].
  destruct (N.eqb_spec c 9) as [->|H9]; [left; eexists; repeat split|].
  right. repeat split; apply N.eqb_neq; congruence.
Qed.

Lemma char_enc c t i :
  runs G false ACompound (Call R_StringCharacter) (enc c ++ t) i
    (Ok (t, i + slen (enc c), [Pair R_StringCharacter i (i + slen (enc c)) [Pair (kind c) i (i + slen (enc c)) []]])).
Proof.
  unfold enc, kind. destruct (esc_of_cases c) as [[e [He [Hok [H117 _]]]]|[He [H34 [H92 [H10 H13]]]]]; rewrite He.
  - change (slen [92; e]) with 2. replace (i + 2) with (i + 1 + 1) by lia. apply char_escaped; assumption.
  - change (slen [c]) with 1. apply char_plain; assumption.
Qed.

Lemma slen_app a b : slen (a ++ b) = slen a + slen b.
Proof. unfold slen. rewrite app_length. lia. Qed.

Lemma reps_chars : forall v t i,
  repss G false ACompound (Call R_StringCharacter) (encs v ++ 34 :: t) i
    (Ok (34 :: t, i + slen (encs v), char_pairs v i)).
Proof.
  induction v as [|c v IH]; intros t i.
  - cbn [encs flat_map app char_pairs]. change (slen []) with 0. rewrite N.add_0_r.
    apply repss_stop. apply char_stops_at_quote.
  - cbn [encs flat_map char_pairs]. fold (encs v). rewrite <- app_assoc.
    rewrite slen_app, N.add_assoc.
    change (Pair R_StringCharacter i (i + slen (enc c)) [Pair (kind c) i (i + slen (enc c)) []] :: char_pairs v (i + slen (enc c)))
      with ([Pair R_StringCharacter i (i + slen (enc c)) [Pair (kind c) i (i + slen (enc c)) []]] ++ char_pairs v (i + slen (enc c))).
    eapply repss_step; [apply char_enc|apply IH].
Qed.

Lemma plus_chars : forall c v t i,
  runs G false ACompound (Plus (Call R_StringCharacter)) (encs (c :: v) ++ 34 :: t) i
    (Ok (34 :: t, i + slen (encs (c :: v)), char_pairs (c :: v) i)).
Proof.
  intros c v t i. apply runs_Plus.
  cbn [encs flat_map char_pairs]. fold (encs v). rewrite <- app_assoc. rewrite slen_app, N.add_assoc.
  change (Pair R_StringCharacter i (i + slen (enc c)) [Pair (kind c) i (i + slen (enc c)) []] :: char_pairs v (i + slen (enc c)))
    with ([Pair R_StringCharacter i (i + slen (enc c)) [Pair (kind c) i (i + slen (enc c)) []]] ++ char_pairs v (i + slen (enc c))).
  eapply runs_Seq_ok; [apply char_enc|].
  destruct v as [|c2 v].
  - cbn [encs flat_map app char_pairs]. change (slen []) with 0. rewrite N.add_0_r.
    apply runs_Star_stop. apply char_stops_at_quote.
  - cbn [encs flat_map char_pairs]. fold (encs v). rewrite <- app_assoc. rewrite slen_app, N.add_assoc.
    change (Pair R_StringCharacter (i + slen (enc c)) (i + slen (enc c) + slen (enc c2)) [Pair (kind c2) (i + slen (enc c)) (i + slen (enc c) + slen (enc c2)) []] :: char_pairs v (i + slen (enc c) + slen (enc c2)))
      with ([Pair R_StringCharacter (i + slen (enc c)) (i + slen (enc c) + slen (enc c2)) [Pair (kind c2) (i + slen (enc c)) (i + slen (enc c) + slen (enc c2)) []]] ++ char_pairs v (i + slen (enc c) + slen (enc c2))).
    eapply runs_Star_step; [apply char_enc|apply reps_chars].
Qed.

Lemma enc_head c : exists h tl, enc c = h :: tl /\ N.eqb 34 h = false.
Proof.
  unfold enc. destruct (esc_of_cases c) as [[e [He _]]|[He [H34 _]]]; rewrite He.
  - exists 92, [e]. split; reflexivity.
  - exists c, []. split; [reflexivity|exact H34].
Qed.

(** the pair tree of the quoted rendering of a non-empty value at offset [i] *)
Definition string_tree (v : str) (i : N) : pr :=
  Pair R_StringValue i (i + slen (quote v))
    [Pair R_NormalStringValue i (i + slen (quote v)) (char_pairs v (i + 1))].

Lemma slen_quote v : slen (quote v) = 1 + slen (encs v) + 1.
Proof. unfold quote, slen. cbn [length]. rewrite app_length. cbn [length]. lia. Qed.

Lemma string_value_runs c v post sk a i :
  runs G sk a (Call R_StringValue) (quote (c :: v) ++ post) i
    (Ok (post, i + slen (quote (c :: v)), [string_tree (c :: v) i])).
Proof.
  unfold string_tree.
  enter_rec R_StringValue a.
  assert (Hq : quote (c :: v) ++ post = 34 :: encs (c :: v) ++ 34 :: post).
  { unfold quote. cbn [app]. rewrite <- app_assoc. reflexivity. }
  rewrite Hq.
  apply runs_Alt_r.
  { enter_fail R_EmptyStringValue ACompound. apply runs_Seq_fail1.
    pose proof (runs_Lit G false AAtomic [34; 34] (34 :: encs (c :: v) ++ 34 :: post) i) as H.
    cbn [encs flat_map] in H. destruct (enc_head c) as [h [tl [Hh H34]]]. rewrite Hh in H.
    cbn [app strip_prefix] in H. change (N.eqb 34 34) with true in H. cbn iota in H. rewrite H34 in H.
    cbn [encs flat_map]. rewrite Hh. exact H. }
  apply runs_Alt_l.
  enter_rec R_NormalStringValue ACompound.
  replace (char_pairs (c :: v) (i + 1)) with (@nil pr ++ (char_pairs (c :: v) (i + slen [34]) ++ @nil pr))
    by (cbn [app]; rewrite app_nil_r; reflexivity).
  replace (i + slen (quote (c :: v))) with (i + slen [34] + slen (encs (c :: v)) + slen [34])
    by (rewrite slen_quote; change (slen [34]) with 1; lia).
  eapply runs_Seq_ok; [exact (runs_Lit_ok G false ACompound [34] (encs (c :: v) ++ 34 :: post) i)|].
  eapply runs_Seq_ok; [apply plus_chars|].
  exact (runs_Lit_ok G false ACompound [34] post (i + slen [34] + slen (encs (c :: v)))).
Qed.

Lemma substr_mid pre x y : substr (pre ++ x ++ y) (slen pre) (slen pre + slen x) = x.
Proof.
  unfold substr, slen. replace (N.to_nat (N.of_nat (length pre) + N.of_nat (length x) - N.of_nat (length pre))) with (length x) by lia.
  rewrite Nat2N.id. rewrite skipn_app, skipn_all, Nat.sub_diag. cbn [app skipn]. apply firstn_app_exact.
Qed.

Lemma mapM_cons {A B} (f : A -> bres B) x l :
  mapM f (x :: l) = match f x with
                    | BOk y => match mapM f l with BOk ys => BOk (y :: ys) | BPanic k => BPanic k end
                    | BPanic k => BPanic k
                    end.
Proof. reflexivity. Qed.

Lemma build_chars : forall v pre rest,
  decode_chars (pre ++ encs v ++ rest) (char_pairs v (slen pre)) None = DOk v.
Proof.
  induction v as [|c v IH]; intros pre rest; [reflexivity|].
  cbn [char_pairs encs flat_map]. fold (encs v).
  set (inp := pre ++ (enc c ++ encs v) ++ rest).
  assert (Hinp : inp = pre ++ enc c ++ (encs v ++ rest)) by (unfold inp; rewrite <- app_assoc; reflexivity).
  assert (Hstr : substr inp (slen pre) (slen pre + slen (enc c)) = enc c) by (rewrite Hinp; apply substr_mid).
  assert (Hrest : decode_chars inp (char_pairs v (slen pre + slen (enc c))) None = DOk v).
  { rewrite <- slen_app. unfold inp. replace (pre ++ (enc c ++ encs v) ++ rest) with ((pre ++ enc c) ++ encs v ++ rest)
      by (rewrite <- !app_assoc; reflexivity). apply IH. }
  cbn [decode_chars pair_kids].
  assert (Heu : escaped_unicode inp (Pair (kind c) (slen pre) (slen pre + slen (enc c)) []) = BOk None).
  { unfold escaped_unicode, kind. cbn [pair_rule]. destruct (esc_of c); reflexivity. }
  rewrite Heu.
  assert (Hplain : plain_char inp (Pair (kind c) (slen pre) (slen pre + slen (enc c)) []) = BOk c).
  { unfold plain_char. cbn [pair_rule]. unfold as_str. cbn [pair_start pair_end]. rewrite Hstr.
    unfold kind, enc. destruct (esc_of_cases c) as [[e [He [_ [_ Hesc]]]]|[He _]]; rewrite He; [exact Hesc|reflexivity]. }
  rewrite Hplain, Hrest. reflexivity.
Qed.

(** string_lex: the quoted rendering of any non-empty value is one StringValue token, and the builder
    decodes it back to the value; [pre]/[post] are arbitrary surroundings *)
Theorem string_lex_nonempty : forall c v pre post file sk a,
  let val := c :: v in
  let inp := pre ++ quote val ++ post in
  let i := slen pre in
  runs G sk a (Call R_StringValue) (quote val ++ post) i (Ok (post, i + slen (quote val), [string_tree val i]))
  /\ build_string_value inp file (string_tree val i)
     = BOk (mkPos (fst (line_col inp i)) (snd (line_col inp i)) file false, val).
Proof.
  intros c v pre post file sk a val inp i. split; [apply string_value_runs|].
  unfold build_string_value, string_tree, only_child. cbn [pair_kids pair_rule].
  assert (Hinp : inp = (pre ++ [34]) ++ encs val ++ (34 :: post)).
  { unfold inp, quote. rewrite <- !app_assoc. cbn [app]. rewrite <- app_assoc. reflexivity. }
  assert (Hi : i + 1 = slen (pre ++ [34])) by (rewrite slen_app; reflexivity).
  unfold decode_string_characters. cbn [pair_kids]. rewrite Hi, Hinp. rewrite build_chars. rewrite <- Hinp. unfold to_pos. cbn [pair_start]. reflexivity.
Qed.

Definition not_quote_next (post : str) : Prop := match post with d :: _ => N.eqb 34 d = false | [] => True end.

Theorem string_lex_empty : forall pre post file sk a,
  not_quote_next post ->
  let inp := pre ++ quote [] ++ post in
  let i := slen pre in
  let t := Pair R_StringValue i (i + 2) [Pair R_EmptyStringValue i (i + 2) []] in
  runs G sk a (Call R_StringValue) (quote [] ++ post) i (Ok (post, i + 2, [t]))
  /\ build_string_value inp file t = BOk (mkPos (fst (line_col inp i)) (snd (line_col inp i)) file false, []).
Proof.
  intros pre post file sk a Hpost inp i t. split; [|reflexivity].
  unfold t. enter_rec R_StringValue a.
  apply runs_Alt_l. enter_rec R_EmptyStringValue ACompound.
  change (@nil pr) with (@nil pr ++ @nil pr).
  eapply runs_Seq_ok; [exact (runs_Lit_ok G false AAtomic [34; 34] post i)|].
  apply runs_Not_ok. destruct post as [|d post']; [apply runs_Lit_nil_fail|apply runs_Lit_head_fail; exact Hpost].
Qed.

(** the specification reads the same rendering back to the same value *)
Lemma spec_lex_quoted : forall v rest fuel,
  (length (encs v) < fuel)%nat -> lex_quoted fuel (encs v ++ 34 :: rest) = Some (v, rest).
Proof.
  induction v as [|c v IH]; intros rest fuel Hf.
  - destruct fuel as [|f]; [cbn in Hf; lia|]. reflexivity.
  - cbn [encs flat_map] in *. fold (encs v) in *. rewrite app_length in Hf. rewrite <- app_assoc.
    unfold enc in *. destruct (esc_of_cases c) as [[e [He [Hok [H117 Hesc]]]]|[He [H34 [H92 [H10 H13]]]]]; rewrite He in *.
    + cbn [length] in Hf. destruct fuel as [|f]; [lia|]. cbn [app lex_quoted].
      change (N.eqb 92 34) with false. change (is_lt 92) with false. change (N.eqb 92 92) with true. cbn iota.
      rewrite (IH rest f) by lia.
      unfold esc_of in He.
      destruct (N.eqb c 34) eqn:E1; [inversion He; subst e; apply N.eqb_eq in E1; subst c; reflexivity|].
      destruct (N.eqb c 92) eqn:E2; [inversion He; subst e; apply N.eqb_eq in E2; subst c; reflexivity|].
      destruct (N.eqb c 8) eqn:E3; [inversion He; subst e; apply N.eqb_eq in E3; subst c; reflexivity|].
      destruct (N.eqb c 12) eqn:E4; [inversion He; subst e; apply N.eqb_eq in E4; subst c; reflexivity|].
      destruct (N.eqb c 10) eqn:E5; [inversion He; subst e; apply N.eqb_eq in E5; subst c; reflexivity|].
      destruct (N.eqb c 13) eqn:E6; [inversion He; subst e; apply N.eqb_eq in E6; subst c; reflexivity|].
      destruct (N.eqb c 9) eqn:E7; [inversion He; subst e; apply N.eqb_eq in E7; subst c; reflexivity|discriminate].
    + cbn [length] in Hf. destruct fuel as [|f]; [lia|]. cbn [app lex_quoted].
      rewrite (N.eqb_sym c 34), H34. unfold is_lt. rewrite (N.eqb_sym c 10), H10, (N.eqb_sym c 13), H13. cbn [orb].
      rewrite (N.eqb_sym c 92), H92. rewrite (IH rest f) by lia. reflexivity.
Qed.

Theorem spec_reads_quote : forall v post, (v = [] -> not_quote_next post) -> string_at (quote v ++ post) = Some v.
Proof.
  intros v post Hv. unfold string_at.
  assert (Hq : quote v ++ post = 34 :: encs v ++ 34 :: post).
  { unfold quote. cbn [app]. rewrite <- app_assoc. reflexivity. }
  rewrite Hq.
  assert (Hnb : prefix_rest q3 (34 :: encs v ++ 34 :: post) = None).
  { unfold q3. cbn [prefix_rest]. change (N.eqb 34 34) with true. cbn iota.
    destruct v as [|c v].
    - cbn [encs flat_map app prefix_rest]. change (N.eqb 34 34) with true. cbn iota.
      specialize (Hv eq_refl). destruct post as [|d post']; [reflexivity|]. unfold not_quote_next in Hv. cbn [prefix_rest]. rewrite Hv. reflexivity.
    - cbn [encs flat_map]. destruct (enc_head c) as [h [tl [Hh H34]]]. rewrite Hh. cbn [app]. rewrite H34. reflexivity. }
  rewrite Hnb. change (N.eqb 34 34) with true. cbn iota.
  rewrite spec_lex_quoted; [reflexivity|]. rewrite app_length. cbn [length]. lia.
Qed.

(** non-vacuity through the whole parser with its default fuel: a value with a quote, a backslash, a line
    feed, a tab, a non-BMP character *)
Definition ex_val : str := [104; 34; 92; 10; 9; 233; 128512].
Definition ex_text : str := s "{ a(s: " ++ quote ex_val ++ s ") }".
Example string_lex_whole_parser :
  exists d, parse_operation_document 0 ex_text = POk d /\ ck_opdoc ex_text 0 d = true /\
  match od_defs d with
  | [DOp o] => match selset_sels (op_sel o) with
               | [SField _ _ (Some args) _ _] => match args_list args with [(_, VString _ v)] => v = ex_val | _ => False end
               | _ => False
               end
  | _ => False
  end.
Proof. eexists. split; [vm_compute; reflexivity|]. split; [vm_compute; reflexivity|]. vm_compute. reflexivity. Qed.
