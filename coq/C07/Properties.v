(** C07 — property theorems only. *)
From V Require Import Base.Util Gql.Ast Peg.Peg Gen.C07_grammar_gen C07.Builder C07.Model C07.AstEq C07.Spec C07.Proofs.

Theorem C07_positions_true : forall inp file (p : pair rule),
  no_lone_cr inp = true ->
  to_pos inp file p =
  mkPos (fst (spec_line_col inp (pair_start p))) (snd (spec_line_col inp (pair_start p))) file false.
Proof. exact to_pos_true. Qed.
Print Assumptions C07_positions_true.

Theorem C07_lone_cr_refuted :
  exists inp d, parse_operation_document 0 inp = POk d /\ ck_opdoc inp 0 d = false /\ no_lone_cr inp = false.
Proof. exact lone_cr_refuted. Qed.
Print Assumptions C07_lone_cr_refuted.

Theorem C07_block_string_refuted :
  exists inp d, parse_operation_document 0 inp = POk d /\ ck_opdoc inp 0 d = false /\ no_lone_cr inp = true.
Proof. exact block_string_refuted. Qed.
Print Assumptions C07_block_string_refuted.

Theorem C07_surrogate_pair_refuted :
  exists inp, parse_operation_document 0 inp = PPanic P_char /\
              (exists t, string_at (skipn 7 inp) = Some t /\ t = [128512%N]).
Proof. exact surrogate_pair_refuted. Qed.
Print Assumptions C07_surrogate_pair_refuted.

Theorem C07_object_type_without_fields_refuted : parse_type_system_document 0 w_type_no_fields = PErr.
Proof. exact object_type_without_fields_refuted. Qed.
Print Assumptions C07_object_type_without_fields_refuted.

Theorem C07_union_without_members_refuted : parse_type_system_document 0 w_union_no_members = PErr.
Proof. exact union_without_members_refuted. Qed.
Print Assumptions C07_union_without_members_refuted.
