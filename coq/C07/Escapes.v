(** C07 — proofs, part 12: unicode escapes (since /repo a4a3647).  For every sequence of string items -- plain
    characters, simple escapes, \uXXXX and \u{...} escapes, any length -- the model's decode_string_characters on
    the pair list of that sequence and the specification's StringValue semantics (Spec.lex_quoted) of its text are
    the same partial function [dec_items]: a surrogate pair of \uXXXX escapes is one supplementary character, and
    decoding fails exactly where an escape denotes no character (lone / reversed / interrupted surrogates, a
    braced surrogate or a braced value above U+10FFFF, a braced value that does not fit 32 bits). *)
From V Require Import Base.Util Gql.Ast Peg.Peg Peg.PegProps Gen.C07_grammar_gen C07.Builder C07.Model C07.Spec C07.Proofs C07.Lexical C07.Strings.
Local Open Scope N_scope.

Inductive sitem :=
| IPlain (c : N)              (* a source character other than quote, backslash, LF, CR *)
| IEsc (e : N)                (* backslash and one of the eight escape letters *)
| IU4 (a b c d : N)           (* \u and four hex digits *)
| IBrace (ds : str).          (* \u{ hex digits } *)

Definition is_hex (c : N) : bool := match hex_digit c with Some _ => true | None => false end.
Definition wf_item (it : sitem) : bool :=
  match it with
  | IPlain c => negb (N.eqb c 34) && negb (N.eqb c 92) && negb (is_lt c)
  | IEsc e => esc_letter_ok e
  | IU4 a b c d => is_hex a && is_hex b && is_hex c && is_hex d
  | IBrace ds => negb (match ds with [] => true | _ => false end) && forallb is_hex ds
  end.
Definition item_text (it : sitem) : str :=
  match it with
  | IPlain c => [c]
  | IEsc e => [92; e]
  | IU4 a b c d => [92; 117; a; b; c; d]
  | IBrace ds => [92; 117; 123] ++ ds ++ [125]
  end.
Definition items_str (l : list sitem) : str := flat_map item_text l.

(** the value of a hex digit string without any bound *)
Fixpoint hexnum (ds : str) (acc : N) : N :=
  match ds with [] => acc | c :: r => hexnum r (acc * 16 + match hex_digit c with Some d => d | None => 0 end) end.

(** the character an item denotes on its own; None = not a scalar value; a leading surrogate is handled by the loop *)
Definition u4_code (a b c d : N) : N := hexnum [a; b; c; d] 0.
Definition scalar (v : N) : option N := if is_scalar v then Some v else None.

Definition esc_value (e : N) : N :=
  if N.eqb e 98 then 8 else if N.eqb e 102 then 12 else if N.eqb e 110 then 10 else if N.eqb e 114 then 13
  else if N.eqb e 116 then 9 else e.

(** the partial function both sides compute *)
Fixpoint dec_items (l : list sitem) : option str :=
  match l with
  | [] => Some []
  | IPlain c :: r => option_map (cons c) (dec_items r)
  | IEsc e :: r => option_map (cons (esc_value e)) (dec_items r)
  | IBrace ds :: r => if hexnum ds 0 <? 1114112 then match scalar (hexnum ds 0) with Some ch => option_map (cons ch) (dec_items r) | None => None end else None
  | IU4 a b c d :: r =>
      let v := u4_code a b c d in
      if is_high_surrogate v then
        match r with
        | IU4 a' b' c' d' :: r' =>
            let w := u4_code a' b' c' d' in
            if is_low_surrogate w then option_map (cons (65536 + (v - 55296) * 1024 + (w - 56320))) (dec_items r') else None
        | _ => None
        end
      else match scalar v with Some ch => option_map (cons ch) (dec_items r) | None => None end
  end.

(** ** arithmetic of hex strings *)
Lemma hexval_eq c : hexval c = hex_digit c.
Proof. reflexivity. Qed.

Lemma hexnum_ge : forall ds acc, acc <= hexnum ds acc.
Proof. induction ds as [|c r IH]; intros acc; cbn [hexnum]; [lia|]. etransitivity; [|apply IH]. destruct (hex_digit c); lia. Qed.

Lemma is_hex_val c : is_hex c = true -> exists d, hex_digit c = Some d /\ d < 16.
Proof.
  unfold is_hex. destruct (hex_digit c) as [d|] eqn:E; [|discriminate]. intros _. exists d. split; [reflexivity|].
  unfold hex_digit in E.
  destruct ((48 <=? c) && (c <=? 57)) eqn:E1; [apply andb_true_iff in E1; destruct E1 as [A B]; apply N.leb_le in A, B; inversion E; lia|].
  destruct ((97 <=? c) && (c <=? 102)) eqn:E2; [apply andb_true_iff in E2; destruct E2 as [A B]; apply N.leb_le in A, B; inversion E; lia|].
  destruct ((65 <=? c) && (c <=? 70)) eqn:E3; [apply andb_true_iff in E3; destruct E3 as [A B]; apply N.leb_le in A, B; inversion E; lia|discriminate].
Qed.

Lemma hex_not_brace c : is_hex c = true -> N.eqb c 125 = false.
Proof. intros H. apply N.eqb_neq. intros ->. vm_compute in H. discriminate. Qed.

Lemma hex4_spec a b c d r : is_hex a = true -> is_hex b = true -> is_hex c = true -> is_hex d = true ->
  hex4 (a :: b :: c :: d :: r) = Some (u4_code a b c d, r).
Proof.
  intros Ha Hb Hc Hd. destruct (is_hex_val _ Ha) as [x [Ex _]], (is_hex_val _ Hb) as [y [Ey _]], (is_hex_val _ Hc) as [z [Ez _]], (is_hex_val _ Hd) as [w [Ew _]].
  unfold hex4, u4_code. cbn [hexnum]. change hexval with hex_digit. rewrite Ex, Ey, Ez, Ew. f_equal.
Qed.

Lemma u4_small a b c d : is_hex a = true -> is_hex b = true -> is_hex c = true -> is_hex d = true -> u4_code a b c d < 65536.
Proof.
  intros Ha Hb Hc Hd. destruct (is_hex_val _ Ha) as [x [Ex Lx]], (is_hex_val _ Hb) as [y [Ey Ly]], (is_hex_val _ Hc) as [z [Ez Lz]], (is_hex_val _ Hd) as [w [Ew Lw]].
  unfold u4_code. cbn [hexnum]. rewrite Ex, Ey, Ez, Ew. lia.
Qed.

(** the specification's braced reader: the value, unless some proper prefix is already out of range *)
Lemma hex_braced_cases : forall ds acc n r, forallb is_hex ds = true -> (n <> O \/ ds <> []) ->
  hex_braced (ds ++ 125 :: r) acc n = Some (hexnum ds acc, r) \/
  (hex_braced (ds ++ 125 :: r) acc n = None /\ 1114112 <= hexnum ds acc).
Proof.
  induction ds as [|c ds IH]; intros acc n r Hh Hn.
  - cbn [app hex_braced hexnum]. change (N.eqb 125 125) with true. cbn iota. destruct n; [destruct Hn; contradiction|left; reflexivity].
  - cbn [forallb] in Hh. apply andb_true_iff in Hh. destruct Hh as [Hc Hds].
    cbn [app hex_braced hexnum]. rewrite (hex_not_brace _ Hc). destruct (is_hex_val _ Hc) as [d [Ed Ld]]. rewrite hexval_eq, Ed.
    destruct (acc <? 1114112) eqn:E.
    + apply IH; [exact Hds|left; discriminate].
    + right. split; [reflexivity|]. apply N.ltb_ge in E. etransitivity; [|apply hexnum_ge]. lia.
Qed.

(** the model's u32 reader *)
Lemma hex_acc_spec : forall ds acc, forallb is_hex ds = true -> acc < 4294967296 ->
  hex_acc ds acc = if hexnum ds acc <? 4294967296 then Some (hexnum ds acc) else None.
Proof.
  induction ds as [|c ds IH]; intros acc Hh Hacc.
  - cbn [hex_acc hexnum]. destruct (N.ltb_spec acc 4294967296); [reflexivity|lia].
  - cbn [forallb] in Hh. apply andb_true_iff in Hh. destruct Hh as [Hc Hds].
    destruct (is_hex_val _ Hc) as [d [Ed Ld]]. cbn [hex_acc hexnum]. rewrite Ed.
    destruct (acc * 16 + d <? 4294967296) eqn:E.
    + apply IH; [exact Hds|apply N.ltb_lt; exact E].
    + apply N.ltb_ge in E. pose proof (hexnum_ge ds (acc * 16 + d)).
      destruct (N.ltb_spec (hexnum ds (acc * 16 + d)) 4294967296); [lia|reflexivity].
Qed.

Lemma u32_from_hex_spec ds : ds <> [] -> forallb is_hex ds = true ->
  u32_from_hex ds = if hexnum ds 0 <? 4294967296 then Some (hexnum ds 0) else None.
Proof. intros Hne Hh. destruct ds; [contradiction|]. unfold u32_from_hex. apply hex_acc_spec; [exact Hh|reflexivity]. Qed.

Lemma char_from_u32_scalar v : char_from_u32 v = scalar v.
Proof.
  unfold char_from_u32, scalar, is_scalar.
  destruct (N.ltb_spec v 55296); [reflexivity|]. cbn [orb].
  destruct (N.ltb_spec v 57344).
  - destruct (N.leb_spec 57344 v); [lia|reflexivity].
  - destruct (N.leb_spec 57344 v); [|lia]. cbn [andb]. destruct (N.ltb_spec v 1114112); reflexivity.
Qed.

(** ** the specification side *)
Definition cont (f : nat) (v : N) (t : str) : option (str * str) :=
  match lex_quoted f t with Some (s, rest) => Some (v :: s, rest) | None => None end.
Definition after_u4 (f : nat) (v : N) (r4 : str) : option (str * str) :=
  if is_scalar v then cont f v r4
  else if is_high_surrogate v then
    match r4 with
    | b1 :: b2 :: r5 =>
        if N.eqb b1 92 && N.eqb b2 117 then
          match hex4 r5 with
          | Some (w, r6) => if is_low_surrogate w then cont f (65536 + (v - 55296) * 1024 + (w - 56320)) r6 else None
          | None => None
          end
        else None
    | _ => None
    end
  else None.

Lemma lex_bs_u f b r3 :
  lex_quoted (S f) (92 :: 117 :: b :: r3) =
  if N.eqb b 123 then
    match hex_braced r3 0 O with
    | Some (v, r4) => if is_scalar v then cont f v r4 else None
    | None => None
    end
  else match hex4 (b :: r3) with Some (v, r4) => after_u4 f v r4 | None => None end.
Proof. reflexivity. Qed.

Lemma lex_plain f c t : N.eqb c 34 = false -> N.eqb c 92 = false -> is_lt c = false ->
  lex_quoted (S f) (c :: t) = cont f c t.
Proof. intros H1 H2 H3. cbn [lex_quoted]. rewrite H1, H3, H2. reflexivity. Qed.

Lemma esc_cases e : esc_letter_ok e = true -> e = 34 \/ e = 92 \/ e = 47 \/ e = 98 \/ e = 102 \/ e = 110 \/ e = 114 \/ e = 116.
Proof.
  unfold esc_letter_ok. intros H. repeat (apply orb_true_iff in H; destruct H as [H|H]); apply N.eqb_eq in H; subst e; tauto.
Qed.

Lemma lex_esc f e t : esc_letter_ok e = true -> lex_quoted (S f) (92 :: e :: t) = cont f (esc_value e) t.
Proof.
  intros H. destruct (esc_cases e H) as [->|[->|[->|[->|[->|[->|[->| ->]]]]]]]; reflexivity.
Qed.

Lemma hex_not_lbrace c : is_hex c = true -> N.eqb c 123 = false.
Proof. intros H. apply N.eqb_neq. intros ->. vm_compute in H. discriminate. Qed.

Lemma high_not_scalar v : is_high_surrogate v = true -> is_scalar v = false.
Proof.
  unfold is_high_surrogate, is_scalar. intros H. apply andb_true_iff in H. destruct H as [A B]. apply N.leb_le in A. apply N.ltb_lt in B.
  destruct (N.ltb_spec v 55296); [lia|]. destruct (N.leb_spec 57344 v); [lia|]. reflexivity.
Qed.

Lemma cont_map f v t rest o :
  lex_quoted f t = option_map (fun s => (s, rest)) o ->
  cont f v t = option_map (fun s => (s, rest)) (option_map (cons v) o).
Proof. intros H. unfold cont. rewrite H. destruct o; reflexivity. Qed.

Lemma hex4_lbrace t : hex4 (123 :: t) = None.
Proof. destruct t as [|b [|c [|d r]]]; reflexivity. Qed.

Lemma items_str_cons it l : items_str (it :: l) = item_text it ++ items_str l.
Proof. reflexivity. Qed.

Lemma lex_items : forall n l, (length l <= n)%nat -> forallb wf_item l = true ->
  forall fuel rest, (length (items_str l) < fuel)%nat ->
  lex_quoted fuel (items_str l ++ 34 :: rest) = option_map (fun s => (s, rest)) (dec_items l).
Proof.
  induction n as [|n IH]; intros l Hn Hwf fuel rest Hf.
  - destruct l; [|cbn in Hn; lia]. destruct fuel; [cbn in Hf; lia|]. reflexivity.
  - destruct l as [|it l]; [destruct fuel; [cbn in Hf; lia|]; reflexivity|].
    cbn [forallb] in Hwf. apply andb_true_iff in Hwf. destruct Hwf as [Hit Hl].
    cbn [length] in Hn. rewrite items_str_cons in Hf. rewrite items_str_cons. rewrite app_length in Hf.
    destruct fuel as [|f]; [lia|].
    destruct it as [c|e|a b c d|ds]; cbn [item_text] in *; cbn [dec_items].
    + cbn [wf_item] in Hit. apply andb_true_iff in Hit. destruct Hit as [Hit H3]. apply andb_true_iff in Hit. destruct Hit as [H1 H2].
      apply negb_true_iff in H1, H2, H3. cbn [app]. rewrite lex_plain by assumption.
      apply cont_map. apply IH; [lia|exact Hl|cbn [length] in Hf; lia].
    + cbn [wf_item] in Hit. cbn [app]. rewrite lex_esc by exact Hit.
      apply cont_map. apply IH; [lia|exact Hl|cbn [length] in Hf; lia].
    + cbn [wf_item] in Hit. apply andb_true_iff in Hit. destruct Hit as [Hit Hd]. apply andb_true_iff in Hit. destruct Hit as [Hit Hc].
      apply andb_true_iff in Hit. destruct Hit as [Ha Hb].
      cbn [app]. rewrite lex_bs_u, (hex_not_lbrace _ Ha), (hex4_spec a b c d _ Ha Hb Hc Hd).
      cbn zeta. unfold after_u4. set (v := u4_code a b c d).
      destruct (is_high_surrogate v) eqn:Hh.
      * rewrite (high_not_scalar _ Hh).
        destruct l as [|it2 l2].
        { cbn [items_str flat_map app]. destruct rest as [|r0 rest']; reflexivity. }
        cbn [forallb] in Hl. apply andb_true_iff in Hl. destruct Hl as [Hit2 Hl2].
        rewrite items_str_cons. rewrite items_str_cons in Hf. rewrite app_length in Hf.
        destruct it2 as [c2|e2|a2 b2 c2 d2|ds2]; cbn [item_text] in *.
        { cbn [wf_item] in Hit2. apply andb_true_iff in Hit2. destruct Hit2 as [Hit2 _]. apply andb_true_iff in Hit2. destruct Hit2 as [_ H2].
          apply negb_true_iff in H2. cbn [app]. destruct (items_str l2 ++ 34 :: rest); [reflexivity|]. rewrite H2. reflexivity. }
        { cbn [wf_item] in Hit2. cbn [app].
          assert (N.eqb e2 117 = false) as ->; [|reflexivity].
          destruct (esc_cases e2 Hit2) as [->|[->|[->|[->|[->|[->|[->| ->]]]]]]]; reflexivity. }
        { cbn [wf_item] in Hit2. apply andb_true_iff in Hit2. destruct Hit2 as [Hit2 Hd2]. apply andb_true_iff in Hit2. destruct Hit2 as [Hit2 Hc2].
          apply andb_true_iff in Hit2. destruct Hit2 as [Ha2 Hb2].
          cbn [app]. change (N.eqb 92 92 && N.eqb 117 117) with true. cbn iota.
          rewrite (hex4_spec a2 b2 c2 d2 _ Ha2 Hb2 Hc2 Hd2). cbn zeta.
          destruct (is_low_surrogate (u4_code a2 b2 c2 d2)); [|reflexivity].
          apply cont_map. apply IH; [cbn [length] in Hn; lia|exact Hl2|cbn [length] in Hf; lia]. }
        { cbn [app]. change (N.eqb 92 92 && N.eqb 117 117) with true. cbn iota. rewrite hex4_lbrace. reflexivity. }
      * unfold scalar. destruct (is_scalar v); [|reflexivity].
        apply cont_map. apply IH; [lia|exact Hl|cbn [length] in Hf; lia].
    + cbn [wf_item] in Hit. apply andb_true_iff in Hit. destruct Hit as [Hne Hds].
      assert (Hne' : ds <> []) by (destruct ds; [discriminate|discriminate]).
      replace (((92 :: 117 :: 123 :: nil) ++ ds ++ 125 :: nil) ++ items_str l) with (92 :: 117 :: 123 :: ds ++ 125 :: items_str l)
        by (cbn [app]; rewrite <- app_assoc; reflexivity).
      cbn [app]. rewrite lex_bs_u. change (N.eqb 123 123) with true. cbn iota.
      replace ((ds ++ 125 :: items_str l) ++ 34 :: rest) with (ds ++ 125 :: (items_str l ++ 34 :: rest)) by (rewrite <- app_assoc; reflexivity).
      destruct (hex_braced_cases ds 0 O (items_str l ++ 34 :: rest) Hds (or_intror Hne')) as [E|[E Hbig]]; rewrite E.
      * unfold scalar. destruct (is_scalar (hexnum ds 0)) eqn:Es.
        { assert (hexnum ds 0 <? 1114112 = true) as ->.
          { unfold is_scalar in Es. apply N.ltb_lt. apply orb_true_iff in Es. destruct Es as [Es|Es]; [apply N.ltb_lt in Es; lia|].
            apply andb_true_iff in Es. destruct Es as [_ Es]. apply N.ltb_lt in Es. exact Es. }
          apply cont_map. apply IH; [lia|exact Hl|rewrite !app_length in Hf; cbn [length] in Hf; lia]. }
        { destruct (hexnum ds 0 <? 1114112); reflexivity. }
      * destruct (N.ltb_spec (hexnum ds 0) 1114112); [lia|reflexivity].
Qed.

(** ** the model side: the loop of decode_string_characters over the pairs of an item sequence *)
Definition item_child (it : sitem) (i : N) : pr :=
  let j := i + slen (item_text it) in
  match it with
  | IPlain _ => Pair R_NormalStringCharacter i j []
  | IEsc _ => Pair R_EscapedCharacter i j []
  | IU4 _ _ _ _ => Pair R_EscapedUnicode4 i j []
  | IBrace ds => Pair R_EscapedUnicodeBrace i j [Pair R_EscapedUnicodeBraceDigits (i + 3) (i + 3 + slen ds) []]
  end.
Fixpoint item_pairs (l : list sitem) (i : N) : list pr :=
  match l with
  | [] => []
  | it :: r => let j := i + slen (item_text it) in Pair R_StringCharacter i j [item_child it i] :: item_pairs r j
  end.

(** the model's result against the common partial function: the value, or an error naming some pair *)
Definition agrees (r : dres) (o : option str) : Prop :=
  match o with Some v => r = DOk v | None => exists bad, r = DErr bad end.

Definition dec_after_high (v : N) (l : list sitem) : option str :=
  match l with
  | IU4 a b c d :: r' =>
      let w := u4_code a b c d in
      if is_low_surrogate w then option_map (cons (65536 + (v - 55296) * 1024 + (w - 56320))) (dec_items r') else None
  | _ => None
  end.

Lemma agrees_dcons ch r o : agrees r o -> agrees (dcons ch r) (option_map (cons ch) o).
Proof. destruct o as [v|]; cbn [agrees option_map]; [intros ->; reflexivity|intros [bad ->]; exists bad; reflexivity]. Qed.

Lemma leading_eq v : is_leading_surrogate v = is_high_surrogate v.
Proof.
  unfold is_leading_surrogate, is_high_surrogate. f_equal.
  destruct (N.leb_spec v 56319), (N.ltb_spec v 56320); try reflexivity; lia.
Qed.
Lemma trailing_eq v : is_trailing_surrogate v = is_low_surrogate v.
Proof.
  unfold is_trailing_surrogate, is_low_surrogate. f_equal.
  destruct (N.leb_spec v 57343), (N.ltb_spec v 57344); try reflexivity; lia.
Qed.

Lemma pair_is_char v w : is_high_surrogate v = true -> is_low_surrogate w = true ->
  char_from_u32 (65536 + (v - 55296) * 1024 + (w - 56320)) = Some (65536 + (v - 55296) * 1024 + (w - 56320)).
Proof.
  unfold is_high_surrogate, is_low_surrogate. intros Hv Hw.
  apply andb_true_iff in Hv, Hw. destruct Hv as [A B], Hw as [C D]. apply N.leb_le in A, C. apply N.ltb_lt in B, D.
  rewrite char_from_u32_scalar. unfold scalar, is_scalar.
  set (x := 65536 + (v - 55296) * 1024 + (w - 56320)).
  assert (65536 <= x < 1114112) by (unfold x; lia).
  destruct (N.ltb_spec x 55296); [lia|]. destruct (N.leb_spec 57344 x); [|lia]. destruct (N.ltb_spec x 1114112); [|lia]. reflexivity.
Qed.

Lemma escaped_char_ok e : esc_letter_ok e = true -> escaped_char e = BOk (esc_value e).
Proof. intros H. destruct (esc_cases e H) as [->|[->|[->|[->|[->|[->|[->| ->]]]]]]]; reflexivity. Qed.

Lemma u4_u32 a b c d : is_hex a = true -> is_hex b = true -> is_hex c = true -> is_hex d = true ->
  u32_from_hex [a; b; c; d] = Some (u4_code a b c d).
Proof.
  intros Ha Hb Hc Hd. rewrite u32_from_hex_spec; [|discriminate|cbn [forallb]; rewrite Ha, Hb, Hc, Hd; reflexivity].
  fold (u4_code a b c d). pose proof (u4_small a b c d Ha Hb Hc Hd).
  destruct (N.ltb_spec (u4_code a b c d) 4294967296); [reflexivity|lia].
Qed.

Lemma substr_mid' pre x y z : z = pre ++ x ++ y -> substr z (slen pre) (slen pre + slen x) = x.
Proof. intros ->. apply substr_mid. Qed.

Lemma decode_items : forall n l, (length l <= n)%nat -> forallb wf_item l = true ->
  forall pre rest,
    agrees (decode_chars (pre ++ items_str l ++ rest) (item_pairs l (slen pre)) None) (dec_items l)
    /\ forall v bad, is_high_surrogate v = true ->
         agrees (decode_chars (pre ++ items_str l ++ rest) (item_pairs l (slen pre)) (Some (v, bad))) (dec_after_high v l).
Proof.
  induction n as [|n IH]; intros l Hn Hwf pre rest.
  { destruct l; [|cbn in Hn; lia]. split; [reflexivity|]. intros v bad _. exists bad. reflexivity. }
  destruct l as [|it l]; [split; [reflexivity|intros v bad _; exists bad; reflexivity]|].
  cbn [forallb] in Hwf. apply andb_true_iff in Hwf. destruct Hwf as [Hit Hl]. cbn [length] in Hn.
  rewrite items_str_cons.
  set (inp := pre ++ (item_text it ++ items_str l) ++ rest).
  assert (Hinp : inp = pre ++ item_text it ++ (items_str l ++ rest)) by (unfold inp; rewrite <- app_assoc; reflexivity).
  assert (Hinp2 : inp = (pre ++ item_text it) ++ items_str l ++ rest) by (unfold inp; rewrite <- !app_assoc; reflexivity).
  assert (Hstr : substr inp (slen pre) (slen pre + slen (item_text it)) = item_text it) by (apply (substr_mid' _ _ _ _ Hinp)).
  assert (Hl' : (length l <= n)%nat) by lia.
  destruct (IH l Hl' Hl (pre ++ item_text it) rest) as [IH1 IH2]. rewrite <- Hinp2, slen_app in IH1, IH2.
  cbn [item_pairs]. cbn [decode_chars pair_kids].
  destruct it as [c|e|a b c d|ds]; cbn [item_child item_text] in *.
  - assert (Heu : escaped_unicode inp (Pair R_NormalStringCharacter (slen pre) (slen pre + slen [c]) []) = BOk None) by reflexivity.
    rewrite Heu.
    assert (Hp : plain_char inp (Pair R_NormalStringCharacter (slen pre) (slen pre + slen [c]) []) = BOk c).
    { unfold plain_char. cbn [pair_rule]. unfold as_str. cbn [pair_start pair_end]. rewrite Hstr. reflexivity. }
    rewrite Hp. split; [cbn [dec_items]; apply agrees_dcons; exact IH1|intros v bad _; exists bad; reflexivity].
  - assert (Heu : escaped_unicode inp (Pair R_EscapedCharacter (slen pre) (slen pre + slen [92; e]) []) = BOk None) by reflexivity.
    rewrite Heu.
    assert (Hp : plain_char inp (Pair R_EscapedCharacter (slen pre) (slen pre + slen [92; e]) []) = BOk (esc_value e)).
    { unfold plain_char. cbn [pair_rule]. unfold as_str. cbn [pair_start pair_end]. rewrite Hstr. apply escaped_char_ok. exact Hit. }
    rewrite Hp. split; [cbn [dec_items]; apply agrees_dcons; exact IH1|intros v bad _; exists bad; reflexivity].
  - cbn [wf_item] in Hit. apply andb_true_iff in Hit. destruct Hit as [Hit Hd]. apply andb_true_iff in Hit. destruct Hit as [Hit Hc].
    apply andb_true_iff in Hit. destruct Hit as [Ha Hb].
    assert (Heu : escaped_unicode inp (Pair R_EscapedUnicode4 (slen pre) (slen pre + slen [92; 117; a; b; c; d]) [])
                  = BOk (Some (Some (u4_code a b c d), true))).
    { unfold escaped_unicode. cbn [pair_rule]. unfold as_str. cbn [pair_start pair_end]. rewrite Hstr. cbn [skipn].
      rewrite (u4_u32 a b c d Ha Hb Hc Hd). reflexivity. }
    rewrite Heu. set (v := u4_code a b c d). split.
    + cbn [dec_items andb]. fold v. rewrite leading_eq. destruct (is_high_surrogate v) eqn:Hh.
      * exact (IH2 v _ Hh).
      * rewrite char_from_u32_scalar. destruct (scalar v) as [ch|]; [apply agrees_dcons; exact IH1|eexists; reflexivity].
    + intros lead bad Hlead. cbn [dec_after_high]. fold v. rewrite trailing_eq. destruct (is_low_surrogate v) eqn:Hlow; [|exists bad; reflexivity].
      rewrite (pair_is_char lead v Hlead Hlow). apply agrees_dcons. exact IH1.
  - cbn [wf_item] in Hit. apply andb_true_iff in Hit. destruct Hit as [Hne Hds].
    assert (Hne' : ds <> []) by (destruct ds; [discriminate|discriminate]).
    assert (Hdig : substr inp (slen pre + 3) (slen pre + 3 + slen ds) = ds).
    { change 3 with (slen [92; 117; 123]). rewrite <- slen_app. apply substr_mid' with (y := 125 :: items_str l ++ rest).
      rewrite Hinp. rewrite <- !app_assoc. reflexivity. }
    assert (Heu : escaped_unicode inp (Pair R_EscapedUnicodeBrace (slen pre) (slen pre + slen ([92; 117; 123] ++ ds ++ [125]))
                     [Pair R_EscapedUnicodeBraceDigits (slen pre + 3) (slen pre + 3 + slen ds) []])
                  = BOk (Some (u32_from_hex ds, false))).
    { unfold escaped_unicode, only_child. cbn [pair_rule pair_kids]. unfold as_str. cbn [pair_start pair_end]. rewrite Hdig. reflexivity. }
    rewrite Heu. split; [|intros v bad _; exists bad; destruct (u32_from_hex ds); reflexivity].
    cbn [dec_items andb]. rewrite (u32_from_hex_spec ds Hne' Hds).
    destruct (N.ltb_spec (hexnum ds 0) 4294967296) as [Hlt|Hge].
    + rewrite char_from_u32_scalar. destruct (N.ltb_spec (hexnum ds 0) 1114112) as [Hs|Hs].
      * destruct (scalar (hexnum ds 0)) as [ch|]; [apply agrees_dcons; exact IH1|eexists; reflexivity].
      * assert (scalar (hexnum ds 0) = None) as ->; [|eexists; reflexivity].
        unfold scalar, is_scalar. destruct (N.ltb_spec (hexnum ds 0) 55296); [lia|]. destruct (N.ltb_spec (hexnum ds 0) 1114112); [lia|].
        rewrite andb_false_r. reflexivity.
    + destruct (N.ltb_spec (hexnum ds 0) 1114112); [lia|]. eexists; reflexivity.
Qed.

(** ** the grammar side: the pairs pest produces for an item sequence *)
Definition hexP (c : N) : bool := (48 <=? c) && (c <=? 57) || ((97 <=? c) && (c <=? 102) || (65 <=? c) && (c <=? 70)).
Definition hex_exp : pexp rule := Alt (Range 48 57) (Alt (Range 97 102) (Range 65 70)).
Lemma class_hex a : is_class G a hex_exp hexP.
Proof. unfold hex_exp, hexP. repeat first [apply class_Alt | apply class_Range]. Qed.
Lemma hexP_eq c : hexP c = is_hex c.
Proof.
  unfold hexP, is_hex, hex_digit.
  destruct ((48 <=? c) && (c <=? 57)); [reflexivity|]. destruct ((97 <=? c) && (c <=? 102)); [reflexivity|].
  destruct ((65 <=? c) && (c <=? 70)); reflexivity.
Qed.

Lemma forallb_hexP ds : forallb hexP ds = forallb is_hex ds.
Proof. induction ds as [|c ds IH]; cbn [forallb]; [reflexivity|]. rewrite hexP_eq, IH. reflexivity. Qed.

Lemma span_app P : forall ds c t, forallb P ds = true -> P c = false -> span P (ds ++ c :: t) = (ds, c :: t).
Proof.
  induction ds as [|d ds IH]; intros c t Hd Hc; cbn [app span]; [rewrite Hc; reflexivity|].
  cbn [forallb] in Hd. apply andb_true_iff in Hd. destruct Hd as [H1 H2]. rewrite H1, (IH c t H2 Hc). reflexivity.
Qed.

Lemma hex_step c t i : is_hex c = true -> runs G false AAtomic hex_exp (c :: t) i (Ok (t, i + 1, [])).
Proof.
  intros H. pose proof (runs_class (c :: t) i (class_hex AAtomic)) as R. cbn [class_result] in R. rewrite hexP_eq, H in R. exact R.
Qed.

Lemma char_u4 a b c d t i : is_hex a = true -> is_hex b = true -> is_hex c = true -> is_hex d = true ->
  runs G false ACompound (Call R_StringCharacter) (92 :: 117 :: a :: b :: c :: d :: t) i
    (Ok (t, i + 2 + 1 + 1 + 1 + 1, [Pair R_StringCharacter i (i + 2 + 1 + 1 + 1 + 1) [Pair R_EscapedUnicode4 i (i + 2 + 1 + 1 + 1 + 1) []]])).
Proof.
  intros Ha Hb Hc Hd.
  enter_rec R_StringCharacter ACompound.
  apply runs_Alt_r.
  { enter_fail R_EscapedUnicodeBrace ACompound.
    eapply runs_Seq_fail2; [exact (runs_Lit_ok G false ACompound [92; 117] (a :: b :: c :: d :: t) i)|].
    apply runs_Seq_fail1. apply runs_Lit_head_fail. rewrite N.eqb_sym. apply hex_not_lbrace. exact Ha. }
  apply runs_Alt_l.
  enter_rec R_EscapedUnicode4 ACompound. fold hex_exp.
  change (@nil pr) with (@nil pr ++ (@nil pr ++ (@nil pr ++ (@nil pr ++ @nil pr)))).
  eapply runs_Seq_ok; [exact (runs_Lit_ok G false AAtomic [92; 117] (a :: b :: c :: d :: t) i)|].
  change (slen [92; 117]) with 2.
  eapply runs_Seq_ok; [apply hex_step; exact Ha|].
  eapply runs_Seq_ok; [apply hex_step; exact Hb|].
  eapply runs_Seq_ok; [apply hex_step; exact Hc|].
  apply hex_step; exact Hd.
Qed.

Lemma char_brace ds t i : ds <> [] -> forallb is_hex ds = true ->
  runs G false ACompound (Call R_StringCharacter) (92 :: 117 :: 123 :: ds ++ 125 :: t) i
    (Ok (t, i + 2 + 1 + slen ds + 1,
         [Pair R_StringCharacter i (i + 2 + 1 + slen ds + 1)
            [Pair R_EscapedUnicodeBrace i (i + 2 + 1 + slen ds + 1)
               [Pair R_EscapedUnicodeBraceDigits (i + 2 + 1) (i + 2 + 1 + slen ds) []]]])).
Proof.
  intros Hne Hds.
  enter_rec R_StringCharacter ACompound.
  apply runs_Alt_l.
  enter_rec R_EscapedUnicodeBrace ACompound.
  change [Pair R_EscapedUnicodeBraceDigits (i + 2 + 1) (i + 2 + 1 + slen ds) []]
    with (@nil pr ++ (@nil pr ++ ([Pair R_EscapedUnicodeBraceDigits (i + 2 + 1) (i + 2 + 1 + slen ds) []] ++ @nil pr))).
  eapply runs_Seq_ok; [exact (runs_Lit_ok G false ACompound [92; 117] (123 :: ds ++ 125 :: t) i)|].
  eapply runs_Seq_ok; [exact (runs_Lit_ok G false ACompound [123] (ds ++ 125 :: t) (i + slen [92; 117]))|].
  change (slen [92; 117]) with 2. change (slen [123]) with 1.
  eapply runs_Seq_ok; [|exact (runs_Lit_ok G false ACompound [125] t (i + 2 + 1 + slen ds))].
  enter_rec R_EscapedUnicodeBraceDigits ACompound. fold hex_exp.
  apply runs_Plus.
  destruct ds as [|c0 ds']; [contradiction|]. cbn [forallb] in Hds. apply andb_true_iff in Hds. destruct Hds as [H0 Hds'].
  pose proof (seq_class_star (class_hex AAtomic) (class_hex AAtomic)) as R.
  intros fuel. specialize (R fuel ((c0 :: ds') ++ 125 :: t) (i + 2 + 1)). cbn [app] in R.
  rewrite hexP_eq, H0 in R.
  rewrite (span_app hexP ds' 125 t) in R; [|rewrite forallb_hexP; exact Hds'|reflexivity].
  cbn [fst snd] in R.
  replace (i + 2 + 1 + slen (c0 :: ds')) with (i + 2 + 1 + 1 + N.of_nat (length ds')) by (unfold slen; cbn [length]; lia).
  exact R.
Qed.

Lemma char_item it t i : wf_item it = true ->
  runs G false ACompound (Call R_StringCharacter) (item_text it ++ t) i
    (Ok (t, i + slen (item_text it), [Pair R_StringCharacter i (i + slen (item_text it)) [item_child it i]])).
Proof.
  intros Hit. destruct it as [c|e|a b c d|ds]; cbn [item_text item_child wf_item] in *.
  - apply andb_true_iff in Hit. destruct Hit as [Hit H3]. apply andb_true_iff in Hit. destruct Hit as [H1 H2].
    apply negb_true_iff in H1, H2, H3. unfold is_lt in H3. apply orb_false_iff in H3. destruct H3 as [H10 H13].
    change (slen [c]) with 1. cbn [app]. apply char_plain; rewrite N.eqb_sym; assumption.
  - change (slen [92; e]) with 2. replace (i + 2) with (i + 1 + 1) by lia. cbn [app]. apply char_escaped; [exact Hit|].
    destruct (esc_cases e Hit) as [->|[->|[->|[->|[->|[->|[->| ->]]]]]]]; reflexivity.
  - apply andb_true_iff in Hit. destruct Hit as [Hit Hd]. apply andb_true_iff in Hit. destruct Hit as [Hit Hc].
    apply andb_true_iff in Hit. destruct Hit as [Ha Hb].
    change (slen [92; 117; a; b; c; d]) with 6. replace (i + 6) with (i + 2 + 1 + 1 + 1 + 1) by lia. cbn [app].
    apply char_u4; assumption.
  - apply andb_true_iff in Hit. destruct Hit as [Hne Hds].
    assert (Hne' : ds <> []) by (destruct ds; [discriminate|discriminate]).
    replace (([92; 117; 123] ++ ds ++ [125]) ++ t) with (92 :: 117 :: 123 :: ds ++ 125 :: t) by (cbn [app]; rewrite <- app_assoc; reflexivity).
    replace (slen ([92; 117; 123] ++ ds ++ [125])) with (2 + 1 + slen ds + 1) by (unfold slen; cbn [app length]; rewrite app_length; cbn [length]; lia).
    replace (i + (2 + 1 + slen ds + 1)) with (i + 2 + 1 + slen ds + 1) by lia.
    replace (i + 3) with (i + 2 + 1) by lia.
    apply char_brace; assumption.
Qed.

Lemma item_pairs_cons it l i :
  item_pairs (it :: l) i = [Pair R_StringCharacter i (i + slen (item_text it)) [item_child it i]] ++ item_pairs l (i + slen (item_text it)).
Proof. reflexivity. Qed.

Lemma reps_items : forall l t i, forallb wf_item l = true ->
  repss G false ACompound (Call R_StringCharacter) (items_str l ++ 34 :: t) i
    (Ok (34 :: t, i + slen (items_str l), item_pairs l i)).
Proof.
  induction l as [|it l IH]; intros t i Hwf.
  - cbn [items_str flat_map app item_pairs]. change (slen []) with 0. rewrite N.add_0_r. apply repss_stop. apply char_stops_at_quote.
  - cbn [forallb] in Hwf. apply andb_true_iff in Hwf. destruct Hwf as [Hit Hl].
    rewrite items_str_cons, <- app_assoc, slen_app, N.add_assoc, item_pairs_cons.
    eapply repss_step; [apply char_item; exact Hit|apply IH; exact Hl].
Qed.

Lemma plus_items : forall it l t i, forallb wf_item (it :: l) = true ->
  runs G false ACompound (Plus (Call R_StringCharacter)) (items_str (it :: l) ++ 34 :: t) i
    (Ok (34 :: t, i + slen (items_str (it :: l)), item_pairs (it :: l) i)).
Proof.
  intros it l t i Hwf. cbn [forallb] in Hwf. apply andb_true_iff in Hwf. destruct Hwf as [Hit Hl].
  apply runs_Plus. rewrite items_str_cons, <- app_assoc, slen_app, N.add_assoc, item_pairs_cons.
  eapply runs_Seq_ok; [apply char_item; exact Hit|].
  destruct l as [|it2 l].
  - cbn [items_str flat_map app item_pairs]. change (slen []) with 0. rewrite N.add_0_r. apply runs_Star_stop. apply char_stops_at_quote.
  - cbn [forallb] in Hl. apply andb_true_iff in Hl. destruct Hl as [Hit2 Hl].
    rewrite items_str_cons, <- app_assoc, slen_app, N.add_assoc, item_pairs_cons.
    eapply runs_Star_step; [apply char_item; exact Hit2|apply reps_items; exact Hl].
Qed.

Lemma item_head it : wf_item it = true -> exists h tl, item_text it = h :: tl /\ N.eqb 34 h = false.
Proof.
  intros Hit. destruct it as [c|e|a b c d|ds]; cbn [item_text]; [|eexists; eexists; split; reflexivity..].
  cbn [wf_item] in Hit. apply andb_true_iff in Hit. destruct Hit as [Hit _]. apply andb_true_iff in Hit. destruct Hit as [H1 _].
  apply negb_true_iff in H1. exists c, []. split; [reflexivity|rewrite N.eqb_sym; exact H1].
Qed.

(** the quoted text of an item sequence and its pair tree at offset [i] *)
Definition iquote (l : list sitem) : str := 34 :: items_str l ++ [34].
Definition items_tree (l : list sitem) (i : N) : pr :=
  Pair R_StringValue i (i + slen (iquote l))
    [Pair R_NormalStringValue i (i + slen (iquote l)) (item_pairs l (i + 1))].

Lemma slen_iquote l : slen (iquote l) = 1 + slen (items_str l) + 1.
Proof. unfold iquote, slen. cbn [length]. rewrite app_length. cbn [length]. lia. Qed.

Lemma items_value_runs it l post sk a i : forallb wf_item (it :: l) = true ->
  runs G sk a (Call R_StringValue) (iquote (it :: l) ++ post) i
    (Ok (post, i + slen (iquote (it :: l)), [items_tree (it :: l) i])).
Proof.
  intros Hwf. unfold items_tree.
  enter_rec R_StringValue a.
  assert (Hq : iquote (it :: l) ++ post = 34 :: items_str (it :: l) ++ 34 :: post).
  { unfold iquote. cbn [app]. rewrite <- app_assoc. reflexivity. }
  rewrite Hq.
  assert (Hit : wf_item it = true) by (cbn [forallb] in Hwf; apply andb_true_iff in Hwf; tauto).
  apply runs_Alt_r.
  { enter_fail R_EmptyStringValue ACompound. apply runs_Seq_fail1.
    pose proof (runs_Lit G false AAtomic [34; 34] (34 :: items_str (it :: l) ++ 34 :: post) i) as H.
    rewrite items_str_cons in H. destruct (item_head it Hit) as [h [tl [Hh H34]]]. rewrite Hh in H.
    cbn [app strip_prefix] in H. change (N.eqb 34 34) with true in H. cbn iota in H. rewrite H34 in H.
    rewrite items_str_cons, Hh. exact H. }
  apply runs_Alt_l.
  enter_rec R_NormalStringValue ACompound.
  replace (item_pairs (it :: l) (i + 1)) with (@nil pr ++ (item_pairs (it :: l) (i + slen [34]) ++ @nil pr))
    by (cbn [app]; rewrite app_nil_r; reflexivity).
  replace (i + slen (iquote (it :: l))) with (i + slen [34] + slen (items_str (it :: l)) + slen [34])
    by (rewrite slen_iquote; change (slen [34]) with 1; lia).
  eapply runs_Seq_ok; [exact (runs_Lit_ok G false ACompound [34] (items_str (it :: l) ++ 34 :: post) i)|].
  eapply runs_Seq_ok; [apply plus_items; exact Hwf|].
  exact (runs_Lit_ok G false ACompound [34] post (i + slen [34] + slen (items_str (it :: l)))).
Qed.

(** the validation pass finds nothing below the character pairs *)
Lemma validate_children : forall inp l i,
  (fix go (l0 : list pr) : vres :=
     match l0 with [] => VOk | x :: l' => match validate_pair inp x with VOk => go l' | e => e end end) (item_pairs l i) = VOk.
Proof.
  intros inp. induction l as [|it l IH]; intros i; [reflexivity|].
  cbn [item_pairs]. destruct it; cbn [item_child validate_pair]; apply IH.
Qed.

Lemma validate_tree inp l i :
  validate_pair inp (items_tree l i) =
  match decode_chars inp (item_pairs l (i + 1)) None with DOk _ => VOk | DErr _ => VErr | DPanic k => VPanic k end.
Proof.
  unfold items_tree. cbn [validate_pair]. unfold decode_string_characters. cbn [pair_kids].
  destruct (decode_chars inp (item_pairs l (i + 1)) None); [|reflexivity..].
  rewrite validate_children. reflexivity.
Qed.

(** The escapes theorem.  For every non-empty sequence of well-formed string items, in any surroundings:
    - the quoted text is one StringValue token with the pair tree [items_tree];
    - the specification's StringValue semantics of that text (Spec.string_at) is [dec_items];
    - where [dec_items] is a value, the validation pass accepts the token and the builder returns exactly that
      value at the true position; where it is not (an escape that denotes no character), the validation
      pass reports the parse error. *)
Theorem escapes_lex : forall it l pre post file sk a,
  let items := it :: l in
  forallb wf_item items = true ->
  let inp := pre ++ iquote items ++ post in
  let i := slen pre in
  let t := items_tree items i in
  runs G sk a (Call R_StringValue) (iquote items ++ post) i (Ok (post, i + slen (iquote items), [t]))
  /\ string_at (iquote items ++ post) = dec_items items
  /\ match dec_items items with
     | Some v => validate_pair inp t = VOk
                 /\ build_string_value inp file t = BOk (mkPos (fst (line_col inp i)) (snd (line_col inp i)) file false, v)
     | None => validate_pair inp t = VErr
     end.
Proof.
  intros it l pre post file sk a items Hwf inp i t.
  split; [apply items_value_runs; exact Hwf|]. split.
  - unfold string_at.
    assert (Hq : iquote items ++ post = 34 :: items_str items ++ 34 :: post).
    { unfold iquote. cbn [app]. rewrite <- app_assoc. reflexivity. }
    rewrite Hq.
    assert (Hit : wf_item it = true) by (unfold items in Hwf; cbn [forallb] in Hwf; apply andb_true_iff in Hwf; tauto).
    assert (Hnb : prefix_rest q3 (34 :: items_str items ++ 34 :: post) = None).
    { unfold q3, items. cbn [prefix_rest]. change (N.eqb 34 34) with true. cbn iota.
      rewrite items_str_cons. destruct (item_head it Hit) as [h [tl [Hh H34]]]. rewrite Hh. cbn [app]. rewrite H34. reflexivity. }
    rewrite Hnb. change (N.eqb 34 34) with true. cbn iota.
    rewrite (lex_items (length items) items (le_n _) Hwf); [destruct (dec_items items); reflexivity|].
    rewrite app_length. cbn [length]. lia.
  - assert (Hinp : inp = (pre ++ [34]) ++ items_str items ++ (34 :: post)).
    { unfold inp, iquote. rewrite <- !app_assoc. cbn [app]. rewrite <- app_assoc. reflexivity. }
    assert (Hi : i + 1 = slen (pre ++ [34])) by (rewrite slen_app; reflexivity).
    destruct (decode_items (length items) items (le_n _) Hwf (pre ++ [34]) (34 :: post)) as [Hd _].
    rewrite <- Hinp, <- Hi in Hd.
    unfold t. rewrite validate_tree.
    destruct (dec_items items) as [v|]; cbn [agrees] in Hd.
    + rewrite Hd. split; [reflexivity|].
      unfold build_string_value, items_tree, only_child. cbn [pair_kids pair_rule].
      unfold decode_string_characters. cbn [pair_kids]. rewrite Hd. unfold to_pos. cbn [pair_start]. reflexivity.
    + destruct Hd as [bad Hd]. rewrite Hd. reflexivity.
Qed.

(** corollaries in closed form *)
Corollary surrogate_pair_is_one_char : forall a b c d a' b' c' d' pre post file,
  let items := [IU4 a b c d; IU4 a' b' c' d'] in
  forallb wf_item items = true ->
  is_high_surrogate (u4_code a b c d) = true -> is_low_surrogate (u4_code a' b' c' d') = true ->
  let ch := 65536 + (u4_code a b c d - 55296) * 1024 + (u4_code a' b' c' d' - 56320) in
  string_at (iquote items ++ post) = Some [ch]
  /\ build_string_value (pre ++ iquote items ++ post) file (items_tree items (slen pre))
     = BOk (mkPos (fst (line_col (pre ++ iquote items ++ post) (slen pre))) (snd (line_col (pre ++ iquote items ++ post) (slen pre))) file false, [ch]).
Proof.
  intros a b c d a' b' c' d' pre post file items Hwf Hh Hl ch.
  destruct (escapes_lex (IU4 a b c d) [IU4 a' b' c' d'] pre post file false ACompound Hwf) as [_ [Hs Hm]].
  fold items in Hs, Hm.
  assert (E : dec_items items = Some [ch]).
  { unfold items. cbn [dec_items]. rewrite Hh, Hl. reflexivity. }
  rewrite E in Hs, Hm. split; [exact Hs|apply Hm].
Qed.

(** decoding fails exactly where the specification assigns no value *)
Corollary decode_fails_iff_spec : forall it l pre post,
  let items := it :: l in
  forallb wf_item items = true ->
  (validate_pair (pre ++ iquote items ++ post) (items_tree items (slen pre)) = VErr <-> string_at (iquote items ++ post) = None)
  /\ (validate_pair (pre ++ iquote items ++ post) (items_tree items (slen pre)) = VOk <-> exists v, string_at (iquote items ++ post) = Some v).
Proof.
  intros it l pre post items Hwf.
  destruct (escapes_lex it l pre post 0 false ACompound Hwf) as [_ [Hs Hm]]. fold items in Hs, Hm.
  rewrite Hs. destruct (dec_items items) as [v|].
  - destruct Hm as [Hv _]. rewrite Hv. split; split; intros H; try discriminate; [exists v; reflexivity|reflexivity].
  - rewrite Hm. split; split; intros H; try discriminate; try reflexivity. destruct H as [v H]. discriminate.
Qed.
