(** C07 — proofs, part 8: parse_render, second instalment (values).
    [rval] is an abstract value together with its trivia assignment (a whitespace run -- BOM, tab, space, LF,
    CR, comma -- for every gap: after "$", after "[" / "{", after every list item, around the ":" and after every
    object field).  [render_val] is the text, [val_tree] the exact pair tree pest produces, [wf_val] the
    computable in-fragment predicate (names are names, numbers are lexemes of the specification, enum values
    are not true/false/null, a gap may be empty only in front of a punctuator).  Covered: variables, Int and
    Float lexemes (with the !("." | NameStart) look-aheads: [float_lex] also shows IntValue rejects a float),
    quoted strings (Strings.v), true/false/null with the keyword boundary, enum values, lists and objects by
    induction on the value.  Not covered: block strings, \u escapes, comments as trivia.
    Tools: [items_plus_close] (x+ ~ "close" over items separated by gaps, with pest's end-of-repetition quirks),
    [keyword_ok]/[keyword_fails_name], the number-part lemmas, [objectfield_runs]/[argument_runs]. *)
From V Require Import Base.Util Gql.Ast Peg.Peg Peg.PegProps Gen.C07_grammar_gen C07.Builder C07.Model C07.Spec C07.Proofs C07.Lexical C07.Strings C07.Numbers C07.Render.
Local Open Scope N_scope.

(** ** repetitions in a skipping rule under NonAtomic *)
Lemma reps_S_sk f x inp i :
  reps G (S f) true ANon x inp i =
  match run G f false ANon gse inp i with
  | Ok (inp1, i1, p1) =>
      match run G f true ANon x inp1 i1 with
      | Ok (inp2, i2, p2) =>
          match reps G f true ANon x inp2 i2 with
          | Ok (inp3, i3, p3) => Ok (inp3, i3, p1 ++ p2 ++ p3)
          | Fail => Fail
          | OutOfFuel => OutOfFuel
          end
      | Fail => Ok (inp, i, [])
      | OutOfFuel => OutOfFuel
      end
  | Fail => Ok (inp, i, [])
  | OutOfFuel => OutOfFuel
  end.
Proof. reflexivity. Qed.

Lemma repssS_stop x inp i inp1 i1 p1 :
  runs G false ANon gse inp i (Ok (inp1, i1, p1)) -> runs G true ANon x inp1 i1 Fail ->
  repss G true ANon x inp i (Ok (inp, i, [])).
Proof.
  intros Hs Hx [|f]; [left; reflexivity|]. rewrite reps_S_sk.
  destruct (Hs f) as [E|E]; rewrite E; [left; reflexivity|].
  destruct (Hx f) as [E2|E2]; rewrite E2; [left|right]; reflexivity.
Qed.

Lemma repssS_step x inp i inp1 i1 p1 inp2 i2 p2 inp3 i3 p3 :
  runs G false ANon gse inp i (Ok (inp1, i1, p1)) -> runs G true ANon x inp1 i1 (Ok (inp2, i2, p2)) ->
  repss G true ANon x inp2 i2 (Ok (inp3, i3, p3)) ->
  repss G true ANon x inp i (Ok (inp3, i3, p1 ++ p2 ++ p3)).
Proof.
  intros Hs Hx Hr [|f]; [left; reflexivity|]. rewrite reps_S_sk.
  destruct (Hs f) as [E|E]; rewrite E; [left; reflexivity|].
  destruct (Hx f) as [E2|E2]; rewrite E2; [left; reflexivity|].
  destruct (Hr f) as [E3|E3]; rewrite E3; [left|right]; reflexivity.
Qed.

Lemma runs_Star_step_g sk a x inp i inp1 i1 p1 inp2 i2 p2 :
  runs G sk a x inp i (Ok (inp1, i1, p1)) -> repss G sk a x inp1 i1 (Ok (inp2, i2, p2)) ->
  runs G sk a (Star x) inp i (Ok (inp2, i2, p1 ++ p2)).
Proof.
  intros Hx Hr [|f]; [left; reflexivity|]. rewrite run_Star_S.
  destruct (Hx f) as [E|E]; rewrite E; [left; reflexivity|].
  destruct (Hr f) as [E2|E2]; rewrite E2; [left|right]; reflexivity.
Qed.

Lemma runs_Plus_g sk a x inp i r : runs G sk a (Seq x (Star x)) inp i r -> runs G sk a (Plus x) inp i r.
Proof. intros H [|f]; [left; reflexivity|]. cbn [run]. apply H. Qed.

(** ** a non-empty list of items, each followed by a gap, then a closing literal:  x+ ~ "close"  *)
Section Items.
Variable x : pexp rule.
Variable close : str.
Variable rest : str.
(** an item: its text, the gap after it, its pairs as a function of its offset *)
Definition item := (str * str * (N -> list pr))%type.
Definition it_text (it : item) : str := fst (fst it).
Definition it_gap (it : item) : str := snd (fst it).
Definition it_tree (it : item) : N -> list pr := snd it.

Fixpoint items_text (its : list item) : str :=
  match its with [] => [] | it :: r => it_text it ++ it_gap it ++ items_text r end.
Fixpoint items_trees (its : list item) (i : N) : list pr :=
  match its with [] => [] | it :: r => it_tree it i ++ items_trees r (i + slen (it_text it) + slen (it_gap it)) end.

Hypothesis close_token : at_token (close ++ rest).
Hypothesis x_stops : forall i, runs G true ANon x (close ++ rest) i Fail.

(** an item is fine in front of the continuation [k] (the following items and the closing literal) *)
Definition item_ok (it : item) (k : str) : Prop :=
  ws (it_gap it) = true /\ at_token (it_text it ++ it_gap it ++ k) /\
  forall i, runs G true ANon x (it_text it ++ it_gap it ++ k) i
                 (Ok (it_gap it ++ k, i + slen (it_text it), it_tree it i)).
Fixpoint items_ok (its : list item) : Prop :=
  match its with
  | [] => True
  | it :: r => item_ok it (items_text r ++ close ++ rest) /\ items_ok r
  end.

Lemma items_tail_token its : items_ok its -> at_token (items_text its ++ close ++ rest).
Proof.
  destruct its as [|it r]; [intros _; exact close_token|]. intros [[_ [Ht _]] _].
  cbn [items_text]. rewrite <- !app_assoc. exact Ht.
Qed.

(** where a repetition over items stops: before the gap of the last item (or, with no further item, before [g]) *)
Definition dflt_item : item := (([], []), fun _ => []).
Definition tailgap (g : str) (its : list item) : str :=
  match its with [] => g | _ => it_gap (last its dflt_item) end.
Lemma tailgap_cons g it r : tailgap g (it :: r) = tailgap (it_gap it) r.
Proof. destruct r; reflexivity. Qed.

(** (skip x)* over the remaining items: ends somewhere inside the trivia before the closing literal
    (pest leaves the last skipped gap unconsumed; after a single item the unconditional skip of e+ is kept) *)
Lemma items_reps : forall its g, items_ok its -> ws g = true ->
  exists m, ws (tailgap g its) = true /\ m + slen (tailgap g its) = slen g + slen (items_text its) /\
    (exists c, g ++ items_text its = c ++ tailgap g its) /\
    forall i, repss G true ANon x (g ++ items_text its ++ close ++ rest) i
      (Ok (tailgap g its ++ close ++ rest, i + m, items_trees its (i + slen g))).
Proof.
  induction its as [|it r IH]; intros g Hall Hg.
  - exists 0. cbn [tailgap]. split; [exact Hg|]. split; [cbn [items_text]; change (slen []) with 0; lia|].
    split; [exists []; cbn [items_text]; rewrite app_nil_r; reflexivity|].
    intros i. rewrite N.add_0_r.
    cbn [items_text items_trees app]. eapply repssS_stop; [apply skip_ws; [exact Hg|exact close_token]|apply x_stops].
  - destruct Hall as [[Hgap [Htok Hrun]] Hr].
    destruct (IH (it_gap it) Hr Hgap) as [m [Hg' [Hm [[c Hc] Hreps]]]].
    rewrite tailgap_cons.
    exists (slen g + slen (it_text it) + m). split; [exact Hg'|]. split; [cbn [items_text]; rewrite !slen_app; lia|].
    split; [exists (g ++ it_text it ++ c); cbn [items_text]; rewrite <- !app_assoc, <- Hc; reflexivity|].
    intros i.
    assert (Htxt : g ++ items_text (it :: r) ++ close ++ rest = g ++ (it_text it ++ it_gap it ++ (items_text r ++ close ++ rest))).
    { cbn [items_text]. rewrite <- !app_assoc. reflexivity. }
    rewrite Htxt.
    replace (items_trees (it :: r) (i + slen g)) with (@nil pr ++ it_tree it (i + slen g) ++ items_trees r (i + slen g + slen (it_text it) + slen (it_gap it))) by reflexivity.
    replace (i + (slen g + slen (it_text it) + m)) with (i + slen g + slen (it_text it) + m) by lia.
    eapply repssS_step; [apply skip_ws; [exact Hg|exact Htok]|apply Hrun|apply Hreps].
Qed.

(** x+ alone (no closing literal): where it stops is one of pest's quirks *)
Lemma items_plus it its : items_ok (it :: its) ->
  exists m, ws (tailgap [] its) = true /\ m + slen (tailgap [] its) = slen (it_text it) + slen (it_gap it) + slen (items_text its) /\
    (exists c, it_text it ++ it_gap it ++ items_text its = c ++ tailgap [] its) /\
    forall i, runs G true ANon (Plus x) (it_text it ++ it_gap it ++ (items_text its ++ close ++ rest)) i
                (Ok (tailgap [] its ++ close ++ rest, i + m, items_trees (it :: its) i)).
Proof.
  intros [[Hgap [Htok Hrun]] Hr].
  pose proof (items_tail_token its Hr) as Hk.
  destruct its as [|it2 r2].
  - exists (slen (it_text it) + slen (it_gap it)). cbn [tailgap]. split; [reflexivity|]. split; [cbn [items_text]; change (slen []) with 0; lia|].
    split; [exists (it_text it ++ it_gap it); cbn [items_text]; rewrite !app_nil_r; reflexivity|].
    intros i. apply runs_Plus_g. cbn [items_text items_trees app] in *.
    replace (it_tree it i ++ []) with (it_tree it i ++ @nil pr ++ @nil pr) by reflexivity.
    replace (i + (slen (it_text it) + slen (it_gap it))) with (i + slen (it_text it) + slen (it_gap it)) by lia.
    eapply (runs_SeqS_ok gse gse_eq); [apply Hrun|apply skip_ws; [exact Hgap|exact Hk]|].
    apply runs_Star_stop. apply x_stops.
  - destruct Hr as [[Hgap2 [Htok2 Hrun2]] Hr2].
    destruct (items_reps r2 (it_gap it2) Hr2 Hgap2) as [m3 [Hg3 [Hm3 [[c3 Hc3] Hreps3]]]].
    rewrite tailgap_cons.
    exists (slen (it_text it) + slen (it_gap it) + slen (it_text it2) + m3). split; [exact Hg3|]. split; [cbn [items_text]; rewrite !slen_app; lia|].
    split; [exists (it_text it ++ it_gap it ++ it_text it2 ++ c3); cbn [items_text]; rewrite <- !app_assoc, <- Hc3; reflexivity|].
    intros i. apply runs_Plus_g.
    replace (items_trees (it :: it2 :: r2) i) with (it_tree it i ++ @nil pr ++ (it_tree it2 (i + slen (it_text it) + slen (it_gap it)) ++ items_trees r2 (i + slen (it_text it) + slen (it_gap it) + slen (it_text it2) + slen (it_gap it2)))) by reflexivity.
    eapply (runs_SeqS_ok gse gse_eq); [apply Hrun|apply skip_ws; [exact Hgap|exact Hk]|].
    assert (Htxt2 : items_text (it2 :: r2) ++ close ++ rest = it_text it2 ++ it_gap it2 ++ (items_text r2 ++ close ++ rest)).
    { cbn [items_text]. rewrite <- !app_assoc. reflexivity. }
    rewrite Htxt2.
    replace (i + (slen (it_text it) + slen (it_gap it) + slen (it_text it2) + m3)) with (i + slen (it_text it) + slen (it_gap it) + slen (it_text it2) + m3) by lia.
    eapply runs_Star_step_g; [apply Hrun2|apply Hreps3].
Qed.

(** x+ ~ "close" over a non-empty list of items *)
Lemma items_plus_close it its i : items_ok (it :: its) ->
  runs G true ANon (Seq (Plus x) (Lit close)) (items_text (it :: its) ++ close ++ rest) i
    (Ok (rest, i + slen (items_text (it :: its)) + slen close, items_trees (it :: its) i)).
Proof.
  intros Hok. destruct (items_plus it its Hok) as [m [Hg2 [Hm [_ Hplus]]]]. set (g2 := tailgap [] its) in *.
  assert (Htxt : items_text (it :: its) ++ close ++ rest = it_text it ++ it_gap it ++ (items_text its ++ close ++ rest)).
  { cbn [items_text]. rewrite <- !app_assoc. reflexivity. }
  rewrite Htxt.
  rewrite <- (app_nil_r (items_trees (it :: its) i)).
  replace (items_trees (it :: its) i ++ []) with (items_trees (it :: its) i ++ @nil pr ++ @nil pr) by reflexivity.
  eapply (runs_SeqS_ok gse gse_eq); [apply Hplus|apply skip_ws; [exact Hg2|exact close_token]|].
  replace (i + slen (items_text (it :: its)) + slen close) with (i + m + slen g2 + slen close)
    by (cbn [items_text]; rewrite !slen_app; lia).
  exact (runs_Lit_ok G true ANon close rest (i + m + slen g2)).
Qed.

End Items.

(** ** what may follow a value *)
Definition punct_chars : list N := [33;36;38;40;41;58;61;64;91;93;123;124;125].
Definition is_punct (d : N) : bool := existsb (N.eqb d) punct_chars.
Definition follow_val (rest : str) : Prop :=
  exists w r', rest = w ++ r' /\ ws w = true /\ at_token r' /\
               (w = [] -> match r' with d :: _ => is_punct d = true | [] => True end).

(** a predicate on the first character that holds for trivia characters and punctuators holds after a value *)
Lemma follow_val_head (P : N -> bool) rest :
  forallb P [65279; 9; 32; 10; 13; 44] = true -> forallb P punct_chars = true ->
  follow_val rest -> match rest with d :: _ => P d = true | [] => True end.
Proof.
  intros Hw Hp [w [r' [-> [Hws [_ Hpu]]]]]. destruct w as [|c w].
  - cbn [app]. specialize (Hpu eq_refl). destruct r' as [|d r]; [exact I|].
    unfold is_punct in Hpu. apply existsb_exists in Hpu. destruct Hpu as [y [Hy He]]. apply N.eqb_eq in He. subst y.
    rewrite forallb_forall in Hp. apply Hp; exact Hy.
  - cbn [app]. cbn [ws forallb] in Hws. apply andb_true_iff in Hws. destruct Hws as [Hc _].
    unfold is_wsc in Hc. rewrite forallb_forall in Hw. apply Hw.
    repeat (apply orb_true_iff in Hc; destruct Hc as [Hc|Hc]); apply N.eqb_eq in Hc; subst c; cbn; tauto.
Qed.

Lemma follow_val_name rest : follow_val rest -> not_name_cont_next rest.
Proof.
  intros H. pose proof (follow_val_head (fun d => negb (is_name_cont d)) rest eq_refl eq_refl H) as Hh.
  destruct rest as [|d r]; [exact I|]. cbn [not_name_cont_next]. apply negb_true_iff. exact Hh.
Qed.
Lemma follow_val_int rest : follow_val rest -> int_follow_ok rest = true.
Proof.
  intros H. pose proof (follow_val_head (fun d => negb (is_digit d || N.eqb d 46 || is_name_start d)) rest eq_refl eq_refl H) as Hh.
  destruct rest as [|d r]; [reflexivity|]. exact Hh.
Qed.
Lemma follow_val_quote rest : follow_val rest -> not_quote_next rest.
Proof.
  intros H. pose proof (follow_val_head (fun d => negb (N.eqb 34 d)) rest eq_refl eq_refl H) as Hh.
  destruct rest as [|d r]; [exact I|]. cbn [not_quote_next]. apply negb_true_iff. exact Hh.
Qed.
Lemma follow_val_split rest : follow_val rest -> exists w r', rest = w ++ r' /\ ws w = true /\ at_token r'.
Proof. intros [w [r' [E [Hw [Ht _]]]]]. exists w, r'. tauto. Qed.

(** ** alternatives of Value that cannot start with a given character *)
Lemma variable_fails c t i : N.eqb 36 c = false -> runs G true ANon (Call R_Variable) (c :: t) i Fail.
Proof. intros H. enter_fail_n R_Variable. apply (runs_SeqS_fail1 gse gse_eq). apply runs_Lit_head_fail; exact H. Qed.

Lemma integerpart_fails c t i : N.eqb 45 c = false -> is_digit c = false ->
  runs G false AAtomic (Call R_IntegerPart) (c :: t) i Fail.
Proof.
  intros Hm Hd. enter_fail R_IntegerPart AAtomic.
  eapply runs_Seq_fail2; [apply runs_Opt_none; apply runs_Lit_head_fail; exact Hm|].
  unfold is_digit in Hd.
  apply runs_Alt_r.
  - apply runs_Lit_head_fail. apply N.eqb_neq. intros <-. vm_compute in Hd. discriminate.
  - apply runs_Seq_fail1. pose proof (runs_class (c :: t) i (class_Range G AAtomic 49 57)) as H. cbn [class_result] in H.
    destruct ((49 <=? c) && (c <=? 57)) eqn:E; [|exact H].
    exfalso. apply andb_true_iff in E. destruct E as [E1 E2]. apply N.leb_le in E1, E2.
    apply andb_false_iff in Hd. destruct Hd as [Hd|Hd]; apply N.leb_gt in Hd; lia.
Qed.

Lemma intvalue_fails c t sk i : N.eqb 45 c = false -> is_digit c = false -> runs G sk ANon (Call R_IntValue) (c :: t) i Fail.
Proof. intros Hm Hd. enter_fail R_IntValue ANon. apply runs_Seq_fail1. apply integerpart_fails; assumption. Qed.

Lemma floatvalue_fails c t sk i : N.eqb 45 c = false -> is_digit c = false -> runs G sk ANon (Call R_FloatValue) (c :: t) i Fail.
Proof.
  intros Hm Hd. enter_fail R_FloatValue ANon.
  repeat (apply runs_Alt_r; [apply runs_Seq_fail1; apply integerpart_fails; assumption|]).
  apply runs_Seq_fail1; apply integerpart_fails; assumption.
Qed.

Lemma stringvalue_fails c t sk i : N.eqb 34 c = false -> runs G sk ANon (Call R_StringValue) (c :: t) i Fail.
Proof.
  intros H. enter_fail R_StringValue ANon.
  apply runs_Alt_r; [enter_fail R_EmptyStringValue ACompound; apply runs_Seq_fail1; apply runs_Lit_head_fail; exact H|].
  apply runs_Alt_r; [enter_fail R_NormalStringValue ACompound; apply runs_Seq_fail1; apply runs_Lit_head_fail; exact H|].
  enter_fail R_BlockStringValue ACompound. apply runs_Seq_fail1; apply runs_Lit_head_fail; exact H.
Qed.

(** ** keywords in the render direction *)
Lemma keyword_body_runs r l : keyword_of r = Some l ->
  forall inp i, runs G false AAtomic (r_exp (g_rule G r)) inp i
    (match strip_prefix l inp with
     | Some rest => match rest with
                    | d :: _ => if is_name_cont d then Fail else Ok (rest, i + slen l, [])
                    | [] => Ok (rest, i + slen l, [])
                    end
     | None => Fail
     end).
Proof.
  intros Hk inp i. change (g_rule G r) with (rule_def r). rewrite (keyword_of_shape _ _ Hk). cbn [r_exp].
  intros fuel. apply (seq_lit_not_class l class_NameContinue).
Qed.

Lemma keyword_regime r l a : keyword_of r = Some l -> body_sk G r = false /\ body_atomicity G r a = AAtomic /\ rule_records G r ANon = true.
Proof.
  intros Hk. pose proof (keyword_of_shape _ _ Hk) as Hd.
  unfold body_sk, static_atomic, body_atomicity, rule_records. change (g_rule G r) with (rule_def r). rewrite Hd. repeat split; reflexivity.
Qed.

Lemma keyword_ok r l rest sk i : keyword_of r = Some l -> not_name_cont_next rest ->
  runs G sk ANon (Call r) (l ++ rest) i (Ok (rest, i + slen l, [Pair r i (i + slen l) []])).
Proof.
  intros Hk Hr. destruct (keyword_regime r l ANon Hk) as [Hsk [Hat Hrec]].
  apply (@runs_Call_rec _ G sk ANon r); [exact Hrec|]. rewrite Hsk, Hat.
  pose proof (keyword_body_runs r l Hk (l ++ rest) i) as H.
  assert (E : strip_prefix l (l ++ rest) = Some rest).
  { clear. induction l as [|c l IH]; cbn; [reflexivity|]. rewrite N.eqb_refl. exact IH. }
  rewrite E in H. destruct rest as [|d r0]; [exact H|]. cbn [not_name_cont_next] in Hr. rewrite Hr in H. exact H.
Qed.

Lemma strip_prefix_name_cont : forall (l u rest r : str),
  forallb is_name_cont u = true -> not_name_cont_next rest -> forallb is_name_cont l = true -> u <> l ->
  strip_prefix l (u ++ rest) = Some r -> exists d r', r = d :: r' /\ is_name_cont d = true.
Proof.
  induction l as [|k l IH]; intros u rest r Hu Hr Hl Hne H.
  - cbn in H. inversion H; subst r. destruct u as [|c u']; [contradiction|].
    cbn [forallb] in Hu. apply andb_true_iff in Hu. exists c, (u' ++ rest). split; [reflexivity|tauto].
  - cbn [forallb] in Hl. apply andb_true_iff in Hl. destruct Hl as [Hk Hl].
    destruct u as [|c u'].
    + cbn [app strip_prefix] in H. destruct rest as [|d r0]; [discriminate|].
      destruct (N.eqb_spec k d) as [->|]; [|discriminate]. cbn in Hr. congruence.
    + cbn [app strip_prefix] in H. destruct (N.eqb_spec k c) as [->|]; [|discriminate].
      cbn [forallb] in Hu. apply andb_true_iff in Hu. destruct Hu as [_ Hu].
      eapply IH; [exact Hu|exact Hr|exact Hl| |exact H]. congruence.
Qed.

Lemma keyword_fails_name r l u rest sk i : keyword_of r = Some l ->
  forallb is_name_cont l = true -> forallb is_name_cont u = true -> u <> l -> not_name_cont_next rest ->
  runs G sk ANon (Call r) (u ++ rest) i Fail.
Proof.
  intros Hk Hl Hu Hne Hr. destruct (keyword_regime r l ANon Hk) as [Hsk [Hat _]].
  apply (@runs_Call_fail _ G sk ANon r). rewrite Hsk, Hat.
  pose proof (keyword_body_runs r l Hk (u ++ rest) i) as H.
  destruct (strip_prefix l (u ++ rest)) as [r0|] eqn:E; [|exact H].
  destruct (strip_prefix_name_cont l u rest r0 Hu Hr Hl Hne E) as [d [r' [-> Hd]]]. rewrite Hd in H. exact H.
Qed.

Lemma keyword_fails_head r l c0 c t sk i : keyword_of r = Some (c0 :: l) -> N.eqb c0 c = false ->
  runs G sk ANon (Call r) (c :: t) i Fail.
Proof.
  intros Hk Hc. destruct (keyword_regime r (c0 :: l) ANon Hk) as [Hsk [Hat _]].
  apply (@runs_Call_fail _ G sk ANon r). rewrite Hsk, Hat.
  pose proof (keyword_body_runs r (c0 :: l) Hk (c :: t) i) as H. cbn [strip_prefix] in H. rewrite Hc in H. exact H.
Qed.

(** ** numbers: IntegerPart, FractionalPart, ExponentPart, and the float forms of the specification *)
Definition no_digit_next (post : str) : Prop := match post with d :: _ => is_digit d = false | [] => True end.

Lemma int_body_runs' l post i : int_body l = true -> no_digit_next post ->
  runs G false AAtomic (Alt (Lit [48]) (Seq (Range 49 57) (Star (Range (R:=rule) 48 57)))) (l ++ post) i (Ok (post, i + slen l, [])).
Proof.
  intros Hl Hpd. destruct l as [|c ds]; [discriminate|]. cbn [int_body] in Hl.
  destruct (N.eqb_spec c 48) as [->|Hc0].
  - destruct ds as [|d ds']; [|discriminate]. apply runs_Alt_l. exact (runs_Lit_ok G false AAtomic [48] post i).
  - apply andb_true_iff in Hl. destruct Hl as [Hnz Hds].
    apply runs_Alt_r; [apply runs_Lit_head_fail; apply N.eqb_neq; congruence|].
    pose proof (seq_class_star (class_Range G AAtomic 49 57) (class_digit AAtomic)) as H.
    intros fuel. specialize (H fuel ((c :: ds) ++ post) i). cbn [app] in H.
    unfold is_nonzero_digit in Hnz. rewrite Hnz in H. rewrite (span_digits _ _ Hds Hpd) in H. cbn [fst snd] in H.
    replace (i + slen (c :: ds)) with (i + 1 + N.of_nat (length ds)) by (unfold slen; cbn [length]; lia). exact H.
Qed.

Lemma integerpart_runs l post i : is_int_lexeme l = true -> no_digit_next post ->
  runs G false AAtomic (Call R_IntegerPart) (l ++ post) i (Ok (post, i + slen l, [])).
Proof.
  intros Hl Hp. enter_silent R_IntegerPart AAtomic.
  destruct l as [|c r]; [discriminate|]. cbn [is_int_lexeme] in Hl.
  change (@nil pr) with (@nil pr ++ @nil pr).
  destruct (N.eqb_spec c 45) as [->|Hc].
  - replace (i + slen (45 :: r)) with (i + slen [45] + slen r) by (unfold slen; cbn [length]; lia).
    eapply runs_Seq_ok; [apply runs_Opt_some; exact (runs_Lit_ok G false AAtomic [45] (r ++ post) i)|].
    apply int_body_runs'; assumption.
  - eapply runs_Seq_ok; [apply runs_Opt_none; apply runs_Lit_head_fail; apply N.eqb_neq; congruence|].
    apply int_body_runs'; assumption.
Qed.

(** "." Digit+ *)
Definition is_frac (l : str) : bool := match l with c :: d :: ds => N.eqb c 46 && forallb is_digit (d :: ds) | _ => false end.
(** ("e"|"E") ("+"|"-")? Digit+ *)
Definition is_exp (l : str) : bool :=
  match l with
  | e :: r => (N.eqb e 101 || N.eqb e 69) &&
              match r with
              | s0 :: (d :: ds) => if N.eqb s0 43 || N.eqb s0 45 then forallb is_digit (d :: ds) else forallb is_digit r
              | [d] => is_digit d
              | [] => false
              end
  | [] => false
  end.

Lemma digits_star ds post i : forallb is_digit ds = true -> no_digit_next post ->
  runs G false AAtomic (Star (Range (R:=rule) 48 57)) (ds ++ post) i (Ok (post, i + slen ds, [])).
Proof.
  intros Hd Hp fuel. destruct (star_class (class_digit AAtomic) fuel (ds ++ post) i) as [E|E]; [left; exact E|right].
  rewrite E, (span_digits _ _ Hd Hp). reflexivity.
Qed.

Lemma frac_runs l post i : is_frac l = true -> no_digit_next post ->
  runs G false AAtomic (Call R_FractionalPart) (l ++ post) i (Ok (post, i + slen l, [])).
Proof.
  intros Hl Hp. enter_silent R_FractionalPart AAtomic.
  destruct l as [|c ds]; [discriminate|]. destruct ds as [|d ds']; [discriminate|]. cbn [is_frac] in Hl.
  apply andb_true_iff in Hl. destruct Hl as [Hc Hds]. apply N.eqb_eq in Hc. subst c. set (ds := d :: ds') in *.
  change (@nil pr) with (@nil pr ++ @nil pr).
  replace (i + slen (46 :: ds)) with (i + slen [46] + slen ds) by (unfold slen; cbn [length]; lia).
  eapply runs_Seq_ok; [exact (runs_Lit_ok G false AAtomic [46] (ds ++ post) i)|apply digits_star; assumption].
Qed.

Lemma frac_fails c t i : N.eqb 46 c = false -> runs G false AAtomic (Call R_FractionalPart) (c :: t) i Fail.
Proof. intros H. enter_fail R_FractionalPart AAtomic. apply runs_Seq_fail1. apply runs_Lit_head_fail; exact H. Qed.
Lemma frac_fails_nil i : runs G false AAtomic (Call R_FractionalPart) [] i Fail.
Proof. enter_fail R_FractionalPart AAtomic. apply runs_Seq_fail1. apply runs_Lit_nil_fail. Qed.

Lemma runs_ILit1 sk a e c t i : N.eqb (ascii_lower e) (ascii_lower c) = true ->
  runs G sk a (ILit [e]) (c :: t) i (Ok (t, i + 1, [])).
Proof. intros H [|f]; [left; reflexivity|right]. cbn [run strip_prefix_ci]. rewrite H. reflexivity. Qed.
Lemma runs_ILit1_fail sk a e c t i : N.eqb (ascii_lower e) (ascii_lower c) = false -> runs G sk a (ILit [e]) (c :: t) i Fail.
Proof. intros H [|f]; [left; reflexivity|right]. cbn [run strip_prefix_ci]. rewrite H. reflexivity. Qed.
Lemma runs_ILit1_nil sk a e i : runs G sk a (ILit [e]) [] i Fail.
Proof. intros [|f]; [left|right]; reflexivity. Qed.

Lemma digits_plus d ds post i : forallb is_digit (d :: ds) = true -> no_digit_next post ->
  runs G false AAtomic (Plus (Range (R:=rule) 48 57)) ((d :: ds) ++ post) i (Ok (post, i + slen (d :: ds), [])).
Proof.
  intros Hd Hp. apply runs_Plus. cbn [forallb] in Hd. apply andb_true_iff in Hd. destruct Hd as [Hd Hds].
  change (@nil pr) with (@nil pr ++ @nil pr).
  replace (i + slen (d :: ds)) with (i + 1 + slen ds) by (unfold slen; cbn [length]; lia).
  eapply runs_Seq_ok; [|apply digits_star; assumption].
  pose proof (runs_class ((d :: ds) ++ post) i (class_digit AAtomic)) as H. cbn [app class_result] in H. rewrite Hd in H. exact H.
Qed.

Lemma exp_runs l post i : is_exp l = true -> no_digit_next post ->
  runs G false AAtomic (Call R_ExponentPart) (l ++ post) i (Ok (post, i + slen l, [])).
Proof.
  intros Hl Hp. enter_silent R_ExponentPart AAtomic.
  destruct l as [|e r]; [discriminate|]. cbn [is_exp] in Hl. apply andb_true_iff in Hl. destruct Hl as [He Hr].
  assert (Hci : N.eqb (ascii_lower 101) (ascii_lower e) = true).
  { apply orb_true_iff in He. destruct He as [He|He]; apply N.eqb_eq in He; subst e; reflexivity. }
  change (@nil pr) with (@nil pr ++ @nil pr ++ @nil pr).
  destruct r as [|s0 r']; [discriminate|].
  destruct (N.eqb s0 43 || N.eqb s0 45) eqn:Es.
  - destruct r' as [|d ds]; [apply orb_true_iff in Es; destruct Es as [Es|Es]; apply N.eqb_eq in Es; subst s0; discriminate|].
    replace (i + slen (e :: s0 :: d :: ds)) with (i + 1 + 1 + slen (d :: ds)) by (unfold slen; cbn [length]; lia).
    eapply runs_Seq_ok; [apply runs_ILit1; exact Hci|].
    eapply runs_Seq_ok; [|apply digits_plus; assumption].
    apply runs_Opt_some. apply orb_true_iff in Es. destruct Es as [Es|Es]; apply N.eqb_eq in Es; subst s0.
    + apply runs_Alt_l. exact (runs_Lit_ok G false AAtomic [43] ((d :: ds) ++ post) (i + 1)).
    + apply runs_Alt_r; [apply runs_Lit_head_fail; reflexivity|]. exact (runs_Lit_ok G false AAtomic [45] ((d :: ds) ++ post) (i + 1)).
  - assert (Hds : forallb is_digit (s0 :: r') = true) by (destruct r'; [cbn [forallb]; rewrite Hr; reflexivity|exact Hr]).
    replace (i + slen (e :: s0 :: r')) with (i + 1 + slen (s0 :: r')) by (unfold slen; cbn [length]; lia).
    apply orb_false_iff in Es. destruct Es as [E43 E45].
    eapply runs_Seq_ok; [apply runs_ILit1; exact Hci|].
    change (@nil pr) with (@nil pr ++ @nil pr).
    eapply runs_Seq_ok; [|apply digits_plus; assumption].
    apply runs_Opt_none. apply runs_Alt_r; apply runs_Lit_head_fail; rewrite N.eqb_sym; assumption.
Qed.

Lemma exp_fails post i : match post with d :: _ => N.eqb d 101 = false /\ N.eqb d 69 = false | [] => True end ->
  runs G false AAtomic (Call R_ExponentPart) post i Fail.
Proof.
  intros H. enter_fail R_ExponentPart AAtomic. apply runs_Seq_fail1.
  destruct post as [|d r]; [apply runs_ILit1_nil|]. destruct H as [H1 H2]. apply runs_ILit1_fail.
  change (ascii_lower 101) with 101. unfold ascii_lower. destruct ((65 <=? d) && (d <=? 90)) eqn:E.
  - apply N.eqb_neq. intros Hx. apply andb_true_iff in E. destruct E as [E1 E2]. apply N.leb_le in E1, E2.
    apply N.eqb_neq in H2. lia.
  - rewrite N.eqb_sym. exact H1.
Qed.

(** a FloatValue lexeme of the specification: IntegerPart FractionalPart? ExponentPart?, not both absent *)
Definition wf_float (ip fr ex : str) : bool :=
  is_int_lexeme ip && (match fr with [] => true | _ => is_frac fr end) && (match ex with [] => true | _ => is_exp ex end)
  && negb (match fr, ex with [], [] => true | _, _ => false end).

Lemma frac_head fr : is_frac fr = true -> exists t, fr = 46 :: t.
Proof. destruct fr as [|c [|d ds]]; try discriminate. cbn [is_frac]. intros H. apply andb_true_iff in H. destruct H as [H _]. apply N.eqb_eq in H. subst. eexists; reflexivity. Qed.
Lemma exp_head ex : is_exp ex = true -> exists e t, ex = e :: t /\ (e = 101 \/ e = 69).
Proof.
  destruct ex as [|e t]; [discriminate|]. cbn [is_exp]. intros H. apply andb_true_iff in H. destruct H as [H _].
  exists e, t. split; [reflexivity|]. apply orb_true_iff in H. destruct H as [H|H]; apply N.eqb_eq in H; tauto.
Qed.

Lemma follow_int_no_digit rest : int_follow_ok rest = true -> no_digit_next rest.
Proof. destruct rest as [|d r]; [intros; exact I|]. cbn [int_follow_ok no_digit_next]. intros H. apply negb_true_iff in H. apply orb_false_iff in H. destruct H as [H _]. apply orb_false_iff in H. tauto. Qed.
Lemma follow_int_no_exp rest : int_follow_ok rest = true -> match rest with d :: _ => N.eqb d 101 = false /\ N.eqb d 69 = false | [] => True end.
Proof.
  destruct rest as [|d r]; [trivial|]. cbn [int_follow_ok]. intros H. apply negb_true_iff in H. apply orb_false_iff in H. destruct H as [_ H].
  split; apply N.eqb_neq; intros ->; vm_compute in H; discriminate.
Qed.
Lemma follow_int_no_dot rest : int_follow_ok rest = true -> match rest with d :: _ => N.eqb 46 d = false | [] => True end.
Proof.
  destruct rest as [|d r]; [trivial|]. cbn [int_follow_ok]. intros H. apply negb_true_iff in H. apply orb_false_iff in H. destruct H as [H _].
  apply orb_false_iff in H. destruct H as [_ H]. rewrite N.eqb_sym. exact H.
Qed.

Theorem float_lex ip fr ex rest sk i : wf_float ip fr ex = true -> int_follow_ok rest = true ->
  let l := ip ++ fr ++ ex in
  runs G sk ANon (Call R_FloatValue) (l ++ rest) i (Ok (rest, i + slen l, [Pair R_FloatValue i (i + slen l) []]))
  /\ runs G sk ANon (Call R_IntValue) (l ++ rest) i Fail.
Proof.
  intros Hwf Hrest l. unfold wf_float in Hwf.
  apply andb_true_iff in Hwf. destruct Hwf as [Hwf Hne]. apply andb_true_iff in Hwf. destruct Hwf as [Hwf Hex].
  apply andb_true_iff in Hwf. destruct Hwf as [Hip Hfr].
  pose proof (follow_int_no_digit _ Hrest) as Hnd. pose proof (follow_int_no_exp _ Hrest) as Hne'. pose proof (follow_int_no_dot _ Hrest) as Hndot.
  pose proof (proj2 (int_follow_not_dot_name _ Hrest)) as Hlook.
  assert (Htxt : l ++ rest = ip ++ (fr ++ (ex ++ rest))) by (unfold l; rewrite <- !app_assoc; reflexivity).
  assert (Hlen : i + slen l = i + slen ip + slen fr + slen ex) by (unfold l; rewrite !slen_app; lia).
  rewrite Htxt, Hlen.
  (* what follows the integer part is not a digit *)
  assert (Hnd_ip : no_digit_next (fr ++ ex ++ rest)).
  { destruct fr as [|c fr']; [|destruct (frac_head _ Hfr) as [t E]; inversion E; subst; reflexivity].
    destruct ex as [|e ex']; [discriminate|]. destruct (exp_head _ Hex) as [e0 [t [E [->| ->]]]]; inversion E; subst; reflexivity. }
  assert (Hnd_fr : no_digit_next (ex ++ rest)).
  { destruct ex as [|e ex']; [exact Hnd|]. destruct (exp_head _ Hex) as [e0 [t [E [->| ->]]]]; inversion E; subst; reflexivity. }
  split.
  - enter_rec R_FloatValue ANon.
    destruct fr as [|c fr'].
    + (* IntegerPart ExponentPart *)
      destruct ex as [|e ex']; [discriminate|]. rewrite app_nil_l in *. change (slen []) with 0. rewrite N.add_0_r.
      assert (Hfr_fail : runs G false AAtomic (Call R_FractionalPart) ((e :: ex') ++ rest) (i + slen ip) Fail).
      { destruct (exp_head _ Hex) as [e0 [t [E [->| ->]]]]; inversion E; subst; apply frac_fails; reflexivity. }
      apply runs_Alt_r; [eapply runs_Seq_fail2; [apply integerpart_runs; assumption|apply runs_Seq_fail1; exact Hfr_fail]|].
      apply runs_Alt_r; [eapply runs_Seq_fail2; [apply integerpart_runs; assumption|apply runs_Seq_fail1; exact Hfr_fail]|].
      change (@nil pr) with (@nil pr ++ @nil pr ++ @nil pr).
      eapply runs_Seq_ok; [apply integerpart_runs; assumption|].
      eapply runs_Seq_ok; [apply exp_runs; assumption|apply Hlook].
    + destruct ex as [|e ex'].
      * (* IntegerPart FractionalPart *)
        rewrite app_nil_l in *. change (slen []) with 0. rewrite N.add_0_r.
        apply runs_Alt_r.
        { eapply runs_Seq_fail2; [apply integerpart_runs; assumption|].
          eapply runs_Seq_fail2; [apply frac_runs; assumption|]. apply runs_Seq_fail1. apply exp_fails; exact Hne'. }
        apply runs_Alt_l.
        change (@nil pr) with (@nil pr ++ @nil pr ++ @nil pr).
        eapply runs_Seq_ok; [apply integerpart_runs; assumption|].
        eapply runs_Seq_ok; [apply frac_runs; assumption|apply Hlook].
      * (* all three *)
        apply runs_Alt_l.
        change (@nil pr) with (@nil pr ++ @nil pr ++ @nil pr ++ @nil pr).
        eapply runs_Seq_ok; [apply integerpart_runs; assumption|].
        eapply runs_Seq_ok; [apply frac_runs; assumption|].
        eapply runs_Seq_ok; [apply exp_runs; assumption|apply Hlook].
  - (* IntValue: after the integer part comes "." or an exponent letter, so the look-ahead rejects *)
    enter_fail R_IntValue ANon.
    eapply runs_Seq_fail2; [apply integerpart_runs; assumption|].
    destruct fr as [|c fr'].
    + destruct ex as [|e ex']; [discriminate|]. cbn [app].
      eapply runs_Not_fail. apply runs_Alt_r.
      * destruct (exp_head _ Hex) as [e0 [t [E [->| ->]]]]; inversion E; subst; apply runs_Lit_head_fail; reflexivity.
      * pose proof (runs_class ((e :: ex') ++ rest) (i + slen ip) class_NameStart) as H. cbn [app class_result] in H.
        destruct (exp_head _ Hex) as [e0 [t [E [->| ->]]]]; inversion E; subst; exact H.
    + destruct (frac_head _ Hfr) as [t E]. inversion E; subst. cbn [app].
      eapply runs_Not_fail. apply runs_Alt_l. exact (runs_Lit_ok G false AAtomic [46] (t ++ ex ++ rest) (i + slen ip)).
Qed.

(** ** values with trivia *)
Inductive rval :=
| RVar (g n : str)                       (* "$" g n *)
| RInt (l : str)
| RFloat (ip fr ex : str)
| RStr (v : str)                         (* quoted form *)
| RBool (b : bool)
| RNull
| REnum (n : str)
| RListV (g0 : str) (items : list (rval * str))                          (* "[" g0 (value gap)* "]" *)
| RObj (g0 : str) (fields : list ((str * str * str) * (rval * str))).    (* "{" g0 (name ga ":" gb value gc)* "}" *)

Section RvalInd.
Variable P : rval -> Prop.
Hypothesis HVar : forall g n, P (RVar g n).
Hypothesis HInt : forall l, P (RInt l).
Hypothesis HFloat : forall a b c, P (RFloat a b c).
Hypothesis HStr : forall v, P (RStr v).
Hypothesis HBool : forall b, P (RBool b).
Hypothesis HNull : P RNull.
Hypothesis HEnum : forall n, P (REnum n).
Hypothesis HList : forall g0 items, Forall (fun it => P (fst it)) items -> P (RListV g0 items).
Hypothesis HObj : forall g0 fields, Forall (fun f => P (fst (snd f))) fields -> P (RObj g0 fields).
Fixpoint rval_ind2 (v : rval) : P v :=
  match v with
  | RVar g n => HVar g n | RInt l => HInt l | RFloat a b c => HFloat a b c | RStr s0 => HStr s0
  | RBool b => HBool b | RNull => HNull | REnum n => HEnum n
  | RListV g0 items => HList g0 items
      ((fix go (l : list (rval * str)) : Forall (fun it => P (fst it)) l :=
          match l with [] => Forall_nil _ | it :: r => Forall_cons it (rval_ind2 (fst it)) (go r) end) items)
  | RObj g0 fields => HObj g0 fields
      ((fix go (l : list ((str * str * str) * (rval * str))) : Forall (fun f => P (fst (snd f))) l :=
          match l with [] => Forall_nil _ | f :: r => Forall_cons f (rval_ind2 (fst (snd f))) (go r) end) fields)
  end.
End RvalInd.

Definition K_true : str := [116;114;117;101]. Definition K_false : str := [102;97;108;115;101]. Definition K_null : str := [110;117;108;108].

Definition field_text (f : (str * str * str) * (rval * str)) (vt : str) : str :=
  fst (fst (fst f)) ++ snd (fst (fst f)) ++ [58] ++ snd (fst f) ++ vt.

Fixpoint render_val (v : rval) : str :=
  match v with
  | RVar g n => [36] ++ g ++ n
  | RInt l => l
  | RFloat ip fr ex => ip ++ fr ++ ex
  | RStr v => quote v
  | RBool b => if b then K_true else K_false
  | RNull => K_null
  | REnum n => n
  | RListV g0 items => [91] ++ g0 ++ flat_map (fun it => render_val (fst it) ++ snd it) items ++ [93]
  | RObj g0 fields => [123] ++ g0 ++ flat_map (fun f => field_text f (render_val (fst (snd f))) ++ snd (snd f)) fields ++ [125]
  end.

Definition punct_head (k : str) : bool := match k with d :: _ => is_punct d | [] => true end.
Definition gap_ok (g k : str) : bool := ws g && (match g with [] => punct_head k | _ => true end).
(** texts and the gaps after them, in front of a closing literal *)
Fixpoint gaps_ok (l : list (str * str)) (close : str) : bool :=
  match l with
  | [] => true
  | (t, g) :: r => gap_ok g (flat_map (fun x => fst x ++ snd x) r ++ close) && gaps_ok r close
  end.

Definition str_neq (a b : str) : bool := negb (str_eqb a b).

Fixpoint wf_val (v : rval) : bool :=
  match v with
  | RVar g n => ws g && is_name n
  | RInt l => is_int_lexeme l
  | RFloat ip fr ex => wf_float ip fr ex
  | RStr v => true
  | RBool _ | RNull => true
  | REnum n => is_name n && str_neq n K_true && str_neq n K_false && str_neq n K_null
  | RListV g0 items =>
      ws g0 && forallb (fun it => wf_val (fst it)) items
      && gaps_ok (map (fun it => (render_val (fst it), snd it)) items) [93]
  | RObj g0 fields =>
      ws g0 && forallb (fun f => wf_val (fst (snd f))) fields
      && forallb (fun f => is_name (fst (fst (fst f))) && ws (snd (fst (fst f))) && ws (snd (fst f))) fields
      && gaps_ok (map (fun f => (field_text f (render_val (fst (snd f))), snd (snd f))) fields) [125]
  end.

Definition empty_string_tree (i : N) : pr := Pair R_StringValue i (i + 2) [Pair R_EmptyStringValue i (i + 2) []].

Definition to_item (tree : rval -> N -> pr) (it : rval * str) : item :=
  (render_val (fst it), snd it, fun i => [tree (fst it) i]).
Definition to_field_item (tree : rval -> N -> pr) (f : (str * str * str) * (rval * str)) : item :=
  let n := fst (fst (fst f)) in let ga := snd (fst (fst f)) in let gb := snd (fst f) in
  let txt := field_text f (render_val (fst (snd f))) in
  (txt, snd (snd f),
   fun i => [Pair R_ObjectField i (i + slen txt)
               [Pair R_Name i (i + slen n) []; tree (fst (snd f)) (i + slen n + slen ga + 1 + slen gb)]]).

Fixpoint val_tree (v : rval) (i : N) : pr :=
  let j := i + slen (render_val v) in
  Pair R_Value i j
    [match v with
     | RVar g n => Pair R_Variable i j [Pair R_Name (i + 1 + slen g) j []]
     | RInt _ => Pair R_IntValue i j []
     | RFloat _ _ _ => Pair R_FloatValue i j []
     | RStr [] => empty_string_tree i
     | RStr (c :: s0) => string_tree (c :: s0) i
     | RBool b => Pair R_BooleanValue i j [Pair (if b then R_KEYWORD_true else R_KEYWORD_false) i j []]
     | RNull => Pair R_NullValue i j [Pair R_KEYWORD_null i j []]
     | REnum _ => Pair R_EnumValue i j [Pair R_Name i j []]
     | RListV g0 items => Pair R_ListValue i j (items_trees (map (to_item val_tree) items) (i + 1 + slen g0))
     | RObj g0 fields => Pair R_ObjectValue i j (items_trees (map (to_field_item val_tree) fields) (i + 1 + slen g0))
     end].

(** ** heads *)
Ltac neq_by H := apply N.eqb_neq; let E := fresh in intros E; rewrite <- E in H; vm_compute in H; discriminate H.
Ltac false_by H := match goal with |- ?f ?c = false => destruct (f c) eqn:?E; [|reflexivity] end.

Definition vstart (c : N) : bool :=
  N.eqb c 36 || N.eqb c 45 || is_digit c || N.eqb c 34 || is_name_start c || N.eqb c 91 || N.eqb c 123.

Lemma concrete_not (P : N -> bool) (l : list N) c : forallb (fun k => negb (P k)) l = true -> existsb (N.eqb c) l = true -> P c = false.
Proof.
  intros Hl Hc. apply existsb_exists in Hc. destruct Hc as [k [Hk He]]. apply N.eqb_eq in He. subst k.
  rewrite forallb_forall in Hl. apply negb_true_iff. apply Hl; exact Hk.
Qed.

Lemma is_wsc_list c : is_wsc c = existsb (N.eqb c) [65279; 9; 32; 10; 13; 44].
Proof. unfold is_wsc. cbn [existsb]. rewrite orb_false_r, !orb_assoc. reflexivity. Qed.

Lemma vstart_token c t : vstart c = true -> at_token (c :: t).
Proof.
  intros H. split.
  - destruct (is_wsc c) eqn:E; [|reflexivity]. rewrite is_wsc_list in E.
    rewrite (concrete_not vstart [65279; 9; 32; 10; 13; 44] c eq_refl E) in H. discriminate.
  - destruct (N.eqb_spec c 35) as [->|]; [vm_compute in H; discriminate|reflexivity].
Qed.

Lemma vstart_not (k : N) c : vstart k = false -> vstart c = true -> N.eqb k c = false.
Proof. intros Hk Hc. apply N.eqb_neq. intros <-. congruence. Qed.

(** Value does not match at a character no value starts with *)
Lemma enumvalue_fails c t i : is_name_start c = false -> at_token (c :: t) ->
  N.eqb 116 c = false -> N.eqb 102 c = false -> N.eqb 110 c = false ->
  runs G true ANon (Call R_EnumValue) (c :: t) i Fail.
Proof.
  intros Hc Ht H1 H2 H3. enter_fail_n R_EnumValue.
  eapply (runs_SeqS_fail2 gse gse_eq).
  - apply runs_Not_ok.
    apply runs_Alt_r; [eapply keyword_fails_head; [reflexivity|exact H1]|].
    apply runs_Alt_r; [eapply keyword_fails_head; [reflexivity|exact H2]|eapply keyword_fails_head; [reflexivity|exact H3]].
  - exact (skip_ws [] (c :: t) i eq_refl Ht).
  - apply name_fails; exact Hc.
Qed.

Lemma listvalue_fails c t i : N.eqb 91 c = false -> runs G true ANon (Call R_ListValue) (c :: t) i Fail.
Proof.
  intros H. enter_fail_n R_ListValue.
  apply runs_Alt_r; apply (runs_SeqS_fail1 gse gse_eq); apply runs_Lit_head_fail; exact H.
Qed.
Lemma objectvalue_fails c t i : N.eqb 123 c = false -> runs G true ANon (Call R_ObjectValue) (c :: t) i Fail.
Proof.
  intros H. enter_fail_n R_ObjectValue.
  apply runs_Alt_r; apply (runs_SeqS_fail1 gse gse_eq); apply runs_Lit_head_fail; exact H.
Qed.
Lemma booleanvalue_fails_head c t i : N.eqb 116 c = false -> N.eqb 102 c = false -> runs G true ANon (Call R_BooleanValue) (c :: t) i Fail.
Proof.
  intros H1 H2. enter_fail_n R_BooleanValue.
  apply runs_Alt_r; [eapply keyword_fails_head; [reflexivity|exact H1]|eapply keyword_fails_head; [reflexivity|exact H2]].
Qed.
Lemma nullvalue_fails_head c t i : N.eqb 110 c = false -> runs G true ANon (Call R_NullValue) (c :: t) i Fail.
Proof. intros H. enter_fail_n R_NullValue. eapply keyword_fails_head; [reflexivity|exact H]. Qed.

Lemma value_fails c t i : vstart c = false -> at_token (c :: t) -> runs G true ANon (Call R_Value) (c :: t) i Fail.
Proof.
  intros H Ht. unfold vstart in H. repeat (apply orb_false_iff in H; destruct H as [H ?]).
  assert (Hn : forall k, is_name_start k = true -> N.eqb k c = false).
  { intros k Hk. apply N.eqb_neq. intros <-. congruence. }
  enter_fail_n R_Value.
  apply runs_Alt_r; [apply variable_fails; rewrite N.eqb_sym; assumption|].
  apply runs_Alt_r; [apply intvalue_fails; [rewrite N.eqb_sym|]; assumption|].
  apply runs_Alt_r; [apply floatvalue_fails; [rewrite N.eqb_sym|]; assumption|].
  apply runs_Alt_r; [apply stringvalue_fails; rewrite N.eqb_sym; assumption|].
  apply runs_Alt_r; [apply booleanvalue_fails_head; apply Hn; reflexivity|].
  apply runs_Alt_r; [apply nullvalue_fails_head; apply Hn; reflexivity|].
  apply runs_Alt_r; [apply enumvalue_fails; try assumption; apply Hn; reflexivity|].
  apply runs_Alt_r; [apply listvalue_fails; rewrite N.eqb_sym; assumption|].
  apply objectvalue_fails; rewrite N.eqb_sym; assumption.
Qed.

Lemma render_val_head v : wf_val v = true -> exists c r, render_val v = c :: r /\ vstart c = true.
Proof.
  destruct v as [g n|l|ip fr ex|s0|b| |n|g0 items|g0 fields]; cbn [wf_val render_val]; intros H.
  - eexists _, _. split; reflexivity.
  - destruct l as [|c r]; [discriminate|]. exists c, r. split; [reflexivity|]. cbn [is_int_lexeme] in H.
    destruct (N.eqb_spec c 45) as [->|]; [reflexivity|]. cbn [int_body] in H.
    assert (Hd : is_digit c = true).
    { destruct (N.eqb_spec c 48) as [->|]; [reflexivity|]. apply andb_true_iff in H. destruct H as [H _].
      unfold is_nonzero_digit in H. unfold is_digit. apply andb_true_iff in H. destruct H as [H1 H2].
      apply N.leb_le in H1. rewrite H2, andb_true_r. apply N.leb_le. lia. }
    unfold vstart. rewrite Hd, !orb_true_r. reflexivity.
  - unfold wf_float in H. apply andb_true_iff in H. destruct H as [H _]. apply andb_true_iff in H. destruct H as [H _].
    apply andb_true_iff in H. destruct H as [H _].
    destruct ip as [|c r]; [discriminate|]. exists c, (r ++ fr ++ ex). split; [reflexivity|]. cbn [is_int_lexeme] in H.
    destruct (N.eqb_spec c 45) as [->|]; [reflexivity|]. cbn [int_body] in H.
    assert (Hd : is_digit c = true).
    { destruct (N.eqb_spec c 48) as [->|]; [reflexivity|]. apply andb_true_iff in H. destruct H as [H _].
      unfold is_nonzero_digit in H. unfold is_digit. apply andb_true_iff in H. destruct H as [H1 H2].
      apply N.leb_le in H1. rewrite H2, andb_true_r. apply N.leb_le. lia. }
    unfold vstart. rewrite Hd, !orb_true_r. reflexivity.
  - eexists _, _. split; reflexivity.
  - destruct b; eexists _, _; split; reflexivity.
  - eexists _, _. split; reflexivity.
  - destruct n as [|c r]; [discriminate|]. exists c, r. split; [reflexivity|].
    apply andb_true_iff in H. destruct H as [H _]. apply andb_true_iff in H. destruct H as [H _]. apply andb_true_iff in H. destruct H as [H _].
    unfold is_name in H. apply andb_true_iff in H. destruct H as [H _]. unfold vstart. rewrite H, !orb_true_r. reflexivity.
  - eexists _, _. split; reflexivity.
  - eexists _, _. split; reflexivity.
Qed.

Lemma follow_of_gap g k : gap_ok g k = true -> at_token k -> follow_val (g ++ k).
Proof.
  intros Hg Hk. unfold gap_ok in Hg. apply andb_true_iff in Hg. destruct Hg as [Hw Hp].
  exists g, k. split; [reflexivity|]. split; [exact Hw|]. split; [exact Hk|].
  intros ->. unfold punct_head in Hp. destruct k; [exact I|exact Hp].
Qed.

Lemma punct_head_app k k' : k <> [] -> punct_head (k ++ k') = punct_head k.
Proof. destruct k; [contradiction|reflexivity]. Qed.

Lemma head_ne (P : N -> bool) k c : P k = false -> P c = true -> N.eqb k c = false.
Proof. intros Hk Hc. apply N.eqb_neq. intros <-. congruence. Qed.

Lemma name_start_not_digit c : is_name_start c = true -> is_digit c = false.
Proof.
  intros H. unfold is_digit. destruct ((48 <=? c) && (c <=? 57)) eqn:E; [|reflexivity].
  apply andb_true_iff in E. destruct E as [E1 E2]. apply N.leb_le in E1, E2.
  unfold is_name_start in H. repeat (apply orb_true_iff in H; destruct H as [H|H]).
  - apply andb_true_iff in H. destruct H as [H _]. apply N.leb_le in H. lia.
  - apply andb_true_iff in H. destruct H as [H _]. apply N.leb_le in H. lia.
  - apply N.eqb_eq in H. lia.
Qed.

Definition int_head (c : N) : bool := N.eqb c 45 || is_digit c.
Lemma int_lexeme_head l : is_int_lexeme l = true -> exists c r, l = c :: r /\ int_head c = true.
Proof.
  destruct l as [|c r]; [discriminate|]. intros H. exists c, r. split; [reflexivity|]. unfold int_head. cbn [is_int_lexeme] in H.
  destruct (N.eqb_spec c 45) as [->|]; [reflexivity|]. cbn [int_body] in H. cbn [orb].
  destruct (N.eqb_spec c 48) as [->|]; [reflexivity|]. apply andb_true_iff in H. destruct H as [H _].
  unfold is_nonzero_digit in H. unfold is_digit. apply andb_true_iff in H. destruct H as [H1 H2].
  apply N.leb_le in H1. rewrite H2, andb_true_r. apply N.leb_le. lia.
Qed.

Lemma name_chars n : is_name n = true -> forallb is_name_cont n = true.
Proof.
  destruct n as [|c r]; [discriminate|]. unfold is_name. intros H. apply andb_true_iff in H. destruct H as [Hc Hr].
  cbn [forallb]. rewrite Hr, andb_true_r. unfold is_name_cont. rewrite Hc. reflexivity.
Qed.

Lemma str_neq_ne a b : str_neq a b = true -> a <> b.
Proof. unfold str_neq. intros H E. subst. rewrite str_eqb_refl in H. discriminate. Qed.

(** the alternatives of Value, by the kind of value *)
Section ValueAlts.
Variables (c : N) (t : str) (i : N).
Notation body := (r_exp (g_rule G R_Value)).

Lemma value_enter (r : res rule) inp j p :
  r = Ok (inp, j, [p]) -> forall txt, runs G true ANon (r_exp (g_rule G R_Value)) txt i r ->
  runs G true ANon (Call R_Value) txt i (Ok (inp, j, [Pair R_Value i j [p]])).
Proof. intros -> txt H. apply (@runs_Call_rec _ G true ANon R_Value); [reflexivity|exact H]. Qed.
End ValueAlts.

Definition value_runs_stmt (v : rval) : Prop := forall rest i, follow_val rest ->
  runs G true ANon (Call R_Value) (render_val v ++ rest) i (Ok (rest, i + slen (render_val v), [val_tree v i])).

Lemma value_var g n : wf_val (RVar g n) = true -> value_runs_stmt (RVar g n).
Proof.
  cbn [wf_val]. intros H rest i Hf. apply andb_true_iff in H. destruct H as [Hg Hn].
  cbn [val_tree render_val]. enter_rec_n R_Value. apply runs_Alt_l. enter_rec_n R_Variable.
  assert (Hlen : i + slen ([36] ++ g ++ n) = i + 1 + slen g + slen n) by (rewrite !slen_app; change (slen [36]) with 1; lia).
  rewrite Hlen. rewrite <- !app_assoc.
  replace [Pair R_Name (i + 1 + slen g) (i + 1 + slen g + slen n) []] with (@nil pr ++ @nil pr ++ [Pair R_Name (i + 1 + slen g) (i + 1 + slen g + slen n) []]) by reflexivity.
  destruct n as [|c r] eqn:En; [discriminate|]. rewrite <- En in *.
  eapply (runs_SeqS_ok gse gse_eq).
  - exact (runs_Lit_ok G true ANon [36] (g ++ n ++ rest) i).
  - change (slen [36]) with 1. apply skip_ws; [exact Hg|]. rewrite En. cbn [app]. apply vstart_token.
    rewrite En in Hn. unfold is_name in Hn. apply andb_true_iff in Hn. destruct Hn as [Hc _]. unfold vstart. rewrite Hc, !orb_true_r. reflexivity.
  - apply name_runs; [exact Hn|apply follow_val_name; exact Hf].
Qed.

Lemma value_int l : wf_val (RInt l) = true -> value_runs_stmt (RInt l).
Proof.
  cbn [wf_val]. intros H rest i Hf. cbn [val_tree render_val].
  destruct (int_lexeme_head l H) as [c [r [E Hc]]].
  enter_rec_n R_Value.
  apply runs_Alt_r; [rewrite E; apply variable_fails; apply (head_ne int_head); [reflexivity|exact Hc]|].
  apply runs_Alt_l. apply int_lex; [exact H|apply follow_val_int; exact Hf].
Qed.

Lemma value_float ip fr ex : wf_val (RFloat ip fr ex) = true -> value_runs_stmt (RFloat ip fr ex).
Proof.
  cbn [wf_val]. intros H rest i Hf. cbn [val_tree render_val].
  destruct (float_lex ip fr ex rest true i H (follow_val_int _ Hf)) as [Hfl Hint].
  assert (Hip : is_int_lexeme ip = true).
  { unfold wf_float in H. apply andb_true_iff in H. destruct H as [H _]. apply andb_true_iff in H. destruct H as [H _].
    apply andb_true_iff in H. tauto. }
  destruct (int_lexeme_head ip Hip) as [c [r [E Hc]]].
  enter_rec_n R_Value.
  apply runs_Alt_r; [rewrite E; apply variable_fails; apply (head_ne int_head); [reflexivity|exact Hc]|].
  apply runs_Alt_r; [exact Hint|].
  apply runs_Alt_l. exact Hfl.
Qed.

Lemma value_str s0 : value_runs_stmt (RStr s0).
Proof.
  intros rest i Hf. cbn [render_val].
  assert (Hpre : forall txt, txt = quote s0 ++ rest ->
            runs G true ANon (Call R_Variable) txt i Fail /\ runs G true ANon (Call R_IntValue) txt i Fail /\ runs G true ANon (Call R_FloatValue) txt i Fail).
  { intros txt ->. unfold quote. cbn [app]. split; [apply variable_fails; reflexivity|].
    split; [apply intvalue_fails; reflexivity|apply floatvalue_fails; reflexivity]. }
  destruct (Hpre _ eq_refl) as [H1 [H2 H3]].
  enter_rec_n R_Value.
  apply runs_Alt_r; [exact H1|]. apply runs_Alt_r; [exact H2|]. apply runs_Alt_r; [exact H3|]. apply runs_Alt_l.
  destruct s0 as [|c s1].
  - cbn [val_tree]. unfold empty_string_tree.
    destruct (string_lex_empty [] rest 0 true ANon (follow_val_quote _ Hf)) as [H _]. cbn [app] in H.
    replace (i + slen (quote [])) with (i + 2) by reflexivity.
    pose proof (string_lex_empty (repeat 0 (N.to_nat i)) rest 0 true ANon (follow_val_quote _ Hf)) as [H' _].
    assert (Hi : slen (repeat 0 (N.to_nat i)) = i) by (unfold slen; rewrite repeat_length; lia).
    rewrite Hi in H'. exact H'.
  - cbn [val_tree].
    pose proof (string_lex_nonempty c s1 (repeat 0 (N.to_nat i)) rest 0 true ANon) as [H' _].
    assert (Hi : slen (repeat 0 (N.to_nat i)) = i) by (unfold slen; rewrite repeat_length; lia).
    rewrite Hi in H'. exact H'.
Qed.

Lemma value_prefix_fails_name c t i : is_name_start c = true ->
  runs G true ANon (Call R_Variable) (c :: t) i Fail /\ runs G true ANon (Call R_IntValue) (c :: t) i Fail /\
  runs G true ANon (Call R_FloatValue) (c :: t) i Fail /\ runs G true ANon (Call R_StringValue) (c :: t) i Fail.
Proof.
  intros H. pose proof (name_start_not_digit c H) as Hd.
  split; [apply variable_fails; apply (head_ne is_name_start); [reflexivity|exact H]|].
  split; [apply intvalue_fails; [apply (head_ne is_name_start); [reflexivity|exact H]|exact Hd]|].
  split; [apply floatvalue_fails; [apply (head_ne is_name_start); [reflexivity|exact H]|exact Hd]|].
  apply stringvalue_fails; apply (head_ne is_name_start); [reflexivity|exact H].
Qed.

Lemma value_bool b : value_runs_stmt (RBool b).
Proof.
  intros rest i Hf. pose proof (follow_val_name _ Hf) as Hn. cbn [val_tree render_val].
  enter_rec_n R_Value.
  destruct b.
  - destruct (value_prefix_fails_name 116 ([114;117;101] ++ rest) i eq_refl) as [H1 [H2 [H3 H4]]].
    apply runs_Alt_r; [exact H1|]. apply runs_Alt_r; [exact H2|]. apply runs_Alt_r; [exact H3|]. apply runs_Alt_r; [exact H4|].
    apply runs_Alt_l. enter_rec_n R_BooleanValue. apply runs_Alt_l.
    exact (keyword_ok R_KEYWORD_true K_true rest true i eq_refl Hn).
  - destruct (value_prefix_fails_name 102 ([97;108;115;101] ++ rest) i eq_refl) as [H1 [H2 [H3 H4]]].
    apply runs_Alt_r; [exact H1|]. apply runs_Alt_r; [exact H2|]. apply runs_Alt_r; [exact H3|]. apply runs_Alt_r; [exact H4|].
    apply runs_Alt_l. enter_rec_n R_BooleanValue.
    apply runs_Alt_r; [eapply keyword_fails_head; [reflexivity|reflexivity]|].
    exact (keyword_ok R_KEYWORD_false K_false rest true i eq_refl Hn).
Qed.

Lemma value_null : value_runs_stmt RNull.
Proof.
  intros rest i Hf. pose proof (follow_val_name _ Hf) as Hn. cbn [val_tree render_val].
  enter_rec_n R_Value.
  destruct (value_prefix_fails_name 110 ([117;108;108] ++ rest) i eq_refl) as [H1 [H2 [H3 H4]]].
  apply runs_Alt_r; [exact H1|]. apply runs_Alt_r; [exact H2|]. apply runs_Alt_r; [exact H3|]. apply runs_Alt_r; [exact H4|].
  apply runs_Alt_r; [apply booleanvalue_fails_head; reflexivity|].
  apply runs_Alt_l. enter_rec_n R_NullValue.
  exact (keyword_ok R_KEYWORD_null K_null rest true i eq_refl Hn).
Qed.

Lemma value_enum n : wf_val (REnum n) = true -> value_runs_stmt (REnum n).
Proof.
  cbn [wf_val]. intros H rest i Hf. pose proof (follow_val_name _ Hf) as Hnc.
  apply andb_true_iff in H. destruct H as [H Hnull]. apply andb_true_iff in H. destruct H as [H Hfalse].
  apply andb_true_iff in H. destruct H as [Hn Htrue].
  apply str_neq_ne in Htrue, Hfalse, Hnull. pose proof (name_chars n Hn) as Hch.
  cbn [val_tree render_val].
  destruct n as [|c r] eqn:En; [discriminate|]. rewrite <- En in *.
  assert (Hc : is_name_start c = true) by (rewrite En in Hn; unfold is_name in Hn; apply andb_true_iff in Hn; tauto).
  assert (Hkt : forall j, runs G true ANon (Call R_KEYWORD_true) (n ++ rest) j Fail) by (intros j; eapply keyword_fails_name; [reflexivity|reflexivity|exact Hch|exact Htrue|exact Hnc]).
  assert (Hkf : forall j, runs G true ANon (Call R_KEYWORD_false) (n ++ rest) j Fail) by (intros j; eapply keyword_fails_name; [reflexivity|reflexivity|exact Hch|exact Hfalse|exact Hnc]).
  assert (Hkn : forall j, runs G true ANon (Call R_KEYWORD_null) (n ++ rest) j Fail) by (intros j; eapply keyword_fails_name; [reflexivity|reflexivity|exact Hch|exact Hnull|exact Hnc]).
  enter_rec_n R_Value.
  assert (Hpre := value_prefix_fails_name c (r ++ rest) i Hc). rewrite En. cbn [app]. destruct Hpre as [H1 [H2 [H3 H4]]].
  apply runs_Alt_r; [exact H1|]. apply runs_Alt_r; [exact H2|]. apply runs_Alt_r; [exact H3|]. apply runs_Alt_r; [exact H4|].
  change (c :: r ++ rest) with ((c :: r) ++ rest). rewrite <- En.
  apply runs_Alt_r; [enter_fail_n R_BooleanValue; apply runs_Alt_r; [apply Hkt|apply Hkf]|].
  apply runs_Alt_r; [enter_fail_n R_NullValue; apply Hkn|].
  apply runs_Alt_l. enter_rec_n R_EnumValue.
  replace [Pair R_Name i (i + slen n) []] with (@nil pr ++ @nil pr ++ [Pair R_Name i (i + slen n) []]) by reflexivity.
  eapply (runs_SeqS_ok gse gse_eq).
  - apply runs_Not_ok. apply runs_Alt_r; [apply Hkt|]. apply runs_Alt_r; [apply Hkf|apply Hkn].
  - apply (skip_ws [] (n ++ rest) i eq_refl). rewrite En. cbn [app]. apply vstart_token. unfold vstart. rewrite Hc, !orb_true_r. reflexivity.
  - change (i + slen []) with (i + 0). rewrite N.add_0_r. apply name_runs; [exact Hn|exact Hnc].
Qed.

(** ** lists *)
Lemma items_text_list T items :
  items_text (map (to_item T) items) = flat_map (fun it => render_val (fst it) ++ snd it) items.
Proof. induction items as [|it r IH]; [reflexivity|]. cbn [map items_text flat_map]. unfold it_text, it_gap, to_item at 1 2. cbn [fst snd]. rewrite IH, <- app_assoc. reflexivity. Qed.

Lemma gaps_text_list items :
  flat_map (fun x : str * str => fst x ++ snd x) (map (fun it : rval * str => (render_val (fst it), snd it)) items)
  = flat_map (fun it => render_val (fst it) ++ snd it) items.
Proof. induction items as [|it r IH]; [reflexivity|]. cbn [map flat_map fst snd]. rewrite IH. reflexivity. Qed.

Lemma gap_ok_ext g k k' : punct_head k = punct_head k' -> gap_ok g k = gap_ok g k'.
Proof. intros H. unfold gap_ok. destruct g; [rewrite H|]; reflexivity. Qed.

Lemma flat_head_token items close rest :
  forallb (fun it => wf_val (fst it)) items = true -> at_token (close ++ rest) ->
  at_token (flat_map (fun it : rval * str => render_val (fst it) ++ snd it) items ++ close ++ rest).
Proof.
  intros Hwf Hc. destruct items as [|it r]; [exact Hc|]. cbn [forallb] in Hwf. apply andb_true_iff in Hwf. destruct Hwf as [Hv _].
  destruct (render_val_head _ Hv) as [c [t [E Hs]]]. cbn [flat_map]. rewrite E. cbn [app]. apply vstart_token; exact Hs.
Qed.

Lemma list_items_ok rest : forall items,
  Forall (fun it => wf_val (fst it) = true -> value_runs_stmt (fst it)) items ->
  forallb (fun it => wf_val (fst it)) items = true ->
  gaps_ok (map (fun it => (render_val (fst it), snd it)) items) [93] = true ->
  items_ok (Call R_Value) [93] rest (map (to_item val_tree) items).
Proof.
  induction items as [|it r IHr]; intros HIH Hwf Hgaps; [exact I|].
  inversion HIH as [|? ? Hv HIHr]; subst. cbn [forallb] in Hwf. apply andb_true_iff in Hwf. destruct Hwf as [Hwv Hwr].
  cbn [map gaps_ok] in Hgaps. apply andb_true_iff in Hgaps. destruct Hgaps as [Hg Hgr].
  cbn [map items_ok]. split; [|apply IHr; assumption].
  rewrite items_text_list. rewrite gaps_text_list in Hg.
  assert (Hktok : at_token (flat_map (fun it => render_val (fst it) ++ snd it) r ++ [93] ++ rest)).
  { apply flat_head_token; [exact Hwr|split; reflexivity]. }
  assert (Hg' : gap_ok (snd it) (flat_map (fun it => render_val (fst it) ++ snd it) r ++ [93] ++ rest) = true).
  { rewrite <- Hg. apply gap_ok_ext. rewrite app_assoc. apply punct_head_app. intros E. apply app_eq_nil in E. destruct E; discriminate. }
  unfold item_ok, it_text, it_gap, it_tree, to_item. cbn [fst snd].
  split; [unfold gap_ok in Hg'; apply andb_true_iff in Hg'; tauto|].
  split.
  - destruct (render_val_head _ Hwv) as [c [t [E Hs]]]. rewrite E. cbn [app]. apply vstart_token; exact Hs.
  - intros i. apply (Hv Hwv). apply follow_of_gap; assumption.
Qed.

Lemma value_prefix_fails_open c t i : (c = 91 \/ c = 123) ->
  runs G true ANon (Call R_Variable) (c :: t) i Fail /\ runs G true ANon (Call R_IntValue) (c :: t) i Fail /\
  runs G true ANon (Call R_FloatValue) (c :: t) i Fail /\ runs G true ANon (Call R_StringValue) (c :: t) i Fail /\
  runs G true ANon (Call R_BooleanValue) (c :: t) i Fail /\ runs G true ANon (Call R_NullValue) (c :: t) i Fail /\
  runs G true ANon (Call R_EnumValue) (c :: t) i Fail.
Proof.
  intros [-> | ->]; (split; [apply variable_fails; reflexivity|]; split; [apply intvalue_fails; reflexivity|];
    split; [apply floatvalue_fails; reflexivity|]; split; [apply stringvalue_fails; reflexivity|];
    split; [apply booleanvalue_fails_head; reflexivity|]; split; [apply nullvalue_fails_head; reflexivity|];
    apply enumvalue_fails; try reflexivity; split; reflexivity).
Qed.

Lemma render_list g0 items : render_val (RListV g0 items) = [91] ++ g0 ++ flat_map (fun it : rval * str => render_val (fst it) ++ snd it) items ++ [93].
Proof. reflexivity. Qed.

Lemma value_list g0 items :
  Forall (fun it => wf_val (fst it) = true -> value_runs_stmt (fst it)) items ->
  wf_val (RListV g0 items) = true -> value_runs_stmt (RListV g0 items).
Proof.
  intros HIH H rest i Hf. cbn [wf_val] in H. apply andb_true_iff in H. destruct H as [H Hgaps].
  apply andb_true_iff in H. destruct H as [Hg0 Hwf].
  pose proof (list_items_ok rest items HIH Hwf Hgaps) as Hok.
  set (body := flat_map (fun it : rval * str => render_val (fst it) ++ snd it) items).
  assert (Htxt : render_val (RListV g0 items) ++ rest = [91] ++ g0 ++ (body ++ [93] ++ rest)).
  { rewrite render_list. fold body. rewrite <- !app_assoc. reflexivity. }
  assert (Hlen : i + slen (render_val (RListV g0 items)) = i + 1 + slen g0 + slen body + 1).
  { rewrite render_list. fold body. rewrite !slen_app. change (slen [91]) with 1. change (slen [93]) with 1. lia. }
  unfold val_tree; fold val_tree. rewrite Hlen, Htxt.
  destruct (value_prefix_fails_open 91 (g0 ++ body ++ [93] ++ rest) i (or_introl eq_refl)) as [H1 [H2 [H3 [H4 [H5 [H6 H7]]]]]].
  enter_rec_n R_Value.
  apply runs_Alt_r; [exact H1|]. apply runs_Alt_r; [exact H2|]. apply runs_Alt_r; [exact H3|]. apply runs_Alt_r; [exact H4|].
  apply runs_Alt_r; [exact H5|]. apply runs_Alt_r; [exact H6|]. apply runs_Alt_r; [exact H7|]. apply runs_Alt_l.
  enter_rec_n R_ListValue.
  assert (Hbtok : at_token (body ++ [93] ++ rest)) by (apply flat_head_token; [exact Hwf|split; reflexivity]).
  destruct items as [|it its].
  - (* "[" g0 "]" *)
    apply runs_Alt_l. cbn [map items_trees]. subst body. cbn [flat_map app slen]. change (slen []) with 0. rewrite N.add_0_r.
    change (@nil pr) with (@nil pr ++ @nil pr ++ @nil pr).
    eapply (runs_SeqS_ok gse gse_eq); [exact (runs_Lit_ok G true ANon [91] (g0 ++ [93] ++ rest) i)|apply skip_ws; [exact Hg0|split; reflexivity]|].
    exact (runs_Lit_ok G true ANon [93] rest (i + slen [91] + slen g0)).
  - apply runs_Alt_r.
    { (* "[" "]" does not match: an item follows *)
      eapply (runs_SeqS_fail2 gse gse_eq); [exact (runs_Lit_ok G true ANon [91] (g0 ++ body ++ [93] ++ rest) i)|apply skip_ws; [exact Hg0|exact Hbtok]|].
      cbn [forallb] in Hwf. apply andb_true_iff in Hwf. destruct Hwf as [Hv _].
      destruct (render_val_head _ Hv) as [c [t [E Hs]]]. subst body. cbn [flat_map]. rewrite E. cbn [app].
      apply runs_Lit_head_fail. apply (head_ne vstart); [reflexivity|exact Hs]. }
    replace (items_trees (map (to_item val_tree) (it :: its)) (i + 1 + slen g0))
      with (@nil pr ++ @nil pr ++ items_trees (map (to_item val_tree) (it :: its)) (i + 1 + slen g0)) by reflexivity.
    eapply (runs_SeqS_ok gse gse_eq); [exact (runs_Lit_ok G true ANon [91] (g0 ++ body ++ [93] ++ rest) i)|apply skip_ws; [exact Hg0|exact Hbtok]|].
    change (slen [91]) with 1.
    pose proof (items_plus_close (Call R_Value) [93] rest (ltac:(split; reflexivity)) (fun j => value_fails 93 rest j eq_refl (ltac:(split; reflexivity)))
                  (to_item val_tree it) (map (to_item val_tree) its) (i + 1 + slen g0) Hok) as Hp.
    change (to_item val_tree it :: map (to_item val_tree) its) with (map (to_item val_tree) (it :: its)) in Hp.
    rewrite items_text_list in Hp. fold body in Hp. change (slen [93]) with 1 in Hp. exact Hp.
Qed.

(** ** name ":" value  (ObjectField, Argument) *)
Lemma ws_colon_not_name_cont ga t : ws ga = true -> not_name_cont_next (ga ++ 58 :: t).
Proof.
  intros Hg. destruct ga as [|c g0]; [reflexivity|]. cbn [app not_name_cont_next].
  cbn [ws forallb] in Hg. apply andb_true_iff in Hg. destruct Hg as [Hc _].
  unfold is_wsc in Hc. repeat (apply orb_true_iff in Hc; destruct Hc as [Hc|Hc]); apply N.eqb_eq in Hc; subst c; reflexivity.
Qed.

Definition nv_text (n ga gb : str) (v : rval) : str := n ++ ga ++ [58] ++ gb ++ render_val v.

Ltac named_value_script r :=
  intros n ga gb v k i Hn Hga Hgb Hwv Hv Hf;
  enter_rec_n r;
  destruct (render_val_head _ Hwv) as [c [t [E Hs]]];
  assert (Htxt : nv_text n ga gb v ++ k = n ++ (ga ++ ([58] ++ (gb ++ (render_val v ++ k))))) by (unfold nv_text; rewrite <- !app_assoc; reflexivity);
  assert (Hlen : i + slen (nv_text n ga gb v) = i + slen n + slen ga + 1 + slen gb + slen (render_val v)) by (unfold nv_text; rewrite !slen_app; change (slen [58]) with 1; lia);
  rewrite Htxt, Hlen;
  replace [Pair R_Name i (i + slen n) []; val_tree v (i + slen n + slen ga + 1 + slen gb)]
    with ([Pair R_Name i (i + slen n) []] ++ @nil pr ++ (@nil pr ++ @nil pr ++ [val_tree v (i + slen n + slen ga + 1 + slen gb)])) by reflexivity;
  eapply (runs_SeqS_ok gse gse_eq);
  [ apply name_runs; [exact Hn|apply ws_colon_not_name_cont; exact Hga]
  | apply skip_ws; [exact Hga|split; reflexivity]
  | eapply (runs_SeqS_ok gse gse_eq);
    [ exact (runs_Lit_ok G true ANon [58] (gb ++ render_val v ++ k) (i + slen n + slen ga))
    | change (slen [58]) with 1; apply skip_ws; [exact Hgb|rewrite E; cbn [app]; apply vstart_token; exact Hs]
    | apply Hv; [exact Hwv|exact Hf] ] ].

Lemma objectfield_runs : forall n ga gb v k i,
  is_name n = true -> ws ga = true -> ws gb = true -> wf_val v = true ->
  (wf_val v = true -> value_runs_stmt v) -> follow_val k ->
  runs G true ANon (Call R_ObjectField) (nv_text n ga gb v ++ k) i
    (Ok (k, i + slen (nv_text n ga gb v),
         [Pair R_ObjectField i (i + slen (nv_text n ga gb v))
            [Pair R_Name i (i + slen n) []; val_tree v (i + slen n + slen ga + 1 + slen gb)]])).
Proof. named_value_script R_ObjectField. Qed.

Lemma argument_runs : forall n ga gb v k i,
  is_name n = true -> ws ga = true -> ws gb = true -> wf_val v = true ->
  (wf_val v = true -> value_runs_stmt v) -> follow_val k ->
  runs G true ANon (Call R_Argument) (nv_text n ga gb v ++ k) i
    (Ok (k, i + slen (nv_text n ga gb v),
         [Pair R_Argument i (i + slen (nv_text n ga gb v))
            [Pair R_Name i (i + slen n) []; val_tree v (i + slen n + slen ga + 1 + slen gb)]])).
Proof. named_value_script R_Argument. Qed.

(** ** objects *)
Notation fld := ((str * str * str) * (rval * str))%type.
Definition fld_text (f : fld) : str := field_text f (render_val (fst (snd f))).

Lemma items_text_fields T (fields : list fld) :
  items_text (map (to_field_item T) fields) = flat_map (fun f => fld_text f ++ snd (snd f)) fields.
Proof. induction fields as [|f r IH]; [reflexivity|]. cbn [map items_text flat_map]. unfold it_text, it_gap, to_field_item at 1 2. cbn [fst snd]. rewrite IH, <- app_assoc. reflexivity. Qed.

Lemma gaps_text_fields (fields : list fld) :
  flat_map (fun x : str * str => fst x ++ snd x) (map (fun f : fld => (fld_text f, snd (snd f))) fields)
  = flat_map (fun f => fld_text f ++ snd (snd f)) fields.
Proof. induction fields as [|f r IH]; [reflexivity|]. cbn [map flat_map fst snd]. rewrite IH. reflexivity. Qed.

Definition fld_ok (f : fld) : bool := is_name (fst (fst (fst f))) && ws (snd (fst (fst f))) && ws (snd (fst f)).

Lemma fld_head f : fld_ok f = true -> exists c t, fld_text f = c :: t /\ is_name_start c = true.
Proof.
  destruct f as [[[n ga] gb] [v gc]]. unfold fld_ok, fld_text, field_text. cbn [fst snd]. intros H.
  apply andb_true_iff in H. destruct H as [H _]. apply andb_true_iff in H. destruct H as [H _].
  destruct n as [|c r]; [discriminate|]. exists c, (r ++ ga ++ [58] ++ gb ++ render_val v). split; [reflexivity|].
  unfold is_name in H. apply andb_true_iff in H. tauto.
Qed.

Lemma name_start_token c t : is_name_start c = true -> at_token (c :: t).
Proof. intros H. apply vstart_token. unfold vstart. rewrite H, !orb_true_r. reflexivity. Qed.

Lemma fields_head_token (fields : list fld) close rest :
  forallb fld_ok fields = true -> at_token (close ++ rest) ->
  at_token (flat_map (fun f : fld => fld_text f ++ snd (snd f)) fields ++ close ++ rest).
Proof.
  intros Hok Hc. destruct fields as [|f r]; [exact Hc|]. cbn [forallb] in Hok. apply andb_true_iff in Hok. destruct Hok as [Hf _].
  destruct (fld_head f Hf) as [c [t [E Hs]]]. cbn [flat_map]. rewrite E. cbn [app]. apply name_start_token; exact Hs.
Qed.

Lemma objectfield_fails c t i : is_name_start c = false -> runs G true ANon (Call R_ObjectField) (c :: t) i Fail.
Proof. intros H. enter_fail_n R_ObjectField. apply (runs_SeqS_fail1 gse gse_eq). apply name_fails; exact H. Qed.

Lemma field_items_ok rest : forall fields : list fld,
  Forall (fun f : fld => wf_val (fst (snd f)) = true -> value_runs_stmt (fst (snd f))) fields ->
  forallb (fun f : fld => wf_val (fst (snd f))) fields = true ->
  forallb fld_ok fields = true ->
  gaps_ok (map (fun f : fld => (fld_text f, snd (snd f))) fields) [125] = true ->
  items_ok (Call R_ObjectField) [125] rest (map (to_field_item val_tree) fields).
Proof.
  induction fields as [|f r IHr]; intros HIH Hwf Hok Hgaps; [exact I|].
  inversion HIH as [|? ? Hv HIHr]; subst. cbn [forallb] in Hwf, Hok.
  apply andb_true_iff in Hwf. destruct Hwf as [Hwv Hwr]. apply andb_true_iff in Hok. destruct Hok as [Hfo Hro].
  cbn [map gaps_ok] in Hgaps. apply andb_true_iff in Hgaps. destruct Hgaps as [Hg Hgr].
  cbn [map items_ok]. split; [|apply IHr; assumption].
  rewrite items_text_fields. rewrite gaps_text_fields in Hg.
  assert (Hktok : at_token (flat_map (fun f : fld => fld_text f ++ snd (snd f)) r ++ [125] ++ rest)).
  { apply fields_head_token; [exact Hro|split; reflexivity]. }
  assert (Hg' : gap_ok (snd (snd f)) (flat_map (fun f : fld => fld_text f ++ snd (snd f)) r ++ [125] ++ rest) = true).
  { rewrite <- Hg. apply gap_ok_ext. rewrite app_assoc. apply punct_head_app. intros E. apply app_eq_nil in E. destruct E; discriminate. }
  destruct (fld_head f Hfo) as [c [t [E Hs]]].
  destruct f as [[[n ga] gb] [v gc]]. unfold item_ok, it_text, it_gap, it_tree, to_field_item, fld_text, field_text in *. cbn [fst snd] in *.
  unfold fld_ok in Hfo. cbn [fst snd] in Hfo. apply andb_true_iff in Hfo. destruct Hfo as [Hfo Hgb]. apply andb_true_iff in Hfo. destruct Hfo as [Hn Hga].
  split; [unfold gap_ok in Hg'; apply andb_true_iff in Hg'; tauto|].
  split; [rewrite E; cbn [app]; apply name_start_token; exact Hs|].
  intros i. exact (objectfield_runs n ga gb v _ i Hn Hga Hgb Hwv Hv (follow_of_gap _ _ Hg' Hktok)).
Qed.

Lemma render_obj g0 (fields : list fld) : render_val (RObj g0 fields) = [123] ++ g0 ++ flat_map (fun f : fld => fld_text f ++ snd (snd f)) fields ++ [125].
Proof. reflexivity. Qed.

Lemma value_obj g0 (fields : list fld) :
  Forall (fun f : fld => wf_val (fst (snd f)) = true -> value_runs_stmt (fst (snd f))) fields ->
  wf_val (RObj g0 fields) = true -> value_runs_stmt (RObj g0 fields).
Proof.
  intros HIH H rest i Hf. cbn [wf_val] in H. apply andb_true_iff in H. destruct H as [H Hgaps].
  apply andb_true_iff in H. destruct H as [H Hok]. apply andb_true_iff in H. destruct H as [Hg0 Hwf].
  change (forallb (fun f : fld => is_name (fst (fst (fst f))) && ws (snd (fst (fst f))) && ws (snd (fst f))) fields) with (forallb fld_ok fields) in Hok.
  change (map (fun f : fld => (field_text f (render_val (fst (snd f))), snd (snd f))) fields) with (map (fun f : fld => (fld_text f, snd (snd f))) fields) in Hgaps.
  pose proof (field_items_ok rest fields HIH Hwf Hok Hgaps) as Hiok.
  set (body := flat_map (fun f : fld => fld_text f ++ snd (snd f)) fields).
  assert (Htxt : render_val (RObj g0 fields) ++ rest = [123] ++ g0 ++ (body ++ [125] ++ rest)).
  { rewrite render_obj. fold body. rewrite <- !app_assoc. reflexivity. }
  assert (Hlen : i + slen (render_val (RObj g0 fields)) = i + 1 + slen g0 + slen body + 1).
  { rewrite render_obj. fold body. rewrite !slen_app. change (slen [123]) with 1. change (slen [125]) with 1. lia. }
  unfold val_tree; fold val_tree. rewrite Hlen, Htxt.
  destruct (value_prefix_fails_open 123 (g0 ++ body ++ [125] ++ rest) i (or_intror eq_refl)) as [H1 [H2 [H3 [H4 [H5 [H6 H7]]]]]].
  enter_rec_n R_Value.
  apply runs_Alt_r; [exact H1|]. apply runs_Alt_r; [exact H2|]. apply runs_Alt_r; [exact H3|]. apply runs_Alt_r; [exact H4|].
  apply runs_Alt_r; [exact H5|]. apply runs_Alt_r; [exact H6|]. apply runs_Alt_r; [exact H7|].
  apply runs_Alt_r; [apply listvalue_fails; reflexivity|].
  enter_rec_n R_ObjectValue.
  assert (Hbtok : at_token (body ++ [125] ++ rest)) by (apply fields_head_token; [exact Hok|split; reflexivity]).
  destruct fields as [|f fs].
  - apply runs_Alt_l. cbn [map items_trees]. subst body. cbn [flat_map app slen]. change (slen []) with 0. rewrite N.add_0_r.
    change (@nil pr) with (@nil pr ++ @nil pr ++ @nil pr).
    eapply (runs_SeqS_ok gse gse_eq); [exact (runs_Lit_ok G true ANon [123] (g0 ++ [125] ++ rest) i)|apply skip_ws; [exact Hg0|split; reflexivity]|].
    exact (runs_Lit_ok G true ANon [125] rest (i + slen [123] + slen g0)).
  - apply runs_Alt_r.
    { eapply (runs_SeqS_fail2 gse gse_eq); [exact (runs_Lit_ok G true ANon [123] (g0 ++ body ++ [125] ++ rest) i)|apply skip_ws; [exact Hg0|exact Hbtok]|].
      cbn [forallb] in Hok. apply andb_true_iff in Hok. destruct Hok as [Hf0 _].
      destruct (fld_head f Hf0) as [c [t [E Hs]]]. subst body. cbn [flat_map]. rewrite E. cbn [app].
      apply runs_Lit_head_fail. apply (head_ne is_name_start); [reflexivity|exact Hs]. }
    replace (items_trees (map (to_field_item val_tree) (f :: fs)) (i + 1 + slen g0))
      with (@nil pr ++ @nil pr ++ items_trees (map (to_field_item val_tree) (f :: fs)) (i + 1 + slen g0)) by reflexivity.
    eapply (runs_SeqS_ok gse gse_eq); [exact (runs_Lit_ok G true ANon [123] (g0 ++ body ++ [125] ++ rest) i)|apply skip_ws; [exact Hg0|exact Hbtok]|].
    change (slen [123]) with 1.
    pose proof (items_plus_close (Call R_ObjectField) [125] rest (ltac:(split; reflexivity)) (fun j => objectfield_fails 125 rest j eq_refl)
                  (to_field_item val_tree f) (map (to_field_item val_tree) fs) (i + 1 + slen g0) Hiok) as Hp.
    change (to_field_item val_tree f :: map (to_field_item val_tree) fs) with (map (to_field_item val_tree) (f :: fs)) in Hp.
    rewrite items_text_fields in Hp. fold body in Hp. change (slen [125]) with 1 in Hp. exact Hp.
Qed.

(** parse direction of the round trip for values *)
Theorem value_runs : forall v, wf_val v = true -> value_runs_stmt v.
Proof.
  induction v using rval_ind2; intros Hwf.
  - apply value_var; exact Hwf.
  - apply value_int; exact Hwf.
  - apply value_float; exact Hwf.
  - apply value_str.
  - apply value_bool.
  - apply value_null.
  - apply value_enum; exact Hwf.
  - apply value_list; assumption.
  - apply value_obj; assumption.
Qed.

(** ** the builder on value trees *)
Inductive aval :=
| AVar (n : str) | AInt (l : str) | AFloat (l : str) | AStr (v : str) | ABool (b : bool) | ANull | AEnum (n : str)
| AListV (l : list aval) | AObj (l : list (str * aval)).

Fixpoint erase_rval (v : rval) : aval :=
  match v with
  | RVar _ n => AVar n | RInt l => AInt l | RFloat a b c => AFloat (a ++ b ++ c) | RStr s0 => AStr s0
  | RBool b => ABool b | RNull => ANull | REnum n => AEnum n
  | RListV _ items => AListV (map (fun it => erase_rval (fst it)) items)
  | RObj _ fields => AObj (map (fun f : fld => (fst (fst (fst f)), erase_rval (fst (snd f)))) fields)
  end.

Fixpoint val_erase (v : value) : aval :=
  match v with
  | VVar n _ => AVar n | VInt _ l => AInt l | VFloat _ l => AFloat l | VString _ s0 => AStr s0
  | VBool _ b => ABool b | VNull _ => ANull | VEnum _ e => AEnum e
  | VList _ vs => AListV (map val_erase vs)
  | VObject _ fs => AObj (map (fun kv => (iname (fst kv), val_erase (snd kv))) fs)
  end.

Definition build_ok (v : rval) : Prop := forall pre rest file,
  exists v', build_value (pre ++ render_val v ++ rest) file (val_tree v (slen pre)) = BOk v' /\ val_erase v' = erase_rval v.

Lemma substr_mid' pre x y i : i = slen pre -> substr (pre ++ x ++ y) i (i + slen x) = x.
Proof. intros ->. apply substr_mid. Qed.

Lemma build_leaf_var g n : build_ok (RVar g n).
Proof.
  intros pre rest file. eexists. split; [cbn [val_tree build_value build_variable only_child pair_kids bbind]; reflexivity|].
  cbn [val_erase erase_rval fst]. f_equal. unfold as_str. cbn [pair_start pair_end render_val].
  replace (slen pre + slen ([36] ++ g ++ n)) with (slen pre + 1 + slen g + slen n) by (rewrite !slen_app; change (slen [36]) with 1; lia).
  replace (pre ++ ([36] ++ g ++ n) ++ rest) with ((pre ++ [36] ++ g) ++ n ++ rest) by (rewrite <- !app_assoc; reflexivity).
  apply substr_mid'. rewrite !slen_app. change (slen [36]) with 1. lia.
Qed.

Lemma build_leaf_int l : build_ok (RInt l).
Proof.
  intros pre rest file. eexists. split; [cbn [val_tree build_value]; reflexivity|].
  cbn [val_erase erase_rval]. f_equal. unfold as_str. cbn [pair_start pair_end render_val]. apply substr_mid.
Qed.
Lemma build_leaf_float a b c : build_ok (RFloat a b c).
Proof.
  intros pre rest file. eexists. split; [cbn [val_tree build_value]; reflexivity|].
  cbn [val_erase erase_rval]. f_equal. unfold as_str. cbn [pair_start pair_end render_val]. apply substr_mid.
Qed.
Lemma build_leaf_enum n : build_ok (REnum n).
Proof.
  intros pre rest file. eexists. split; [cbn [val_tree build_value]; reflexivity|].
  cbn [val_erase erase_rval]. f_equal. unfold as_str. cbn [pair_start pair_end render_val]. apply substr_mid.
Qed.
Lemma build_leaf_bool b : build_ok (RBool b).
Proof. intros pre rest file. destruct b; eexists; (split; [cbn [val_tree build_value only_child pair_kids pair_rule]; reflexivity|reflexivity]). Qed.
Lemma build_leaf_null : build_ok RNull.
Proof. intros pre rest file. eexists. split; [cbn [val_tree build_value]; reflexivity|reflexivity]. Qed.
Lemma build_leaf_str s0 : build_ok (RStr s0).
Proof.
  intros pre rest file. destruct s0 as [|c s1].
  - eexists. split; [cbn [val_tree build_value]; unfold empty_string_tree; cbn; reflexivity|reflexivity].
  - destruct (string_lex_nonempty c s1 pre rest file true ANon) as [_ Hb]. cbv zeta in Hb.
    eexists. split; [cbn [val_tree build_value render_val]; rewrite Hb; cbn [bbind fst snd]; reflexivity|reflexivity].
Qed.

Lemma val_tree_rule v i : pair_rule (val_tree v i) = R_Value.
Proof. destruct v; reflexivity. Qed.

Lemma list_kids_rule : forall items i, forallb (is_rule R_Value) (items_trees (map (to_item val_tree) items) i) = true.
Proof.
  induction items as [|it r IH]; intros i; [reflexivity|]. cbn [map items_trees]. unfold it_tree, to_item at 1. cbn [snd app forallb].
  unfold is_rule at 1. rewrite val_tree_rule. cbn [rule_eqb]. rewrite IH. reflexivity.
Qed.

Lemma items_trees_cons_list T (it : rval * str) r i :
  items_trees (map (to_item T) (it :: r)) i
  = T (fst it) i :: items_trees (map (to_item T) r) (i + slen (render_val (fst it)) + slen (snd it)).
Proof. reflexivity. Qed.

Lemma build_items file : forall items, Forall (fun it : rval * str => build_ok (fst it)) items ->
  forall pre rest, exists vs,
    mapM (build_value (pre ++ flat_map (fun it : rval * str => render_val (fst it) ++ snd it) items ++ rest) file)
         (items_trees (map (to_item val_tree) items) (slen pre)) = BOk vs
    /\ map val_erase vs = map (fun it => erase_rval (fst it)) items.
Proof.
  induction items as [|it r IH]; intros Hall pre rest; [exists []; split; reflexivity|].
  inversion Hall as [|? ? Hv Hr]; subst.
  rewrite items_trees_cons_list. cbn [flat_map].
  assert (Hinp : pre ++ ((render_val (fst it) ++ snd it) ++ flat_map (fun it : rval * str => render_val (fst it) ++ snd it) r) ++ rest
                 = pre ++ render_val (fst it) ++ (snd it ++ flat_map (fun it : rval * str => render_val (fst it) ++ snd it) r ++ rest)).
  { rewrite <- !app_assoc. reflexivity. }
  destruct (Hv pre (snd it ++ flat_map (fun it : rval * str => render_val (fst it) ++ snd it) r ++ rest) file) as [v' [Hb He]].
  assert (Hinp2 : pre ++ ((render_val (fst it) ++ snd it) ++ flat_map (fun it : rval * str => render_val (fst it) ++ snd it) r) ++ rest
                 = (pre ++ render_val (fst it) ++ snd it) ++ flat_map (fun it : rval * str => render_val (fst it) ++ snd it) r ++ rest).
  { rewrite <- !app_assoc. reflexivity. }
  destruct (IH Hr (pre ++ render_val (fst it) ++ snd it) rest) as [vs [Hbs Hes]].
  exists (v' :: vs). split; [|cbn [map]; rewrite He, Hes; reflexivity].
  rewrite mapM_cons. rewrite Hinp, Hb. rewrite <- Hinp, Hinp2.
  replace (slen pre + slen (render_val (fst it)) + slen (snd it)) with (slen (pre ++ render_val (fst it) ++ snd it)) by (rewrite !slen_app; lia).
  rewrite Hbs. reflexivity.
Qed.

Lemma build_list g0 items : Forall (fun it : rval * str => build_ok (fst it)) items -> build_ok (RListV g0 items).
Proof.
  intros Hall pre rest file.
  assert (Hinp : pre ++ render_val (RListV g0 items) ++ rest
                 = (pre ++ [91] ++ g0) ++ flat_map (fun it : rval * str => render_val (fst it) ++ snd it) items ++ ([93] ++ rest)).
  { rewrite render_list. rewrite <- !app_assoc. reflexivity. }
  destruct (build_items file items Hall (pre ++ [91] ++ g0) ([93] ++ rest)) as [vs [Hb He]].
  eexists. split.
  - unfold val_tree; fold val_tree. cbn [build_value]. rewrite list_kids_rule.
    replace (slen pre + 1 + slen g0) with (slen (pre ++ [91] ++ g0)) by (rewrite !slen_app; change (slen [91]) with 1; lia).
    rewrite Hinp, Hb. cbn [bbind]. reflexivity.
  - cbn [val_erase erase_rval]. rewrite He. reflexivity.
Qed.

Lemma fields_trees_cons T (f : fld) r i :
  items_trees (map (to_field_item T) (f :: r)) i
  = Pair R_ObjectField i (i + slen (fld_text f))
      [Pair R_Name i (i + slen (fst (fst (fst f)))) [];
       T (fst (snd f)) (i + slen (fst (fst (fst f))) + slen (snd (fst (fst f))) + 1 + slen (snd (fst f)))]
    :: items_trees (map (to_field_item T) r) (i + slen (fld_text f) + slen (snd (snd f))).
Proof. reflexivity. Qed.

Lemma field_kids_rule : forall (fields : list fld) i, forallb (is_rule R_ObjectField) (items_trees (map (to_field_item val_tree) fields) i) = true.
Proof. induction fields as [|f r IH]; intros i; [reflexivity|]. rewrite fields_trees_cons. cbn [forallb]. rewrite IH. reflexivity. Qed.

Lemma slot_req_hit {A} r p rest (k : pr -> list pr -> bres A) : is_rule r p = true -> slot_req r (p :: rest) k = k p rest.
Proof. intros H. unfold slot_req. rewrite H. reflexivity. Qed.
Lemma is_rule_val_tree v i : is_rule R_Value (val_tree v i) = true.
Proof. unfold is_rule. rewrite val_tree_rule. reflexivity. Qed.

Definition build_field_fn inp file (f : pr) : bres (ident * value) :=
  match f with
  | Pair _ _ _ fk =>
      slot_req R_Name fk (fun name fk0 => slot_req R_Value fk0 (fun v _ => bbind (build_value inp file v) (fun bv => BOk (to_ident inp file name, bv))))
  end.

Lemma build_fields file : forall fields : list fld, Forall (fun f : fld => build_ok (fst (snd f))) fields ->
  forall pre rest, exists kvs,
    mapM (build_field_fn (pre ++ flat_map (fun f : fld => fld_text f ++ snd (snd f)) fields ++ rest) file)
         (items_trees (map (to_field_item val_tree) fields) (slen pre)) = BOk kvs
    /\ map (fun kv => (iname (fst kv), val_erase (snd kv))) kvs = map (fun f : fld => (fst (fst (fst f)), erase_rval (fst (snd f)))) fields.
Proof.
  induction fields as [|f r IH]; intros Hall pre rest; [exists []; split; reflexivity|].
  inversion Hall as [|? ? Hv Hr]; subst.
  rewrite fields_trees_cons. cbn [flat_map].
  destruct f as [[[n ga] gb] [v gc]]. unfold fld_text, field_text in *. cbn [fst snd] in *.
  set (flat := flat_map (fun f : fld => (fst (fst (fst f)) ++ snd (fst (fst f)) ++ [58] ++ snd (fst f) ++ render_val (fst (snd f))) ++ snd (snd f)) r) in *.
  assert (Hinp : pre ++ (((n ++ ga ++ [58] ++ gb ++ render_val v) ++ gc) ++ flat) ++ rest
                 = (pre ++ n ++ ga ++ [58] ++ gb) ++ render_val v ++ (gc ++ flat ++ rest)).
  { rewrite <- !app_assoc. reflexivity. }
  destruct (Hv (pre ++ n ++ ga ++ [58] ++ gb) (gc ++ flat ++ rest) file) as [v' [Hb He]].
  assert (Hinp2 : pre ++ (((n ++ ga ++ [58] ++ gb ++ render_val v) ++ gc) ++ flat) ++ rest
                 = (pre ++ (n ++ ga ++ [58] ++ gb ++ render_val v) ++ gc) ++ flat ++ rest).
  { rewrite <- !app_assoc. reflexivity. }
  destruct (IH Hr (pre ++ (n ++ ga ++ [58] ++ gb ++ render_val v) ++ gc) rest) as [kvs [Hbs Hes]].
  assert (Hname : as_str (pre ++ (((n ++ ga ++ [58] ++ gb ++ render_val v) ++ gc) ++ flat) ++ rest) (Pair R_Name (slen pre) (slen pre + slen n) []) = n).
  { unfold as_str. cbn [pair_start pair_end].
    replace (pre ++ (((n ++ ga ++ [58] ++ gb ++ render_val v) ++ gc) ++ flat) ++ rest) with (pre ++ n ++ (ga ++ [58] ++ gb ++ render_val v ++ gc ++ flat ++ rest)) by (rewrite <- !app_assoc; reflexivity).
    apply substr_mid. }
  eexists ((_, v') :: kvs). split.
  - rewrite mapM_cons. unfold build_field_fn at 1. rewrite (slot_req_hit R_Name) by reflexivity. rewrite (slot_req_hit R_Value) by apply is_rule_val_tree.
    replace (slen pre + slen n + slen ga + 1 + slen gb) with (slen (pre ++ n ++ ga ++ [58] ++ gb)) by (rewrite !slen_app; change (slen [58]) with 1; lia).
    rewrite Hinp, Hb. cbn [bbind]. rewrite <- Hinp, Hinp2.
    replace (slen pre + slen (n ++ ga ++ [58] ++ gb ++ render_val v) + slen gc) with (slen (pre ++ (n ++ ga ++ [58] ++ gb ++ render_val v) ++ gc)) by (rewrite !slen_app; lia).
    rewrite Hbs. reflexivity.
  - cbn [map fst snd to_ident iname]. rewrite <- Hinp2, Hname, He, Hes. reflexivity.
Qed.

Lemma build_obj g0 (fields : list fld) : Forall (fun f : fld => build_ok (fst (snd f))) fields -> build_ok (RObj g0 fields).
Proof.
  intros Hall pre rest file.
  assert (Hinp : pre ++ render_val (RObj g0 fields) ++ rest
                 = (pre ++ [123] ++ g0) ++ flat_map (fun f : fld => fld_text f ++ snd (snd f)) fields ++ ([125] ++ rest)).
  { rewrite render_obj. rewrite <- !app_assoc. reflexivity. }
  destruct (build_fields file fields Hall (pre ++ [123] ++ g0) ([125] ++ rest)) as [kvs [Hb He]].
  eexists. split.
  - unfold val_tree; fold val_tree. cbn [build_value]. rewrite field_kids_rule.
    replace (slen pre + 1 + slen g0) with (slen (pre ++ [123] ++ g0)) by (rewrite !slen_app; change (slen [123]) with 1; lia).
    rewrite Hinp. unfold build_field_fn in Hb. rewrite Hb. cbn [bbind]. reflexivity.
  - cbn [val_erase erase_rval]. rewrite He. reflexivity.
Qed.

Theorem build_value_ok : forall v, build_ok v.
Proof.
  induction v using rval_ind2.
  - apply build_leaf_var. - apply build_leaf_int. - apply build_leaf_float. - apply build_leaf_str.
  - apply build_leaf_bool. - apply build_leaf_null. - apply build_leaf_enum.
  - apply build_list; assumption. - apply build_obj; assumption.
Qed.

(** parse_render for values: trivia assignment explicit in [rval] *)
Theorem parse_render_value : forall v pre rest file, wf_val v = true -> follow_val rest ->
  let inp := pre ++ render_val v ++ rest in
  let i := slen pre in
  runs G true ANon (Call R_Value) (render_val v ++ rest) i (Ok (rest, i + slen (render_val v), [val_tree v i]))
  /\ exists v', build_value inp file (val_tree v i) = BOk v' /\ val_erase v' = erase_rval v.
Proof.
  intros v pre rest file Hwf Hf inp i. split; [apply value_runs; assumption|apply build_value_ok].
Qed.
