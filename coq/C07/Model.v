(** C07 — model of nitrogql's parser (crates/parser/src/parser/mod.rs): pest on the translated grammar
    (Peg.v over Gen/C07_grammar_gen.v) followed by the builder (Builder.v).  Definitions only. *)
From V Require Import Base.Util Gql.Ast Peg.Peg Gen.C07_grammar_gen C07.Builder.

(** RawParser::parse(rule, text): the pair tree, [Fail] = Err(pest error), [OutOfFuel] never for the
    fuel chosen in Peg.default_fuel (checked on every correspondence case) *)
Definition parse_pairs (start : rule) (inp : str) : outcome (list (pair rule)) := parse gql_grammar start inp.

Inductive presult (A : Type) := POk (x : A) | PErr | PPanic (k : N) | PFuel.
Arguments POk {A}. Arguments PErr {A}. Arguments PPanic {A}. Arguments PFuel {A}.

Definition of_bres {A} (r : bres A) : presult A :=
  match r with BOk x => POk x | BPanic k => PPanic k end.

(** parser/mod.rs validate_string_values: every NormalStringValue pair of the tree (pre-order, as Pairs::flatten),
    decoded once before building; the first invalid unicode escape makes the parse an error *)
Inductive vres := VOk | VErr | VPanic (k : N).
Fixpoint validate_pair (inp : str) (p : pair rule) : vres :=
  match p with
  | Pair r _ _ kids =>
      let self :=
        match r with
        | R_NormalStringValue =>
            match decode_string_characters inp p with DOk _ => VOk | DErr _ => VErr | DPanic k => VPanic k end
        | _ => VOk
        end in
      match self with
      | VOk => (fix go (l : list (pair rule)) : vres :=
                  match l with
                  | [] => VOk
                  | x :: l' => match validate_pair inp x with VOk => go l' | e => e end
                  end) kids
      | e => e
      end
  end.
Fixpoint validate_string_values (inp : str) (ps : list (pair rule)) : vres :=
  match ps with
  | [] => VOk
  | p :: r => match validate_pair inp p with VOk => validate_string_values inp r | e => e end
  end.

Definition after_validation {A} (inp : str) (ps : list (pair rule)) (build : presult A) : presult A :=
  match validate_string_values inp ps with VOk => build | VErr => PErr | VPanic k => PPanic k end.

(** parse_operation_document / parse_type_system_document; [file] is ast::current_file's thread-local *)
Definition parse_operation_document (file : N) (inp : str) : presult opdoc :=
  match parse_pairs R_ExecutableDocument inp with
  | Ok ps => after_validation inp ps (of_bres (build_operation_document inp file ps))
  | Fail => PErr
  | OutOfFuel => PFuel
  end.

Definition parse_type_system_document (file : N) (inp : str) : presult tsdoc :=
  match parse_pairs R_TypeSystemExtensionDocument inp with
  | Ok ps => after_validation inp ps (of_bres (build_type_system_document inp file ps))
  | Fail => PErr
  | OutOfFuel => PFuel
  end.
