(** C07 — model of nitrogql's parser front end: pest on the translated grammar. (Builder in Builder.v.) *)
From V Require Import Base.Util Peg.Peg Gen.C07_grammar_gen.

Definition parse_pairs (start : rule) (inp : str) : outcome (list (pair rule)) := parse gql_grammar start inp.
