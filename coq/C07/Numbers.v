(** C07 — proofs, part 4: int_lex (numbers verbatim, render direction).  Every integer lexeme of the
    specification, of any length, followed by something an integer token may be followed by, is lexed by
    the translated grammar as one IntValue pair over exactly that text. *)
From V Require Import Base.Util Gql.Ast Peg.Peg Peg.PegProps Gen.C07_grammar_gen C07.Builder C07.Model C07.Spec C07.Proofs C07.Lexical C07.Strings.
Local Open Scope N_scope.
Notation G := gql_grammar.

Ltac enter_silent r a :=
  apply (@runs_Call_silent _ G _ a r); [reflexivity|];
  let sk := eval vm_compute in (body_sk G r) in change (body_sk G r) with sk;
  let ab := eval vm_compute in (body_atomicity G r a) in change (body_atomicity G r a) with ab;
  expose_body r.

(** an IntValue lexeme of the specification: -? ( 0 | NonZeroDigit Digit* ) *)
Definition is_nonzero_digit (c : N) : bool := (49 <=? c) && (c <=? 57).
Definition int_body (l : str) : bool :=
  match l with
  | [] => false
  | c :: ds => if N.eqb c 48 then (match ds with [] => true | _ :: _ => false end)
               else is_nonzero_digit c && forallb is_digit ds
  end.
Definition is_int_lexeme (l : str) : bool :=
  match l with
  | c :: r => if N.eqb c 45 then int_body r else int_body l
  | [] => false
  end.

(** what may follow an integer token (specification: not a digit, not ".", not a NameStart) *)
Definition int_follow_ok (post : str) : bool :=
  match post with d :: _ => negb (is_digit d || N.eqb d 46 || is_name_start d) | [] => true end.

Lemma span_digits ds post :
  forallb is_digit ds = true -> match post with d :: _ => is_digit d = false | [] => True end ->
  span is_digit (ds ++ post) = (ds, post).
Proof.
  induction ds as [|c ds IH]; intros Hd Hp; cbn [app span].
  - destruct post as [|d post']; [reflexivity|]. cbn [span]. rewrite Hp. reflexivity.
  - cbn [forallb] in Hd. apply andb_true_iff in Hd. destruct Hd as [Hc Hds]. rewrite Hc, (IH Hds Hp). reflexivity.
Qed.

Lemma class_digit a : is_class G a (Range (R:=rule) 48 57) is_digit.
Proof. apply class_Range. Qed.

Lemma int_body_runs l post i :
  int_body l = true -> int_follow_ok post = true ->
  runs G false AAtomic (Alt (Lit [48]) (Seq (Range 49 57) (Star (Range (R:=rule) 48 57)))) (l ++ post) i
    (Ok (post, i + slen l, [])).
Proof.
  intros Hl Hp.
  assert (Hpd : match post with d :: _ => is_digit d = false | [] => True end).
  { destruct post as [|d p]; [exact I|]. cbn [int_follow_ok] in Hp. apply negb_true_iff in Hp.
    apply orb_false_iff in Hp. destruct Hp as [Hp _]. apply orb_false_iff in Hp. tauto. }
  destruct l as [|c ds]; [discriminate|]. cbn [int_body] in Hl.
  destruct (N.eqb_spec c 48) as [->|Hc0].
  - destruct ds as [|d ds']; [|discriminate].
    apply runs_Alt_l. exact (runs_Lit_ok G false AAtomic [48] post i).
  - pose proof Hl as Hl'.
    apply andb_true_iff in Hl'. destruct Hl' as [Hnz Hds].
    apply runs_Alt_r.
    { apply runs_Lit_head_fail. apply N.eqb_neq. congruence. }
    change (@nil pr) with (@nil pr ++ @nil pr).
    pose proof (seq_class_star (class_Range G AAtomic 49 57) (class_digit AAtomic)) as H.
    intros fuel. specialize (H fuel ((c :: ds) ++ post) i). cbn [app] in H.
    unfold is_nonzero_digit in Hnz. rewrite Hnz in H. rewrite (span_digits _ _ Hds Hpd) in H. cbn [fst snd] in H.
    replace (i + slen (c :: ds)) with (i + 1 + N.of_nat (length ds)) by (unfold slen; cbn [length]; lia).
    exact H.
Qed.

Lemma int_follow_not_dot_name post : int_follow_ok post = true ->
  runs G false AAtomic (NotP (Alt (Lit [46]) (Call R_NameStart))) post 0 (Ok (post, 0, [])) /\
  forall i, runs G false AAtomic (NotP (Alt (Lit [46]) (Call R_NameStart))) post i (Ok (post, i, [])).
Proof.
  intros Hp.
  assert (H : forall i, runs G false AAtomic (NotP (Alt (Lit [46]) (Call R_NameStart))) post i (Ok (post, i, []))).
  { intros i. apply runs_Not_ok.
    destruct post as [|d p].
    - apply runs_Alt_r; [apply runs_Lit_nil_fail|]. exact (runs_class [] i class_NameStart).
    - cbn [int_follow_ok] in Hp. apply negb_true_iff in Hp. apply orb_false_iff in Hp. destruct Hp as [Hp Hns].
      apply orb_false_iff in Hp. destruct Hp as [_ Hdot].
      apply runs_Alt_r; [apply runs_Lit_head_fail; rewrite N.eqb_sym; exact Hdot|].
      pose proof (runs_class (d :: p) i class_NameStart) as Hc. cbn [class_result] in Hc. rewrite Hns in Hc. exact Hc. }
  split; [apply H|exact H].
Qed.

(** int_lex: an integer lexeme of the specification, followed by something an integer token may be
    followed by, is lexed as one IntValue token with exactly that text *)
Theorem int_lex : forall l post sk i,
  is_int_lexeme l = true -> int_follow_ok post = true ->
  runs G sk ANon (Call R_IntValue) (l ++ post) i (Ok (post, i + slen l, [Pair R_IntValue i (i + slen l) []])).
Proof.
  intros l post sk i Hl Hp.
  enter_rec R_IntValue ANon.
  change (@nil pr) with (@nil pr ++ @nil pr).
  eapply runs_Seq_ok; [|apply (proj2 (int_follow_not_dot_name _ Hp))].
  enter_silent R_IntegerPart AAtomic.
  destruct l as [|c r]; [discriminate|]. cbn [is_int_lexeme] in Hl.
  destruct (N.eqb_spec c 45) as [->|Hc].
  - (* leading minus *)
    change (@nil pr) with (@nil pr ++ @nil pr).
    replace (i + slen (45 :: r)) with (i + slen [45] + slen r) by (unfold slen; cbn [length]; lia).
    eapply runs_Seq_ok; [apply runs_Opt_some; exact (runs_Lit_ok G false AAtomic [45] (r ++ post) i)|].
    apply int_body_runs; assumption.
  - change (@nil pr) with (@nil pr ++ @nil pr).
    eapply runs_Seq_ok; [apply runs_Opt_none; apply runs_Lit_head_fail; apply N.eqb_neq; congruence|].
    apply int_body_runs; assumption.
Qed.

(** the specification's number lexer reads the same lexeme *)
Example int_lex_examples :
  map is_int_lexeme [s "0"; s "-0"; s "7"; s "-12"; s "1234567890123456789012"; s "01"; s "-"; s ""; s "1a"]
  = [true; true; true; true; true; false; false; false; false].
Proof. vm_compute. reflexivity. Qed.
