(** C07 — proofs, part 6: child-sequence shapes of the translated grammar against the way every builder
    of crates/parser/src/parser/builder/*.rs (as mirrored in Builder.v) reads the children of a pair.
    For builder-C08 (`builder_shapes_ok`): [pattern_of] is the table of patterns, [builder_shapes_ok] says
    that for every pair of every parse tree of every input the children are accepted by the pattern's
    automaton, i.e. no `parts!` / `only_child` / `all_children` / "Unexpected rule" panic site can be
    reached because of the *shape* of a tree pest produces from this grammar.  (Linking automaton
    acceptance to the continuation-passing slot_req/slot_opt code of Builder.v is a separate, purely
    syntactic step.)  Recomputed from the grammar on every check. *)
From V Require Import Base.Util Peg.Peg Peg.PegProps Peg.PegShape Gen.C07_grammar_gen C07.Builder C07.Model C07.Lexical.

Notation G := gql_grammar.

Inductive pattern :=
| PAny                                   (* children are not inspected by rule (or there are none) *)
| PParts (slots : list (bool * rule))    (* parts!(…): (true, r) = `r opt` *)
| PAll (r : rule)                        (* all_children(r) *)
| POnly (allowed : list rule)            (* only_child(), then a match on the child's rule *)
| POnlyAny                               (* only_child(), any rule *)
| PHeadAll (h r : rule).                 (* first child h, every other child r (build_implements_interfaces) *)

Definition opt (r : rule) := (true, r).
Definition req (r : rule) := (false, r).

Definition type_def_slots (kw : rule) (tail : list (bool * rule)) : list (bool * rule) :=
  opt R_Description :: req kw :: req R_Name :: tail.
Definition type_ext_slots (kw : rule) (tail : list (bool * rule)) : list (bool * rule) :=
  req R_KEYWORD_extend :: req kw :: req R_Name :: tail.

Definition pattern_of (r : rule) : pattern :=
  match r with
  (* builder.rs, operation.rs *)
  | R_ExecutableDefinition => POnly [R_OperationDefinition; R_FragmentDefinition; R_ext_ImportStatement]
  | R_OperationDefinition => PParts [opt R_OperationType; opt R_Name; opt R_VariablesDefinition; opt R_Directives; req R_SelectionSet]
  | R_FragmentDefinition => PParts [req R_KEYWORD_fragment; req R_FragmentName; req R_TypeCondition; opt R_Directives; req R_SelectionSet]
  | R_ext_ImportStatement => POnly [R_ext_ImportStatementContent]
  | R_ext_ImportStatementContent => PParts [req R_ext_KEYWORD_import; req R_ext_ImportTargets; req R_ext_KEYWORD_from; req R_StringValue]
  | R_TypeCondition => PParts [req R_KEYWORD_on; req R_NamedType]
  | R_VariablesDefinition => PAll R_VariableDefinition
  | R_VariableDefinition => PParts [req R_Variable; req R_Type; opt R_DefaultValue; opt R_Directives]
  | R_Variable => POnlyAny
  | R_DefaultValue => POnly [R_Value]
  (* selection_set.rs *)
  | R_SelectionSet => PAll R_Selection
  | R_Selection => POnly [R_Field; R_FragmentSpread; R_InlineFragment]
  | R_Field => PParts [opt R_Alias; req R_Name; opt R_Arguments; opt R_Directives; opt R_SelectionSet]
  | R_Alias => POnlyAny
  | R_FragmentSpread => PParts [req R_FragmentName; opt R_Directives]
  | R_InlineFragment => PParts [opt R_TypeCondition; opt R_Directives; req R_SelectionSet]
  (* value.rs, directives.rs, type.rs *)
  | R_Value => POnly [R_Variable; R_IntValue; R_FloatValue; R_StringValue; R_BooleanValue; R_NullValue; R_EnumValue; R_ListValue; R_ObjectValue]
  | R_BooleanValue => POnly [R_KEYWORD_true; R_KEYWORD_false]
  | R_ListValue => PAll R_Value
  | R_ObjectValue => PAll R_ObjectField
  | R_ObjectField => PParts [req R_Name; req R_Value]
  | R_StringValue => POnly [R_EmptyStringValue; R_BlockStringValue; R_NormalStringValue]
  | R_NormalStringValue => PAll R_StringCharacter
  | R_StringCharacter => POnly [R_EscapedUnicodeBrace; R_EscapedUnicode4; R_EscapedCharacter; R_NormalStringCharacter]
  | R_EscapedUnicodeBrace => POnlyAny
  | R_Arguments => PAll R_Argument
  | R_Argument => PParts [req R_Name; req R_Value]
  | R_Directives => PAll R_Directive
  | R_Directive => PParts [req R_Name; opt R_Arguments]
  | R_Type => POnly [R_NonNullType; R_ListType; R_NamedType]
  | R_NonNullType => POnly [R_NamedType; R_ListType]
  | R_ListType => POnly [R_Type]
  | R_NamedType => POnlyAny
  (* type_system/mod.rs *)
  | R_TypeSystemDefinitionOrExtension => POnly [R_TypeSystemDefinition; R_TypeSystemExtension]
  | R_TypeSystemDefinition => POnly [R_SchemaDefinition; R_TypeDefinition; R_DirectiveDefinition]
  | R_TypeSystemExtension => POnly [R_SchemaExtension; R_TypeExtension]
  | R_SchemaDefinition => PParts [opt R_Description; req R_KEYWORD_schema; opt R_Directives; req R_RootOperationTypeDefinitions]
  | R_SchemaExtension => PParts [req R_KEYWORD_extend; req R_KEYWORD_schema; opt R_Directives; opt R_RootOperationTypeDefinitions]
  | R_RootOperationTypeDefinitions => PAll R_RootOperationTypeDefinition
  | R_RootOperationTypeDefinition => PParts [req R_OperationType; req R_NamedType]
  | R_Description => POnly [R_StringValue]
  | R_DirectiveDefinition => PParts [opt R_Description; req R_KEYWORD_directive; req R_Name; opt R_ArgumentsDefinition;
                                     opt R_KEYWORD_repeatable; req R_KEYWORD_on; req R_DirectiveLocations]
  | R_DirectiveLocations => PAll R_DirectiveLocation
  (* type_definition.rs *)
  | R_TypeDefinition => POnly [R_ScalarTypeDefinition; R_ObjectTypeDefinition; R_InterfaceTypeDefinition; R_UnionTypeDefinition;
                               R_EnumTypeDefinition; R_InputObjectTypeDefinition]
  | R_ScalarTypeDefinition => PParts (type_def_slots R_KEYWORD_scalar [opt R_Directives])
  | R_ObjectTypeDefinition => PParts (type_def_slots R_KEYWORD_type [opt R_ImplementsInterfaces; opt R_Directives; opt R_FieldsDefinition])
  | R_InterfaceTypeDefinition => PParts (type_def_slots R_KEYWORD_interface [opt R_ImplementsInterfaces; opt R_Directives; opt R_FieldsDefinition])
  | R_UnionTypeDefinition => PParts (type_def_slots R_KEYWORD_union [opt R_Directives; opt R_UnionMemberTypes])
  | R_EnumTypeDefinition => PParts (type_def_slots R_KEYWORD_enum [opt R_Directives; opt R_EnumValuesDefinition])
  | R_InputObjectTypeDefinition => PParts (type_def_slots R_KEYWORD_input [opt R_Directives; opt R_InputFieldsDefinition])
  | R_ImplementsInterfaces => PHeadAll R_KEYWORD_implements R_NamedType
  | R_UnionMemberTypes => PAll R_NamedType
  | R_FieldsDefinition => PAll R_FieldDefinition
  | R_FieldDefinition => PParts [opt R_Description; req R_Name; opt R_ArgumentsDefinition; req R_Type; opt R_Directives]
  | R_ArgumentsDefinition => PAll R_InputValueDefinition
  | R_InputFieldsDefinition => PAll R_InputValueDefinition
  | R_InputValueDefinition => PParts [opt R_Description; req R_Name; req R_Type; opt R_DefaultValue; opt R_Directives]
  | R_EnumValuesDefinition => PAll R_EnumValueDefinition
  | R_EnumValueDefinition => PParts [opt R_Description; req R_EnumValue; opt R_Directives]
  (* type_extension.rs *)
  | R_TypeExtension => POnly [R_ScalarTypeExtension; R_ObjectTypeExtension; R_InterfaceTypeExtension; R_UnionTypeExtension;
                              R_EnumTypeExtension; R_InputObjectTypeExtension]
  | R_ScalarTypeExtension => PParts (type_ext_slots R_KEYWORD_scalar [opt R_Directives])
  | R_ObjectTypeExtension => PParts (type_ext_slots R_KEYWORD_type [opt R_ImplementsInterfaces; opt R_Directives; opt R_FieldsDefinition])
  | R_InterfaceTypeExtension => PParts (type_ext_slots R_KEYWORD_interface [opt R_ImplementsInterfaces; opt R_Directives; opt R_FieldsDefinition])
  | R_UnionTypeExtension => PParts (type_ext_slots R_KEYWORD_union [opt R_Directives; opt R_UnionMemberTypes])
  | R_EnumTypeExtension => PParts (type_ext_slots R_KEYWORD_enum [opt R_Directives; opt R_EnumValuesDefinition])
  | R_InputObjectTypeExtension => PParts (type_ext_slots R_KEYWORD_input [opt R_Directives; opt R_InputFieldsDefinition])
  (* documents (children filtered by rule), leaves, pairs whose children no builder looks at *)
  | _ => PAny
  end.

Definition in_rules (l : list rule) (r : rule) : bool := existsb (rule_eqb r) l.

(** first child h, then every child r: 0 -h-> 1 -r-> 1, anything else -> 2 *)
Definition head_all_step (h r0 : rule) (s : nat) (r : rule) : nat :=
  match s with
  | O => if rule_eqb r h then 1%nat else 2%nat
  | S O => if rule_eqb r r0 then 1%nat else 2%nat
  | _ => 2%nat
  end.

Definition pat_step (p : pattern) : nat -> rule -> nat :=
  match p with
  | PAny => fun s _ => s
  | PParts slots => parts_step rule_eqb slots
  | PAll r0 => all_step rule_eqb r0
  | POnly allowed => only_step (in_rules allowed)
  | POnlyAny => only_step (fun _ => true)
  | PHeadAll h r0 => head_all_step h r0
  end.
Definition pat_accept (p : pattern) : nat -> bool :=
  match p with
  | PAny => fun _ => true
  | PParts slots => parts_accept slots
  | PAll _ => all_accept
  | POnly _ | POnlyAny => only_accept
  | PHeadAll _ _ => Nat.eqb 1
  end.

(** the children [w] (rule names, left to right) are read without a shape panic *)
Definition accepts (p : pattern) (w : list rule) : bool := pat_accept p (dfa_run (pat_step p) 0%nat w).

Definition shape_K : nat := 12.     (* inlining depth for silent rules *)
Definition post_N : nat := 8.       (* rounds allowed for a Kleene star to close *)

Definition rule_check (r : rule) (a : atomicity) : bool :=
  shape_check G shape_K post_N (pat_step (pattern_of r)) (pat_accept (pattern_of r)) r a.

Lemma all_rules_checked : forall r a, rule_records G r a = true -> rule_check r a = true.
Proof. intros r a. destruct r; destruct a; vm_compute; intro H; first [reflexivity | discriminate H]. Qed.

(** for every input, every start rule, every pair of the tree: the pair's children are accepted by the
    pattern with which the builder of that rule reads them *)
Theorem builder_shapes_ok : forall inp start ps r s e kids,
  parse_pairs start inp = Ok ps ->
  in_forest (Pair r s e kids) ps ->
  accepts (pattern_of r) (rules_of kids) = true.
Proof.
  intros inp start ps r s e kids Hparse Hin. unfold accepts.
  eapply (@shape_check_sound rule G shape_K post_N (pat_step (pattern_of r)) (pat_accept (pattern_of r)) inp r s e kids).
  - exact (parse_pairs_replay _ _ _ _ Hparse Hin).
  - intros a Hrec. exact (all_rules_checked r a Hrec).
Qed.

(** non-vacuity: the automata do reject wrong child sequences *)
Example parts_rejects_missing_selection_set :
  accepts (pattern_of R_OperationDefinition) [R_OperationType; R_Name] = false.
Proof. vm_compute. reflexivity. Qed.
Example parts_accepts_shorthand :
  accepts (pattern_of R_OperationDefinition) [R_SelectionSet] = true.
Proof. vm_compute. reflexivity. Qed.
Example only_rejects_two : accepts (pattern_of R_Value) [R_IntValue; R_IntValue] = false.
Proof. vm_compute. reflexivity. Qed.
Example all_rejects_other : accepts (pattern_of R_SelectionSet) [R_Selection; R_Field] = false.
Proof. vm_compute. reflexivity. Qed.
Example union_without_members_shape : accepts (pattern_of R_UnionTypeDefinition) [R_KEYWORD_union; R_Name] = true.
Proof. vm_compute. reflexivity. Qed.
