(** C07 — proofs, part 12b: the validation pass (validate_string_values, since /repo a4a3647) on the pair trees of the
    parse_render theorems: every NormalStringValue pair in them decodes, so the pass returns Ok. *)
From V Require Import Base.Util Gql.Ast Peg.Peg Peg.PegProps Gen.C07_grammar_gen C07.Builder C07.Model C07.Spec C07.Proofs C07.Lexical C07.Strings C07.Numbers C07.Render C07.RenderValues C07.RenderArgs C07.RenderDirs.
Local Open Scope N_scope.

Definition valid (inp : str) (p : pr) : Prop := validate_pair inp p = VOk.

Lemma validate_kids inp : forall l, Forall (valid inp) l ->
  (fix go (l0 : list pr) : vres :=
     match l0 with [] => VOk | x :: l' => match validate_pair inp x with VOk => go l' | e => e end end) l = VOk.
Proof. induction l as [|p r IH]; intros H; [reflexivity|]. inversion H as [|? ? Hp Hr]; subst. rewrite Hp. apply IH; exact Hr. Qed.

Lemma valid_node inp r s e kids : r <> R_NormalStringValue -> Forall (valid inp) kids -> valid inp (Pair r s e kids).
Proof.
  intros Hr Hk. unfold valid. cbn [validate_pair].
  destruct r; try (apply validate_kids; exact Hk). contradiction.
Qed.

Lemma valid_nsv inp s e kids v : decode_chars inp kids None = DOk v -> Forall (valid inp) kids -> valid inp (Pair R_NormalStringValue s e kids).
Proof.
  intros Hd Hk. unfold valid. cbn [validate_pair]. unfold decode_string_characters. cbn [pair_kids]. rewrite Hd.
  apply validate_kids; exact Hk.
Qed.

Lemma char_pairs_valid inp : forall v i, Forall (valid inp) (char_pairs v i).
Proof.
  induction v as [|c v IH]; intros i; [constructor|]. cbn [char_pairs]. constructor; [|apply IH].
  apply valid_node; [discriminate|]. constructor; [|constructor]. apply valid_node; [unfold kind; destruct (esc_of c); discriminate|constructor].
Qed.

Lemma string_tree_valid c v pre rest : valid (pre ++ quote (c :: v) ++ rest) (string_tree (c :: v) (slen pre)).
Proof.
  unfold string_tree. apply valid_node; [discriminate|]. constructor; [|constructor].
  assert (Hinp : pre ++ quote (c :: v) ++ rest = (pre ++ [34]) ++ encs (c :: v) ++ (34 :: rest)).
  { unfold quote. rewrite <- !app_assoc. cbn [app]. rewrite <- app_assoc. reflexivity. }
  apply (valid_nsv _ _ _ _ (c :: v)); [|apply char_pairs_valid].
  replace (slen pre + 1) with (slen (pre ++ [34])) by (rewrite slen_app; reflexivity).
  rewrite Hinp. apply build_chars.
Qed.

(** item lists: validity of each item's pairs in any surroundings gives validity of the list's pairs *)
Definition item_valid (it : item) : Prop :=
  forall pre rest, Forall (valid (pre ++ it_text it ++ it_gap it ++ rest)) (it_tree it (slen pre)).

Lemma items_valid : forall its, Forall item_valid its ->
  forall pre rest, Forall (valid (pre ++ items_text its ++ rest)) (items_trees its (slen pre)).
Proof.
  induction its as [|it r IH]; intros Hall pre rest; [constructor|].
  inversion Hall as [|? ? Hit Hr]; subst. cbn [items_text items_trees]. apply Forall_app. split.
  - replace (pre ++ (it_text it ++ it_gap it ++ items_text r) ++ rest) with (pre ++ it_text it ++ it_gap it ++ (items_text r ++ rest)) by (rewrite <- !app_assoc; reflexivity).
    apply Hit.
  - replace (pre ++ (it_text it ++ it_gap it ++ items_text r) ++ rest) with ((pre ++ it_text it ++ it_gap it) ++ items_text r ++ rest) by (rewrite <- !app_assoc; reflexivity).
    replace (slen pre + slen (it_text it) + slen (it_gap it)) with (slen (pre ++ it_text it ++ it_gap it)) by (rewrite !slen_app; lia).
    apply IH; exact Hr.
Qed.

(** values *)
Definition val_valid (v : rval) : Prop := forall pre rest, valid (pre ++ render_val v ++ rest) (val_tree v (slen pre)).

Lemma leaf_valid inp r s e : r <> R_NormalStringValue -> valid inp (Pair r s e []).
Proof. intros H. apply valid_node; [exact H|constructor]. Qed.

Theorem value_valid : forall v, val_valid v.
Proof.
  apply rval_ind2.
  - intros g n pre rest. cbn [val_tree]. apply valid_node; [discriminate|]. constructor; [|constructor].
    apply valid_node; [discriminate|]. constructor; [|constructor]. apply leaf_valid; discriminate.
  - intros l pre rest. cbn [val_tree]. apply valid_node; [discriminate|]. constructor; [|constructor]. apply leaf_valid; discriminate.
  - intros a b c pre rest. cbn [val_tree]. apply valid_node; [discriminate|]. constructor; [|constructor]. apply leaf_valid; discriminate.
  - intros s0 pre rest. cbn [val_tree]. apply valid_node; [discriminate|]. constructor; [|constructor].
    destruct s0 as [|c s0]; [|cbn [render_val]; apply string_tree_valid].
    unfold empty_string_tree. apply valid_node; [discriminate|]. constructor; [|constructor]. apply leaf_valid; discriminate.
  - intros b pre rest. cbn [val_tree]. apply valid_node; [discriminate|]. constructor; [|constructor].
    apply valid_node; [discriminate|]. constructor; [|constructor]. apply leaf_valid; destruct b; discriminate.
  - intros pre rest. cbn [val_tree]. apply valid_node; [discriminate|]. constructor; [|constructor].
    apply valid_node; [discriminate|]. constructor; [|constructor]. apply leaf_valid; discriminate.
  - intros n pre rest. cbn [val_tree]. apply valid_node; [discriminate|]. constructor; [|constructor].
    apply valid_node; [discriminate|]. constructor; [|constructor]. apply leaf_valid; discriminate.
  - intros g0 items IH pre rest. cbn [val_tree]. apply valid_node; [discriminate|]. constructor; [|constructor].
    apply valid_node; [discriminate|].
    assert (Hits : Forall item_valid (map (to_item val_tree) items)).
    { apply Forall_forall. intros it Hin. apply in_map_iff in Hin. destruct Hin as [x [<- Hx]]. rewrite Forall_forall in IH.
      intros pre' rest'. unfold it_text, it_gap, it_tree, to_item. cbn [fst snd]. constructor; [|constructor]. apply (IH x Hx). }
    pose proof (items_valid _ Hits (pre ++ [91] ++ g0) ([93] ++ rest)) as H.
    rewrite items_text_list in H. rewrite render_list.
    replace (pre ++ ([91] ++ g0 ++ flat_map (fun it : rval * str => render_val (fst it) ++ snd it) items ++ [93]) ++ rest)
      with ((pre ++ [91] ++ g0) ++ flat_map (fun it : rval * str => render_val (fst it) ++ snd it) items ++ [93] ++ rest) by (rewrite <- !app_assoc; reflexivity).
    replace (slen pre + 1 + slen g0) with (slen (pre ++ [91] ++ g0)) by (rewrite !slen_app; change (slen [91]) with 1; lia).
    exact H.
  - intros g0 fields IH pre rest. cbn [val_tree]. apply valid_node; [discriminate|]. constructor; [|constructor].
    apply valid_node; [discriminate|].
    assert (Hits : Forall item_valid (map (to_field_item val_tree) fields)).
    { apply Forall_forall. intros it Hin. apply in_map_iff in Hin. destruct Hin as [f [<- Hf]]. rewrite Forall_forall in IH.
      intros pre' rest'. destruct f as [[[n ga] gb] [v gc]]. unfold it_text, it_gap, it_tree, to_field_item, field_text. cbn [fst snd].
      constructor; [|constructor]. apply valid_node; [discriminate|]. constructor; [apply leaf_valid; discriminate|]. constructor; [|constructor].
      replace (pre' ++ (n ++ ga ++ [58] ++ gb ++ render_val v) ++ gc ++ rest') with ((pre' ++ n ++ ga ++ [58] ++ gb) ++ render_val v ++ (gc ++ rest')) by (rewrite <- !app_assoc; reflexivity).
      replace (slen pre' + slen n + slen ga + 1 + slen gb) with (slen (pre' ++ n ++ ga ++ [58] ++ gb)) by (rewrite !slen_app; change (slen [58]) with 1; lia).
      apply (IH _ Hf). }
    pose proof (items_valid _ Hits (pre ++ [123] ++ g0) ([125] ++ rest)) as H.
    rewrite items_text_fields in H. rewrite render_obj.
    replace (pre ++ ([123] ++ g0 ++ flat_map (fun f : fld => fld_text f ++ snd (snd f)) fields ++ [125]) ++ rest)
      with ((pre ++ [123] ++ g0) ++ flat_map (fun f : fld => fld_text f ++ snd (snd f)) fields ++ [125] ++ rest) by (rewrite <- !app_assoc; reflexivity).
    replace (slen pre + 1 + slen g0) with (slen (pre ++ [123] ++ g0)) by (rewrite !slen_app; change (slen [123]) with 1; lia).
    exact H.
Qed.

(** arguments *)
Lemma args_tree_valid g0 args pre rest : valid (pre ++ render_args g0 args ++ rest) (args_tree g0 args (slen pre)).
Proof.
  unfold args_tree. apply valid_node; [discriminate|].
  assert (Hits : Forall item_valid (map (to_arg_item val_tree) args)).
  { apply Forall_forall. intros it Hin. apply in_map_iff in Hin. destruct Hin as [f [<- Hf]].
    intros pre' rest'. destruct f as [[[n ga] gb] [v gc]]. unfold it_text, it_gap, it_tree, to_arg_item, field_text. cbn [fst snd].
    constructor; [|constructor]. apply valid_node; [discriminate|]. constructor; [apply leaf_valid; discriminate|]. constructor; [|constructor].
    replace (pre' ++ (n ++ ga ++ [58] ++ gb ++ render_val v) ++ gc ++ rest') with ((pre' ++ n ++ ga ++ [58] ++ gb) ++ render_val v ++ (gc ++ rest')) by (rewrite <- !app_assoc; reflexivity).
    replace (slen pre' + slen n + slen ga + 1 + slen gb) with (slen (pre' ++ n ++ ga ++ [58] ++ gb)) by (rewrite !slen_app; change (slen [58]) with 1; lia).
    apply value_valid. }
  pose proof (items_valid _ Hits (pre ++ [40] ++ g0) ([41] ++ rest)) as H.
  rewrite items_text_args in H. fold (args_body args) in H.
  replace (pre ++ render_args g0 args ++ rest) with ((pre ++ [40] ++ g0) ++ args_body args ++ [41] ++ rest) by (unfold render_args; rewrite <- !app_assoc; reflexivity).
  replace (slen pre + 1 + slen g0) with (slen (pre ++ [40] ++ g0)) by (rewrite !slen_app; change (slen [40]) with 1; lia).
  exact H.
Qed.

(** directives *)
Lemma rdir_tree_valid d pre rest : valid (pre ++ rdir_text d ++ rest) (rdir_tree d (slen pre)).
Proof.
  destruct d as [g n w|g n ga g0 args w]; cbn [rdir_tree rdir_text].
  - apply valid_node; [discriminate|]. constructor; [apply leaf_valid; discriminate|constructor].
  - apply valid_node; [discriminate|]. constructor; [apply leaf_valid; discriminate|]. constructor; [|constructor].
    replace (pre ++ dir_text1 g n ga g0 args ++ rest) with ((pre ++ [64] ++ g ++ n ++ ga) ++ render_args g0 args ++ rest) by (unfold dir_text1; rewrite <- !app_assoc; reflexivity).
    replace (slen pre + 1 + slen g + slen n + slen ga) with (slen (pre ++ [64] ++ g ++ n ++ ga)) by (rewrite !slen_app; change (slen [64]) with 1; lia).
    apply args_tree_valid.
Qed.

Lemma dirs_trees_valid ds pre rest : Forall (valid (pre ++ dirs_text ds ++ rest)) (items_trees (map rdir_item ds) (slen pre)).
Proof.
  apply items_valid. apply Forall_forall. intros it Hin. apply in_map_iff in Hin. destruct Hin as [d [<- Hd]].
  intros pre' rest'. unfold it_text, it_gap, it_tree, rdir_item. cbn [fst snd]. constructor; [|constructor]. apply rdir_tree_valid.
Qed.

Lemma directives_pair_valid ds pre rest e :
  valid (pre ++ dirs_text ds ++ rest) (Pair R_Directives (slen pre) e (items_trees (map rdir_item ds) (slen pre))).
Proof. apply valid_node; [discriminate|apply dirs_trees_valid]. Qed.

(** types: no strings inside *)
Fixpoint no_nsv (p : pr) : bool :=
  match p with
  | Pair r _ _ kids => negb (rule_eqb r R_NormalStringValue) && (fix all (l : list pr) : bool := match l with [] => true | x :: l' => no_nsv x && all l' end) kids
  end.
Lemma no_nsv_valid inp : forall p, no_nsv p = true -> valid inp p.
Proof.
  fix IH 1. intros [r s e kids] H. cbn [no_nsv] in H. apply andb_true_iff in H. destruct H as [Hr Hk].
  apply valid_node; [intros ->; discriminate|].
  induction kids as [|x l IHl]; [constructor|]. apply andb_true_iff in Hk. destruct Hk as [Hx Hl]. constructor; [apply IH; exact Hx|apply IHl; exact Hl].
Qed.

Lemma core_tree_no_nsv : forall t i, no_nsv (core_tree t i) = true.
Proof.
  induction t as [n|g1 t IH g2|t IH g]; intros i; cbn [core_tree].
  - reflexivity.
  - cbn [no_nsv]. destruct t as [n'|g1' t' g2'|t' g']; cbn [negb andb rule_eqb]; try (rewrite IH; reflexivity).
    cbn [no_nsv]. cbn [core_tree] in IH. rewrite IH. reflexivity.
  - apply IH.
Qed.

Lemma ty_tree_valid inp t i : valid inp (ty_tree t i).
Proof.
  apply no_nsv_valid. rewrite ty_tree_inner. unfold inner_tree. cbn [no_nsv].
  destruct t as [n|g1 t' g2|t' g]; cbn [negb andb rule_eqb no_nsv]; rewrite ?core_tree_no_nsv; reflexivity.
Qed.
