(** C07 — proofs, part 2: the lexical layer of the *translated* grammar (Gen/C07_grammar_gen.v is
    regenerated from grammar.pest on every check, so these proofs are re-checked against the grammar as
    it is now) and what it implies, for every input, about the Name pairs of pest's tree and the
    identifiers the builder makes from them. *)
From V Require Import Base.Util Gql.Ast Peg.Peg Peg.PegProps Gen.C07_grammar_gen C07.Builder C07.Model C07.Spec C07.Proofs.

Local Open Scope N_scope.
Notation G := gql_grammar.

(** replaces the body of a concrete rule by its value in the generated grammar *)
Ltac expose_body r :=
  let e := eval vm_compute in (r_exp (g_rule G r)) in change (r_exp (g_rule G r)) with e.

Lemma class_NameStart : is_class G AAtomic (Call R_NameStart) is_name_start.
Proof.
  eapply is_class_ext; [|apply class_Call; [reflexivity|reflexivity|]].
  2: { change (body_atomicity G R_NameStart AAtomic) with AAtomic. expose_body R_NameStart.
       repeat first [apply class_Alt | apply class_Range | apply class_Lit1]. }
  intros c. cbv beta. unfold is_name_start. rewrite (N.eqb_sym 95 c).
  destruct (97 <=? c), (c <=? 122), (65 <=? c), (c <=? 90), (c =? 95); reflexivity.
Qed.

Lemma class_NameContinue : is_class G AAtomic (Call R_NameContinue) is_name_cont.
Proof.
  eapply is_class_ext; [|apply class_Call; [reflexivity|reflexivity|]].
  2: { change (body_atomicity G R_NameContinue AAtomic) with AAtomic. expose_body R_NameContinue.
       repeat first [apply class_Alt | apply class_Range | apply class_Lit1]. }
  intros c. cbv beta. unfold is_name_cont, is_name_start, is_digit. rewrite (N.eqb_sym 95 c).
  destruct (97 <=? c), (c <=? 122), (65 <=? c), (c <=? 90), (c =? 95), (48 <=? c), (c <=? 57); reflexivity.
Qed.

(** the body of rule Name, whatever the fuel: out of fuel, or exactly
    "one NameStart character followed by the longest run of NameContinue characters", no pairs *)
Lemma name_body_spec : forall fuel inp i,
  run G fuel false AAtomic (r_exp (g_rule G R_Name)) inp i = OutOfFuel \/
  run G fuel false AAtomic (r_exp (g_rule G R_Name)) inp i =
    match inp with
    | c :: rest =>
        if is_name_start c
        then Ok (snd (span is_name_cont rest), i + 1 + N.of_nat (length (fst (span is_name_cont rest))), [])
        else Fail
    | [] => Fail
    end.
Proof.
  expose_body R_Name. apply seq_class_star; [apply class_NameStart|apply class_NameContinue].
Qed.

Lemma prefix_rest_app : forall n v, prefix_rest n (n ++ v) = Some v.
Proof. induction n as [|c n IH]; intros v; cbn; [reflexivity|]. rewrite N.eqb_refl. apply IH. Qed.

Lemma firstn_app_exact {A} (u v : list A) : firstn (length u) (u ++ v) = u.
Proof. induction u as [|x u IH]; cbn; [reflexivity|]. rewrite IH. reflexivity. Qed.

Lemma parse_pairs_unfold start inp : parse_pairs start inp = parse_with G (default_fuel inp) start inp.
Proof. reflexivity. Qed.

(** every pair of the tree the model's parser returns is replayable (PegProps.parse_replay) *)
Lemma parse_pairs_replay inp start ps p :
  parse_pairs start inp = Ok ps -> in_forest p ps -> replayable G inp p.
Proof. intros Hparse Hin. rewrite parse_pairs_unfold in Hparse. exact (parse_replay _ _ _ _ Hparse Hin). Qed.

Lemma name_pair_run inp s e kids :
  replayable G inp (Pair R_Name s e kids) ->
  (exists f, run G f false AAtomic (r_exp (g_rule G R_Name)) (skipn (N.to_nat s) inp) s
             = Ok (skipn (N.to_nat e) inp, e, kids))
  /\ s <= e /\ (N.to_nat e <= length inp)%nat.
Proof.
  intros Hrep. cbn [replayable] in Hrep. destruct Hrep as [f [a [Hrun [_ Hb]]]]. split; [exists f; exact Hrun|exact Hb].
Qed.

Lemma name_start_not_terminator c : is_name_start c = true -> is_lt c = false.
Proof.
  intros H. unfold is_lt. apply orb_false_iff.
  split; apply N.eqb_neq; intros ->; vm_compute in H; discriminate.
Qed.

Lemma at_pos_spec inp file off (f : str -> bool) :
  no_lone_cr inp = true -> (N.to_nat off <= length inp)%nat ->
  not_at_terminator (skipn (N.to_nat off) inp) ->
  at_pos inp file (mkPos (fst (spec_line_col inp off)) (snd (spec_line_col inp off)) file false) f
  = f (skipn (N.to_nat off) inp).
Proof.
  intros Hcr Hlen Hnt. unfold at_pos. cbn [pfile pbuiltin pline pcol]. rewrite N.eqb_refl.
  rewrite (text_at_spec_line_col _ _ Hcr Hlen Hnt). reflexivity.
Qed.

(** ** every Name pair of the tree, on every input *)
Theorem name_pairs_true : forall inp start ps file s e kids,
  parse_pairs start inp = Ok ps ->
  in_forest (Pair R_Name s e kids) ps ->
  let p := Pair R_Name s e kids in
  kids = [] /\
  name_at (skipn (N.to_nat s) inp) (iname (to_ident inp file p)) = true /\
  (no_lone_cr inp = true ->
   ipos (to_ident inp file p) = mkPos (fst (spec_line_col inp s)) (snd (spec_line_col inp s)) file false
   /\ ck_ident inp file (to_ident inp file p) = true).
Proof.
  intros inp start ps file s e kids Hparse Hin p.
  destruct (name_pair_run _ _ _ _ (parse_pairs_replay _ _ _ _ Hparse Hin)) as [[f Hrun] [Hse Hlen]].
  destruct (name_body_spec f (skipn (N.to_nat s) inp) s) as [E|E]; rewrite E in Hrun; [discriminate|].
  destruct (skipn (N.to_nat s) inp) as [|c rest] eqn:Esk; [discriminate|].
  destruct (is_name_start c) eqn:Hc; [|discriminate].
  destruct (span is_name_cont rest) as [u v] eqn:Esp. cbn [fst snd] in Hrun.
  inversion Hrun as [[Hv He Hk]]. clear Hrun.
  destruct (span_spec _ _ Esp) as [Hrest [Hu Hvhd]].
  split; [reflexivity|].
  assert (Hstr : as_str inp p = c :: u).
  { unfold as_str, substr, p. cbn [pair_start pair_end]. rewrite Esk, <- He.
    replace (N.to_nat (s + 1 + N.of_nat (length u) - s)) with (length (c :: u)) by (cbn [length]; lia).
    rewrite Hrest. change (c :: u ++ v) with ((c :: u) ++ v). apply firstn_app_exact. }
  assert (Hname : name_at (c :: rest) (c :: u) = true).
  { unfold name_at, is_name. rewrite Hc, Hu. cbn [andb].
    rewrite Hrest. change (c :: u ++ v) with ((c :: u) ++ v). rewrite prefix_rest_app.
    destruct v as [|d v']; [reflexivity|]. rewrite Hvhd. reflexivity. }
  split.
  - cbn [to_ident iname]. rewrite Hstr. exact Hname.
  - intros Hcr.
    assert (Hpos : ipos (to_ident inp file p) = mkPos (fst (spec_line_col inp s)) (snd (spec_line_col inp s)) file false).
    { cbn [to_ident ipos]. apply to_pos_true. exact Hcr. }
    split; [exact Hpos|].
    unfold ck_ident. rewrite Hpos. rewrite at_pos_spec; [| exact Hcr | lia |].
    + rewrite Esk. cbn [to_ident iname]. rewrite Hstr. exact Hname.
    + rewrite Esk. cbn [not_at_terminator]. apply name_start_not_terminator. exact Hc.
Qed.

(** ** keywords: every rule of the shape  @{ "word" ~ !NameContinue }  *)
Definition keyword_of (r : rule) : option str :=
  match rule_def r with
  | mkRule MAtomic (Seq (Lit l) (NotP (Call R_NameContinue))) => Some l
  | _ => None
  end.

Lemma keyword_of_shape r l : keyword_of r = Some l ->
  rule_def r = mkRule MAtomic (Seq (Lit l) (NotP (Call R_NameContinue))).
Proof.
  unfold keyword_of. destruct (rule_def r) as [m e]. destruct m; try discriminate.
  destruct e as [| | | | | | |x y| | | | | |]; try discriminate.
  destruct x; try discriminate. destruct y as [| | | | | | | | | | | |z|]; try discriminate.
  destruct z; try discriminate. destruct r0; try discriminate. intros H; inversion H; reflexivity.
Qed.

Lemma strip_prefix_spec : forall l inp rest, strip_prefix l inp = Some rest -> inp = l ++ rest.
Proof.
  induction l as [|c l IH]; intros inp rest H; cbn in H; [inversion H; reflexivity|].
  destruct inp as [|d inp]; [discriminate|]. destruct (N.eqb_spec c d) as [->|]; [|discriminate].
  cbn. f_equal. apply IH; exact H.
Qed.

Theorem keyword_pairs_true : forall inp start ps file r l s e kids,
  parse_pairs start inp = Ok ps ->
  in_forest (Pair r s e kids) ps ->
  keyword_of r = Some l ->
  let p := Pair r s e kids in
  kids = [] /\
  kw_name (to_keyword inp file p) = l /\
  (is_name l = true -> name_at (skipn (N.to_nat s) inp) l = true) /\
  (no_lone_cr inp = true ->
   kw_pos (to_keyword inp file p) = mkPos (fst (spec_line_col inp s)) (snd (spec_line_col inp s)) file false
   /\ (is_name l = true -> ck_kw inp file (kw_pos (to_keyword inp file p)) l = true)).
Proof.
  intros inp start ps file r l s e kids Hparse Hin Hkw p.
  pose proof (parse_pairs_replay _ _ _ _ Hparse Hin) as Hrep. cbn [replayable] in Hrep.
  destruct Hrep as [f [a [Hrun [_ [Hse Hlen]]]]].
  pose proof (keyword_of_shape _ _ Hkw) as Hdef.
  assert (Hsk : body_sk G r = false).
  { unfold body_sk, static_atomic. change (g_rule G r) with (rule_def r). rewrite Hdef. reflexivity. }
  assert (Hat : body_atomicity G r a = AAtomic).
  { unfold body_atomicity. change (g_rule G r) with (rule_def r). rewrite Hdef. reflexivity. }
  rewrite Hsk, Hat in Hrun. change (g_rule G r) with (rule_def r) in Hrun. rewrite Hdef in Hrun. cbn [r_exp] in Hrun.
  destruct (seq_lit_not_class l class_NameContinue f (skipn (N.to_nat s) inp) s) as [E|E]; rewrite E in Hrun; [discriminate|].
  destruct (strip_prefix l (skipn (N.to_nat s) inp)) as [rest|] eqn:Esp; [|discriminate].
  pose proof (strip_prefix_spec _ _ _ Esp) as Hsk'.
  assert (Hres : Ok (rest, s + slen l, @nil pr) = Ok (skipn (N.to_nat e) inp, e, kids) /\
                 match rest with d :: _ => is_name_cont d = false | [] => True end).
  { destruct rest as [|d r']; [split; [exact Hrun|exact I]|].
    destruct (is_name_cont d) eqn:Hd; [discriminate|]. split; [exact Hrun|reflexivity]. }
  destruct Hres as [Hres Hnext]. inversion Hres as [[Hrest He Hk]]. clear Hres Hrun.
  split; [reflexivity|].
  assert (Hstr : as_str inp p = l).
  { unfold as_str, substr, p. cbn [pair_start pair_end]. rewrite Hsk', <- He. unfold slen.
    replace (N.to_nat (s + N.of_nat (length l) - s)) with (length l) by lia. apply firstn_app_exact. }
  assert (Hname : is_name l = true -> name_at (skipn (N.to_nat s) inp) l = true).
  { intros Hn. unfold name_at. rewrite Hn, Hsk', prefix_rest_app. cbn [andb].
    destruct rest as [|d r']; [reflexivity|]. rewrite Hnext. reflexivity. }
  split; [exact Hstr|]. split; [exact Hname|].
  intros Hcr.
  assert (Hpos : kw_pos (to_keyword inp file p) = mkPos (fst (spec_line_col inp s)) (snd (spec_line_col inp s)) file false).
  { cbn [to_keyword kw_pos]. apply to_pos_true. exact Hcr. }
  split; [exact Hpos|]. intros Hn.
  unfold ck_kw. rewrite Hpos. rewrite at_pos_spec; [exact (Hname Hn) | exact Hcr | lia |].
  rewrite Hsk'. destruct l as [|c0 l0]; [discriminate Hn|]. cbn [app not_at_terminator].
  apply name_start_not_terminator. unfold is_name in Hn. apply andb_true_iff in Hn. tauto.
Qed.

(** non-vacuity: the 21 keyword rules of the grammar all have that shape, with these words *)
Definition keyword_rules : list rule :=
  [R_KEYWORD_query; R_KEYWORD_mutation; R_KEYWORD_subscription; R_KEYWORD_fragment; R_KEYWORD_on;
   R_KEYWORD_true; R_KEYWORD_false; R_KEYWORD_null; R_KEYWORD_extend; R_KEYWORD_schema; R_KEYWORD_scalar;
   R_KEYWORD_type; R_KEYWORD_implements; R_KEYWORD_interface; R_KEYWORD_union; R_KEYWORD_enum; R_KEYWORD_input;
   R_KEYWORD_directive; R_KEYWORD_repeatable; R_ext_KEYWORD_import; R_ext_KEYWORD_from].
Example keyword_rules_covered :
  map keyword_of keyword_rules =
  map (fun w => Some w)
    [s "query"; s "mutation"; s "subscription"; s "fragment"; s "on"; s "true"; s "false"; s "null"; s "extend";
     s "schema"; s "scalar"; s "type"; s "implements"; s "interface"; s "union"; s "enum"; s "input"; s "directive";
     s "repeatable"; s "import"; s "from"].
Proof. vm_compute. reflexivity. Qed.

(** ** every pair, of any rule: its text is where its reported position says *)
Lemma prefix_rest_firstn : forall n t, prefix_rest (firstn n t) t = Some (skipn n t).
Proof.
  induction n as [|n IH]; intros t; [reflexivity|]. destruct t as [|c t]; [reflexivity|].
  cbn [firstn skipn prefix_rest]. rewrite N.eqb_refl. apply IH.
Qed.

Lemma replayable_bounds inp (p : pr) :
  replayable G inp p -> pair_start p <= pair_end p /\ (N.to_nat (pair_end p) <= length inp)%nat.
Proof. destruct p as [r s e kids]. cbn [replayable pair_start pair_end]. intros [f [a [_ [_ Hb]]]]. exact Hb. Qed.

(** The builder takes a node's text ([as_str]) and its position ([to_pos]) from one and the same pair.
    For every pair of the tree, whatever its rule: at the reported (line, column) -- read with the
    specification's line terminators -- the input continues with exactly that pair's text. *)
Theorem pair_text_at_position : forall inp start ps (p : pr) file,
  parse_pairs start inp = Ok ps ->
  in_forest p ps ->
  no_lone_cr inp = true ->
  not_at_terminator (skipn (N.to_nat (pair_start p)) inp) ->
  at_pos inp file (to_pos inp file p) (fun t => punct_at t (as_str inp p)) = true.
Proof.
  intros inp start ps p file Hparse Hin Hcr Hnt.
  destruct (replayable_bounds _ _ (parse_pairs_replay _ _ _ _ Hparse Hin)) as [Hse Hlen].
  rewrite (to_pos_true _ file p Hcr). rewrite at_pos_spec; [| exact Hcr | lia | exact Hnt].
  unfold punct_at, as_str, substr. rewrite prefix_rest_firstn. reflexivity.
Qed.
