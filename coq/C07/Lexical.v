(** C07 — proofs, part 2: the lexical layer of the *translated* grammar (Gen/C07_grammar_gen.v is
    regenerated from grammar.pest on every check, so these proofs are re-checked against the grammar as
    it is now) and what it implies, for every input, about the Name pairs of pest's tree and the
    identifiers the builder makes from them. *)
From V Require Import Base.Util Gql.Ast Peg.Peg Peg.PegProps Gen.C07_grammar_gen C07.Builder C07.Model C07.Spec C07.Proofs.

Local Open Scope N_scope.
Notation G := gql_grammar.

(** replaces the body of a concrete rule by its value in the generated grammar *)
Ltac expose_body r :=
  let e := eval vm_compute in (r_exp (g_rule G r)) in change (r_exp (g_rule G r)) with e.

Lemma class_NameStart : is_class G AAtomic (Call R_NameStart) is_name_start.
Proof.
  eapply is_class_ext; [|apply class_Call; [reflexivity|reflexivity|]].
  2: { change (body_atomicity G R_NameStart AAtomic) with AAtomic. expose_body R_NameStart.
       repeat first [apply class_Alt | apply class_Range | apply class_Lit1]. }
  intros c. cbv beta. unfold is_name_start. rewrite (N.eqb_sym 95 c).
  destruct (97 <=? c), (c <=? 122), (65 <=? c), (c <=? 90), (c =? 95); reflexivity.
Qed.

Lemma class_NameContinue : is_class G AAtomic (Call R_NameContinue) is_name_cont.
Proof.
  eapply is_class_ext; [|apply class_Call; [reflexivity|reflexivity|]].
  2: { change (body_atomicity G R_NameContinue AAtomic) with AAtomic. expose_body R_NameContinue.
       repeat first [apply class_Alt | apply class_Range | apply class_Lit1]. }
  intros c. cbv beta. unfold is_name_cont, is_name_start, is_digit. rewrite (N.eqb_sym 95 c).
  destruct (97 <=? c), (c <=? 122), (65 <=? c), (c <=? 90), (c =? 95), (48 <=? c), (c <=? 57); reflexivity.
Qed.

(** the body of rule Name, whatever the fuel: out of fuel, or exactly
    "one NameStart character followed by the longest run of NameContinue characters", no pairs *)
Lemma name_body_spec : forall fuel inp i,
  run G fuel false AAtomic (r_exp (g_rule G R_Name)) inp i = OutOfFuel \/
  run G fuel false AAtomic (r_exp (g_rule G R_Name)) inp i =
    match inp with
    | c :: rest =>
        if is_name_start c
        then Ok (snd (span is_name_cont rest), i + 1 + N.of_nat (length (fst (span is_name_cont rest))), [])
        else Fail
    | [] => Fail
    end.
Proof.
  expose_body R_Name. apply seq_class_star; [apply class_NameStart|apply class_NameContinue].
Qed.

Lemma prefix_rest_app : forall n v, prefix_rest n (n ++ v) = Some v.
Proof. induction n as [|c n IH]; intros v; cbn; [reflexivity|]. rewrite N.eqb_refl. apply IH. Qed.

Lemma firstn_app_exact {A} (u v : list A) : firstn (length u) (u ++ v) = u.
Proof. induction u as [|x u IH]; cbn; [reflexivity|]. rewrite IH. reflexivity. Qed.

(** ** every Name pair of the tree, on every input *)
Theorem name_pairs_true : forall inp start ps file s e kids,
  parse_pairs start inp = Ok ps ->
  in_forest (Pair R_Name s e kids) ps ->
  let p := Pair R_Name s e kids in
  kids = [] /\
  name_at (skipn (N.to_nat s) inp) (iname (to_ident inp file p)) = true /\
  (no_lone_cr inp = true ->
   ipos (to_ident inp file p) = mkPos (fst (spec_line_col inp s)) (snd (spec_line_col inp s)) file false).
Proof.
  intros inp start ps file s e kids Hparse Hin p.
  unfold parse_pairs, parse in Hparse.
  pose proof (parse_replay _ _ _ _ Hparse Hin) as Hrep. cbn [replayable] in Hrep.
  destruct Hrep as [f [a [Hrun [Hse Hlen]]]].
  change (body_sk G R_Name) with false in Hrun.
  change (body_atomicity G R_Name a) with AAtomic in Hrun.
  destruct (name_body_spec f (skipn (N.to_nat s) inp) s) as [E|E]; rewrite E in Hrun; [discriminate|].
  destruct (skipn (N.to_nat s) inp) as [|c rest] eqn:Esk; [discriminate|].
  destruct (is_name_start c) eqn:Hc; [|discriminate].
  destruct (span is_name_cont rest) as [u v] eqn:Esp. cbn [fst snd] in Hrun.
  inversion Hrun as [[Hv He Hk]]. clear Hrun.
  destruct (span_spec _ _ Esp) as [Hrest [Hu Hvhd]].
  split; [reflexivity|].
  assert (Hstr : as_str inp p = c :: u).
  { unfold as_str, substr, p. cbn [pair_start pair_end]. rewrite Esk, <- He.
    replace (N.to_nat (s + 1 + N.of_nat (length u) - s)) with (length (c :: u)) by (cbn [length]; lia).
    rewrite Hrest. change (c :: u ++ v) with ((c :: u) ++ v). apply firstn_app_exact. }
  split.
  - cbn [to_ident iname]. rewrite Hstr. unfold name_at, is_name. rewrite Hc, Hu. cbn [andb].
    rewrite Hrest. change (c :: u ++ v) with ((c :: u) ++ v). rewrite prefix_rest_app.
    destruct v as [|d v']; [reflexivity|]. rewrite Hvhd. reflexivity.
  - intros Hcr. cbn [to_ident ipos]. apply to_pos_true. exact Hcr.
Qed.
