(** C07 — proofs, part 1: positions, and the refutation witnesses (closed by computation on the model
    that the correspondence run ties to the code). *)
From V Require Import Base.Util Gql.Ast Peg.Peg Gen.C07_grammar_gen C07.Builder C07.Model C07.AstEq C07.Spec.

Local Open Scope N_scope.

(** ** positions: pest's line/column = the specification's, when no CR stands alone *)

Lemma no_lone_cr_tail c rest : no_lone_cr (c :: rest) = true -> no_lone_cr rest = true.
Proof.
  cbn [no_lone_cr]. destruct (N.eqb c 13); [|auto].
  destruct rest as [|d r]; [discriminate|]. intros H. apply andb_true_iff in H. tauto.
Qed.

Lemma line_col_from_spec : forall off inp line col,
  no_lone_cr inp = true ->
  line_col_from inp off line col = spec_line_col_from inp off line col.
Proof.
  induction off as [|off IH]; intros inp line col Hcr; [reflexivity|].
  destruct inp as [|c rest]; [reflexivity|].
  cbn [line_col_from spec_line_col_from].
  pose proof (no_lone_cr_tail _ _ Hcr) as Htl.
  destruct (N.eqb c 10) eqn:E10; [apply IH; exact Htl|].
  destruct (N.eqb c 13) eqn:E13.
  - cbn [no_lone_cr] in Hcr. rewrite E13 in Hcr.
    destruct rest as [|d r]; [discriminate|].
    apply andb_true_iff in Hcr. destruct Hcr as [Hd _]. rewrite Hd. apply IH; exact Htl.
  - apply IH; exact Htl.
Qed.

Lemma line_col_true inp off :
  no_lone_cr inp = true -> line_col inp off = spec_line_col inp off.
Proof. intros H. unfold line_col, spec_line_col. apply line_col_from_spec; exact H. Qed.

(** every position the builder attaches is [to_pos] of a pair; it is the specification's
    (line, column) of the offset at which that pair starts *)
Lemma to_pos_true inp file (p : pr) :
  no_lone_cr inp = true ->
  to_pos inp file p =
  mkPos (fst (spec_line_col inp (pair_start p))) (snd (spec_line_col inp (pair_start p))) file false.
Proof. intros H. unfold to_pos. rewrite (line_col_true _ _ H). reflexivity. Qed.

(** the specification's (line, column) of an offset leads back to that offset: [text_at] inverts
    [spec_line_col] wherever a token can start (not on the LF of a CR LF, not past the end) *)
Lemma goto_col_snoc : forall n ls c r,
  goto_col ls n = Some (c :: r) -> is_lt c = false -> goto_col ls (S n) = Some r.
Proof.
  induction n as [|n IH]; intros ls c r H Hc.
  - cbn in H. inversion H; subst. cbn. rewrite Hc. reflexivity.
  - destruct ls as [|x ls']; [discriminate|]. cbn [goto_col] in H |- *.
    destruct (is_lt x); [discriminate|]. apply (IH _ _ _ H Hc).
Qed.

(** from a line start [ls], [n] non-terminator characters lead to an LF (or CR LF): the next line starts after it *)
Lemma goto_line_lf : forall n ls r k,
  goto_col ls n = Some (10 :: r) -> goto_line ls (S k) = goto_line r k.
Proof.
  induction n as [|n IH]; intros ls r k H.
  - cbn in H. inversion H; subst. reflexivity.
  - destruct ls as [|x ls']; [discriminate|]. cbn [goto_col] in H.
    destruct (is_lt x) eqn:Hx; [discriminate|].
    unfold is_lt in Hx. apply orb_false_iff in Hx. destruct Hx as [H10 H13].
    cbn [goto_line]. rewrite H10, H13. apply (IH _ _ k H).
Qed.

Lemma goto_line_crlf : forall n ls r k,
  goto_col ls n = Some (13 :: 10 :: r) -> goto_line ls (S k) = goto_line r k.
Proof.
  induction n as [|n IH]; intros ls r k H.
  - cbn in H. inversion H; subst. reflexivity.
  - destruct ls as [|x ls']; [discriminate|]. cbn [goto_col] in H.
    destruct (is_lt x) eqn:Hx; [discriminate|].
    unfold is_lt in Hx. apply orb_false_iff in Hx. destruct Hx as [H10 H13].
    cbn [goto_line]. rewrite H10, H13. apply (IH _ _ k H).
Qed.

Definition not_at_terminator (t : str) : Prop := match t with c :: _ => is_lt c = false | [] => True end.

Lemma walk : forall n off t line col ls,
  (off <= n)%nat ->
  no_lone_cr t = true ->
  goto_col ls (N.to_nat col) = Some t ->
  (off <= length t)%nat ->
  not_at_terminator (skipn off t) ->
  exists ls', goto_line ls (N.to_nat (fst (spec_line_col_from t off line col) - line)) = Some ls'
              /\ goto_col ls' (N.to_nat (snd (spec_line_col_from t off line col))) = Some (skipn off t)
              /\ line <= fst (spec_line_col_from t off line col).
Proof.
  induction n as [|n IH]; intros off t line col ls Hn Hcr Hcol Hlen Hnt.
  - assert (off = 0%nat) by lia. subst off. cbn [spec_line_col_from fst snd skipn].
    exists ls. rewrite N.sub_diag. split; [reflexivity|]. split; [exact Hcol|lia].
  - destruct off as [|o].
    { cbn [spec_line_col_from fst snd skipn]. exists ls. rewrite N.sub_diag. split; [reflexivity|]. split; [exact Hcol|lia]. }
    destruct t as [|c r]; [cbn in Hlen; lia|].
    cbn [spec_line_col_from skipn]. cbn [length] in Hlen.
    destruct (N.eqb_spec c 10) as [->|Hn10].
    + (* LF *)
      assert (Hcr' : no_lone_cr r = true) by (cbn [no_lone_cr] in Hcr; exact Hcr).
      destruct (IH o r (line + 1) 0 r) as [ls' [H1 [H2 H3]]]; try assumption; try lia; [reflexivity|].
      exists ls'. split; [|split; [exact H2|lia]].
      replace (N.to_nat (fst (spec_line_col_from r o (line + 1) 0) - line))
        with (S (N.to_nat (fst (spec_line_col_from r o (line + 1) 0) - (line + 1)))) by lia.
      rewrite (goto_line_lf _ _ _ _ Hcol). exact H1.
    + destruct (N.eqb_spec c 13) as [->|Hn13].
      * (* CR: followed by LF *)
        cbn [no_lone_cr] in Hcr. change (13 =? 13) with true in Hcr. cbn iota in Hcr.
        destruct r as [|d r']; [discriminate|].
        apply andb_true_iff in Hcr. destruct Hcr as [Hd Hcr'].
        apply N.eqb_eq in Hd. subst d. rewrite N.eqb_refl.
        destruct o as [|o'].
        { (* offset points at the LF of a CR LF: excluded *) cbn [skipn] in Hnt. cbn in Hnt. discriminate. }
        cbn [spec_line_col_from skipn]. change (10 =? 10) with true. cbn iota.
        assert (Hcr'' : no_lone_cr r' = true) by (cbn [no_lone_cr] in Hcr'; exact Hcr').
        cbn [length] in Hlen.
        destruct (IH o' r' (line + 1) 0 r') as [ls' [H1 [H2 H3]]]; try assumption; try lia; [reflexivity|].
        exists ls'. split; [|split; [exact H2|lia]].
        replace (N.to_nat (fst (spec_line_col_from r' o' (line + 1) 0) - line))
          with (S (N.to_nat (fst (spec_line_col_from r' o' (line + 1) 0) - (line + 1)))) by lia.
        rewrite (goto_line_crlf _ _ _ _ Hcol). exact H1.
      * (* ordinary character *)
        assert (Hc : is_lt c = false).
        { unfold is_lt. apply orb_false_iff. split; apply N.eqb_neq; assumption. }
        assert (Hcr' : no_lone_cr r = true).
        { cbn [no_lone_cr] in Hcr. destruct (N.eqb_spec c 13); [contradiction|exact Hcr]. }
        assert (Hcol' : goto_col ls (N.to_nat (col + 1)) = Some r).
        { replace (N.to_nat (col + 1)) with (S (N.to_nat col)) by lia. apply (goto_col_snoc _ _ _ _ Hcol Hc). }
        destruct (IH o r line (col + 1) ls) as [ls' [H1 [H2 H3]]]; try assumption; try lia.
        exists ls'. split; [exact H1|split; [exact H2|exact H3]].
Qed.

Theorem text_at_spec_line_col inp off :
  no_lone_cr inp = true -> (N.to_nat off <= length inp)%nat ->
  not_at_terminator (skipn (N.to_nat off) inp) ->
  text_at inp (fst (spec_line_col inp off)) (snd (spec_line_col inp off)) = Some (skipn (N.to_nat off) inp).
Proof.
  intros Hcr Hlen Hnt. unfold text_at, spec_line_col.
  destruct (walk (N.to_nat off) (N.to_nat off) inp 0 0 inp (le_n _) Hcr eq_refl Hlen Hnt) as [ls' [H1 [H2 _]]].
  rewrite N.sub_0_r in H1. rewrite H1. exact H2.
Qed.

(** ** witnesses *)
Definition w_lone_cr : str := s "query Q {" ++ [13] ++ s "  x" ++ [13] ++ s "}".
Definition w_block : str := s "{ a(s: """"""" ++ [10] ++ s "    hello" ++ [10] ++ s "  """""") }".
Definition w_block_escape : str := s "{ a(s: """"""x \"""""" y"""""") }".
Definition w_surrogate_pair : str := s "{ a(s: ""\uD83D\uDE00"") }".
Definition w_type_no_fields : str := s "type A".
Definition w_union_no_members : str := s "union U".

Definition op_ok (inp : str) : option opdoc :=
  match parse_operation_document 0 inp with POk d => Some d | _ => None end.

(** a lone CR is a line terminator for the grammar (the text parses) and for the specification, but
    not for the reported positions: the field [x] is reported on line 0 *)
Lemma lone_cr_refuted :
  exists inp d, parse_operation_document 0 inp = POk d /\ ck_opdoc inp 0 d = false /\ no_lone_cr inp = false.
Proof. exists w_lone_cr. eexists. split; [vm_compute; reflexivity|]. split; vm_compute; reflexivity. Qed.

(** block strings are returned raw: no common-indentation removal, no unescaping of the escaped
    triple quote; the input has no lone CR, so positions are not the cause *)
Lemma block_string_refuted :
  exists inp d, parse_operation_document 0 inp = POk d /\ ck_opdoc inp 0 d = false /\ no_lone_cr inp = true.
Proof. exists w_block. eexists. split; [vm_compute; reflexivity|]. split; vm_compute; reflexivity. Qed.

Lemma block_string_escape_refuted :
  exists inp d, parse_operation_document 0 inp = POk d /\ ck_opdoc inp 0 d = false /\ no_lone_cr inp = true.
Proof. exists w_block_escape. eexists. split; [vm_compute; reflexivity|]. split; vm_compute; reflexivity. Qed.

(** unicode escapes (since /repo a4a3647; before, every one of these inputs made the builder panic and
    `surrogate-pair-escape-panics` was a known finding of this check): a surrogate pair written with two
    \uXXXX escapes denotes one supplementary character, and the escapes that denote no character are a
    parse error -- exactly where the specification's StringValue semantics (Spec.string_at) is undefined *)
Definition string_arg_value (d : opdoc) : option str :=
  match od_defs d with
  | [DOp o] => match selset_sels (op_sel o) with
               | [SField _ _ (Some args) _ _] => match args_list args with [(_, VString _ v)] => Some v | _ => None end
               | _ => None
               end
  | _ => None
  end.

Lemma surrogate_pair_decodes :
  exists d, parse_operation_document 0 w_surrogate_pair = POk d /\ string_arg_value d = Some [128512] /\
            string_at (skipn 7 w_surrogate_pair) = Some [128512] /\ ck_opdoc w_surrogate_pair 0 d = true.
Proof. eexists. split; [vm_compute; reflexivity|]. repeat split; vm_compute; reflexivity. Qed.

Definition w_bad_escapes : list str :=
  [ s "{ a(s: ""\uD800"") }";                 (* lone leading surrogate *)
    s "{ a(s: ""\uDE00"") }";                 (* lone trailing surrogate *)
    s "{ a(s: ""\uDE00\uD83D"") }";           (* reversed pair *)
    s "{ a(s: ""\uD83Dx\uDE00"") }";          (* pair interrupted *)
    s "{ a(s: ""\uD83D\u{DE00}"") }";         (* the braced form never pairs *)
    s "{ a(s: ""\u{D800}"") }";               (* braced surrogate *)
    s "{ a(s: ""\u{110000}"") }";             (* above U+10FFFF *)
    s "{ a(s: ""\u{FFFFFFFFF}"") }" ].        (* does not fit 32 bits *)

Lemma bad_escapes_rejected :
  forallb (fun w => match parse_operation_document 0 w with PErr => true | _ => false end
                    && match string_at (skipn 7 w) with None => true | Some _ => false end) w_bad_escapes = true.
Proof. vm_compute. reflexivity. Qed.

Definition w_good_escapes : list (str * str) :=
  [ (s "{ a(s: ""\uD83D\uDE00\uD83D\uDE00"") }", [128512; 128512]);
    (s "{ a(s: ""\u{1F600}\u00e9\u{41}"") }", [128512; 233; 65]);
    (s "{ a(s: ""\uDBFF\uDFFF\uD7FF\uE000"") }", [1114111; 55295; 57344]);
    (s "{ a(s: ""\u{10FFFF}\u{0}"") }", [1114111; 0]) ].

Lemma good_escapes_decoded :
  forallb (fun wv => match parse_operation_document 0 (fst wv) with
                     | POk d => match string_arg_value d with Some v => str_eqb v (snd wv) | None => false end
                                && ck_opdoc (fst wv) 0 d
                     | _ => false
                     end) w_good_escapes = true.
Proof. vm_compute. reflexivity. Qed.

(** `type A` (ObjectTypeDefinition without fields and directives) and `union U` (without member
    types) are documents of the language.  Until /repo commits 530788b and 3814a72 the grammar rejected
    them (they were known findings of this check); now they parse, to the definitions the text denotes, and
    the dangling `union U =` is a syntax error. *)
Definition ts_ok (inp : str) : option tsdoc :=
  match parse_type_system_document 0 inp with POk d => Some d | _ => None end.

Example object_type_without_fields_parses :
  exists d kw p n, parse_type_system_document 0 w_type_no_fields = POk d /\
    d = [TSType (TDObject None p n [] [] [] kw)] /\ iname n = s "A" /\ ck_tsdoc w_type_no_fields 0 d = true.
Proof. do 4 eexists. split; [vm_compute; reflexivity|]. split; [reflexivity|]. split; vm_compute; reflexivity. Qed.

Definition w_type_implements_no_fields : str := s "type A implements I".
Example object_type_implements_without_fields_parses :
  exists d kw p n i, parse_type_system_document 0 w_type_implements_no_fields = POk d /\
    d = [TSType (TDObject None p n [i] [] [] kw)] /\ iname i = s "I" /\ ck_tsdoc w_type_implements_no_fields 0 d = true.
Proof. do 5 eexists. split; [vm_compute; reflexivity|]. split; [reflexivity|]. split; vm_compute; reflexivity. Qed.

Example union_without_members_parses :
  exists d kw p n, parse_type_system_document 0 w_union_no_members = POk d /\
    d = [TSType (TDUnion None p n [] [] kw)] /\ iname n = s "U" /\ ck_tsdoc w_union_no_members 0 d = true.
Proof. do 4 eexists. split; [vm_compute; reflexivity|]. split; [reflexivity|]. split; vm_compute; reflexivity. Qed.

Definition w_union_directive_no_members : str := s "union U @d".
Example union_directive_without_members_parses :
  exists d kw p n dir, parse_type_system_document 0 w_union_directive_no_members = POk d /\
    d = [TSType (TDUnion None p n [dir] [] kw)] /\ ck_tsdoc w_union_directive_no_members 0 d = true.
Proof. do 5 eexists. split; [vm_compute; reflexivity|]. split; [reflexivity|]. vm_compute; reflexivity. Qed.

Example union_dangling_equals_rejected : parse_type_system_document 0 (s "union U =") = PErr.
Proof. vm_compute. reflexivity. Qed.

(** ** non-vacuity: ordinary inputs satisfy the spec-side predicate on the model's output *)
Definition ex_op : str := s "query Q($a: Int = 3) { f(x: ""s\n"", y: [1.5, $a]) @skip(if: true) { ...F ... on T { g } } }".
Example ex_op_holds :
  exists d, parse_operation_document 0 ex_op = POk d /\ ck_opdoc ex_op 0 d = true /\ no_lone_cr ex_op = true.
Proof. eexists. split; [vm_compute; reflexivity|]. split; vm_compute; reflexivity. Qed.

Definition ex_shorthand : str := s "{ a }".
Example ex_shorthand_is_query :
  exists d o, parse_operation_document 0 ex_shorthand = POk d /\ od_defs d = [DOp o] /\ op_type o = Query /\ ck_opdoc ex_shorthand 0 d = true.
Proof. eexists. eexists. split; [vm_compute; reflexivity|]. repeat split. Qed.

Definition ex_ts : str := s """d"" type A implements & I @x { ""f"" f(a: [Int!] = [1]): String! } extend union U = | A".
Example ex_ts_holds :
  exists d, parse_type_system_document 2 ex_ts = POk d /\ ck_tsdoc ex_ts 2 d = true.
Proof. eexists. split; [vm_compute; reflexivity|]. vm_compute; reflexivity. Qed.
