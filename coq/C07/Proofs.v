(** C07 — proofs, part 1: positions, and the refutation witnesses (closed by computation on the model
    that the correspondence run ties to the code). *)
From V Require Import Base.Util Gql.Ast Peg.Peg Gen.C07_grammar_gen C07.Builder C07.Model C07.AstEq C07.Spec.

Local Open Scope N_scope.

(** ** positions: pest's line/column = the specification's, when no CR stands alone *)

Lemma no_lone_cr_tail c rest : no_lone_cr (c :: rest) = true -> no_lone_cr rest = true.
Proof.
  cbn [no_lone_cr]. destruct (N.eqb c 13); [|auto].
  destruct rest as [|d r]; [discriminate|]. intros H. apply andb_true_iff in H. tauto.
Qed.

Lemma line_col_from_spec : forall off inp line col,
  no_lone_cr inp = true ->
  line_col_from inp off line col = spec_line_col_from inp off line col.
Proof.
  induction off as [|off IH]; intros inp line col Hcr; [reflexivity|].
  destruct inp as [|c rest]; [reflexivity|].
  cbn [line_col_from spec_line_col_from].
  pose proof (no_lone_cr_tail _ _ Hcr) as Htl.
  destruct (N.eqb c 10) eqn:E10; [apply IH; exact Htl|].
  destruct (N.eqb c 13) eqn:E13.
  - cbn [no_lone_cr] in Hcr. rewrite E13 in Hcr.
    destruct rest as [|d r]; [discriminate|].
    apply andb_true_iff in Hcr. destruct Hcr as [Hd _]. rewrite Hd. apply IH; exact Htl.
  - apply IH; exact Htl.
Qed.

Lemma line_col_true inp off :
  no_lone_cr inp = true -> line_col inp off = spec_line_col inp off.
Proof. intros H. unfold line_col, spec_line_col. apply line_col_from_spec; exact H. Qed.

(** every position the builder attaches is [to_pos] of a pair; it is the specification's
    (line, column) of the offset at which that pair starts *)
Lemma to_pos_true inp file (p : pr) :
  no_lone_cr inp = true ->
  to_pos inp file p =
  mkPos (fst (spec_line_col inp (pair_start p))) (snd (spec_line_col inp (pair_start p))) file false.
Proof. intros H. unfold to_pos. rewrite (line_col_true _ _ H). reflexivity. Qed.

(** the specification's line/column really is "number of line terminators before, scalar values since":
    walking to that line and column arrives at the offset *)
Lemma text_at_spec_line_col_zero inp : text_at inp 0 0 = Some inp.
Proof. reflexivity. Qed.

(** ** witnesses *)
Definition w_lone_cr : str := s "query Q {" ++ [13] ++ s "  x" ++ [13] ++ s "}".
Definition w_block : str := s "{ a(s: """"""" ++ [10] ++ s "    hello" ++ [10] ++ s "  """""") }".
Definition w_block_escape : str := s "{ a(s: """"""x \"""""" y"""""") }".
Definition w_surrogate_pair : str := s "{ a(s: ""\uD83D\uDE00"") }".
Definition w_type_no_fields : str := s "type A".
Definition w_union_no_members : str := s "union U".

Definition op_ok (inp : str) : option opdoc :=
  match parse_operation_document 0 inp with POk d => Some d | _ => None end.

(** a lone CR is a line terminator for the grammar (the text parses) and for the specification, but
    not for the reported positions: the field [x] is reported on line 0 *)
Lemma lone_cr_refuted :
  exists inp d, parse_operation_document 0 inp = POk d /\ ck_opdoc inp 0 d = false /\ no_lone_cr inp = false.
Proof. exists w_lone_cr. eexists. split; [vm_compute; reflexivity|]. split; vm_compute; reflexivity. Qed.

(** block strings are returned raw: no common-indentation removal, no unescaping of the escaped
    triple quote; the input has no lone CR, so positions are not the cause *)
Lemma block_string_refuted :
  exists inp d, parse_operation_document 0 inp = POk d /\ ck_opdoc inp 0 d = false /\ no_lone_cr inp = true.
Proof. exists w_block. eexists. split; [vm_compute; reflexivity|]. split; vm_compute; reflexivity. Qed.

Lemma block_string_escape_refuted :
  exists inp d, parse_operation_document 0 inp = POk d /\ ck_opdoc inp 0 d = false /\ no_lone_cr inp = true.
Proof. exists w_block_escape. eexists. split; [vm_compute; reflexivity|]. split; vm_compute; reflexivity. Qed.

(** a surrogate pair written with two \u escapes denotes one scalar value; the builder panics on the
    first half ("Invalid character code") *)
Lemma surrogate_pair_refuted :
  exists inp, parse_operation_document 0 inp = PPanic P_char /\
              (exists t, string_at (skipn 7 inp) = Some t /\ t = [128512]).
Proof. exists w_surrogate_pair. split; [vm_compute; reflexivity|]. eexists. split; vm_compute; reflexivity. Qed.

(** `type A` (ObjectTypeDefinition without fields and directives) and `union U` (without member
    types) are documents of the language; the grammar rejects them *)
Lemma object_type_without_fields_refuted : parse_type_system_document 0 w_type_no_fields = PErr.
Proof. vm_compute. reflexivity. Qed.
Lemma union_without_members_refuted : parse_type_system_document 0 w_union_no_members = PErr.
Proof. vm_compute. reflexivity. Qed.

(** ** non-vacuity: ordinary inputs satisfy the spec-side predicate on the model's output *)
Definition ex_op : str := s "query Q($a: Int = 3) { f(x: ""s\n"", y: [1.5, $a]) @skip(if: true) { ...F ... on T { g } } }".
Example ex_op_holds :
  exists d, parse_operation_document 0 ex_op = POk d /\ ck_opdoc ex_op 0 d = true /\ no_lone_cr ex_op = true.
Proof. eexists. split; [vm_compute; reflexivity|]. split; vm_compute; reflexivity. Qed.

Definition ex_shorthand : str := s "{ a }".
Example ex_shorthand_is_query :
  exists d o, parse_operation_document 0 ex_shorthand = POk d /\ od_defs d = [DOp o] /\ op_type o = Query /\ ck_opdoc ex_shorthand 0 d = true.
Proof. eexists. eexists. split; [vm_compute; reflexivity|]. repeat split. Qed.

Definition ex_ts : str := s """d"" type A implements & I @x { ""f"" f(a: [Int!] = [1]): String! } extend union U = | A".
Example ex_ts_holds :
  exists d, parse_type_system_document 2 ex_ts = POk d /\ ck_tsdoc ex_ts 2 d = true.
Proof. eexists. split; [vm_compute; reflexivity|]. vm_compute; reflexivity. Qed.
