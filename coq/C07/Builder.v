(** C07 — Gallina mirror of crates/parser/src/parser/builder.rs and builder/*.rs: pest pair trees
    (Peg.pair over the generated [rule] type) -> the AST of Gql/Ast.v, or [BPanic k].
    Function for function, in the order the Rust code evaluates things (the [parts!] slots first,
    then the fields of the struct literal in the order written), so that when several panics are
    possible the model reports the one the implementation reaches first.
    Definitions only. *)
From V Require Import Base.Util Gql.Ast Peg.Peg Gen.C07_grammar_gen.

Notation pr := (pair rule).

Inductive bres (A : Type) := BOk (x : A) | BPanic (k : N).
Arguments BOk {A}. Arguments BPanic {A}.

(** panic classes (the harness maps the panic message of the real code to the same numbers) *)
Definition P_char : N := 1.      (* char::from_u32(code).expect("Invalid character code") *)
Definition P_radix : N := 2.     (* (before /repo a4a3647: u32::from_str_radix(..).unwrap() on Err; no longer reachable) *)
Definition P_shape : N := 3.     (* parts! / only_child / all_children / "Unexpected rule" / split_at *)
Definition P_empty : N := 4.     (* "Empty document" / unexpected top-level rule *)

Definition bbind {A B} (x : bres A) (f : A -> bres B) : bres B :=
  match x with BOk a => f a | BPanic k => BPanic k end.
Notation "x <- e ;; k" := (bbind e (fun x => k)) (at level 61, e at next level, right associativity).

(** [mapM f]: f is outside the [fix] so that a recursive builder can pass itself *)
Definition mapM {A B} (f : A -> bres B) : list A -> bres (list B) :=
  fix go l :=
    match l with
    | [] => BOk []
    | x :: r => match f x with
                | BOk y => match go r with BOk ys => BOk (y :: ys) | BPanic k => BPanic k end
                | BPanic k => BPanic k
                end
    end.

Definition omapM {A B} (f : A -> bres B) (o : option A) : bres (option B) :=
  match o with None => BOk None | Some x => match f x with BOk y => BOk (Some y) | BPanic k => BPanic k end end.

Definition is_rule (r : rule) (p : pr) : bool := rule_eqb (pair_rule p) r.

(** one slot of the [parts!] macro (utils.rs): the slots consume the children from the left; a
    required slot panics when the next child is missing or of another rule, an `opt` slot yields
    None and leaves the child in place.  Children left over after the last slot are ignored, as in
    the macro.  Continuation-passing so that the pairs handed on remain syntactic subterms. *)
Definition slot_req {A} (r : rule) (kids : list pr) (k : pr -> list pr -> bres A) : bres A :=
  match kids with
  | p :: rest => if is_rule r p then k p rest else BPanic P_shape
  | [] => BPanic P_shape
  end.
Definition slot_opt {A} (r : rule) (kids : list pr) (k : option pr -> list pr -> bres A) : bres A :=
  match kids with
  | p :: rest => if is_rule r p then k (Some p) rest else k None kids
  | [] => k None kids
  end.

(** PairExt::only_child *)
Definition only_child {A} (p : pr) (k : pr -> bres A) : bres A :=
  match pair_kids p with
  | [c] => k c
  | _ => BPanic P_shape
  end.
(** PairExt::all_children: every child must be of rule [r] *)
Definition all_children {A} (r : rule) (p : pr) (k : list pr -> bres A) : bres A :=
  if forallb (is_rule r) (pair_kids p) then k (pair_kids p) else BPanic P_shape.

Definition hex_digit (c : N) : option N :=
  if (48 <=? c)%N && (c <=? 57)%N then Some (c - 48)%N
  else if (97 <=? c)%N && (c <=? 102)%N then Some (c - 87)%N
  else if (65 <=? c)%N && (c <=? 70)%N then Some (c - 55)%N
  else None.

(** u32::from_str_radix(s, 16): None = Err (empty, bad digit or overflow) *)
Fixpoint hex_acc (l : str) (acc : N) : option N :=
  match l with
  | [] => Some acc
  | c :: r => match hex_digit c with
              | Some d => let v := (acc * 16 + d)%N in
                          if (v <? 4294967296)%N then hex_acc r v else None
              | None => None
              end
  end.
Definition u32_from_hex (l : str) : option N := match l with [] => None | _ => hex_acc l 0 end.

(** char::from_u32 *)
Definition char_from_u32 (c : N) : option N :=
  if (c <? 55296)%N then Some c
  else if (c <? 57344)%N then None
  else if (c <? 1114112)%N then Some c
  else None.

Definition code_to_char (digits : str) : bres N :=
  match u32_from_hex digits with
  | None => BPanic P_radix
  | Some code => match char_from_u32 code with Some ch => BOk ch | None => BPanic P_char end
  end.

(** value.rs: the character after the backslash of an EscapedCharacter (the match on pair.as_str()) *)
Definition escaped_char (e : N) : bres N :=
  if N.eqb e 34 then BOk 34%N
  else if N.eqb e 92 then BOk 92%N
  else if N.eqb e 47 then BOk 47%N
  else if N.eqb e 98 then BOk 8%N
  else if N.eqb e 102 then BOk 12%N
  else if N.eqb e 110 then BOk 10%N
  else if N.eqb e 114 then BOk 13%N
  else if N.eqb e 116 then BOk 9%N
  else BPanic P_shape.

Definition str_to_operation_type (o : str) : bres optype :=
  if str_eqb o [113;117;101;114;121]%N then BOk Query
  else if str_eqb o [109;117;116;97;116;105;111;110]%N then BOk Mutation
  else if str_eqb o [115;117;98;115;99;114;105;112;116;105;111;110]%N then BOk Subscription
  else BPanic P_shape.

Section Builder.
Variable inp : str.      (* the text the pairs point into *)
Variable file : N.       (* ast::current_file: the file index every Pos::new picks up *)

(** utils.rs to_pos: pest's 1-based line_col minus one *)
Definition to_pos (p : pr) : pos :=
  let lc := line_col inp (pair_start p) in mkPos (fst lc) (snd lc) file false.
Definition as_str (p : pr) : str := substr inp (pair_start p) (pair_end p).
Definition to_ident (p : pr) : ident := mkId (as_str p) (to_pos p).
Definition to_keyword (p : pr) : keyword := mkKw (as_str p) (to_pos p).

(** base.rs build_variable: (name, position) *)
Definition build_variable (p : pr) : bres (str * pos) :=
  only_child p (fun n => BOk (as_str n, to_pos p)).

(** value.rs decode_string_characters (since /repo a4a3647): Result<String, Pair> *)
Inductive dres := DOk (v : str) | DErr (bad : pr) | DPanic (k : N).
Definition dcons (ch : N) (r : dres) : dres := match r with DOk v => DOk (ch :: v) | e => e end.

(** for one character pair [c] (the only child of a StringCharacter): None = not a unicode escape,
    Some (code if it fits u32, is it the fixed-width \uXXXX form) *)
Definition escaped_unicode (c : pr) : bres (option (option N * bool)) :=
  match pair_rule c with
  | R_EscapedUnicodeBrace => only_child c (fun d => BOk (Some (u32_from_hex (as_str d), false)))
  | R_EscapedUnicode4 => BOk (Some (u32_from_hex (skipn 2 (as_str c)), true))
  | _ => BOk None
  end.

Definition is_leading_surrogate (c : N) : bool := (55296 <=? c)%N && (c <=? 56319)%N.
Definition is_trailing_surrogate (c : N) : bool := (56320 <=? c)%N && (c <=? 57343)%N.

(** a character pair that is not a unicode escape *)
Definition plain_char (c : pr) : bres N :=
  match pair_rule c with
  | R_EscapedCharacter => match as_str c with [_; e] => escaped_char e | _ => BPanic P_shape end
  | R_NormalStringCharacter => match as_str c with ch :: _ => BOk ch | [] => BPanic P_shape end
  | _ => BPanic P_shape
  end.

(** the loop over the StringCharacter pairs; [leading] = a \uXXXX leading surrogate waiting for its
    trailing surrogate, with the pair to blame *)
Fixpoint decode_chars (kids : list pr) (leading : option (N * pr)) : dres :=
  match kids with
  | [] => match leading with Some (_, bad) => DErr bad | None => DOk [] end
  | k :: rest =>
      match pair_kids k with
      | [c] =>
          match escaped_unicode c with
          | BPanic e => DPanic e
          | BOk eu =>
              match leading with
              | Some (lead, bad) =>
                  match eu with
                  | Some (Some trailing, true) =>
                      if is_trailing_surrogate trailing then
                        match char_from_u32 (65536 + (lead - 55296) * 1024 + (trailing - 56320))%N with
                        | Some ch => dcons ch (decode_chars rest None)
                        | None => DErr bad
                        end
                      else DErr bad
                  | _ => DErr bad
                  end
              | None =>
                  match eu with
                  | Some (code, fixed) =>
                      if fixed && match code with Some cd => is_leading_surrogate cd | None => false end
                      then match code with Some cd => decode_chars rest (Some (cd, c)) | None => DErr c end
                      else match code with
                           | Some cd => match char_from_u32 cd with Some ch => dcons ch (decode_chars rest None) | None => DErr c end
                           | None => DErr c
                           end
                  | None =>
                      match plain_char c with
                      | BOk ch => dcons ch (decode_chars rest None)
                      | BPanic e => DPanic e
                      end
                  end
              end
          end
      | _ => DPanic P_shape
      end
  end.

Definition decode_string_characters (p : pr) : dres := decode_chars (pair_kids p) None.

(** value.rs build_string_value: (position, value).  A block string is returned raw: the text
    between the triple quotes, no indentation removal, no unescaping of an escaped triple quote. *)
Definition build_string_value (p : pr) : bres (pos * str) :=
  only_child p (fun c =>
    let position := to_pos c in
    match pair_rule c with
    | R_EmptyStringValue => BOk (position, [])
    | R_BlockStringValue =>
        let t := as_str c in
        if (length t <? 6)%nat then BPanic P_shape
        else BOk (position, firstn (length t - 6) (skipn 3 t))
    | R_NormalStringValue =>
        (* invalid escapes were rejected by validate_string_values before building; here they would panic *)
        match decode_string_characters c with
        | DOk cs => BOk (position, cs)
        | DErr _ => BPanic P_char
        | DPanic k => BPanic k
        end
    | _ => BPanic P_shape
    end).

(** value.rs build_value (the pair is a Value) *)
Fixpoint build_value (p : pr) : bres value :=
  match p with
  | Pair _ _ _ [c] =>
      let position := to_pos c in
      match c with
      | Pair cr _ _ ckids =>
        match cr with
        | R_Variable => v <- build_variable c ;; BOk (VVar (fst v) (snd v))
        | R_IntValue => BOk (VInt position (as_str c))
        | R_FloatValue => BOk (VFloat position (as_str c))
        | R_StringValue => sv <- build_string_value c ;; BOk (VString (fst sv) (snd sv))
        | R_BooleanValue =>
            only_child c (fun kw =>
              match pair_rule kw with
              | R_KEYWORD_false => BOk (VBool position false)
              | R_KEYWORD_true => BOk (VBool position true)
              | _ => BPanic P_shape
              end)
        | R_NullValue => BOk (VNull position)
        | R_EnumValue => BOk (VEnum position (as_str c))
        | R_ListValue =>
            if forallb (is_rule R_Value) ckids then
              vs <- mapM build_value ckids ;; BOk (VList position vs)
            else BPanic P_shape
        | R_ObjectValue =>
            if forallb (is_rule R_ObjectField) ckids then
              fs <- mapM (fun f => match f with
                                   | Pair _ _ _ fk =>
                                       slot_req R_Name fk (fun name fk =>
                                       slot_req R_Value fk (fun v _ =>
                                         bv <- build_value v ;; BOk (to_ident name, bv)))
                                   end) ckids ;;
              BOk (VObject position fs)
            else BPanic P_shape
        | _ => BPanic P_shape
        end
      end
  | _ => BPanic P_shape
  end.

(** value.rs build_arguments *)
Definition build_arguments (p : pr) : bres arguments :=
  let position := to_pos p in
  all_children R_Argument p (fun kids =>
    l <- mapM (fun a => slot_req R_Name (pair_kids a) (fun name fk =>
                        slot_req R_Value fk (fun v _ =>
                          bv <- build_value v ;; BOk (to_ident name, bv)))) kids ;;
    BOk (mkArgs position l)).

(** directives.rs build_directives *)
Definition build_directives (p : pr) : bres (list directive) :=
  all_children R_Directive p (fun kids =>
    mapM (fun d =>
            let position := to_pos d in
            slot_req R_Name (pair_kids d) (fun name fk =>
            slot_opt R_Arguments fk (fun args _ =>
              a <- omapM build_arguments args ;;
              BOk (mkDir position (to_ident name) a)))) kids).

Definition build_directives_opt (o : option pr) : bres (list directive) :=
  match o with None => BOk [] | Some d => build_directives d end.

(** type.rs build_type_of / build_type *)
Fixpoint build_type_of (p : pr) : bres ty :=
  match p with
  | Pair R_NonNullType _ _ [c] =>
      match pair_rule c with
      | R_NamedType | R_ListType => t <- build_type_of c ;; BOk (TNonNull t)
      | _ => BPanic P_shape
      end
  | Pair R_ListType _ _ [c] =>
      (* c is a Type pair: build_type(c) = build_type_of(c.only_child()) *)
      match c with
      | Pair _ _ _ [c2] => t <- build_type_of c2 ;; BOk (TList (to_pos p) t)
      | _ => BPanic P_shape
      end
  | Pair R_NamedType _ _ [c] => BOk (TNamed (to_ident c))
  | _ => BPanic P_shape
  end.
Definition build_type (p : pr) : bres ty := only_child p build_type_of.

(** TypeCondition -> the NamedType as an identifier: parts!(tc, KEYWORD_on, NamedType) *)
Definition build_type_condition (tc : pr) : bres ident :=
  slot_req R_KEYWORD_on (pair_kids tc) (fun _ fk =>
  slot_req R_NamedType fk (fun name _ => BOk (to_ident name))).

(** selection_set.rs *)
Fixpoint build_selection_set (p : pr) : bres selset :=
  match p with
  | Pair _ _ _ kids =>
    let position := to_pos p in
    if forallb (is_rule R_Selection) kids then
      sels <- mapM (fun sp =>
        match sp with
        | Pair _ _ _ [c] =>
          match c with
          | Pair R_Field _ _ fk =>
              slot_opt R_Alias fk (fun alias fk =>
              slot_req R_Name fk (fun name fk =>
              slot_opt R_Arguments fk (fun args fk =>
              slot_opt R_Directives fk (fun dirs fk =>
              slot_opt R_SelectionSet fk (fun ss _ =>
                al <- omapM (fun a => only_child a (fun n => BOk (to_ident n))) alias ;;
                ar <- omapM build_arguments args ;;
                ds <- build_directives_opt dirs ;;
                sub <- match ss with
                       | Some s => r <- build_selection_set s ;; BOk (Some r)
                       | None => BOk None
                       end ;;
                BOk (SField al (to_ident name) ar ds sub))))))
          | Pair R_FragmentSpread _ _ fk =>
              let position := to_pos c in
              slot_req R_FragmentName fk (fun name fk =>
              slot_opt R_Directives fk (fun dirs _ =>
                ds <- build_directives_opt dirs ;;
                BOk (SSpread position (to_ident name) ds)))
          | Pair R_InlineFragment _ _ fk =>
              let position := to_pos c in
              slot_opt R_TypeCondition fk (fun tc fk =>
              slot_opt R_Directives fk (fun dirs fk =>
              slot_req R_SelectionSet fk (fun ss _ =>
                cond <- omapM build_type_condition tc ;;
                ds <- build_directives_opt dirs ;;
                sub <- build_selection_set ss ;;
                BOk (SInline position cond ds sub))))
          | _ => BPanic P_shape
          end
        | _ => BPanic P_shape
        end) kids ;;
      BOk (SelSet position sels)
    else BPanic P_shape
  end.

(** operation.rs build_variable_definition / build_variables_definition *)
Definition build_default_value (dv : pr) : bres value := only_child dv build_value.

Definition build_variable_definition (p : pr) : bres vardef :=
  let position := to_pos p in
  slot_req R_Variable (pair_kids p) (fun variable fk =>
  slot_req R_Type fk (fun t fk =>
  slot_opt R_DefaultValue fk (fun dv fk =>
  slot_opt R_Directives fk (fun dirs _ =>
    v <- build_variable variable ;;
    bt <- build_type t ;;
    d <- omapM build_default_value dv ;;
    ds <- build_directives_opt dirs ;;
    BOk (mkVarDef position (fst v) (snd v) bt d ds))))).

Definition build_variables_definition (p : pr) : bres vardefs :=
  let position := to_pos p in
  all_children R_VariableDefinition p (fun kids =>
    l <- mapM build_variable_definition kids ;; BOk (mkVarDefs position l)).

(** operation.rs build_executable_definition *)
Definition build_import_target (p : pr) : import_target :=
  if is_rule R_Name p then ImpName (to_ident p) else ImpWildcard.

Definition build_executable_definition (p0 : pr) : bres execdef :=
  only_child p0 (fun p =>
    let position := to_pos p in
    match pair_rule p with
    | R_OperationDefinition =>
        slot_opt R_OperationType (pair_kids p) (fun ot fk =>
        slot_opt R_Name fk (fun name fk =>
        slot_opt R_VariablesDefinition fk (fun vars fk =>
        slot_opt R_Directives fk (fun dirs fk =>
        slot_req R_SelectionSet fk (fun ss _ =>
          t <- match ot with None => BOk Query | Some o => str_to_operation_type (as_str o) end ;;
          vs <- omapM build_variables_definition vars ;;
          ds <- build_directives_opt dirs ;;
          sel <- build_selection_set ss ;;
          BOk (DOp (mkOp position t (option_map to_ident name) vs ds sel)))))))
    | R_FragmentDefinition =>
        slot_req R_KEYWORD_fragment (pair_kids p) (fun _ fk =>
        slot_req R_FragmentName fk (fun name fk =>
        slot_req R_TypeCondition fk (fun tc fk =>
        slot_opt R_Directives fk (fun dirs fk =>
        slot_req R_SelectionSet fk (fun ss _ =>
          cond <- build_type_condition tc ;;
          ds <- build_directives_opt dirs ;;
          sel <- build_selection_set ss ;;
          BOk (DFrag (mkFrag position (to_ident name) cond ds sel)))))))
    | R_ext_ImportStatement =>
        only_child p (fun content =>
          slot_req R_ext_KEYWORD_import (pair_kids content) (fun _ fk =>
          slot_req R_ext_ImportTargets fk (fun targets fk =>
          slot_req R_ext_KEYWORD_from fk (fun _ fk =>
          slot_req R_StringValue fk (fun path _ =>
            sv <- build_string_value path ;;
            BOk (DImport (mkImport position (map build_import_target (pair_kids targets))
                                   (snd sv) (fst sv))))))))
    | _ => BPanic P_shape
    end).

(** builder.rs build_operation_document *)
Definition build_operation_document (pairs : list pr) : bres opdoc :=
  match pairs with
  | p :: _ =>
      match pair_rule p with
      | R_ExecutableDocument =>
          defs <- mapM build_executable_definition
                       (filter (is_rule R_ExecutableDefinition) (pair_kids p)) ;;
          BOk (mkOpDoc (to_pos p) defs)
      | _ => BPanic P_empty
      end
  | [] => BPanic P_empty
  end.

(** ** type system: builder/type_system/*.rs *)

Definition build_description (p : pr) : bres desc :=
  only_child p (fun c =>
    if is_rule R_StringValue c then sv <- build_string_value c ;; BOk (mkDesc (fst sv) (snd sv))
    else BPanic P_shape).

Definition build_description_opt (o : option pr) : bres (option desc) := omapM build_description o.

(** build_arguments_definition and build_input_fields_definition share this closure *)
Definition build_input_value_definition (p : pr) : bres inputvaldef :=
  slot_opt R_Description (pair_kids p) (fun d fk =>
  slot_req R_Name fk (fun name fk =>
  slot_req R_Type fk (fun t fk =>
  slot_opt R_DefaultValue fk (fun dv fk =>
  slot_opt R_Directives fk (fun dirs _ =>
    de <- build_description_opt d ;;
    bt <- build_type t ;;
    dflt <- omapM build_default_value dv ;;
    ds <- build_directives_opt dirs ;;
    BOk (mkInputVal de (to_pos name) (to_ident name) bt dflt ds)))))).

Definition build_arguments_definition (p : pr) : bres (list inputvaldef) :=
  all_children R_InputValueDefinition p (mapM build_input_value_definition).
Definition build_input_fields_definition (p : pr) : bres (list inputvaldef) :=
  all_children R_InputValueDefinition p (mapM build_input_value_definition).

Definition build_fields_definition (p : pr) : bres (list fielddef) :=
  all_children R_FieldDefinition p (mapM (fun f =>
    slot_opt R_Description (pair_kids f) (fun d fk =>
    slot_req R_Name fk (fun name fk =>
    slot_opt R_ArgumentsDefinition fk (fun args fk =>
    slot_req R_Type fk (fun t fk =>
    slot_opt R_Directives fk (fun dirs _ =>
      de <- build_description_opt d ;;
      ar <- omapM build_arguments_definition args ;;
      bt <- build_type t ;;
      ds <- build_directives_opt dirs ;;
      BOk (mkFieldDef de (to_ident name) ar bt ds)))))))).

Definition build_fields_definition_opt (o : option pr) : bres (list fielddef) :=
  match o with None => BOk [] | Some f => build_fields_definition f end.

Definition build_enum_value_definition (p : pr) : bres enumvaldef :=
  slot_opt R_Description (pair_kids p) (fun d fk =>
  slot_req R_EnumValue fk (fun v fk =>
  slot_opt R_Directives fk (fun dirs _ =>
    de <- build_description_opt d ;;
    ds <- build_directives_opt dirs ;;
    BOk (mkEnumVal de (to_ident v) ds)))).

Definition build_enum_values_opt (o : option pr) : bres (list enumvaldef) :=
  match o with
  | None => BOk []
  | Some p => all_children R_EnumValueDefinition p (mapM build_enum_value_definition)
  end.

(** the first child must be KEYWORD_implements, every other one a NamedType *)
Definition build_implements_interfaces (p : pr) : bres (list ident) :=
  match pair_kids p with
  | [] => BPanic P_shape
  | first :: rest =>
      if is_rule R_KEYWORD_implements first then
        mapM (fun q => if is_rule R_NamedType q then BOk (to_ident q) else BPanic P_shape) rest
      else BPanic P_shape
  end.
Definition build_implements_opt (o : option pr) : bres (list ident) :=
  match o with None => BOk [] | Some p => build_implements_interfaces p end.

Definition build_union_members_opt (o : option pr) : bres (list ident) :=
  match o with
  | None => BOk []
  | Some m => all_children R_NamedType m (fun kids => BOk (map to_ident kids))
  end.

Definition build_type_definition (p0 : pr) : bres typedef :=
  only_child p0 (fun p =>
    match pair_rule p with
    | R_ScalarTypeDefinition =>
        slot_opt R_Description (pair_kids p) (fun d fk =>
        slot_req R_KEYWORD_scalar fk (fun kw fk =>
        slot_req R_Name fk (fun name fk =>
        slot_opt R_Directives fk (fun dirs _ =>
          de <- build_description_opt d ;;
          ds <- build_directives_opt dirs ;;
          BOk (TDScalar de (to_pos kw) (to_ident name) ds (to_keyword kw))))))
    | R_ObjectTypeDefinition =>
        slot_opt R_Description (pair_kids p) (fun d fk =>
        slot_req R_KEYWORD_type fk (fun kw fk =>
        slot_req R_Name fk (fun name fk =>
        slot_opt R_ImplementsInterfaces fk (fun impls fk =>
        slot_opt R_Directives fk (fun dirs fk =>
        slot_opt R_FieldsDefinition fk (fun fields _ =>
          de <- build_description_opt d ;;
          im <- build_implements_opt impls ;;
          ds <- build_directives_opt dirs ;;
          fs <- build_fields_definition_opt fields ;;
          BOk (TDObject de (to_pos kw) (to_ident name) im ds fs (to_keyword kw))))))))
    | R_InterfaceTypeDefinition =>
        slot_opt R_Description (pair_kids p) (fun d fk =>
        slot_req R_KEYWORD_interface fk (fun kw fk =>
        slot_req R_Name fk (fun name fk =>
        slot_opt R_ImplementsInterfaces fk (fun impls fk =>
        slot_opt R_Directives fk (fun dirs fk =>
        slot_opt R_FieldsDefinition fk (fun fields _ =>
          de <- build_description_opt d ;;
          im <- build_implements_opt impls ;;
          ds <- build_directives_opt dirs ;;
          fs <- build_fields_definition_opt fields ;;
          BOk (TDInterface de (to_pos kw) (to_ident name) im ds fs (to_keyword kw))))))))
    | R_UnionTypeDefinition =>
        slot_opt R_Description (pair_kids p) (fun d fk =>
        slot_req R_KEYWORD_union fk (fun kw fk =>
        slot_req R_Name fk (fun name fk =>
        slot_opt R_Directives fk (fun dirs fk =>
        slot_opt R_UnionMemberTypes fk (fun members _ =>
          de <- build_description_opt d ;;
          ds <- build_directives_opt dirs ;;
          ms <- build_union_members_opt members ;;
          BOk (TDUnion de (to_pos kw) (to_ident name) ds ms (to_keyword kw)))))))
    | R_EnumTypeDefinition =>
        slot_opt R_Description (pair_kids p) (fun d fk =>
        slot_req R_KEYWORD_enum fk (fun kw fk =>
        slot_req R_Name fk (fun name fk =>
        slot_opt R_Directives fk (fun dirs fk =>
        slot_opt R_EnumValuesDefinition fk (fun values _ =>
          de <- build_description_opt d ;;
          ds <- build_directives_opt dirs ;;
          vs <- build_enum_values_opt values ;;
          BOk (TDEnum de (to_pos kw) (to_ident name) ds vs (to_keyword kw)))))))
    | R_InputObjectTypeDefinition =>
        slot_opt R_Description (pair_kids p) (fun d fk =>
        slot_req R_KEYWORD_input fk (fun kw fk =>
        slot_req R_Name fk (fun name fk =>
        slot_opt R_Directives fk (fun dirs fk =>
        slot_opt R_InputFieldsDefinition fk (fun fields _ =>
          de <- build_description_opt d ;;
          ds <- build_directives_opt dirs ;;
          fs <- match fields with None => BOk [] | Some f => build_input_fields_definition f end ;;
          BOk (TDInput de (to_pos kw) (to_ident name) ds fs (to_keyword kw)))))))
    | _ => BPanic P_shape
    end).

Definition build_type_extension (p0 : pr) : bres typeext :=
  only_child p0 (fun p =>
    match pair_rule p with
    | R_ScalarTypeExtension =>
        slot_req R_KEYWORD_extend (pair_kids p) (fun kw fk =>
        slot_req R_KEYWORD_scalar fk (fun _ fk =>
        slot_req R_Name fk (fun name fk =>
        slot_opt R_Directives fk (fun dirs _ =>
          ds <- build_directives_opt dirs ;;
          BOk (TEScalar (to_pos kw) (to_ident name) ds)))))
    | R_ObjectTypeExtension =>
        slot_req R_KEYWORD_extend (pair_kids p) (fun kw fk =>
        slot_req R_KEYWORD_type fk (fun _ fk =>
        slot_req R_Name fk (fun name fk =>
        slot_opt R_ImplementsInterfaces fk (fun impls fk =>
        slot_opt R_Directives fk (fun dirs fk =>
        slot_opt R_FieldsDefinition fk (fun fields _ =>
          im <- build_implements_opt impls ;;
          ds <- build_directives_opt dirs ;;
          fs <- build_fields_definition_opt fields ;;
          BOk (TEObject (to_pos kw) (to_ident name) im ds fs)))))))
    | R_InterfaceTypeExtension =>
        slot_req R_KEYWORD_extend (pair_kids p) (fun kw fk =>
        slot_req R_KEYWORD_interface fk (fun _ fk =>
        slot_req R_Name fk (fun name fk =>
        slot_opt R_ImplementsInterfaces fk (fun impls fk =>
        slot_opt R_Directives fk (fun dirs fk =>
        slot_opt R_FieldsDefinition fk (fun fields _ =>
          im <- build_implements_opt impls ;;
          ds <- build_directives_opt dirs ;;
          fs <- build_fields_definition_opt fields ;;
          BOk (TEInterface (to_pos kw) (to_ident name) im ds fs)))))))
    | R_UnionTypeExtension =>
        slot_req R_KEYWORD_extend (pair_kids p) (fun kw fk =>
        slot_req R_KEYWORD_union fk (fun _ fk =>
        slot_req R_Name fk (fun name fk =>
        slot_opt R_Directives fk (fun dirs fk =>
        slot_opt R_UnionMemberTypes fk (fun members _ =>
          ds <- build_directives_opt dirs ;;
          ms <- build_union_members_opt members ;;
          BOk (TEUnion (to_pos kw) (to_ident name) ds ms))))))
    | R_EnumTypeExtension =>
        slot_req R_KEYWORD_extend (pair_kids p) (fun kw fk =>
        slot_req R_KEYWORD_enum fk (fun _ fk =>
        slot_req R_Name fk (fun name fk =>
        slot_opt R_Directives fk (fun dirs fk =>
        slot_opt R_EnumValuesDefinition fk (fun values _ =>
          ds <- build_directives_opt dirs ;;
          vs <- build_enum_values_opt values ;;
          BOk (TEEnum (to_pos kw) (to_ident name) ds vs))))))
    | R_InputObjectTypeExtension =>
        slot_req R_KEYWORD_extend (pair_kids p) (fun kw fk =>
        slot_req R_KEYWORD_input fk (fun _ fk =>
        slot_req R_Name fk (fun name fk =>
        slot_opt R_Directives fk (fun dirs fk =>
        slot_opt R_InputFieldsDefinition fk (fun fields _ =>
          ds <- build_directives_opt dirs ;;
          fs <- match fields with None => BOk [] | Some f => build_input_fields_definition f end ;;
          BOk (TEInput (to_pos kw) (to_ident name) ds fs))))))
    | _ => BPanic P_shape
    end).

Definition build_root_operation_type_definitions (p : pr) : bres (list (optype * ident)) :=
  all_children R_RootOperationTypeDefinition p (mapM (fun def =>
    slot_req R_OperationType (pair_kids def) (fun ot fk =>
    slot_req R_NamedType fk (fun nt _ =>
      t <- str_to_operation_type (as_str ot) ;; BOk (t, to_ident nt))))).

Definition build_schema_definition (p : pr) : bres schemadef :=
  let position := to_pos p in
  slot_opt R_Description (pair_kids p) (fun d fk =>
  slot_req R_KEYWORD_schema fk (fun _ fk =>
  slot_opt R_Directives fk (fun dirs fk =>
  slot_req R_RootOperationTypeDefinitions fk (fun roots _ =>
    (* `definitions` is computed before the struct literal *)
    defs <- build_root_operation_type_definitions roots ;;
    de <- build_description_opt d ;;
    ds <- build_directives_opt dirs ;;
    BOk (mkSchemaDef de position ds defs))))).

Definition build_schema_extension (p : pr) : bres schemaext :=
  let position := to_pos p in
  slot_req R_KEYWORD_extend (pair_kids p) (fun _ fk =>
  slot_req R_KEYWORD_schema fk (fun _ fk =>
  slot_opt R_Directives fk (fun dirs fk =>
  slot_opt R_RootOperationTypeDefinitions fk (fun roots _ =>
    ds <- build_directives_opt dirs ;;
    defs <- match roots with None => BOk [] | Some r => build_root_operation_type_definitions r end ;;
    BOk (mkSchemaExt position ds defs))))).

Definition build_directive_definition (p : pr) : bres directivedef :=
  slot_opt R_Description (pair_kids p) (fun d fk =>
  slot_req R_KEYWORD_directive fk (fun kw fk =>
  slot_req R_Name fk (fun name fk =>
  slot_opt R_ArgumentsDefinition fk (fun args fk =>
  slot_opt R_KEYWORD_repeatable fk (fun rep fk =>
  slot_req R_KEYWORD_on fk (fun _ fk =>
  slot_req R_DirectiveLocations fk (fun locs _ =>
    de <- build_description_opt d ;;
    ar <- omapM build_arguments_definition args ;;
    ls <- all_children R_DirectiveLocation locs (fun kids => BOk (map to_ident kids)) ;;
    BOk (mkDirDef de (to_pos kw) (to_ident name) ar (option_map to_ident rep) ls (to_keyword kw))))))))).

Definition build_type_system_definition_or_extension (p0 : pr) : bres tsdef :=
  only_child p0 (fun p =>
    match pair_rule p with
    | R_TypeSystemDefinition =>
        only_child p (fun q =>
          match pair_rule q with
          | R_SchemaDefinition => x <- build_schema_definition q ;; BOk (TSSchema x)
          | R_TypeDefinition => x <- build_type_definition q ;; BOk (TSType x)
          | R_DirectiveDefinition => x <- build_directive_definition q ;; BOk (TSDirective x)
          | _ => BPanic P_shape
          end)
    | R_TypeSystemExtension =>
        only_child p (fun q =>
          match pair_rule q with
          | R_SchemaExtension => x <- build_schema_extension q ;; BOk (TSSchemaExt x)
          | R_TypeExtension => x <- build_type_extension q ;; BOk (TSTypeExt x)
          | _ => BPanic P_shape
          end)
    | _ => BPanic P_shape
    end).

(** builder.rs build_type_system_or_extension_document *)
Definition build_type_system_document (pairs : list pr) : bres tsdoc :=
  match pairs with
  | p :: _ =>
      match pair_rule p with
      | R_TypeSystemExtensionDocument =>
          mapM build_type_system_definition_or_extension
               (filter (is_rule R_TypeSystemDefinitionOrExtension) (pair_kids p))
      | _ => BPanic P_empty
      end
  | [] => BPanic P_empty
  end.

End Builder.
