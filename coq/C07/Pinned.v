(** Pinned statements of the C07 property theorems: compiled on every check, so a theorem cannot be
    weakened silently. *)
From V Require Import Base.Util Gql.Ast Peg.Peg Gen.C07_grammar_gen C07.Builder C07.Model C07.AstEq C07.Spec C07.Proofs C07.Lexical C07.Strings C07.Escapes C07.Numbers C07.Fuel C07.Shapes C07.Render C07.RenderValues C07.RenderArgs C07.RenderDirs C07.RenderValid C07.RenderSel C07.RenderDefs C07.Properties.
From V Require Import Peg.PegShape.
From V Require Import Peg.PegProps.

Check (C07_positions_true : forall inp file (p : pair rule),
  no_lone_cr inp = true ->
  to_pos inp file p =
  mkPos (fst (spec_line_col inp (pair_start p))) (snd (spec_line_col inp (pair_start p))) file false).
Check (C07_lone_cr_refuted :
  exists inp d, parse_operation_document 0 inp = POk d /\ ck_opdoc inp 0 d = false /\ no_lone_cr inp = false).
Check (C07_block_string_refuted :
  exists inp d, parse_operation_document 0 inp = POk d /\ ck_opdoc inp 0 d = false /\ no_lone_cr inp = true).
Check (C07_surrogate_pair_decodes :
  exists d, parse_operation_document 0 w_surrogate_pair = POk d /\ string_arg_value d = Some [128512%N] /\
            string_at (skipn 7 w_surrogate_pair) = Some [128512%N] /\ ck_opdoc w_surrogate_pair 0 d = true).
Check (C07_bad_escapes_rejected :
  forallb (fun w => match parse_operation_document 0 w with PErr => true | _ => false end
                    && match string_at (skipn 7 w) with None => true | Some _ => false end) w_bad_escapes = true).
Check (C07_object_type_without_fields_parses :
  exists d kw p n, parse_type_system_document 0 w_type_no_fields = POk d /\
    d = [TSType (TDObject None p n [] [] [] kw)] /\ iname n = s "A" /\ ck_tsdoc w_type_no_fields 0 d = true).
Check (C07_union_without_members_parses :
  exists d kw p n, parse_type_system_document 0 w_union_no_members = POk d /\
    d = [TSType (TDUnion None p n [] [] kw)] /\ iname n = s "U" /\ ck_tsdoc w_union_no_members 0 d = true).
Check (C07_pairs_replayable : forall inp start ps p,
  parse_pairs start inp = Ok ps -> in_forest p ps -> replayable gql_grammar inp p).
Check (C07_names_true : forall inp start ps file s e kids,
  parse_pairs start inp = Ok ps ->
  in_forest (Pair R_Name s e kids) ps ->
  let p := Pair R_Name s e kids in
  kids = [] /\
  name_at (skipn (N.to_nat s) inp) (iname (to_ident inp file p)) = true /\
  (no_lone_cr inp = true ->
   ipos (to_ident inp file p) = mkPos (fst (spec_line_col inp s)) (snd (spec_line_col inp s)) file false
   /\ ck_ident inp file (to_ident inp file p) = true)).
Check (C07_keywords_true : forall inp start ps file r l s e kids,
  parse_pairs start inp = Ok ps ->
  in_forest (Pair r s e kids) ps ->
  keyword_of r = Some l ->
  let p := Pair r s e kids in
  kids = [] /\
  kw_name (to_keyword inp file p) = l /\
  (is_name l = true -> name_at (skipn (N.to_nat s) inp) l = true) /\
  (no_lone_cr inp = true ->
   kw_pos (to_keyword inp file p) = mkPos (fst (spec_line_col inp s)) (snd (spec_line_col inp s)) file false
   /\ (is_name l = true -> ck_kw inp file (kw_pos (to_keyword inp file p)) l = true))).
Check (C07_pair_spans_wf : forall inp start ps,
  parse_pairs start inp = Ok ps -> exists hi, wf_forest 0 hi ps /\ (N.to_nat hi <= length inp)%nat).
Check (C07_pair_text_at_position : forall inp start ps (p : pair rule) file,
  parse_pairs start inp = Ok ps ->
  in_forest p ps ->
  no_lone_cr inp = true ->
  not_at_terminator (skipn (N.to_nat (pair_start p)) inp) ->
  at_pos inp file (to_pos inp file p) (fun t => punct_at t (as_str inp p)) = true).
Check (C07_string_lex : forall c v pre post file sk a,
  let val := c :: v in
  let inp := pre ++ quote val ++ post in
  let i := slen pre in
  runs gql_grammar sk a (Call R_StringValue) (quote val ++ post) i
       (Ok (post, (i + slen (quote val))%N, [string_tree val i]))
  /\ build_string_value inp file (string_tree val i)
     = BOk (mkPos (fst (line_col inp i)) (snd (line_col inp i)) file false, val)).
Check (C07_string_lex_empty : forall pre post file sk a,
  not_quote_next post ->
  let inp := pre ++ quote [] ++ post in
  let i := slen pre in
  let t := Pair R_StringValue i (i + 2)%N [Pair R_EmptyStringValue i (i + 2)%N []] in
  runs gql_grammar sk a (Call R_StringValue) (quote [] ++ post) i (Ok (post, (i + 2)%N, [t]))
  /\ build_string_value inp file t = BOk (mkPos (fst (line_col inp i)) (snd (line_col inp i)) file false, [])).
Check (C07_escapes_lex : forall it l pre post file sk a,
  let items := it :: l in
  forallb wf_item items = true ->
  let inp := pre ++ iquote items ++ post in
  let i := slen pre in
  let t := items_tree items i in
  runs gql_grammar sk a (Call R_StringValue) (iquote items ++ post) i (Ok (post, (i + slen (iquote items))%N, [t]))
  /\ string_at (iquote items ++ post) = dec_items items
  /\ match dec_items items with
     | Some v => validate_pair inp t = VOk
                 /\ build_string_value inp file t = BOk (mkPos (fst (line_col inp i)) (snd (line_col inp i)) file false, v)
     | None => validate_pair inp t = VErr
     end).
Check (C07_surrogate_pair_is_one_char : forall a b c d a' b' c' d' pre post file,
  let items := [IU4 a b c d; IU4 a' b' c' d'] in
  forallb wf_item items = true ->
  is_high_surrogate (u4_code a b c d) = true -> is_low_surrogate (u4_code a' b' c' d') = true ->
  let ch := (65536 + (u4_code a b c d - 55296) * 1024 + (u4_code a' b' c' d' - 56320))%N in
  string_at (iquote items ++ post) = Some [ch]
  /\ build_string_value (pre ++ iquote items ++ post) file (items_tree items (slen pre))
     = BOk (mkPos (fst (line_col (pre ++ iquote items ++ post) (slen pre))) (snd (line_col (pre ++ iquote items ++ post) (slen pre))) file false, [ch])).
Check (C07_decode_fails_iff_spec : forall it l pre post,
  let items := it :: l in
  forallb wf_item items = true ->
  (validate_pair (pre ++ iquote items ++ post) (items_tree items (slen pre)) = VErr <-> string_at (iquote items ++ post) = None)
  /\ (validate_pair (pre ++ iquote items ++ post) (items_tree items (slen pre)) = VOk <-> exists v, string_at (iquote items ++ post) = Some v)).
Check (C07_spec_reads_quote : forall v post, (v = [] -> not_quote_next post) -> string_at (quote v ++ post) = Some v).
Check (C07_int_lex : forall l post sk i,
  is_int_lexeme l = true -> int_follow_ok post = true ->
  runs gql_grammar sk ANon (Call R_IntValue) (l ++ post) i
       (Ok (post, (i + slen l)%N, [Pair R_IntValue i (i + slen l)%N []]))).
Check (C07_never_out_of_fuel : forall start inp, parse_pairs start inp <> OutOfFuel).
Check (C07_parse_never_fuel : forall file inp,
  parse_operation_document file inp <> PFuel /\ parse_type_system_document file inp <> PFuel).
Check (C07_builder_shapes_ok : forall inp start ps r s e kids,
  parse_pairs start inp = Ok ps ->
  in_forest (Pair r s e kids) ps ->
  accepts (pattern_of r) (rules_of kids) = true).
Check (C07_parse_render_type : forall t pre rest file, wf_rty t = true -> follow_ty rest ->
  let inp := pre ++ render_ty t ++ rest in
  let i := slen pre in
  runs gql_grammar true ANon (Call R_Type) (render_ty t ++ rest) i
       (Ok (rest, (i + slen (render_ty t))%N, [ty_tree t i]))
  /\ exists ty', build_type inp file (ty_tree t i) = BOk ty' /\ ty_erase ty' = erase_rty t).
Check (C07_parse_render_value : forall v pre rest file, wf_val v = true -> follow_val rest ->
  let inp := pre ++ render_val v ++ rest in
  let i := slen pre in
  runs gql_grammar true ANon (Call R_Value) (render_val v ++ rest) i
       (Ok (rest, (i + slen (render_val v))%N, [val_tree v i]))
  /\ exists v', build_value inp file (val_tree v i) = BOk v' /\ val_erase v' = erase_rval v).
Check (C07_float_lex : forall ip fr ex rest sk i, wf_float ip fr ex = true -> int_follow_ok rest = true ->
  let l := ip ++ fr ++ ex in
  runs gql_grammar sk ANon (Call R_FloatValue) (l ++ rest) i (Ok (rest, (i + slen l)%N, [Pair R_FloatValue i (i + slen l)%N []]))
  /\ runs gql_grammar sk ANon (Call R_IntValue) (l ++ rest) i Fail).
Check (C07_parse_render_arguments : forall g0 args pre rest file, wf_args g0 args = true ->
  let inp := pre ++ render_args g0 args ++ rest in
  let i := slen pre in
  runs gql_grammar true ANon (Call R_Arguments) (render_args g0 args ++ rest) i
       (Ok (rest, (i + slen (render_args g0 args))%N, [args_tree g0 args i]))
  /\ exists a, build_arguments inp file (args_tree g0 args i) = BOk a /\ args_erase a = erase_args args).
Check (C07_parse_render_directive_args : forall g n ga g0 args pre rest file,
  ws g = true -> is_name n = true -> ws ga = true -> wf_args g0 args = true ->
  let i := slen pre in
  let t := Pair R_Directive i (i + slen (dir_text1 g n ga g0 args))%N
             [Pair R_Name (i + 1 + slen g)%N (i + 1 + slen g + slen n)%N [];
              args_tree g0 args (i + 1 + slen g + slen n + slen ga)%N] in
  runs gql_grammar true ANon (Call R_Directive) (dir_text1 g n ga g0 args ++ rest) i
       (Ok (rest, (i + slen (dir_text1 g n ga g0 args))%N, [t]))
  /\ exists d a, build_directive_fn (pre ++ dir_text1 g n ga g0 args ++ rest) file t = BOk d
       /\ iname (dir_name d) = n /\ dir_args d = Some a /\ args_erase a = erase_args args).
Check (C07_parse_render_directive_noargs : forall g n w pre k file,
  ws g = true -> is_name n = true -> ws w = true -> at_token k -> no_paren_next k -> (w = [] -> not_name_cont_next k) ->
  let i := slen pre in
  let t := Pair R_Directive i (i + slen (dir_text0 g n w))%N [Pair R_Name (i + 1 + slen g)%N (i + 1 + slen g + slen n)%N []] in
  runs gql_grammar true ANon (Call R_Directive) (dir_text0 g n w ++ k) i (Ok (k, (i + slen (dir_text0 g n w))%N, [t]))
  /\ exists d, build_directive_fn (pre ++ dir_text0 g n w ++ k) file t = BOk d /\ iname (dir_name d) = n /\ dir_args d = None).
Check (C07_parse_render_directives : forall d ds k, forallb rdir_wf (d :: ds) = true -> follow_dirs (d :: ds) k ->
  let g2 := dirs_tail (d :: ds) in
  exists m, ws g2 = true /\ (m + slen g2 = slen (dirs_text (d :: ds)))%N /\
    forall pre file,
    let inp := pre ++ dirs_text (d :: ds) ++ k in
    let i := slen pre in
    let t := Pair R_Directives i (i + m)%N (items_trees (map rdir_item (d :: ds)) i) in
    runs gql_grammar true ANon (Call R_Directives) (dirs_text (d :: ds) ++ k) i (Ok (g2 ++ k, (i + m)%N, [t]))
    /\ exists l, build_directives inp file t = BOk l /\ map dir_erase l = map rdir_erase (d :: ds)).
Check (C07_parse_render_selection_set : forall ss, wf_ss ss = true ->
  exists T : N -> pair rule, forall pre rest file,
    let inp := pre ++ ss_text ss ++ rest in
    let i := slen pre in
    pair_rule (T i) = R_SelectionSet
    /\ runs gql_grammar true ANon (Call R_SelectionSet) (ss_text ss ++ rest) i (Ok (rest, (i + slen (ss_text ss))%N, [T i]))
    /\ validate_pair inp (T i) = VOk
    /\ exists ss', build_selection_set inp file (T i) = BOk ss' /\ ss_erase ss' = erase_ss ss).
Check (C07_parse_render_operation_document : forall g0 defs file, wf_doc g0 defs = true ->
  exists doc, parse_operation_document file (doc_text g0 defs) = POk doc
              /\ map def_erase (od_defs doc) = map erase_def defs).
Print Assumptions C07_positions_true.
Print Assumptions C07_lone_cr_refuted.
Print Assumptions C07_block_string_refuted.
Print Assumptions C07_surrogate_pair_decodes.
Print Assumptions C07_bad_escapes_rejected.
Print Assumptions C07_object_type_without_fields_parses.
Print Assumptions C07_union_without_members_parses.
Print Assumptions C07_pairs_replayable.
Print Assumptions C07_names_true.
Print Assumptions C07_keywords_true.
Print Assumptions C07_pair_spans_wf.
Print Assumptions C07_pair_text_at_position.
Print Assumptions C07_string_lex.
Print Assumptions C07_string_lex_empty.
Print Assumptions C07_escapes_lex.
Print Assumptions C07_surrogate_pair_is_one_char.
Print Assumptions C07_decode_fails_iff_spec.
Print Assumptions C07_spec_reads_quote.
Print Assumptions C07_int_lex.
Print Assumptions C07_never_out_of_fuel.
Print Assumptions C07_parse_never_fuel.
Print Assumptions C07_builder_shapes_ok.
Print Assumptions C07_parse_render_type.
Print Assumptions C07_parse_render_value.
Print Assumptions C07_float_lex.
Print Assumptions C07_parse_render_arguments.
Print Assumptions C07_parse_render_directive_args.
Print Assumptions C07_parse_render_directive_noargs.
Print Assumptions C07_parse_render_directives.
Print Assumptions C07_parse_render_selection_set.
Print Assumptions C07_parse_render_operation_document.
