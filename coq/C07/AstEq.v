(** C07 — boolean equality on the AST of Gql/Ast.v (positions included). Definitions only. *)
From V Require Import Base.Util Gql.Ast.

Definition pair_eqb {A B} (ea : A -> A -> bool) (eb : B -> B -> bool) (x y : A * B) : bool :=
  ea (fst x) (fst y) && eb (snd x) (snd y).

Fixpoint ty_eqb (a b : ty) : bool :=
  match a, b with
  | TNamed n, TNamed m => ident_eqb n m
  | TNonNull x, TNonNull y => ty_eqb x y
  | TList p x, TList q y => pos_eqb p q && ty_eqb x y
  | _, _ => false
  end.

Fixpoint value_eqb (a b : value) : bool :=
  match a, b with
  | VVar n p, VVar m q => str_eqb n m && pos_eqb p q
  | VInt p x, VInt q y => pos_eqb p q && str_eqb x y
  | VFloat p x, VFloat q y => pos_eqb p q && str_eqb x y
  | VString p x, VString q y => pos_eqb p q && str_eqb x y
  | VBool p x, VBool q y => pos_eqb p q && Bool.eqb x y
  | VNull p, VNull q => pos_eqb p q
  | VEnum p x, VEnum q y => pos_eqb p q && str_eqb x y
  | VList p xs, VList q ys =>
      pos_eqb p q &&
      (fix go (l1 l2 : list value) : bool :=
         match l1, l2 with
         | [], [] => true
         | x :: r1, y :: r2 => value_eqb x y && go r1 r2
         | _, _ => false
         end) xs ys
  | VObject p xs, VObject q ys =>
      pos_eqb p q &&
      (fix go (l1 l2 : list (ident * value)) : bool :=
         match l1, l2 with
         | [], [] => true
         | (k1, x) :: r1, (k2, y) :: r2 => ident_eqb k1 k2 && value_eqb x y && go r1 r2
         | _, _ => false
         end) xs ys
  | _, _ => false
  end.

Definition arguments_eqb (a b : arguments) : bool :=
  pos_eqb (args_pos a) (args_pos b) && list_eqb (pair_eqb ident_eqb value_eqb) (args_list a) (args_list b).
Definition directive_eqb (a b : directive) : bool :=
  pos_eqb (dir_pos a) (dir_pos b) && ident_eqb (dir_name a) (dir_name b)
  && option_eqb arguments_eqb (dir_args a) (dir_args b).
Definition directives_eqb := list_eqb directive_eqb.

Fixpoint selection_eqb (a b : selection) : bool :=
  match a, b with
  | SField al n ar ds s, SField al' n' ar' ds' s' =>
      option_eqb ident_eqb al al' && ident_eqb n n' && option_eqb arguments_eqb ar ar'
      && directives_eqb ds ds'
      && match s, s' with
         | None, None => true
         | Some x, Some y => selset_eqb x y
         | _, _ => false
         end
  | SSpread p n ds, SSpread p' n' ds' => pos_eqb p p' && ident_eqb n n' && directives_eqb ds ds'
  | SInline p c ds s, SInline p' c' ds' s' =>
      pos_eqb p p' && option_eqb ident_eqb c c' && directives_eqb ds ds' && selset_eqb s s'
  | _, _ => false
  end
with selset_eqb (a b : selset) : bool :=
  match a, b with
  | SelSet p l, SelSet p' l' =>
      pos_eqb p p' &&
      (fix go (l1 l2 : list selection) : bool :=
         match l1, l2 with
         | [], [] => true
         | x :: r1, y :: r2 => selection_eqb x y && go r1 r2
         | _, _ => false
         end) l l'
  end.

Definition vardef_eqb (a b : vardef) : bool :=
  pos_eqb (vd_pos a) (vd_pos b) && str_eqb (vd_name a) (vd_name b) && pos_eqb (vd_name_pos a) (vd_name_pos b)
  && ty_eqb (vd_type a) (vd_type b) && option_eqb value_eqb (vd_default a) (vd_default b)
  && directives_eqb (vd_dirs a) (vd_dirs b).
Definition vardefs_eqb (a b : vardefs) : bool :=
  pos_eqb (vds_pos a) (vds_pos b) && list_eqb vardef_eqb (vds_list a) (vds_list b).

Definition opdef_eqb (a b : opdef) : bool :=
  pos_eqb (op_pos a) (op_pos b) && optype_eqb (op_type a) (op_type b) && option_eqb ident_eqb (op_name a) (op_name b)
  && option_eqb vardefs_eqb (op_vars a) (op_vars b) && directives_eqb (op_dirs a) (op_dirs b)
  && selset_eqb (op_sel a) (op_sel b).
Definition fragdef_eqb (a b : fragdef) : bool :=
  pos_eqb (fr_pos a) (fr_pos b) && ident_eqb (fr_name a) (fr_name b) && ident_eqb (fr_cond a) (fr_cond b)
  && directives_eqb (fr_dirs a) (fr_dirs b) && selset_eqb (fr_sel a) (fr_sel b).
Definition import_target_eqb (a b : import_target) : bool :=
  match a, b with
  | ImpWildcard, ImpWildcard => true
  | ImpName n, ImpName m => ident_eqb n m
  | _, _ => false
  end.
Definition importdef_eqb (a b : importdef) : bool :=
  pos_eqb (im_pos a) (im_pos b) && list_eqb import_target_eqb (im_targets a) (im_targets b)
  && str_eqb (im_path a) (im_path b) && pos_eqb (im_path_pos a) (im_path_pos b).
Definition execdef_eqb (a b : execdef) : bool :=
  match a, b with
  | DOp x, DOp y => opdef_eqb x y
  | DFrag x, DFrag y => fragdef_eqb x y
  | DImport x, DImport y => importdef_eqb x y
  | _, _ => false
  end.
Definition opdoc_eqb (a b : opdoc) : bool :=
  pos_eqb (od_pos a) (od_pos b) && list_eqb execdef_eqb (od_defs a) (od_defs b).

Definition keyword_eqb (a b : keyword) : bool := str_eqb (kw_name a) (kw_name b) && pos_eqb (kw_pos a) (kw_pos b).
Definition desc_eqb (a b : desc) : bool := pos_eqb (desc_pos a) (desc_pos b) && str_eqb (desc_value a) (desc_value b).
Definition odesc_eqb := option_eqb desc_eqb.

Definition inputvaldef_eqb (a b : inputvaldef) : bool :=
  odesc_eqb (iv_desc a) (iv_desc b) && pos_eqb (iv_pos a) (iv_pos b) && ident_eqb (iv_name a) (iv_name b)
  && ty_eqb (iv_type a) (iv_type b) && option_eqb value_eqb (iv_default a) (iv_default b)
  && directives_eqb (iv_dirs a) (iv_dirs b).
Definition fielddef_eqb (a b : fielddef) : bool :=
  odesc_eqb (fd_desc a) (fd_desc b) && ident_eqb (fd_name a) (fd_name b)
  && option_eqb (list_eqb inputvaldef_eqb) (fd_args a) (fd_args b) && ty_eqb (fd_type a) (fd_type b)
  && directives_eqb (fd_dirs a) (fd_dirs b).
Definition enumvaldef_eqb (a b : enumvaldef) : bool :=
  odesc_eqb (ev_desc a) (ev_desc b) && ident_eqb (ev_name a) (ev_name b) && directives_eqb (ev_dirs a) (ev_dirs b).

Definition idents_eqb := list_eqb ident_eqb.

Definition typedef_eqb (a b : typedef) : bool :=
  match a, b with
  | TDScalar d p n ds k, TDScalar d' p' n' ds' k' =>
      odesc_eqb d d' && pos_eqb p p' && ident_eqb n n' && directives_eqb ds ds' && keyword_eqb k k'
  | TDObject d p n im ds fs k, TDObject d' p' n' im' ds' fs' k' =>
      odesc_eqb d d' && pos_eqb p p' && ident_eqb n n' && idents_eqb im im' && directives_eqb ds ds'
      && list_eqb fielddef_eqb fs fs' && keyword_eqb k k'
  | TDInterface d p n im ds fs k, TDInterface d' p' n' im' ds' fs' k' =>
      odesc_eqb d d' && pos_eqb p p' && ident_eqb n n' && idents_eqb im im' && directives_eqb ds ds'
      && list_eqb fielddef_eqb fs fs' && keyword_eqb k k'
  | TDUnion d p n ds ms k, TDUnion d' p' n' ds' ms' k' =>
      odesc_eqb d d' && pos_eqb p p' && ident_eqb n n' && directives_eqb ds ds' && idents_eqb ms ms' && keyword_eqb k k'
  | TDEnum d p n ds vs k, TDEnum d' p' n' ds' vs' k' =>
      odesc_eqb d d' && pos_eqb p p' && ident_eqb n n' && directives_eqb ds ds'
      && list_eqb enumvaldef_eqb vs vs' && keyword_eqb k k'
  | TDInput d p n ds fs k, TDInput d' p' n' ds' fs' k' =>
      odesc_eqb d d' && pos_eqb p p' && ident_eqb n n' && directives_eqb ds ds'
      && list_eqb inputvaldef_eqb fs fs' && keyword_eqb k k'
  | _, _ => false
  end.

Definition typeext_eqb (a b : typeext) : bool :=
  match a, b with
  | TEScalar p n ds, TEScalar p' n' ds' => pos_eqb p p' && ident_eqb n n' && directives_eqb ds ds'
  | TEObject p n im ds fs, TEObject p' n' im' ds' fs' =>
      pos_eqb p p' && ident_eqb n n' && idents_eqb im im' && directives_eqb ds ds' && list_eqb fielddef_eqb fs fs'
  | TEInterface p n im ds fs, TEInterface p' n' im' ds' fs' =>
      pos_eqb p p' && ident_eqb n n' && idents_eqb im im' && directives_eqb ds ds' && list_eqb fielddef_eqb fs fs'
  | TEUnion p n ds ms, TEUnion p' n' ds' ms' =>
      pos_eqb p p' && ident_eqb n n' && directives_eqb ds ds' && idents_eqb ms ms'
  | TEEnum p n ds vs, TEEnum p' n' ds' vs' =>
      pos_eqb p p' && ident_eqb n n' && directives_eqb ds ds' && list_eqb enumvaldef_eqb vs vs'
  | TEInput p n ds fs, TEInput p' n' ds' fs' =>
      pos_eqb p p' && ident_eqb n n' && directives_eqb ds ds' && list_eqb inputvaldef_eqb fs fs'
  | _, _ => false
  end.

Definition rootops_eqb := list_eqb (pair_eqb optype_eqb ident_eqb).

Definition schemadef_eqb (a b : schemadef) : bool :=
  odesc_eqb (sd_desc a) (sd_desc b) && pos_eqb (sd_pos a) (sd_pos b) && directives_eqb (sd_dirs a) (sd_dirs b)
  && rootops_eqb (sd_ops a) (sd_ops b).
Definition schemaext_eqb (a b : schemaext) : bool :=
  pos_eqb (se_pos a) (se_pos b) && directives_eqb (se_dirs a) (se_dirs b) && rootops_eqb (se_ops a) (se_ops b).
Definition directivedef_eqb (a b : directivedef) : bool :=
  odesc_eqb (dd_desc a) (dd_desc b) && pos_eqb (dd_pos a) (dd_pos b) && ident_eqb (dd_name a) (dd_name b)
  && option_eqb (list_eqb inputvaldef_eqb) (dd_args a) (dd_args b)
  && option_eqb ident_eqb (dd_repeatable a) (dd_repeatable b) && idents_eqb (dd_locs a) (dd_locs b)
  && keyword_eqb (dd_kw a) (dd_kw b).

Definition tsdef_eqb (a b : tsdef) : bool :=
  match a, b with
  | TSSchema x, TSSchema y => schemadef_eqb x y
  | TSType x, TSType y => typedef_eqb x y
  | TSDirective x, TSDirective y => directivedef_eqb x y
  | TSSchemaExt x, TSSchemaExt y => schemaext_eqb x y
  | TSTypeExt x, TSTypeExt y => typeext_eqb x y
  | _, _ => false
  end.
Definition tsdoc_eqb : tsdoc -> tsdoc -> bool := list_eqb tsdef_eqb.
