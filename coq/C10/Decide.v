(** Generic "decides with enough fuel" facts about [Ts.TsDen.has_type_b] (used by C10 and C09). *)
From V Require Import Base.Util Gql.Ast Writer.Wop Ts.TsType Ts.TsDen C10.Model C10.Spec C10.DenLemmas.

(** size of a value (for induction on sub-values) *)
Fixpoint vsize (v : val) : nat :=
  match v with
  | VList l => S (fold_right (fun x a => vsize x + a) 0 l)
  | VObj fs => S (fold_right (fun kv a => vsize (snd kv) + a) 0 fs)
  | _ => 1
  end.

Lemma vsize_list_in l e : In e l -> vsize e < vsize (VList l).
Proof.
  cbn [vsize]. induction l as [|a l IH]; intros H; [destruct H|].
  cbn [fold_right]. destruct H as [->|H]; [lia|]. specialize (IH H). lia.
Qed.
Lemma vsize_obj_assoc k kvs x : assoc k kvs = Some x -> vsize x < vsize (VObj kvs).
Proof.
  cbn [vsize]. induction kvs as [|[k' y] kvs IH]; cbn [assoc fold_right snd]; [discriminate|].
  destruct (str_eqb k k'); intros H; [inversion H; subst; lia|]. specialize (IH H). lia.
Qed.

Section Dec.
  Variable E : tsenv.
  Notation ht := (has_type_b E).

  (** [t] decides membership of [v] for every sufficiently large fuel *)
  Definition Dec (t : tstype) (v : val) : Prop := exists F, forall f, F <= f -> ht f t v <> None.

  Lemma Dec_intro1 t v : (forall f, ht (S f) t v <> None) -> Dec t v.
  Proof. intros H. exists 1. intros [|f] Hf; [lia|apply H]. Qed.

  Lemma Dec_strlit x v : Dec (TStrLit x) v.
  Proof. apply Dec_intro1. intros f. rewrite ht_strlit. discriminate. Qed.
  Lemma Dec_raw r v : Dec (TRaw r) v.
  Proof. apply Dec_intro1. intros f. rewrite ht_raw. discriminate. Qed.
  Lemma Dec_null v : Dec TNull v.
  Proof. apply Dec_intro1. intros f. rewrite ht_null. discriminate. Qed.
  Lemma Dec_undef v : Dec TUndefined v.
  Proof. apply Dec_intro1. intros f. rewrite ht_undef. discriminate. Qed.
  Lemma Dec_never v : Dec TNever v.
  Proof. apply Dec_intro1. intros f. rewrite ht_never. discriminate. Qed.

  (** a common bound for finitely many (type, value) pairs *)
  Lemma Dec_all {A} (l : list A) (ty : A -> tstype) (vl : A -> val) :
    (forall a, In a l -> Dec (ty a) (vl a)) ->
    exists F, forall f, F <= f -> forall a, In a l -> ht f (ty a) (vl a) <> None.
  Proof.
    induction l as [|a l IH]; intros H.
    - exists 0. intros f _ a [].
    - destruct (H a (or_introl eq_refl)) as (F1 & H1).
      destruct (IH (fun x Hx => H x (or_intror Hx))) as (F2 & H2).
      exists (Nat.max F1 F2). intros f Hf x [<-|Hx]; [apply H1; lia|apply H2; [lia|exact Hx]].
  Qed.

  Lemma fold_or_total {A} (g : A -> option bool) l i :
    (forall x, In x l -> g x <> None) -> fold_right (fun x acc => obool_or (g x) acc) (Some i) l <> None.
  Proof.
    induction l as [|a l IH]; intros H; cbn; [discriminate|].
    specialize (IH (fun x Hx => H x (or_intror Hx))). specialize (H a (or_introl eq_refl)).
    destruct (g a) as [[]|], (fold_right _ _ l) as [[]|]; cbn; congruence.
  Qed.
  Lemma fold_and_total {A} (g : A -> option bool) l i :
    (forall x, In x l -> g x <> None) -> fold_right (fun x acc => obool_and (g x) acc) (Some i) l <> None.
  Proof.
    induction l as [|a l IH]; intros H; cbn; [discriminate|].
    specialize (IH (fun x Hx => H x (or_intror Hx))). specialize (H a (or_introl eq_refl)).
    destruct (g a) as [[]|], (fold_right _ _ l) as [[]|]; cbn; congruence.
  Qed.

  Lemma Dec_union ts v : (forall x, In x ts -> Dec x v) -> Dec (TUnion ts) v.
  Proof.
    intros H. destruct (Dec_all ts (fun x => x) (fun _ => v) H) as (F & HF).
    exists (S F). intros [|f] Hf; [lia|]. rewrite ht_union. apply fold_or_total.
    intros x Hx. apply HF; [lia|exact Hx].
  Qed.
  Lemma Dec_ts_union ts v : (forall x, In x ts -> Dec x v) -> Dec (ts_union ts) v.
  Proof.
    intros H. destruct ts as [|x [|y r]]; cbn [ts_union].
    - apply Dec_never.
    - apply H. left; reflexivity.
    - apply Dec_union. exact H.
  Qed.
  Lemma Dec_array x v : (forall l e, v = VList l -> In e l -> Dec x e) -> Dec (TArray x) v.
  Proof.
    intros H. destruct v; try (apply Dec_intro1; intros f; rewrite ht_array; discriminate).
    destruct (Dec_all l (fun _ => x) (fun e => e) (fun e He => H l e eq_refl He)) as (F & HF).
    exists (S F). intros [|f] Hf; [lia|]. rewrite ht_array. apply fold_and_total.
    intros e He. apply HF; [lia|exact He].
  Qed.
  Lemma Dec_var n p t' v : env_var E n = Some t' -> Dec t' v -> Dec (TVar n p) v.
  Proof.
    intros He (F & HF). exists (S F). intros [|f] Hf; [lia|]. rewrite ht_var, He. apply HF. lia.
  Qed.
  Lemma Dec_ns3 a b c t' v : env_ns3 E a b c = Some t' -> Dec t' v -> Dec (TNs3 a b c) v.
  Proof.
    intros He (F & HF). exists (S F). intros [|f] Hf; [lia|]. rewrite ht_ns3, He. apply HF. lia.
  Qed.

  Lemma Dec_object fs v :
    (forall kvs fl x, v = VObj kvs -> In fl fs -> assoc (f_key fl) kvs = Some x -> Dec (f_ty fl) x) ->
    Dec (TObject fs) v.
  Proof.
    intros H. destruct v as [| | | | | | |kvs]; try (apply Dec_intro1; intros f; rewrite ht_object; discriminate).
    (* the fields that are present *)
    pose (present := flat_map (fun fl => match assoc (f_key fl) kvs with Some x => [(fl, x)] | None => [] end) fs).
    destruct (Dec_all present (fun a => f_ty (fst a)) (fun a => snd a)) as (F & HF).
    { intros [fl x] Hin. unfold present in Hin. apply in_flat_map in Hin as (fl' & Hfl' & Hin).
      destruct (assoc (f_key fl') kvs) as [x'|] eqn:Ha; [|destruct Hin].
      destruct Hin as [Heq|[]]. inversion Heq; subst. cbn. eapply H; [reflexivity|exact Hfl'|exact Ha]. }
    exists (S F). intros [|f] Hf; [lia|]. rewrite ht_object.
    destruct (nodup_keys _ && forallb _ _); [|discriminate].
    unfold fields_ok. apply fold_and_total. intros fl Hfl. unfold field_ok.
    destruct (assoc (f_key fl) kvs) as [x|] eqn:Ha; [|discriminate].
    assert (Hx : ht f (f_ty fl) x <> None).
    { apply (HF f ltac:(lia) (fl, x)). unfold present. apply in_flat_map. exists fl. split; [exact Hfl|].
      rewrite Ha. left; reflexivity. }
    destruct (f_optional fl); [|exact Hx].
    destruct (ht f (f_ty fl) x) as [[]|]; [| |congruence]; destruct (is_undef_v x); cbn; discriminate.
  Qed.

  (** wrappers: if the leaf decides on every value not larger than [k], so does the wrapped type *)
  Lemma Dec_get mapn ty k :
    (forall v', vsize v' <= k -> Dec (mapn (ty_unwrapped ty)) v') ->
    forall v, vsize v <= k -> Dec (get_ts_type_of_type mapn ty) v /\ Dec (core mapn ty) v.
  Proof.
    intros HL. induction ty as [n|ty' IH|p ty' IH]; intros v Hv.
    - assert (Hc : Dec (core mapn (TNamed n)) v) by (rewrite core_named; apply HL; exact Hv).
      split; [|exact Hc]. rewrite get_ts_eq. cbn [is_nonnull].
      apply Dec_union. intros x [<-|[<-|[]]]; [exact Hc|apply Dec_null].
    - destruct (IH HL v Hv) as [_ Hc]. rewrite get_ts_eq. cbn [is_nonnull]. rewrite core_nonnull. split; exact Hc.
    - assert (Hc : Dec (core mapn (TList p ty')) v).
      { rewrite core_list. apply Dec_array. intros l e -> He.
        apply (IH HL e). pose proof (vsize_list_in l e He). lia. }
      split; [|exact Hc]. rewrite get_ts_eq. cbn [is_nonnull].
      apply Dec_union. intros x [<-|[<-|[]]]; [exact Hc|apply Dec_null].
  Qed.

  Lemma Dec_ext t t' v : (forall f, ht f t v = ht f t' v) -> Dec t' v -> Dec t v.
  Proof. intros He (F & HF). exists F. intros f Hf. rewrite He. apply HF. exact Hf. Qed.
End Dec.
