(** C10 — resolvers, denotationally: the [Args] type of every field resolver, read against the
    schema declaration's `__ResolverInput` namespace, denotes exactly the records that give every
    declared argument a value of [Ref_ResolverInput] of its type (no other keys; nothing optional). *)
From V Require Import Base.Util Gql.Ast Writer.Wop Ts.TsType Ts.TsDen
  C10.Model C10.Spec C10.DenLemmas C10.Decide C10.Proofs C10.Proofs3 C10.ResolverProofs.

(** [ns.__ResolverInput.T] is the alias the schema declaration exports for [T] in that namespace *)
Definition res_in_env (ms : list (option member)) : tsenv :=
  mkEnv (env_var (ns_env ms)) (fun _ _ => None)
        (fun _ tgt T => if str_eqb tgt (target_str ResIn) then alias_of ms T else None).

(** reference: exactly the declared arguments, each in [Ref_ResolverInput] of its type *)
Definition args_ref (o : sopts) (doc : tsdoc) (args : list inputvaldef) (v : val) : bool :=
  match v with
  | VObj kvs =>
      exact_keys (map (fun iv => iname (iv_name iv)) args) kvs
      && forallb (fun iv => match assoc (iname (iv_name iv)) kvs with
                            | Some x => Ref_ty o doc ResIn (iv_type iv) x
                            | None => false
                            end) args
  | _ => false
  end.

Definition args_wf (doc : tsdoc) (args : list inputvaldef) : bool :=
  forallb (fun iv => is_input_kind (kind_of doc (iname (ty_unwrapped (iv_type iv))))) args.

Definition arg_field (ro : ropts) (iv : inputvaldef) : tsfield :=
  mkField (iname (iv_name iv)) (ipos (iv_name iv))
          (get_ts_type_of_type (fun n => TNs3 (ro_ns ro) (target_str ResIn) (iname n)) (iv_type iv))
          true false (descr_value (iv_desc iv)).

Lemma args_type_eq ro args : arguments_definition_to_ts ro args = TObject (map (arg_field ro) args).
Proof. unfold arguments_definition_to_ts. cbn [into_readonly]. rewrite map_map. reflexivity. Qed.

Section Args.
  Variables (o : sopts) (doc : tsdoc) (ms : list (option member)).
  Hypothesis Hwf : wf_schema o doc = true.
  Hypothesis Hms : namespace_members o doc ResIn = Ok ms.
  Notation E := (res_in_env ms).
  Notation ht := (has_type_b E).

  Lemma leaf_res_in ns f n :
    is_input_kind (kind_of doc (iname n)) = true ->
    LeafOK o doc ResIn E (fun n => TNs3 ns (target_str ResIn) (iname n)) f n.
  Proof.
    intros Hk f' _ v b H. cbv beta in H |- *.
    destruct f' as [|f'']; [rewrite ht_zero in H; discriminate|].
    rewrite ht_ns3 in H. cbn [env_ns3 res_in_env] in H. rewrite str_eqb_refl in H.
    destruct (alias_of ms (iname n)) as [body|] eqn:Hal; [|discriminate].
    destruct (kind_input doc ResIn _ Hk eq_refl) as (td & Hg & Happ).
    eapply (alias_exact_sound o doc ResIn ms Hwf Hms E (fun _ => eq_refl)); eassumption.
  Qed.

  Theorem args_exact ro args f v b :
    args_wf doc args = true ->
    ht f (arguments_definition_to_ts ro args) v = Some b -> args_ref o doc args v = b.
  Proof.
    intros Hv H. rewrite args_type_eq in H.
    destruct f as [|f1]; [rewrite ht_zero in H; discriminate|].
    rewrite ht_object in H. unfold args_ref.
    destruct v as [| | | | | | |kvs]; try (inversion H; reflexivity).
    assert (Hkeys : forallb (fun k => existsb (fun fl => str_eqb (f_key fl) k) (map (arg_field ro) args)) (map fst kvs)
                    = forallb (fun k => mem k (map (fun iv => iname (iv_name iv)) args)) (map fst kvs)).
    { apply forallb_ext'. intros k. unfold mem. rewrite !existsb_map. apply existsb_ext'.
      intros iv. cbn [arg_field f_key]. apply str_eqb_sym. }
    rewrite Hkeys in H. unfold exact_keys.
    destruct (nodup_keys (map fst kvs) && forallb _ (map fst kvs)); [|inversion H; reflexivity].
    cbn [andb]. unfold fields_ok in H. rewrite fold_right_map_fuse in H.
    eapply fold_and_sound; [|exact H].
    intros iv Hiv b' Hb'. cbv beta in Hb'.
    unfold args_wf in Hv. rewrite forallb_forall in Hv. specialize (Hv _ Hiv).
    unfold field_ok in Hb'. cbn [arg_field f_key f_optional f_ty] in Hb'.
    destruct (assoc (iname (iv_name iv)) kvs) as [x|]; [|inversion Hb'; reflexivity].
    unfold Ref_ty. eapply get_ok; [apply leaf_res_in; exact Hv|exact Hb'].
  Qed.

  Lemma leaf_res_in_decides ns n v : is_input_kind (kind_of doc (iname n)) = true ->
    Dec E (TNs3 ns (target_str ResIn) (iname n)) v.
  Proof.
    intros Hk. destruct (kind_input doc ResIn _ Hk eq_refl) as (td & Hg & Happ).
    destruct (proj1 (alias_present_iff o doc ResIn ms Hwf Hms _ td Hg) Happ) as (body & Hal).
    eapply Dec_ns3.
    - cbn [env_ns3 res_in_env]. rewrite str_eqb_refl. exact Hal.
    - eapply (alias_decides o doc ResIn ms Hwf Hms E (fun _ => eq_refl)); eassumption.
  Qed.

  Theorem args_decides ro args v : args_wf doc args = true -> Dec E (arguments_definition_to_ts ro args) v.
  Proof.
    intros Hv. rewrite args_type_eq. apply Dec_object. intros kvs fl x -> Hfl Hx.
    apply in_map_iff in Hfl as (iv & <- & Hiv).
    unfold args_wf in Hv. rewrite forallb_forall in Hv. specialize (Hv _ Hiv).
    cbn [arg_field f_ty].
    apply (Dec_get E _ (iv_type iv) (vsize x)); [|lia]. intros v' _. apply leaf_res_in_decides. exact Hv.
  Qed.

  (** [[Args]] = Ref_ResolverInput(args f) *)
  Theorem args_exact_iff ro args v :
    args_wf doc args = true ->
    (In_type E (arguments_definition_to_ts ro args) v <-> args_ref o doc args v = true)
    /\ (NotIn_type E (arguments_definition_to_ts ro args) v <-> args_ref o doc args v = false).
  Proof.
    intros Hv. destruct (args_decides ro args v Hv) as (F & HF).
    assert (Hs := fun f b => args_exact ro args f v b Hv).
    specialize (HF F (le_n _)).
    destruct (has_type_b E F (arguments_definition_to_ts ro args) v) as [b|] eqn:Hb; [|congruence].
    pose proof (Hs _ _ Hb) as Hr. split; split.
    - intros (f & Hf). apply (Hs f true Hf).
    - intros H. exists F. rewrite Hb. congruence.
    - intros (f & Hf). apply (Hs f false Hf).
    - intros H. exists F. rewrite Hb. congruence.
  Qed.
End Args.
