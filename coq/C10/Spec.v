(** C10 — specification side: the reference denotation [Ref_t(T)] of every GraphQL type of a
    schema for each of the four targets, written from the property text directly over the schema
    (NOT via TypeScript types), over the abstract value domain [Ts.TsDen.val]; the reading of the
    emitted namespaces as a TypeScript environment; and the computable guard [wf_schema].

    Reference denotation (property C10):
      - scalar: the inhabitants of the TypeScript type configured for that target
        ([raw_member]: "string"/"number"/"boolean" are read as usual, any other text is opaque);
      - enum: its value names, as string literals;
      - object (output targets only): records with exactly the keys [__typename] + the fields,
        [__typename] = the type's name, every field present and in the denotation of its type;
      - interface / union (output targets only): the union of their possible object types;
      - input object (input targets only): records whose keys are among the fields; a field may be
        omitted (or [undefined]) iff it is nullable and the option [allowUndefinedAsOptionalInput] is on;
      - wrappers: [T] admits [null]; [T!] does not; [[T]] is a list of [T]. *)
From V Require Import Base.Util Gql.Ast Writer.Wop Ts.TsType Ts.TsDen C10.Model.

(** ** GraphQL types in normal form: the named type, and for each list layer whether its elements
    are non-null *)
Inductive nty := NNamed (n : str) | NList (elem_nonnull : bool) (elem : nty).

Fixpoint ty_norm (t : ty) : nty :=
  match t with
  | TNamed n => NNamed (iname n)
  | TNonNull t' => ty_norm t'
  | TList _ t' => NList (is_nonnull t') (ty_norm t')
  end.

Definition starts_with (p x : str) : bool := list_eqb N.eqb p (firstn (length p) x).

Section Ref.
  Variables (o : sopts) (doc : tsdoc) (t : target).

  (** the TypeScript type configured for a scalar: the [scalarTypes] option, else [@nitrogql_ts_type] *)
  Definition scalar_config (n : str) (dirs : list directive) : option scalar_cfg :=
    match assoc n (so_scalars o) with Some c => Some c | None => directive_ts_type dirs end.

  (** possible types of an interface: the object types that declare it *)
  Definition possible_of_interface (n : str) : list str :=
    flat_map (fun td => match td with
                        | TDObject _ _ name impls _ _ _ => if mem n (map iname impls) then [iname name] else []
                        | _ => []
                        end) (typedefs doc).

  (** a value, seen as "is it in the denotation of this (nullability, type)?" *)
  Definition checker := bool -> nty -> bool.

  Definition exact_keys (allowed : list str) (kvs : list (str * val)) : bool :=
    nodup_keys (map fst kvs) && forallb (fun k => mem k allowed) (map fst kvs).

  Definition is_undef (v : val) : bool := match v with VUndef => true | _ => false end.

  Definition object_den (n : str) (fields : list fielddef) (v : val) (cks : list (str * checker)) : bool :=
    match v with
    | VObj kvs =>
        exact_keys (TYPENAME :: map (fun fd => iname (fd_name fd)) fields) kvs
        && match assoc TYPENAME kvs with Some (VStr x) => str_eqb x n | _ => false end
        && forallb (fun fd => match assoc (iname (fd_name fd)) cks with
                              | Some chk => chk (is_nonnull (fd_type fd)) (ty_norm (fd_type fd))
                              | None => false
                              end) fields
    | _ => false
    end.

  Definition input_den (fields : list inputvaldef) (v : val) (cks : list (str * checker)) : bool :=
    match v with
    | VObj kvs =>
        exact_keys (map (fun iv => iname (iv_name iv)) fields) kvs
        && forallb (fun iv =>
             let omissible := so_optional o && negb (is_nonnull (iv_type iv)) in
             match assoc (iname (iv_name iv)) kvs, assoc (iname (iv_name iv)) cks with
             | Some x, Some chk => (omissible && is_undef x) || chk (is_nonnull (iv_type iv)) (ty_norm (iv_type iv))
             | _, _ => omissible
             end) fields
    | _ => false
    end.

  Definition object_named (n : str) (v : val) (cks : list (str * checker)) : bool :=
    match get_type doc n with
    | Some (TDObject _ _ _ _ _ fields _) => object_den n fields v cks
    | _ => false
    end.

  (** denotation of the named type [n] at a non-null value [v]; [cks] are the checkers of the
      immediate sub-values of [v] when it is a record *)
  Definition named_den (v : val) (cks : list (str * checker)) (n : str) : bool :=
    match get_type doc n with
    | Some (TDScalar _ _ _ dirs _) =>
        match scalar_config n dirs with Some c => raw_member (cfg_get_type c t) v | None => false end
    | Some (TDEnum _ _ _ _ vals _) =>
        match v with VStr x => existsb (fun ev => str_eqb x (iname (ev_name ev))) vals | _ => false end
    | Some (TDObject _ _ _ _ _ fields _) => is_output t && object_den n fields v cks
    | Some (TDInterface _ _ _ _ _ _ _) => is_output t && existsb (fun p => object_named p v cks) (possible_of_interface n)
    | Some (TDUnion _ _ _ _ members _) => is_output t && existsb (fun m => object_named (iname m) v cks) members
    | Some (TDInput _ _ _ _ fields _) => is_input t && input_den fields v cks
    | None => false
    end.

  Fixpoint ref_val (v : val) (nn : bool) (ty : nty) {struct v} : bool :=
    match v with
    | VNull => negb nn
    | _ =>
        match ty with
        | NList en et => match v with VList l => forallb (fun x => ref_val x en et) l | _ => false end
        | NNamed n =>
            named_den v (match v with
                         | VObj kvs => map (fun kv => (fst kv, ref_val (snd kv))) kvs
                         | _ => []
                         end) n
        end
    end.

  (** [Ref_t(T)] *)
  Definition Ref (T : str) (v : val) : bool := ref_val v true (NNamed T).
  (** denotation of a field / argument / variable position of GraphQL type [ty] *)
  Definition Ref_ty (ty : ty) (v : val) : bool := ref_val v (is_nonnull ty) (ty_norm ty).

  (** is the type [T] given an alias in the namespace of target [t]? *)
  Definition applicable (T : str) : bool :=
    match get_type doc T with
    | Some (TDScalar _ _ _ _ _) | Some (TDEnum _ _ _ _ _ _) => true
    | Some (TDInput _ _ _ _ _ _) => is_input t
    | Some _ => is_output t
    | None => false
    end.
End Ref.

(** ** The emitted namespace read as a TypeScript environment *)
Definition body_type (b : body) : tstype := match b with BType x => x | BText r => TRaw r end.

Definition somes {A} (l : list (option A)) : list A := flat_map (fun x => match x with Some a => [a] | None => [] end) l.

(** a name used inside namespace [ms] resolves to the local declaration of that name, if any; an
    unbound name is a global the model knows nothing about (read as an opaque atom by [has_type_b]) *)
Definition ns_env (ms : list (option member)) : tsenv :=
  mkEnv (fun n => option_map (fun m => body_type (m_body m)) (find (fun m => str_eqb (m_local m) n) (somes ms)))
        (fun _ _ => None) (fun _ _ _ => None).

(** the type exported under the schema name [T] *)
Definition alias_of (ms : list (option member)) (T : str) : option tstype :=
  option_map (fun m => body_type (m_body m)) (find (fun m => str_eqb (iname (m_name m)) T) (somes ms)).

Definition namespace_of (nss : list (target * list (option member))) (t : target) : list (option member) :=
  match find (fun tm => target_eqb (fst tm) t) nss with Some tm => snd tm | None => [] end.

(** ** The guard: what [check] guarantees and the theorems use *)
Definition kind_of (doc : tsdoc) (n : str) : N :=   (* 0 undefined, 1 scalar, 2 enum, 3 object, 4 interface, 5 union, 6 input *)
  match get_type doc n with
  | None => 0
  | Some (TDScalar _ _ _ _ _) => 1 | Some (TDEnum _ _ _ _ _ _) => 2 | Some (TDObject _ _ _ _ _ _ _) => 3
  | Some (TDInterface _ _ _ _ _ _ _) => 4 | Some (TDUnion _ _ _ _ _ _) => 5 | Some (TDInput _ _ _ _ _ _) => 6
  end%N.
Definition is_output_kind (k : N) : bool := ((1 <=? k) && (k <=? 5))%N.
Definition is_input_kind (k : N) : bool := ((k =? 1) || (k =? 2) || (k =? 6))%N.

Definition UNSCO : str := s "__".

Definition wf_typedef (o : sopts) (doc : tsdoc) (td : typedef) : bool :=
  negb (starts_with UNSCO (tname td))
  && match td with
     | TDScalar _ _ n dirs _ => match scalar_config o (iname n) dirs with Some _ => true | None => false end
     | TDObject _ _ _ _ _ fields _ | TDInterface _ _ _ _ _ fields _ =>
         forallb (fun fd => negb (starts_with UNSCO (iname (fd_name fd)))
                            && is_output_kind (kind_of doc (iname (ty_unwrapped (fd_type fd))))) fields
     | TDUnion _ _ _ _ members _ => forallb (fun m => N.eqb (kind_of doc (iname m)) 3) members
     | TDEnum _ _ _ _ _ _ => true
     | TDInput _ _ _ _ fields _ =>
         forallb (fun iv => is_input_kind (kind_of doc (iname (ty_unwrapped (iv_type iv))))) fields
     end.

(** unique type names, no reserved names, every scalar configured, every reference defined and of
    the right kind (all enforced by [check] except the scalar configuration, whose absence makes
    the printer return an error) *)
Definition wf_schema (o : sopts) (doc : tsdoc) : bool :=
  nodup_keys (map tname (typedefs doc)) && forallb (wf_typedef o doc) (typedefs doc).
