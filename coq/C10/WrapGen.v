(** Wrapper-exact nullability of [get_ts_type_of_type] for ANY fuelled decider that treats unions,
    arrays and [null] the way [Ts.TsDen.has_type_b] does (used for the resolver file's local
    denotation, C10/ResolverDen.v).  Same statements and proofs as [DenLemmas.Wrap]/[Decide.Dec_get],
    with the one-step equations as hypotheses. *)
From V Require Import Base.Util Gql.Ast Writer.Wop Ts.TsType Ts.TsDen C10.Model C10.Spec C10.DenLemmas C10.Decide.

Section WrapGen.
  Variable ht : nat -> tstype -> val -> option bool.
  Hypothesis Hzero : forall t v, ht 0 t v = None.
  Hypothesis Hunion : forall f ts v,
    ht (S f) (TUnion ts) v = fold_right (fun x acc => obool_or (ht f x v) acc) (Some false) ts.
  Hypothesis Harray : forall f x v,
    ht (S f) (TArray x) v = match v with
                            | VList l => fold_right (fun e acc => obool_and (ht f x e) acc) (Some true) l
                            | _ => Some false
                            end.
  Hypothesis Hnull : forall f v, ht (S f) TNull v = Some (is_null_v v).

  Variable P : str -> val -> bool.
  Hypothesis P_null : forall n, P n VNull = false.
  Variable mapn : ident -> tstype.
  Notation rv := (wrap_den P).
  Notation core := (core mapn).

  Definition LeafOKh (f : nat) (n : ident) : Prop :=
    forall f', f' <= f -> forall v b, ht f' (mapn n) v = Some b -> P (iname n) v = b.

  Lemma LeafOKh_le f f' n : f' <= f -> LeafOKh f n -> LeafOKh f' n.
  Proof. intros Hle H f'' Hle' v b Hh. eapply (H f''); [lia|exact Hh]. Qed.

  Definition CoreOKh (ty : ty) : Prop :=
    forall f, LeafOKh f (ty_unwrapped ty) -> forall v b, ht f (core ty) v = Some b -> rv v true (ty_norm ty) = b.
  Definition GetOKh (ty : ty) : Prop :=
    forall f, LeafOKh f (ty_unwrapped ty) -> forall v b,
      ht f (get_ts_type_of_type mapn ty) v = Some b -> rv v (is_nonnull ty) (ty_norm ty) = b.

  Lemma get_of_core_h ty : CoreOKh ty -> GetOKh ty.
  Proof.
    intros HC f HL v b H. rewrite get_ts_eq in H.
    destruct (is_nonnull ty) eqn:Hnn.
    - eapply HC; eassumption.
    - destruct f as [|f1]; [rewrite Hzero in H; discriminate|].
      rewrite Hunion in H. cbn [fold_right] in H.
      assert (HL1 : LeafOKh f1 (ty_unwrapped ty)) by (eapply LeafOKh_le; [|exact HL]; lia).
      destruct (val_eq_null v) as [->|Hv].
      + rewrite (wrap_den_null P). cbn.
        apply obool_or_some in H as [(-> & _ & Hin)|(-> & _)]; [|reflexivity].
        exfalso. destruct f1 as [|f2]; [rewrite Hzero in Hin; discriminate|].
        rewrite Hnull in Hin. cbn in Hin. discriminate.
      + rewrite (wrap_den_nn P v false _ Hv).
        apply obool_or_some in H as [(-> & Hc & _)|(-> & [Hc|Hin])].
        * eapply HC; eassumption.
        * eapply HC; eassumption.
        * exfalso. destruct f1 as [|f2]; [rewrite Hzero in Hin; discriminate|].
          rewrite Hnull in Hin. destruct v; cbn in Hin; try discriminate. congruence.
  Qed.

  Lemma core_ok_h ty : CoreOKh ty.
  Proof.
    induction ty as [n|ty' IH|p ty' IH]; intros f HL v b H.
    - rewrite core_named in H. cbn [ty_norm]. rewrite (wrap_den_named P P_null). eapply (HL f); [lia|exact H].
    - rewrite core_nonnull in H. cbn [ty_norm]. eapply IH; eassumption.
    - rewrite core_list in H. cbn [ty_norm].
      destruct f as [|f1]; [rewrite Hzero in H; discriminate|].
      rewrite Harray in H.
      destruct v as [| | | | | |l|fs]; try (inversion H; subst; reflexivity).
      rewrite (wrap_den_list P).
      eapply fold_and_sound; [|exact H].
      intros x _ b' Hx. eapply (get_of_core_h ty' IH f1); [|exact Hx].
      eapply LeafOKh_le; [|exact HL]. lia.
  Qed.

  Theorem get_ok_h ty : GetOKh ty.
  Proof. apply get_of_core_h, core_ok_h. Qed.

  (** decidedness *)
  Definition Dech (t : tstype) (v : val) : Prop := exists F, forall f, F <= f -> ht f t v <> None.

  Lemma Dech_null v : Dech TNull v.
  Proof. exists 1. intros [|f] Hf; [lia|]. rewrite Hnull. discriminate. Qed.

  Lemma Dech_all {A} (l : list A) (ty : A -> tstype) (vl : A -> val) :
    (forall a, In a l -> Dech (ty a) (vl a)) ->
    exists F, forall f, F <= f -> forall a, In a l -> ht f (ty a) (vl a) <> None.
  Proof.
    induction l as [|a l IH]; intros H.
    - exists 0. intros f _ a [].
    - destruct (H a (or_introl eq_refl)) as (F1 & H1).
      destruct (IH (fun x Hx => H x (or_intror Hx))) as (F2 & H2).
      exists (Nat.max F1 F2). intros f Hf x [<-|Hx]; [apply H1; lia|apply H2; [lia|exact Hx]].
  Qed.

  Lemma Dech_union ts v : (forall x, In x ts -> Dech x v) -> Dech (TUnion ts) v.
  Proof.
    intros H. destruct (Dech_all ts (fun x => x) (fun _ => v) H) as (F & HF).
    exists (S F). intros [|f] Hf; [lia|]. rewrite Hunion. apply fold_or_total.
    intros x Hx. apply HF; [lia|exact Hx].
  Qed.
  Lemma Dech_array x v : (forall l e, v = VList l -> In e l -> Dech x e) -> Dech (TArray x) v.
  Proof.
    intros H. destruct v; try (exists 1; intros [|f] Hf; [lia|]; rewrite Harray; discriminate).
    destruct (Dech_all l (fun _ => x) (fun e => e) (fun e He => H l e eq_refl He)) as (F & HF).
    exists (S F). intros [|f] Hf; [lia|]. rewrite Harray. apply fold_and_total.
    intros e He. apply HF; [lia|exact He].
  Qed.

  Lemma Dech_get ty k :
    (forall v', vsize v' <= k -> Dech (mapn (ty_unwrapped ty)) v') ->
    forall v, vsize v <= k -> Dech (get_ts_type_of_type mapn ty) v /\ Dech (core ty) v.
  Proof.
    intros HL. induction ty as [n|ty' IH|p ty' IH]; intros v Hv.
    - assert (Hc : Dech (core (TNamed n)) v) by (rewrite core_named; apply HL; exact Hv).
      split; [|exact Hc]. rewrite get_ts_eq. cbn [is_nonnull].
      apply Dech_union. intros x [<-|[<-|[]]]; [exact Hc|apply Dech_null].
    - destruct (IH HL v Hv) as [_ Hc]. rewrite get_ts_eq. cbn [is_nonnull]. rewrite core_nonnull. split; exact Hc.
    - assert (Hc : Dech (core (TList p ty')) v).
      { rewrite core_list. apply Dech_array. intros l e -> He.
        apply (IH HL e). pose proof (vsize_list_in l e He). lia. }
      split; [|exact Hc]. rewrite get_ts_eq. cbn [is_nonnull].
      apply Dech_union. intros x [<-|[<-|[]]]; [exact Hc|apply Dech_null].
  Qed.
End WrapGen.
