(** C10 — the whole schema declaration: the printer succeeds on every well-formed schema, and the
    four namespaces are those of [Proofs.NS]. *)
From V Require Import Base.Util Gql.Ast Writer.Wop Ts.TsType Ts.TsDen C10.Model C10.Spec C10.DenLemmas C10.Decide C10.Proofs C10.Proofs3.

Lemma mapM_ok_intro {A B} (f : A -> res B) l :
  (forall x, In x l -> exists y, f x = Ok y) -> exists ys, mapM f l = Ok ys.
Proof.
  induction l as [|a l IH]; intros H; [exists []; reflexivity|].
  destruct (H a (or_introl eq_refl)) as (y & Hy).
  destruct (IH (fun x Hx => H x (or_intror Hx))) as (ys & Hys).
  exists (y :: ys). cbn. rewrite Hy. cbn. rewrite Hys. reflexivity.
Qed.

Section Total.
  Variables (o : sopts) (doc : tsdoc) (t : target).
  Hypothesis Hwf : wf_schema o doc = true.
  Let c := make_ctx o doc t.

  Lemma defined_kind n : kind_of doc n <> 0%N -> exists l, local_type_name_or_panic c n = Ok l.
  Proof.
    unfold kind_of. destruct (get_type doc n) as [td|] eqn:Hg; [|congruence]. intros _.
    destruct (get_type_spec _ _ _ Hg) as [Hin <-].
    unfold local_type_name_or_panic. pose proof (ltn_defined o doc t _ Hin) as Hl. fold c in Hl. rewrite Hl. eauto.
  Qed.

  Lemma ts_local_total ty : kind_of doc (iname (ty_unwrapped ty)) <> 0%N -> exists x, ts_of_type_local c ty = Ok x.
  Proof.
    intros H. destruct (defined_kind _ H) as (l & Hl). unfold ts_of_type_local. rewrite Hl. cbn. eauto.
  Qed.

  Lemma self_name td : In td (typedefs doc) -> exists l, local_type_name_or_panic c (tname td) = Ok l.
  Proof. intros Hin. unfold local_type_name_or_panic. pose proof (ltn_defined o doc t _ Hin) as Hl. fold c in Hl. rewrite Hl. eauto. Qed.

  Lemma find_field_some {A} (key : A -> str) (l : list A) x : In x l -> exists y, find (fun z => str_eqb (key z) (key x)) l = Some y.
  Proof.
    induction l as [|a l IH]; intros H; [destruct H|]. cbn.
    destruct (str_eqb (key a) (key x)) eqn:He; [eauto|].
    destruct H as [->|H]; [rewrite str_eqb_refl in He; discriminate|exact (IH H)].
  Qed.

  Lemma type_member_total td : In td (typedefs doc) -> exists mo, type_member c td = Ok mo.
  Proof.
    intros Hin. pose proof (Hwfd o doc Hwf td Hin) as Hw. unfold wf_typedef in Hw.
    apply andb_true_iff in Hw as [_ Hw].
    destruct (self_name td Hin) as (l & Hl). unfold tname in Hl.
    destruct td; cbn [type_member typedef_name] in *.
    - change (c_scalars c) with (get_scalar_types o doc).
      rewrite (scalars_assoc o doc d p name dirs kw (Hnd o doc Hwf) Hin).
      destruct (scalar_config o (iname name) dirs); [|discriminate]. rewrite Hl. cbn. eauto.
    - destruct (is_input (c_target c)); [eauto|].
      destruct (mapM_ok_intro (fun fd => bind (ts_of_type_local c (fd_type fd))
                   (fun t0 => Ok (mkField (iname (fd_name fd)) (ipos (fd_name fd)) t0 false false
                      (make_ts_description (fd_desc fd) (schema_object_field_deprecation (c_doc c) (iname name) (iname (fd_name fd))))))) fields) as (fs & Hfs).
      { intros fd Hfd. rewrite forallb_forall in Hw. specialize (Hw _ Hfd). apply andb_true_iff in Hw as [_ Hw].
        destruct (ts_local_total (fd_type fd)) as (x & Hx).
        { intros H0. rewrite H0 in Hw. discriminate. }
        rewrite Hx. cbn. eauto. }
      rewrite Hfs. cbn. rewrite Hl. cbn. eauto.
    - destruct (is_input (c_target c)); [eauto|]. rewrite Hl. cbn. eauto.
    - destruct (is_input (c_target c)); [eauto|]. rewrite Hl. cbn. eauto.
    - rewrite Hl. cbn. eauto.
    - destruct (is_output (c_target c)); [eauto|].
      match goal with |- context [mapM ?F fields] => destruct (mapM_ok_intro F fields) as (fs & Hfs) end.
      { intros iv Hiv. rewrite forallb_forall in Hw. specialize (Hw _ Hiv).
        unfold schema_input_field_deprecation. change (c_doc c) with doc.
        rewrite (get_type_of_in doc _ (Hnd o doc Hwf) Hin : get_type doc (iname name) = _).
        destruct (find_field_some (fun iv => iname (iv_name iv)) fields iv Hiv) as (y & Hy). rewrite Hy.
        destruct (ts_local_total (iv_type iv)) as (x & Hx).
        { intros H0. rewrite H0 in Hw. discriminate. }
        rewrite Hx. cbn. eauto. }
      rewrite Hfs. cbn. rewrite Hl. cbn. eauto.
  Qed.

  Lemma namespace_total : exists ms, namespace_members o doc t = Ok ms.
  Proof.
    unfold namespace_members. apply mapM_ok_intro. intros d Hd.
    destruct d; cbn; eauto. apply type_member_total. apply in_typedefs. exact Hd.
  Qed.
End Total.

(** the printer neither fails nor panics on a well-formed schema *)
Theorem schema_decls_total o doc : wf_schema o doc = true -> exists nss, schema_decls o doc = Ok nss.
Proof.
  intros Hwf. unfold schema_decls. apply mapM_ok_intro. intros t _.
  destruct (namespace_total o doc t Hwf) as (ms & Hms). rewrite Hms. cbn. eauto.
Qed.

Lemma namespace_of_decls o doc nss t :
  schema_decls o doc = Ok nss -> namespace_members o doc t = Ok (namespace_of nss t).
Proof.
  unfold schema_decls, all_targets. intros H. apply mapM_ok in H.
  repeat match goal with
         | H : Forall2 _ (_ :: _) _ |- _ => inversion H; clear H; subst
         | H : Forall2 _ [] _ |- _ => inversion H; clear H; subst
         | H : bind _ _ = Ok _ |- _ => apply bind_ok in H as (? & ? & H); inversion H; clear H; subst
         end.
  destruct t; cbn; assumption.
Qed.

Theorem alias_exact o doc nss t T body f v b :
  wf_schema o doc = true -> schema_decls o doc = Ok nss ->
  applicable doc t T = true -> alias_of (namespace_of nss t) T = Some body ->
  has_type_b (ns_env (namespace_of nss t)) f body v = Some b -> Ref o doc t T v = b.
Proof.
  intros Hwf Hd. eapply alias_exact_sound; [exact Hwf|apply namespace_of_decls; exact Hd|reflexivity].
Qed.

Theorem alias_present o doc nss t T td :
  wf_schema o doc = true -> schema_decls o doc = Ok nss -> get_type doc T = Some td ->
  (applicable doc t T = true <-> exists body, alias_of (namespace_of nss t) T = Some body).
Proof.
  intros Hwf Hd. eapply alias_present_iff; [exact Hwf|apply namespace_of_decls; exact Hd].
Qed.

Theorem alias_exact_equiv o doc nss t T body v :
  wf_schema o doc = true -> schema_decls o doc = Ok nss ->
  applicable doc t T = true -> alias_of (namespace_of nss t) T = Some body ->
  (In_type (ns_env (namespace_of nss t)) body v <-> Ref o doc t T v = true)
  /\ (NotIn_type (ns_env (namespace_of nss t)) body v <-> Ref o doc t T v = false).
Proof.
  intros Hwf Hd. eapply alias_exact_iff; [exact Hwf|apply namespace_of_decls; exact Hd|reflexivity].
Qed.
