(** C10 — correspondence ([agree]) and the spec-side predicate on the implementation's output ([holds]). *)
From V Require Import Base.Util Gql.Ast Writer.Wop Ts.TsType Ts.TsDen C10.Model C10.Spec C10.Domain C10.DenLemmas C10.JsdocProofs C10.NameProofs C10.ResolverProofs C10.ResolverArgs C10.ResolverDen C10.Parse C10.ReadBack.

(** result of one run of a Rust printer: the coalesced recorded operations, the returned error,
    or the caught panic (site numbered as in Model.res) *)
Definition res_eqb (a b : res (list wop)) : bool :=
  match a, b with
  | Ok x, Ok y => wops_eqb x y
  | ErrScalar n p, ErrScalar m q => str_eqb n m && pos_eqb p q
  | Panic i, Panic j => N.eqb i j
  | _, _ => false
  end.

(** abbreviations used by the generated case files *)
Definition P (l c : N) : pos := mkPos l c 0 false.
Definition P0 : pos := pos0.
Definition WS (c : str) (p : pos) : wop := WF c p (Some c).

Inductive name_item :=
| NKeyword (locals : list str)                            (* schema file *)
| NCapture (locals : list str) (scalar_texts : list str)  (* schema file + the TS texts of the scalars in use *)
| NReserved (aliases : list str) (o : ropts).             (* resolvers file *)

Inductive case :=
| CDoc (checked : bool)                                   (* check_type_system_document found no error *)
       (doc : tsdoc)
       (sruns : list (sopts * res (list wop)))            (* SchemaTypePrinter::print_document *)
       (rruns : list (ropts * nat * res (list wop)))      (* ResolverTypePrinter::print_document, n model plugins *)
| CJsdoc (items : list (str * list wop))                  (* jsdoc::print_description on each string *)
(* names the implementation DECLARES, read off its recorded operations by the harness (the [write_for]
   that follows a [write_for "export type "/"type "], resp. a [write "…type "] in the resolvers file) *)
| CNames (items : list name_item).

(** model = implementation on every run; and, so that [holds] (which reads TEXT) and the theorems (which
    speak about the model's STRUCTURE) are about the same thing: reading the model's own text back with
    the spec-side reader gives the model's structured declarations ([ReadBack]) *)
Definition agree (c : case) : bool :=
  match c with
  | CDoc checked doc sruns rruns =>
      forallb (fun r => res_eqb (print_schema (fst r) doc) (snd r)) sruns
      && (* the reader against the model, on the first configuration of each schema *)
         (match sruns with
          | r :: _ => negb (wf_schema (fst r) doc && scalar_texts_plain (fst r) doc) || readback_schema_ok (fst r) doc
          | [] => true
          end)
      && forallb (fun r => res_eqb (print_resolvers (fst (fst r)) (snd (fst r)) doc) (snd r)
                           && (match snd (fst r) with
                               | O => (* checked: every referenced type is defined, so no reference is spelled like a keyword either *)
                                      negb (checked && nodup_keys (map tname (typedefs doc)) && no_keyword_type_names doc)
                                      || readback_resolvers_ok (fst (fst r)) doc
                               | _ => true
                               end)) rruns
  | CJsdoc items => forallb (fun i => wops_eqb (print_description (fst i)) (snd i)) items
  | _ => true    (* the tie of these is the CDoc case of the same run *)
  end.

(** ** the semantic reading, evaluated on a finite value domain *)
Definition DEN_FUEL : nat := 60.
Definition DOM_DEPTH : nat := 3.

Definition obool_eqb (a : option bool) (b : bool) : bool :=
  match a with Some x => Bool.eqb x b | None => false end.

(** every alias of namespace [t] denotes [Ref_t] on the candidates of its type *)
Definition namespace_exact (o : sopts) (doc : tsdoc) (t : target) (ms : list (option member)) : bool :=
  forallb (fun td =>
    let T := tname td in
    if applicable doc t T then
      match alias_of ms T with
      | None => false
      | Some body =>
          forallb (fun v => obool_eqb (has_type_b (ns_env ms) DEN_FUEL body v) (Ref o doc t T v))
                  (vals o doc t DOM_DEPTH (NNamed T))
      end
    else match alias_of ms T with None => true | Some _ => false end) (typedefs doc).

Definition model_exact (o : sopts) (doc : tsdoc) : bool :=
  match schema_decls o doc with
  | Ok nss => forallb (fun t => namespace_exact o doc t (namespace_of nss t)) all_targets
  | _ => true
  end.

(** every "/*" is closed and no "*/" occurs outside a comment *)
Fixpoint comments_ok (in_c : bool) (l : str) {struct l} : bool :=
  match l with
  | [] => negb in_c
  | a :: t =>
      match t with
      | b :: r =>
          if in_c then (if N.eqb a STAR && N.eqb b SLASHC then comments_ok false r else comments_ok true t)
          else if N.eqb a SLASHC && N.eqb b STAR then comments_ok true r
          else if N.eqb a STAR && N.eqb b SLASHC then false
          else comments_ok false t
      | [] => negb in_c
      end
  end.

(** the implementation's text, read back with the emitted-subset reader: it must parse, and every
    alias of every namespace must decide like [Ref] on the candidates of its type *)
Definition impl_exact (o : sopts) (doc : tsdoc) (ops : list wop) : bool :=
  match parse_schema_text (raw_local doc) (raw_text ops) with
  | Some nss =>
      forallb (fun t =>
        match find (fun nm => str_eqb (fst nm) (target_str t)) nss with
        | Some nm => namespace_exact o doc t (map as_member (snd nm))
        | None => false
        end) all_targets
  | None => false
  end.

(** ** the resolvers file, read back from the implementation's text

    A decider for module-level types of the resolvers file as the implementation printed them:
    module aliases unfold to their declarations, [ns.__ResolverInput.T] / [ns.__ResolverOutput.T] are
    read in the corresponding namespace of the implementation's SCHEMA text (shared [has_type_b]),
    [Omit] over an exact object type, function types opaque ([ResolverDen.mt] extended with the input
    namespace; executable spec side only). *)
Section RT.
  Variables (aliases : list (str * tstype)) (ms_in ms_out : list (option member)).
  Fixpoint rt (fuel : nat) (t : tstype) (v : val) {struct fuel} : option bool :=
    match fuel with
    | O => None
    | S f =>
        match t with
        | TVar n _ => match assoc n aliases with Some a => rt f a v | None => None end
        | TNs3 _ tgt T =>
            if str_eqb tgt (target_str ResIn)
            then match alias_of ms_in T with Some b => has_type_b (ns_env ms_in) f b v | None => None end
            else if str_eqb tgt (target_str ResOut)
            then match alias_of ms_out T with Some b => has_type_b (ns_env ms_out) f b v | None => None end
            else None
        | TFunc (TVar fn _) args =>
            if is_fn_helper fn then Some (is_function_value v)
            else if str_eqb fn (s "Omit") then
              match args with
              | [TNs3 _ tgt T; TStrLit k] =>
                  if str_eqb tgt (target_str ResOut)
                  then match alias_of ms_out T with
                       | Some (TObject fs) => has_type_b (ns_env ms_out) f (TObject (omit_key k fs)) v
                       | _ => None
                       end
                  else None
              | _ => None
              end
            else None
        | TUnion ts => fold_right (fun x acc => obool_or (rt f x v) acc) (Some false) ts
        | TArray x | TRoArray x =>
            match v with
            | VList l => fold_right (fun e acc => obool_and (rt f x e) acc) (Some true) l
            | _ => Some false
            end
        | TNull => Some (match v with VNull => true | _ => false end)
        | TUndefined => Some (match v with VUndef => true | _ => false end)
        | TNever => Some false
        | TObject fs =>
            match v with
            | VObj kvs =>
                if nodup_keys (map fst kvs)
                   && forallb (fun k => existsb (fun fl => str_eqb (f_key fl) k) fs) (map fst kvs)
                then fold_right (fun fl acc =>
                       obool_and (match assoc (f_key fl) kvs with
                                  | Some x => if f_optional fl
                                              then obool_or (rt f (f_ty fl) x) (Some (match x with VUndef => true | _ => false end))
                                              else rt f (f_ty fl) x
                                  | None => Some (f_optional fl)
                                  end) acc) (Some true) fs
                else Some false
            | _ => Some false
            end
        | _ => None
        end
    end.
End RT.

Definition field_type (k : str) (t : tstype) : option tstype :=
  match t with
  | TObject fs => option_map f_ty (find (fun fl => str_eqb (f_key fl) k) fs)
  | _ => None
  end.

Fixpoint strip_typename (v : val) : val :=
  match v with
  | VObj kvs => VObj (remove_key TYPENAME kvs)
  | VList l => VList (map strip_typename l)
  | _ => v
  end.

Definition args_candidates (o : sopts) (doc : tsdoc) (args : list inputvaldef) : list val :=
  let cands (iv : inputvaldef) := vals o doc ResIn DOM_DEPTH (ty_norm (iv_type iv)) in
  let canon := flat_map (fun iv => match good o doc ResIn (iv_type iv) (cands iv) with
                                   | Some v => [(iname (iv_name iv), v)]
                                   | None => []
                                   end) args in
  [VNull; VObj []]
  ++ record_variants 4 canon (fun k => match find (fun iv => str_eqb (iname (iv_name iv)) k) args with
                                       | Some iv => firstn 16 (cands iv)
                                       | None => []
                                       end).

(** for every field of every object type: the entry [Resolvers[O][f]] exists and is a
    [__Resolver<Parent, Args, Context, Result>] whose [Args] denotes Ref_ResolverInput(args f) and whose
    [Result] denotes the wrapper-exact type over the resolver-side types, on the candidates *)
Definition resolvers_impl_ok (o : sopts) (doc : tsdoc) (ms_in ms_out : list (option member)) (text : str) : bool :=
  match parse_resolvers_text text with
  | None => false
  | Some (aliases, root) =>
      forallb (fun td =>
        match td with
        | TDObject _ _ n _ _ fields _ =>
            match field_type (iname n) root with
            | None => false
            | Some obj =>
                forallb (fun fd =>
                  match field_type (iname (fd_name fd)) obj with
                  | Some (TFunc _ [_; args_t; _; result_t]) =>
                      (match fd_args fd with
                       | Some args =>
                           negb (args_wf doc args)
                           || forallb (fun v => obool_eqb (rt aliases ms_in ms_out DEN_FUEL args_t v) (args_ref o doc args v))
                                      (args_candidates o doc args)
                       | None => true
                       end)
                      && (negb (result_wf doc (fd_type fd))
                          || forallb (fun v => obool_eqb (rt aliases ms_in ms_out DEN_FUEL result_t v)
                                                         (wrap_den (resolver_ref o doc) v (is_nonnull (fd_type fd)) (ty_norm (fd_type fd))))
                                     (let vs := firstn 30 (vals o doc ResOut 2 (ty_norm (fd_type fd))) in vs ++ map strip_typename vs))
                  | _ => false
                  end) fields
            end
        | _ => true
        end) (typedefs doc)
  end.

(** the implementation's schema text of the first successful well-formed schema run, as namespaces *)
Definition schema_side (doc : tsdoc) (sruns : list (sopts * res (list wop)))
  : option (sopts * list (option member) * list (option member)) :=
  match find (fun r => match snd r with Ok _ => wf_schema (fst r) doc | _ => false end) sruns with
  | Some (o, Ok ops) =>
      match parse_schema_text (raw_local doc) (raw_text ops) with
      | Some nss =>
          let ns t := match find (fun nm => str_eqb (fst nm) (target_str t)) nss with
                      | Some nm => map as_member (snd nm) | None => [] end in
          Some (o, ns ResIn, ns ResOut)
      | None => None
      end
  | _ => None
  end.

Definition run_ok (o : sopts) (doc : tsdoc) (out : res (list wop)) : bool :=
  match out with
  | Ok ops =>
      comments_ok false (raw_text ops)
      && (if wf_schema o doc then impl_exact o doc ops else true)
  | ErrScalar _ _ => negb (wf_schema o doc)          (* an error only when a scalar has no configured type *)
  | Panic _ => negb (wf_schema o doc)                (* no panic on a well-formed schema *)
  end.

Definition name_item_ok (i : name_item) : bool :=
  match i with
  | NKeyword locals => forallb (fun l => negb (mem l EMITTED_KEYWORDS)) locals
  | NCapture locals texts => let bag := flat_map idents_of texts in forallb (fun l => negb (mem l bag)) locals
  | NReserved aliases o => forallb (fun a => negb (mem a (resolver_reserved o))) aliases
  end.

Definition holds (c : case) : bool :=
  match c with
  | CDoc checked doc sruns rruns =>
      negb checked
      || (forallb (fun r => run_ok (fst r) doc (snd r)) sruns
          && forallb (fun r => match snd r with
                               | Ok ops =>
                                   comments_ok false (raw_text ops)
                                   && (* without plugins: Args / Result of every field resolver, read back from the text *)
                                      (match snd (fst r), schema_side doc sruns with
                                       | O, Some (o, ms_in, ms_out) =>
                                           (* a type named like an identifier the file uses otherwise is the known finding (CNames) *)
                                           negb (forallb (fun td => negb (mem (tname td) (resolver_reserved (fst (fst r))))) (typedefs doc))
                                           || resolvers_impl_ok o doc ms_in ms_out (raw_text ops)
                                       | _, _ => true
                                       end)
                               | _ => true
                               end) rruns)
  | CJsdoc items => forallb (fun i => option_eqb str_eqb (scan_block_comment (raw_text (snd i))) (Some [10%N])) items
  | CNames items => forallb name_item_ok items
  end.

(** diagnosis aid (not used by the check): first differing operation of each run *)
Fixpoint first_diff (a b : list wop) : option (option wop * option wop) :=
  match a, b with
  | [], [] => None
  | x :: a', y :: b' => if wop_eqb x y then first_diff a' b' else Some (Some x, Some y)
  | x :: _, [] => Some (Some x, None)
  | [], y :: _ => Some (None, Some y)
  end.
Definition diff_res (m i : res (list wop)) : option (option wop * option wop) :=
  match m, i with
  | Ok x, Ok y => first_diff (coalesce x) (coalesce y)
  | _, _ => if res_eqb m i then None else Some (None, None)
  end.
Definition diagnose (c : case) :=
  match c with
  | CDoc _ doc sruns rruns =>
      map (fun r => diff_res (print_schema (fst r) doc) (snd r)) sruns
      ++ map (fun r => diff_res (print_resolvers (fst (fst r)) (snd (fst r)) doc) (snd r)) rruns
  | CJsdoc items => map (fun i => first_diff (coalesce (print_description (fst i))) (coalesce (snd i))) items
  | _ => []
  end.
