(** C10 — correspondence ([agree]) and the spec-side predicate on the implementation's output ([holds]). *)
From V Require Import Base.Util Gql.Ast Writer.Wop Ts.TsType Ts.TsDen C10.Model C10.Spec C10.Domain C10.JsdocProofs C10.NameProofs C10.ResolverProofs C10.Parse.

(** result of one run of a Rust printer: the coalesced recorded operations, the returned error,
    or the caught panic (site numbered as in Model.res) *)
Definition res_eqb (a b : res (list wop)) : bool :=
  match a, b with
  | Ok x, Ok y => wops_eqb x y
  | ErrScalar n p, ErrScalar m q => str_eqb n m && pos_eqb p q
  | Panic i, Panic j => N.eqb i j
  | _, _ => false
  end.

(** abbreviations used by the generated case files *)
Definition P (l c : N) : pos := mkPos l c 0 false.
Definition P0 : pos := pos0.
Definition WS (c : str) (p : pos) : wop := WF c p (Some c).

Inductive name_item :=
| NKeyword (locals : list str)                            (* schema file *)
| NCapture (locals : list str) (scalar_texts : list str)  (* schema file + the TS texts of the scalars in use *)
| NReserved (aliases : list str) (o : ropts).             (* resolvers file *)

Inductive case :=
| CDoc (checked : bool)                                   (* check_type_system_document found no error *)
       (doc : tsdoc)
       (sruns : list (sopts * res (list wop)))            (* SchemaTypePrinter::print_document *)
       (rruns : list (ropts * nat * res (list wop)))      (* ResolverTypePrinter::print_document, n model plugins *)
| CJsdoc (items : list (str * list wop))                  (* jsdoc::print_description on each string *)
(* names the implementation DECLARES, read off its recorded operations by the harness (the [write_for]
   that follows a [write_for "export type "/"type "], resp. a [write "…type "] in the resolvers file) *)
| CNames (items : list name_item).

Definition agree (c : case) : bool :=
  match c with
  | CDoc _ doc sruns rruns =>
      forallb (fun r => res_eqb (print_schema (fst r) doc) (snd r)) sruns
      && forallb (fun r => res_eqb (print_resolvers (fst (fst r)) (snd (fst r)) doc) (snd r)) rruns
  | CJsdoc items => forallb (fun i => wops_eqb (print_description (fst i)) (snd i)) items
  | _ => true    (* the tie of these is the CDoc case of the same run *)
  end.

(** ** the semantic reading, evaluated on a finite value domain *)
Definition DEN_FUEL : nat := 60.
Definition DOM_DEPTH : nat := 3.

Definition obool_eqb (a : option bool) (b : bool) : bool :=
  match a with Some x => Bool.eqb x b | None => false end.

(** every alias of namespace [t] denotes [Ref_t] on the candidates of its type *)
Definition namespace_exact (o : sopts) (doc : tsdoc) (t : target) (ms : list (option member)) : bool :=
  forallb (fun td =>
    let T := tname td in
    if applicable doc t T then
      match alias_of ms T with
      | None => false
      | Some body =>
          forallb (fun v => obool_eqb (has_type_b (ns_env ms) DEN_FUEL body v) (Ref o doc t T v))
                  (vals o doc t DOM_DEPTH (NNamed T))
      end
    else match alias_of ms T with None => true | Some _ => false end) (typedefs doc).

Definition model_exact (o : sopts) (doc : tsdoc) : bool :=
  match schema_decls o doc with
  | Ok nss => forallb (fun t => namespace_exact o doc t (namespace_of nss t)) all_targets
  | _ => true
  end.

(** every "/*" is closed and no "*/" occurs outside a comment *)
Fixpoint comments_ok (in_c : bool) (l : str) {struct l} : bool :=
  match l with
  | [] => negb in_c
  | a :: t =>
      match t with
      | b :: r =>
          if in_c then (if N.eqb a STAR && N.eqb b SLASHC then comments_ok false r else comments_ok true t)
          else if N.eqb a SLASHC && N.eqb b STAR then comments_ok true r
          else if N.eqb a STAR && N.eqb b SLASHC then false
          else comments_ok false t
      | [] => negb in_c
      end
  end.

(** the implementation's text, read back with the emitted-subset reader: it must parse, and every
    alias of every namespace must decide like [Ref] on the candidates of its type *)
Definition raw_local (doc : tsdoc) (l : str) : bool :=
  existsb (fun td => match td with
                     | TDScalar _ _ n _ _ => str_eqb l (iname n) || str_eqb l (TMP_PREFIX ++ iname n)
                     | _ => false
                     end) (typedefs doc).

Definition impl_exact (o : sopts) (doc : tsdoc) (ops : list wop) : bool :=
  match parse_schema_text (raw_local doc) (raw_text ops) with
  | Some nss =>
      forallb (fun t =>
        match find (fun nm => str_eqb (fst nm) (target_str t)) nss with
        | Some nm => namespace_exact o doc t (map as_member (snd nm))
        | None => false
        end) all_targets
  | None => false
  end.

Definition run_ok (o : sopts) (doc : tsdoc) (out : res (list wop)) : bool :=
  match out with
  | Ok ops =>
      comments_ok false (raw_text ops)
      && (if wf_schema o doc then impl_exact o doc ops else true)
  | ErrScalar _ _ => negb (wf_schema o doc)          (* an error only when a scalar has no configured type *)
  | Panic _ => negb (wf_schema o doc)                (* no panic on a well-formed schema *)
  end.

Definition name_item_ok (i : name_item) : bool :=
  match i with
  | NKeyword locals => forallb (fun l => negb (mem l EMITTED_KEYWORDS)) locals
  | NCapture locals texts => let bag := flat_map idents_of texts in forallb (fun l => negb (mem l bag)) locals
  | NReserved aliases o => forallb (fun a => negb (mem a (resolver_reserved o))) aliases
  end.

Definition holds (c : case) : bool :=
  match c with
  | CDoc checked doc sruns rruns =>
      negb checked
      || (forallb (fun r => run_ok (fst r) doc (snd r)) sruns
          && forallb (fun r => match snd r with Ok ops => comments_ok false (raw_text ops) | _ => true end) rruns)
  | CJsdoc items => forallb (fun i => option_eqb str_eqb (scan_block_comment (raw_text (snd i))) (Some [10%N])) items
  | CNames items => forallb name_item_ok items
  end.

(** diagnosis aid (not used by the check): first differing operation of each run *)
Fixpoint first_diff (a b : list wop) : option (option wop * option wop) :=
  match a, b with
  | [], [] => None
  | x :: a', y :: b' => if wop_eqb x y then first_diff a' b' else Some (Some x, Some y)
  | x :: _, [] => Some (Some x, None)
  | [], y :: _ => Some (None, Some y)
  end.
Definition diff_res (m i : res (list wop)) : option (option wop * option wop) :=
  match m, i with
  | Ok x, Ok y => first_diff (coalesce x) (coalesce y)
  | _, _ => if res_eqb m i then None else Some (None, None)
  end.
Definition diagnose (c : case) :=
  match c with
  | CDoc _ doc sruns rruns =>
      map (fun r => diff_res (print_schema (fst r) doc) (snd r)) sruns
      ++ map (fun r => diff_res (print_resolvers (fst (fst r)) (snd (fst r)) doc) (snd r)) rruns
  | CJsdoc items => map (fun i => first_diff (coalesce (print_description (fst i))) (coalesce (snd i))) items
  | _ => []
  end.
