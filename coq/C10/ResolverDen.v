(** C10 — the resolvers file, denotationally.  A LOCAL denotation [mt] for module-level types of the
    resolvers declaration (the shared [Ts.TsDen.has_type_b] has one flat scope and no [Omit]):
      - a module alias [T] unfolds to its declaration ([type T = …] of the resolvers file);
      - [ns.__ResolverOutput.T] is the alias the schema declaration exports for [T] in that
        namespace, read inside that namespace by the shared [has_type_b];
      - [Omit<ns.__ResolverOutput.T, "k">] over an exact object type: the object type without key k;
      - [__Resolver<…>] / [__TypeResolver<…>] : a function type, read as an opaque class of values
        ([VAtom "function"]);
      - unions, arrays, [null], [never], exact object types as in [has_type_b].
    Theorems (no plugin): every module alias denotes [resolver_ref] of its type (objects: exactly the
    fields, each in [Ref_ResolverOutput] of its type, no [__typename]; abstract types: the union over
    their possible object types; scalars/enums: [Ref_ResolverOutput]); the [Result] type of a field
    resolver denotes the wrapper-exact type over these. *)
From V Require Import Base.Util Gql.Ast Writer.Wop Ts.TsType Ts.TsDen
  C10.Model C10.Spec C10.DenLemmas C10.Decide C10.Proofs C10.Proofs3 C10.WrapGen C10.ResolverProofs.

Definition RESOUT : str := target_str ResOut.
Definition omit_key (k : str) (fs : list tsfield) : list tsfield :=
  filter (fun fl => negb (str_eqb (f_key fl) k)) fs.
Definition is_fn_helper (n : str) : bool := str_eqb n (s "__Resolver") || str_eqb n (s "__TypeResolver").
Definition is_function_value (v : val) : bool := match v with VAtom a => str_eqb a (s "function") | _ => false end.

Section ModDen.
  Variables (ms : list (option member)) (aliases : list (str * tstype)).
  Notation hb := (has_type_b (ns_env ms)).

  Fixpoint mt (fuel : nat) (t : tstype) (v : val) {struct fuel} : option bool :=
    match fuel with
    | O => None
    | S f =>
        match t with
        | TVar n _ => match assoc n aliases with Some a => mt f a v | None => None end
        | TNs3 _ tgt T =>
            if str_eqb tgt RESOUT
            then match alias_of ms T with Some body => hb f body v | None => None end
            else None
        | TFunc (TVar fn _) args =>
            if is_fn_helper fn then Some (is_function_value v)
            else if str_eqb fn (s "Omit") then
              match args with
              | [TNs3 _ tgt T; TStrLit k] =>
                  if str_eqb tgt RESOUT
                  then match alias_of ms T with
                       | Some (TObject fs) => hb f (TObject (omit_key k fs)) v
                       | _ => None
                       end
                  else None
              | _ => None
              end
            else None
        | TUnion ts => fold_right (fun x acc => obool_or (mt f x v) acc) (Some false) ts
        | TArray x =>
            match v with
            | VList l => fold_right (fun e acc => obool_and (mt f x e) acc) (Some true) l
            | _ => Some false
            end
        | TNull => Some (is_null_v v)
        | TNever => Some false
        | TObject fs =>
            match v with
            | VObj kvs =>
                if nodup_keys (map fst kvs)
                   && forallb (fun k => existsb (fun fl => str_eqb (f_key fl) k) fs) (map fst kvs)
                then fold_right (fun fl acc =>
                       obool_and (match assoc (f_key fl) kvs with
                                  | Some x => mt f (f_ty fl) x
                                  | None => Some (f_optional fl)
                                  end) acc) (Some true) fs
                else Some false
            | _ => Some false
            end
        | _ => None
        end
    end.

  Lemma mt_zero t v : mt 0 t v = None.
  Proof. reflexivity. Qed.
  Lemma mt_var f n p v : mt (S f) (TVar n p) v = match assoc n aliases with Some a => mt f a v | None => None end.
  Proof. reflexivity. Qed.
  Lemma mt_union f ts v : mt (S f) (TUnion ts) v = fold_right (fun x acc => obool_or (mt f x v) acc) (Some false) ts.
  Proof. reflexivity. Qed.
  Lemma mt_array f x v :
    mt (S f) (TArray x) v = match v with
                            | VList l => fold_right (fun e acc => obool_and (mt f x e) acc) (Some true) l
                            | _ => Some false
                            end.
  Proof. reflexivity. Qed.
  Lemma mt_null f v : mt (S f) TNull v = Some (is_null_v v).
  Proof. reflexivity. Qed.
  Lemma mt_never f v : mt (S f) TNever v = Some false.
  Proof. reflexivity. Qed.
  Lemma mt_ns3 f a T v :
    mt (S f) (TNs3 a RESOUT T) v = match alias_of ms T with Some body => hb f body v | None => None end.
  Proof. cbn [mt]. rewrite str_eqb_refl. reflexivity. Qed.
  Lemma mt_omit f p a T k v :
    mt (S f) (TFunc (TVar (s "Omit") p) [TNs3 a RESOUT T; TStrLit k]) v =
    match alias_of ms T with Some (TObject fs) => hb f (TObject (omit_key k fs)) v | _ => None end.
  Proof. cbn [mt]. rewrite str_eqb_refl. reflexivity. Qed.
  Lemma mt_fn f fn p args v : is_fn_helper fn = true -> mt (S f) (TFunc (TVar fn p) args) v = Some (is_function_value v).
  Proof. intros H. cbn [mt]. rewrite H. reflexivity. Qed.
End ModDen.

(** * reference denotation of the resolver-side type of [T] *)
Section Ref.
  Variables (o : sopts) (doc : tsdoc).

  (** a parent / returned object: exactly the fields (no [__typename]), each in [Ref_ResolverOutput] *)
  Definition fields_den (fields : list fielddef) (v : val) : bool :=
    match v with
    | VObj kvs =>
        exact_keys (map (fun fd => iname (fd_name fd)) fields) kvs
        && forallb (fun fd => match assoc (iname (fd_name fd)) kvs with
                              | Some x => Ref_ty o doc ResOut (fd_type fd) x
                              | None => false
                              end) fields
    | _ => false
    end.
  Definition object_fields_named (n : str) (v : val) : bool :=
    match get_type doc n with Some (TDObject _ _ _ _ _ fields _) => fields_den fields v | _ => false end.

  Definition resolver_ref (T : str) (v : val) : bool :=
    match get_type doc T with
    | Some (TDObject _ _ _ _ _ fields _) => fields_den fields v
    | Some (TDInterface _ _ _ _ _ _ _) => existsb (fun p => object_fields_named p v) (possible_of_interface doc T)
    | Some (TDUnion _ _ _ _ members _) => existsb (fun m => object_fields_named (iname m) v) members
    | Some (TDScalar _ _ _ _ _) | Some (TDEnum _ _ _ _ _ _) => Ref o doc ResOut T v
    | _ => false
    end.
End Ref.

(** * lists *)
Lemma assoc_functional {A} k (v : A) l :
  (forall v', In (k, v') l -> v' = v) -> (exists v', In (k, v') l) -> assoc k l = Some v.
Proof.
  induction l as [|[k' x] l IH]; intros Hf (v' & Hin); [destruct Hin|].
  cbn. destruct (str_eqb_spec k k') as [->|Hne].
  - f_equal. apply Hf. left; reflexivity.
  - destruct Hin as [He|Hin]; [inversion He; congruence|].
    apply IH; [intros v'' H; apply Hf; right; exact H|eauto].
Qed.
Lemma fold_left_cons_in {A B} (g : A -> B) l init x :
  In x (fold_left (fun acc t => g t :: acc) l init) <-> In x init \/ exists t, In t l /\ x = g t.
Proof.
  revert init; induction l as [|a l IH]; intros init; cbn [fold_left].
  - split; [auto|intros [H|(t & [] & _)]; exact H].
  - rewrite IH. split.
    + intros [[<-|H]|(t & Ht & He)]; [right; exists a; split; [left|]; reflexivity|left; exact H|right; exists t; split; [right; exact Ht|exact He]].
    + intros [H|(t & [<-|Ht] & He)]; [left; right; exact H|left; left; symmetry; exact He|right; exists t; split; assumption].
Qed.
Lemma Forall2_impl' {A B} (R1 R2 : A -> B -> Prop) l l' :
  (forall x y, R1 x y -> R2 x y) -> Forall2 R1 l l' -> Forall2 R2 l l'.
Proof. intros H. induction 1; constructor; auto. Qed.
Lemma filter_all {A} (p : A -> bool) l : (forall x, In x l -> p x = true) -> filter p l = l.
Proof.
  induction l as [|a l IH]; intros H; [reflexivity|]. cbn. rewrite (H a (or_introl eq_refl)).
  f_equal. apply IH. intros x Hx. apply H. right; exact Hx.
Qed.

Section ResolverExact.
  Variables (o : sopts) (ro : ropts) (doc : tsdoc) (ms : list (option member)) (d : resolver_decls).
  Hypothesis Hwf : wf_schema o doc = true.
  Hypothesis Hms : namespace_members o doc ResOut = Ok ms.
  Hypothesis Hd : resolver_structure ro 0 doc = Ok d.

  Definition module_aliases : list (str * tstype) := map (fun a => (iname (fst a), snd a)) (rd_aliases d).
  Notation E := (ns_env ms).
  Notation hb := (has_type_b E).
  Notation m_t := (mt ms module_aliases).
  Let c := make_ctx o doc ResOut.
  Notation lname := (local_name (c_bag c)).

  Lemma Hnd' : nodup_keys (map tname (typedefs doc)) = true.
  Proof. exact (Hnd o doc Hwf). Qed.

  (** the module alias of a (non-input) type is its resolver output type *)
  Lemma module_alias td : In td (typedefs doc) -> is_input_def td = false ->
    assoc (tname td) module_aliases = Some (resolver_output_type ro doc td).
  Proof.
    intros Hin Hni. unfold resolver_structure in Hd. cbn [nat_rect] in Hd. cbn [bind] in Hd.
    apply bind_ok in Hd as (al & Hal & Hd'). injection Hd' as Hd'.
    unfold module_aliases. rewrite <- Hd'. cbn [rd_aliases]. apply mapM_ok in Hal.
    set (base := fold_left (fun acc t => (tname t, resolver_output_type ro doc t) :: acc) (typedefs doc) []) in *.
    assert (Hbase : forall t, In t (typedefs doc) -> assoc (tname t) base = Some (resolver_output_type ro doc t)).
    { intros t Ht. apply assoc_functional.
      - intros v' Hv'. apply fold_left_cons_in in Hv' as [[]|(t' & Ht' & He)]. inversion He.
        assert (t' = t) by (eapply (nodup_keys_inj tname); [exact Hnd'|exact Ht'|exact Ht|congruence]). subst. reflexivity.
      - eexists. apply fold_left_cons_in. right. exists t. split; [exact Ht|reflexivity]. }
    apply assoc_functional.
    - intros v' Hv'. apply in_map_iff in Hv' as ([i ty] & He & Ha). cbn in He. inversion He; subst.
      destruct (Forall2_in_r _ _ _ _ Hal Ha) as (t' & Ht' & Hr). apply filter_In in Ht' as [Ht' _].
      rewrite (Hbase t' Ht') in Hr. inversion Hr; subst.
      assert (t' = td) by (eapply (nodup_keys_inj tname); [exact Hnd'|exact Ht'|exact Hin|unfold tname in *; congruence]).
      subst. reflexivity.
    - assert (Hf : In td (filter (fun t => negb (is_input_def t)) (typedefs doc))).
      { apply filter_In. split; [exact Hin|rewrite Hni; reflexivity]. }
      destruct (Forall2_in_l _ _ _ _ Hal Hf) as (a & Ha & Hr). rewrite (Hbase td Hin) in Hr. inversion Hr; subst a.
      eexists. apply in_map_iff. eexists. split; [|exact Ha]. reflexivity.
  Qed.

  (** ** objects: the declared object type without [__typename] *)
  Section Obj.
    Variables (dd : option desc) (p : pos) (n : ident) (impls : list ident) (dirs : list directive)
              (fields : list fielddef) (kw : keyword).
    Hypothesis Hin : In (TDObject dd p n impls dirs fields kw) (typedefs doc).

    Definition obj_field_rel (fd : fielddef) (fl : tsfield) : Prop :=
      f_key fl = iname (fd_name fd) /\ f_optional fl = false /\
      f_ty fl = get_ts_type_of_type (fun _ => TVar (lname (iname (ty_unwrapped (fd_type fd)))) pos0) (fd_type fd).

    Lemma object_alias : exists fs,
      alias_of ms (iname n) = Some (TObject (mkField TYPENAME pos0 (TStrLit (iname n)) false false None :: fs))
      /\ Forall2 obj_field_rel fields fs.
    Proof.
      assert (Happ : applicable doc ResOut (iname n) = true).
      { unfold applicable. rewrite (get_type_of_in doc _ Hnd' Hin : get_type doc (iname n) = _). reflexivity. }
      destruct (applicable_member o doc ResOut ms Hwf Hms _ Hin Happ) as (m & Hm).
      pose proof (alias_lookup o doc ResOut ms Hwf Hms _ m Hin Hm) as Hal. unfold tname in Hal; cbn [typedef_name] in Hal.
      cbn [type_member] in Hm. cbn [is_input is_output c_target make_ctx negb] in Hm.
      apply bind_ok in Hm as (fs & Hfs & Hm). apply bind_ok in Hm as (l & _ & Hm). inversion Hm; subst m. clear Hm.
      cbn [m_body body_type] in Hal. exists fs. split; [exact Hal|].
      apply mapM_ok in Hfs. clear Hal. eapply Forall2_impl'; [|exact Hfs]. intros fd fl Hr.
      cbv beta in Hr. apply bind_ok in Hr as (ty & Hty & Hr). inversion Hr; subst fl. clear Hr.
      apply (ts_local_ok o doc ResOut) in Hty. subst ty. repeat split.
    Qed.

    Lemma field_names_ok fd : In fd fields -> str_eqb (iname (fd_name fd)) TYPENAME = false.
    Proof.
      intros Hfd. pose proof (Hwfd o doc Hwf _ Hin) as Hw. unfold wf_typedef in Hw. apply andb_true_iff in Hw as [_ Hw].
      rewrite forallb_forall in Hw. specialize (Hw _ Hfd). apply andb_true_iff in Hw as [Hw _]. apply negb_true_iff in Hw.
      destruct (str_eqb_spec (iname (fd_name fd)) TYPENAME) as [He|]; [|reflexivity].
      rewrite He in Hw. vm_compute in Hw. discriminate.
    Qed.

    Lemma omit_typename fs : Forall2 obj_field_rel fields fs ->
      omit_key TYPENAME (mkField TYPENAME pos0 (TStrLit (iname n)) false false None :: fs) = fs.
    Proof.
      intros HF. unfold omit_key. cbn [filter f_key]. rewrite str_eqb_refl. cbn [negb].
      apply filter_all. intros fl Hfl. destruct (Forall2_in_r _ _ _ _ HF Hfl) as (fd & Hfd & (Hk & _)).
      rewrite Hk, (field_names_ok fd Hfd). reflexivity.
    Qed.

    Lemma field_leaf fd f : In fd fields ->
      LeafOK o doc ResOut E (fun _ => TVar (lname (iname (ty_unwrapped (fd_type fd)))) pos0) f (ty_unwrapped (fd_type fd))
      /\ exists td', get_type doc (iname (ty_unwrapped (fd_type fd))) = Some td' /\ applicable doc ResOut (iname (ty_unwrapped (fd_type fd))) = true.
    Proof.
      intros Hfd. pose proof (Hwfd o doc Hwf _ Hin) as Hw. unfold wf_typedef in Hw. apply andb_true_iff in Hw as [_ Hw].
      rewrite forallb_forall in Hw. specialize (Hw _ Hfd). apply andb_true_iff in Hw as [_ Hw].
      destruct (kind_output doc ResOut _ Hw eq_refl) as (td' & Hg' & Happ').
      split; [|eauto].
      eapply leaf_of_exact; [|exact Hg'|exact Happ'|reflexivity].
      intros f' Hle. apply (exact_all o doc ResOut ms Hwf Hms E (fun _ => eq_refl) f f' Hle).
    Qed.

    Lemma object_fields_sound fs f v b : Forall2 obj_field_rel fields fs ->
      hb f (TObject fs) v = Some b -> fields_den o doc fields v = b.
    Proof.
      intros HF H. destruct f as [|f1]; [rewrite ht_zero in H; discriminate|].
      rewrite ht_object in H. unfold fields_den.
      destruct v as [| | | | | | |kvs]; try (inversion H; reflexivity).
      assert (Hkeys : forallb (fun k => existsb (fun fl => str_eqb (f_key fl) k) fs) (map fst kvs)
                      = forallb (fun k => mem k (map (fun fd => iname (fd_name fd)) fields)) (map fst kvs)).
      { apply forallb_ext'. intros k. unfold mem. rewrite existsb_map. symmetry.
        eapply existsb_Forall2; [exact HF|]. intros fd fl (Hk & _). rewrite Hk. apply str_eqb_sym. }
      rewrite Hkeys in H. unfold exact_keys.
      destruct (nodup_keys (map fst kvs) && forallb _ (map fst kvs)); [|inversion H; reflexivity].
      cbn [andb]. unfold fields_ok in H.
      eapply (fold_and_sound2 _ (field_ok E f1 kvs)); [exact HF| |exact H].
      intros fd fl Hfd (Hk & Ho & Ht) b' Hb'. unfold field_ok in Hb'. rewrite Hk, Ho, Ht in Hb'.
      destruct (assoc (iname (fd_name fd)) kvs) as [x|]; [|inversion Hb'; reflexivity].
      unfold Ref_ty. eapply get_ok; [apply (proj1 (field_leaf fd f1 Hfd))|exact Hb'].
    Qed.

    Lemma object_fields_decides fs v : Forall2 obj_field_rel fields fs -> Dec E (TObject fs) v.
    Proof.
      intros HF. apply Dec_object. intros kvs fl x -> Hfl Hx.
      destruct (Forall2_in_r _ _ _ _ HF Hfl) as (fd & Hfd & (_ & _ & Ht)). rewrite Ht.
      destruct (field_leaf fd 0 Hfd) as (_ & td' & Hg' & Happ').
      apply (Dec_get E _ (fd_type fd) (vsize x)); [|lia]. intros v' _.
      eapply (dec_all o doc ResOut ms Hwf Hms E (fun _ => eq_refl) (vsize v') v' (le_n _)); eassumption.
    Qed.

    (** the module alias of the object decides like [fields_den] *)
    Lemma object_alias_sound f pp v b :
      m_t f (TVar (iname n) pp) v = Some b -> fields_den o doc fields v = b.
    Proof.
      intros H. destruct f as [|f1]; [discriminate|]. rewrite mt_var in H.
      pose proof (module_alias _ Hin eq_refl) as Ha. unfold tname in Ha; cbn [typedef_name resolver_output_type] in Ha.
      rewrite Ha in H. destruct f1 as [|f2]; [discriminate|].
      unfold tvar0 in H. change (target_str ResOut) with RESOUT in H. rewrite mt_omit in H.
      destruct object_alias as (fs & Hal & HF). unfold tname in H; cbn [typedef_name] in H.
      rewrite Hal, (omit_typename fs HF) in H. eapply object_fields_sound; eassumption.
    Qed.
    Lemma object_alias_decides pp v : exists F, forall f, F <= f -> m_t f (TVar (iname n) pp) v <> None.
    Proof.
      destruct object_alias as (fs & Hal & HF). destruct (object_fields_decides fs v HF) as (F & HFd).
      exists (S (S F)). intros [|[|f]] Hf; [lia|lia|]. rewrite mt_var.
      pose proof (module_alias _ Hin eq_refl) as Ha. unfold tname in Ha; cbn [typedef_name resolver_output_type] in Ha.
      rewrite Ha. unfold tvar0. change (target_str ResOut) with RESOUT. rewrite mt_omit.
      unfold tname; cbn [typedef_name]. rewrite Hal, (omit_typename fs HF). apply HFd. lia.
    Qed.
  End Obj.

  (** ** all kinds *)
  Definition AliasSound (T : str) : Prop :=
    forall f pp v b, m_t f (TVar T pp) v = Some b -> resolver_ref o doc T v = b.
  Definition AliasDecides (T : str) : Prop :=
    forall pp v, exists F, forall f, F <= f -> m_t f (TVar T pp) v <> None.

  Lemma object_named_sound dd p n impls dirs fields kw f pp v b :
    In (TDObject dd p n impls dirs fields kw) (typedefs doc) ->
    m_t f (TVar (iname n) pp) v = Some b -> object_fields_named o doc (iname n) v = b.
  Proof.
    intros Hin H. unfold object_fields_named.
    rewrite (get_type_of_in doc _ Hnd' Hin : get_type doc (iname n) = _).
    eapply object_alias_sound; eassumption.
  Qed.

  Lemma mt_ts_union_map {A} (G : A -> tstype) (h : A -> bool) l f v :
    (forall a, In a l -> forall f', f' <= f -> forall b, m_t f' (G a) v = Some b -> h a = b) ->
    forall b, m_t f (ts_union (map G l)) v = Some b -> existsb h l = b.
  Proof.
    intros Hs b H. destruct l as [|x [|y r]].
    - cbn in H. destruct f; [discriminate|]. rewrite mt_never in H. cbn. congruence.
    - cbn in H. cbn. rewrite orb_false_r. eapply Hs; [left; reflexivity| |exact H]. lia.
    - change (ts_union (map G (x :: y :: r))) with (TUnion (map G (x :: y :: r))) in H.
      destruct f as [|f1]; [discriminate|].
      rewrite mt_union, fold_right_map_fuse in H.
      eapply fold_or_sound; [|exact H].
      intros a Ha b' Hb'. eapply Hs; [exact Ha| |exact Hb']. lia.
  Qed.
  Lemma mt_ts_union_decides {A} (G : A -> tstype) l v :
    (forall a, In a l -> exists F, forall f, F <= f -> m_t f (G a) v <> None) ->
    exists F, forall f, F <= f -> m_t f (ts_union (map G l)) v <> None.
  Proof.
    intros H. destruct l as [|x [|y r]].
    - exists 1. intros [|f] Hf; [lia|]. cbn [map ts_union]. rewrite mt_never. discriminate.
    - cbn [map ts_union]. apply H. left; reflexivity.
    - change (ts_union (map G (x :: y :: r))) with (TUnion (map G (x :: y :: r))).
      destruct (Dech_all m_t (x :: y :: r) G (fun _ => v) H) as (F & HF).
      exists (S F). intros [|f] Hf; [lia|]. rewrite mt_union, fold_right_map_fuse. apply fold_or_total.
      intros a Ha. apply HF; [lia|exact Ha].
  Qed.

  Lemma member_object mi members dd p n dirs kw :
    In (TDUnion dd p n dirs members kw) (typedefs doc) -> In mi members ->
    exists d' p' nm impls' dirs' fields' kw',
      In (TDObject d' p' nm impls' dirs' fields' kw') (typedefs doc) /\ iname nm = iname mi.
  Proof.
    intros Hin Hmi. pose proof (Hwfd o doc Hwf _ Hin) as Hw. unfold wf_typedef in Hw. apply andb_true_iff in Hw as [_ Hw].
    rewrite forallb_forall in Hw. specialize (Hw _ Hmi).
    destruct (kind_object doc _ Hw) as (d' & p' & nm & impls' & dirs' & fields' & kw' & Hg').
    destruct (get_type_spec _ _ _ Hg') as [Hino Hnm]. unfold tname in Hnm; cbn [typedef_name] in Hnm.
    exists d', p', nm, impls', dirs', fields', kw'. split; assumption.
  Qed.

  Theorem module_alias_sound td : In td (typedefs doc) -> is_input_def td = false -> AliasSound (tname td).
  Proof.
    intros Hin Hni f pp v b H. unfold resolver_ref. rewrite (get_type_of_in doc _ Hnd' Hin).
    pose proof (module_alias _ Hin Hni) as Ha.
    assert (Happ : applicable doc ResOut (tname td) = true).
    { unfold applicable. rewrite (get_type_of_in doc _ Hnd' Hin). destruct td; try reflexivity. discriminate. }
    destruct td; try discriminate; unfold tname in *; cbn [typedef_name resolver_output_type] in *.
    - (* scalar *)
      destruct f as [|f1]; [rewrite mt_zero in H; discriminate|]. rewrite mt_var, Ha in H.
      destruct f1 as [|f2]; [rewrite mt_zero in H; discriminate|].
      change (target_str ResOut) with RESOUT in H. rewrite mt_ns3 in H. unfold tname in H; cbn [typedef_name] in H.
      destruct (alias_of ms (iname name)) as [body|] eqn:Hal; [|discriminate].
      eapply (alias_exact_sound o doc ResOut ms Hwf Hms E (fun _ => eq_refl)); [exact Happ|exact Hal|exact H].
    - eapply object_alias_sound; eassumption.
    - (* interface *)
      destruct f as [|f1]; [rewrite mt_zero in H; discriminate|]. rewrite mt_var, Ha in H.
      rewrite <- (implementers_possible doc (iname name) Hnd'), existsb_map.
      eapply mt_ts_union_map; [|exact H]. intros oi Hoi f' _ b' Hb'.
      destruct (implementer_object o doc Hwf _ _ Hoi) as (d' & p' & impls' & dirs' & fields' & kw' & Hino).
      unfold tvar_id in Hb'. eapply object_named_sound; eassumption.
    - (* union *)
      destruct f as [|f1]; [rewrite mt_zero in H; discriminate|]. rewrite mt_var, Ha in H.
      eapply mt_ts_union_map; [|exact H]. intros mi Hmi f' _ b' Hb'.
      destruct (member_object mi _ _ _ _ _ _ Hin Hmi) as (d' & p' & nm & impls' & dirs' & fields' & kw' & Hino & Hnm).
      unfold tvar_id in Hb'. rewrite <- Hnm in *. eapply object_named_sound; eassumption.
    - (* enum *)
      destruct f as [|f1]; [rewrite mt_zero in H; discriminate|]. rewrite mt_var, Ha in H.
      destruct f1 as [|f2]; [rewrite mt_zero in H; discriminate|].
      change (target_str ResOut) with RESOUT in H. rewrite mt_ns3 in H. unfold tname in H; cbn [typedef_name] in H.
      destruct (alias_of ms (iname name)) as [body|] eqn:Hal; [|discriminate].
      eapply (alias_exact_sound o doc ResOut ms Hwf Hms E (fun _ => eq_refl)); [exact Happ|exact Hal|exact H].
  Qed.

  Lemma leaf_alias_decides td pp v : In td (typedefs doc) ->
    match td with TDScalar _ _ _ _ _ | TDEnum _ _ _ _ _ _ => True | _ => False end ->
    exists F, forall f, F <= f -> m_t f (TVar (tname td) pp) v <> None.
  Proof.
    intros Hin Hk.
    assert (Happ : applicable doc ResOut (tname td) = true).
    { unfold applicable. rewrite (get_type_of_in doc _ Hnd' Hin). destruct td; try contradiction; reflexivity. }
    assert (Hni : is_input_def td = false) by (destruct td; try contradiction; reflexivity).
    destruct (proj1 (alias_present_iff o doc ResOut ms Hwf Hms _ td (get_type_of_in doc _ Hnd' Hin)) Happ) as (body & Hal).
    destruct (alias_decides o doc ResOut ms Hwf Hms E (fun _ => eq_refl) _ body v Happ Hal) as (F & HF).
    exists (S (S F)). intros [|[|f]] Hf; [lia|lia|]. rewrite mt_var, (module_alias _ Hin Hni).
    assert (Hr : resolver_output_type ro doc td = TNs3 (ro_ns ro) RESOUT (tname td)) by (destruct td; try contradiction; reflexivity).
    rewrite Hr, mt_ns3, Hal. apply HF. lia.
  Qed.

  Theorem module_alias_decides td : In td (typedefs doc) -> is_input_def td = false -> AliasDecides (tname td).
  Proof.
    intros Hin Hni pp v.
    destruct td eqn:Htd; try discriminate.
    - apply (leaf_alias_decides _ pp v Hin I).
    - unfold tname; cbn [typedef_name]. eapply object_alias_decides; eassumption.
    - unfold tname; cbn [typedef_name].
      assert (Hu : exists F, forall f, F <= f -> m_t f (ts_union (map tvar_id (interface_implementers doc (iname name)))) v <> None).
      { apply mt_ts_union_decides. intros oi Hoi.
        destruct (implementer_object o doc Hwf _ _ Hoi) as (d' & p' & impls' & dirs' & fields' & kw' & Hino).
        unfold tvar_id. eapply object_alias_decides; eassumption. }
      destruct Hu as (F & HF). exists (S F). intros [|f] Hf; [lia|]. rewrite mt_var.
      pose proof (module_alias _ Hin eq_refl) as Ha. unfold tname in Ha; cbn [typedef_name resolver_output_type] in Ha.
      rewrite Ha. apply HF. lia.
    - unfold tname; cbn [typedef_name].
      assert (Hu : exists F, forall f, F <= f -> m_t f (ts_union (map tvar_id members)) v <> None).
      { apply mt_ts_union_decides. intros mi Hmi.
        destruct (member_object mi _ _ _ _ _ _ Hin Hmi) as (d' & p' & nm & impls' & dirs' & fields' & kw' & Hino & Hnm).
        unfold tvar_id. rewrite <- Hnm. eapply object_alias_decides; eassumption. }
      destruct Hu as (F & HF). exists (S F). intros [|f] Hf; [lia|]. rewrite mt_var.
      pose proof (module_alias _ Hin eq_refl) as Ha. unfold tname in Ha; cbn [typedef_name resolver_output_type] in Ha.
      rewrite Ha. apply HF. lia.
    - apply (leaf_alias_decides _ pp v Hin I).
  Qed.

  (** ** the [Result] (and list-wrapped parent) types of field resolvers *)
  Lemma fields_den_null fields : fields_den o doc fields VNull = false.
  Proof. reflexivity. Qed.
  Lemma resolver_ref_null T : resolver_ref o doc T VNull = false.
  Proof.
    unfold resolver_ref. destruct (get_type doc T) as [[]|]; try reflexivity.
    - apply existsb_false. intros p0. unfold object_fields_named. destruct (get_type doc p0) as [[]|]; reflexivity.
    - apply existsb_false. intros p0. unfold object_fields_named. destruct (get_type doc (iname p0)) as [[]|]; reflexivity.
  Qed.

  Definition result_wf (ty : ty) : bool := is_output_kind (kind_of doc (iname (ty_unwrapped ty))).

  Lemma output_kind_typedef n : is_output_kind (kind_of doc n) = true ->
    exists td, In td (typedefs doc) /\ tname td = n /\ is_input_def td = false.
  Proof.
    unfold kind_of. destruct (get_type doc n) as [td|] eqn:Hg; [|discriminate]. intros Hk.
    destruct (get_type_spec _ _ _ Hg) as [Hin Hn]. exists td. repeat split; try assumption.
    destruct td; try reflexivity. discriminate.
  Qed.

  (** [[Result]] = the wrapper-exact type over the resolver-side types *)
  Theorem result_exact ty f v b : result_wf ty = true ->
    m_t f (get_ts_type_of_type tvar_id ty) v = Some b ->
    wrap_den (resolver_ref o doc) v (is_nonnull ty) (ty_norm ty) = b.
  Proof.
    intros Hk H. destruct (output_kind_typedef _ Hk) as (td & Hin & Hn & Hni).
    eapply (get_ok_h m_t (mt_zero ms module_aliases) (mt_union ms module_aliases) (mt_array ms module_aliases)
              (mt_null ms module_aliases) (resolver_ref o doc) resolver_ref_null tvar_id ty f); [|exact H].
    intros f' _ v' b' Hb'. unfold tvar_id in Hb'. rewrite <- Hn. rewrite <- Hn in Hb'.
    eapply module_alias_sound; eassumption.
  Qed.

  Theorem result_decides ty v : result_wf ty = true ->
    exists F, forall f, F <= f -> m_t f (get_ts_type_of_type tvar_id ty) v <> None.
  Proof.
    intros Hk. destruct (output_kind_typedef _ Hk) as (td & Hin & Hn & Hni).
    apply (Dech_get m_t (mt_union ms module_aliases) (mt_array ms module_aliases) (mt_null ms module_aliases)
             tvar_id ty (vsize v)); [|lia].
    intros v' _. unfold tvar_id. rewrite <- Hn. apply module_alias_decides; assumption.
  Qed.

  Theorem result_exact_iff ty v : result_wf ty = true ->
    ((exists f, m_t f (get_ts_type_of_type tvar_id ty) v = Some true)
       <-> wrap_den (resolver_ref o doc) v (is_nonnull ty) (ty_norm ty) = true)
    /\ ((exists f, m_t f (get_ts_type_of_type tvar_id ty) v = Some false)
       <-> wrap_den (resolver_ref o doc) v (is_nonnull ty) (ty_norm ty) = false).
  Proof.
    intros Hk. destruct (result_decides ty v Hk) as (F & HF).
    assert (Hs := fun f b => result_exact ty f v b Hk).
    specialize (HF F (le_n _)).
    destruct (m_t F (get_ts_type_of_type tvar_id ty) v) as [b|] eqn:Hb; [|congruence].
    pose proof (Hs _ _ Hb) as Hr. split; split.
    - intros (f & Hf). apply (Hs f true Hf).
    - intros H. exists F. rewrite Hb. congruence.
    - intros (f & Hf). apply (Hs f false Hf).
    - intros H. exists F. rewrite Hb. congruence.
  Qed.

  (** every module alias denotes the resolver-side reference of its type *)
  Theorem module_alias_exact_iff td pp v : In td (typedefs doc) -> is_input_def td = false ->
    ((exists f, m_t f (TVar (tname td) pp) v = Some true) <-> resolver_ref o doc (tname td) v = true)
    /\ ((exists f, m_t f (TVar (tname td) pp) v = Some false) <-> resolver_ref o doc (tname td) v = false).
  Proof.
    intros Hin Hni. destruct (module_alias_decides td Hin Hni pp v) as (F & HF).
    assert (Hs := fun f b => module_alias_sound td Hin Hni f pp v b).
    specialize (HF F (le_n _)).
    destruct (m_t F (TVar (tname td) pp) v) as [b|] eqn:Hb; [|congruence].
    pose proof (Hs _ _ Hb) as Hr. split; split.
    - intros (f & Hf). apply (Hs f true Hf).
    - intros H. exists F. rewrite Hb. congruence.
    - intros (f & Hf). apply (Hs f false Hf).
    - intros H. exists F. rewrite Hb. congruence.
  Qed.
End ResolverExact.
