(** C10 — the resolvers declaration: the root [Resolvers<Context>] type has, under the name of each
    type of the (plugin-transformed) schema, exactly the resolver type of that definition — an
    object type gets one [__Resolver<Parent, Args, Context, Result>] per remaining field, an abstract
    type a [__resolveType] over exactly its possible types, leaf and input types nothing — and the
    lookup by name is unambiguous.  The model plugin removes exactly the [@model] fields of objects
    that are not [@model] objects themselves. *)
From V Require Import Base.Util Gql.Ast Writer.Wop Ts.TsType Ts.TsDen C10.Model C10.Spec C10.DenLemmas C10.Proofs.

Definition fields_of (t : tstype) : list tsfield := match t with TObject fs => fs | _ => [] end.
Definition root_pairs (d : resolver_decls) : list (str * tsfield) := map (fun fl => (f_key fl, fl)) (fields_of (rd_root d)).

(** the document the resolvers are derived from after [n] model plugins *)
Definition resolver_doc (plugins : nat) (doc : tsdoc) : tsdoc :=
  nat_rect (fun _ => tsdoc) doc (fun _ d => model_transform_doc d) plugins.

Definition model_td (td : typedef) : typedef :=
  match td with
  | TDObject ds p n impls dirs fields kw =>
      if has_model dirs then td else TDObject ds p n impls dirs (filter (fun fd => negb (has_model (fd_dirs fd))) fields) kw
  | _ => td
  end.

Lemma typedefs_model doc : typedefs (model_transform_doc doc) = map model_td (typedefs doc).
Proof.
  unfold typedefs, model_transform_doc. induction doc as [|d doc IH]; [reflexivity|].
  cbn [map flat_map]. rewrite map_app, <- IH. f_equal.
  destruct d as [| td | | |]; try reflexivity.
  destruct td; try reflexivity. cbn [model_td map]. destruct (has_model dirs); reflexivity.
Qed.
Lemma tname_model td : tname (model_td td) = tname td.
Proof. destruct td; try reflexivity. cbn. destruct (has_model dirs); reflexivity. Qed.
Lemma names_model doc : map tname (typedefs (model_transform_doc doc)) = map tname (typedefs doc).
Proof. rewrite typedefs_model, map_map. apply map_ext. apply tname_model. Qed.
Lemma names_resolver_doc n doc : map tname (typedefs (resolver_doc n doc)) = map tname (typedefs doc).
Proof. induction n as [|n IH]; [reflexivity|]. cbn [resolver_doc nat_rect]. rewrite names_model. exact IH. Qed.

Definition root_entry (o : ropts) (doc : tsdoc) (td : typedef) : list (str * tsfield) :=
  match get_resolver_type o doc td with
  | Some rt => [(tname td, mkField (tname td) (ipos (typedef_name td)) rt false (is_empty_object rt) None)]
  | None => []
  end.

Lemma resolver_root_pairs o plugins doc d :
  resolver_structure o plugins doc = Ok d ->
  root_pairs d = flat_map (root_entry o doc) (typedefs (resolver_doc plugins doc)).
Proof.
  unfold resolver_structure. intros H.
  apply bind_ok in H as (tm & _ & H). apply bind_ok in H as (al & _ & H). inversion H; subst d. clear H.
  unfold root_pairs. cbn [rd_root fields_of]. fold (resolver_doc plugins doc).
  rewrite map_flat_map. apply flat_map_ext. intros td. unfold root_entry.
  destruct (get_resolver_type o doc td); reflexivity.
Qed.

(** the entry under a type's name is that type's own resolver type *)
Theorem resolvers_entry o plugins doc d td :
  nodup_keys (map tname (typedefs doc)) = true ->
  resolver_structure o plugins doc = Ok d ->
  In td (typedefs (resolver_doc plugins doc)) ->
  assoc (tname td) (root_pairs d) =
  option_map (fun rt => mkField (tname td) (ipos (typedef_name td)) rt false (is_empty_object rt) None)
             (get_resolver_type o doc td).
Proof.
  intros Hnd Hd Hin. rewrite (resolver_root_pairs _ _ _ _ Hd).
  rewrite (assoc_flat_map_unique tname (root_entry o doc)).
  - unfold root_entry. destruct (get_resolver_type o doc td); cbn; [rewrite str_eqb_refl|]; reflexivity.
  - intros a kv H. unfold root_entry in H. destruct (get_resolver_type o doc a); [|contradiction].
    destruct H as [<-|[]]. reflexivity.
  - rewrite names_resolver_doc. exact Hnd.
  - exact Hin.
Qed.

(** what that resolver type is, kind by kind (reference written from the property text) *)
Definition ref_resolver_field (o : ropts) (parent : ident) (fd : fielddef) : tstype :=
  TFunc (TVar (s "__Resolver") pos0)
    [TVar (iname parent) (ipos parent);
     match fd_args fd with
     | None => TObject []
     | Some args =>
         TObject (map (fun iv => mkField (iname (iv_name iv)) (ipos (iv_name iv))
                                   (get_ts_type_of_type (fun n => TNs3 (ro_ns o) (s "__ResolverInput") (iname n)) (iv_type iv))
                                   true false (option_map desc_value (iv_desc iv))) args)
     end;
     TVar (s "Context") pos0;
     get_ts_type_of_type (fun n => TVar (iname n) (ipos n)) (fd_type fd)].

Definition ref_type_resolver (possible : list ident) : tstype :=
  TObject [mkField (s "__resolveType") pos0
             (TFunc (TVar (s "__TypeResolver") pos0)
                [ts_union (map (fun i => TVar (iname i) (ipos i)) possible); TVar (s "Context") pos0;
                 ts_union (map (fun i => TStrLit (iname i)) possible)]) false false None].

Theorem resolver_type_by_kind o doc td :
  get_resolver_type o doc td =
  match td with
  | TDObject _ _ n _ _ fields _ =>
      Some (TObject (map (fun fd => mkField (iname (fd_name fd)) (ipos (fd_name fd)) (ref_resolver_field o n fd) false false None) fields))
  | TDInterface _ _ n _ _ _ _ => Some (ref_type_resolver (interface_implementers doc (iname n)))
  | TDUnion _ _ _ _ members _ => Some (ref_type_resolver members)
  | _ => None
  end.
Proof.
  destruct td; try reflexivity.
  cbn [get_resolver_type]. f_equal. f_equal. apply map_ext. intros fd.
  unfold ref_resolver_field. f_equal. f_equal. f_equal.
  destruct (fd_args fd) as [args|]; [|reflexivity].
  unfold arguments_definition_to_ts. cbn [into_readonly]. f_equal. rewrite map_map. reflexivity.
Qed.

(** the implementers the type resolver ranges over are exactly the possible types *)
Theorem type_resolver_possible doc T :
  nodup_keys (map tname (typedefs doc)) = true ->
  map iname (interface_implementers doc T) = possible_of_interface doc T.
Proof. apply implementers_possible. Qed.

(** the plugin: a field needs a resolver iff it is not a [@model] field of a non-[@model] object *)
Theorem model_plugin_fields ds p n impls dirs fields kw :
  model_td (TDObject ds p n impls dirs fields kw) =
  TDObject ds p n impls dirs (if has_model dirs then fields else filter (fun fd => negb (has_model (fd_dirs fd))) fields) kw.
Proof. cbn. destruct (has_model dirs); reflexivity. Qed.

Theorem resolver_doc_one doc : typedefs (resolver_doc 1 doc) = map model_td (typedefs doc).
Proof. apply typedefs_model. Qed.

(** a type named like an identifier the resolvers file uses for something else is captured: the
    alias [type Context = …] is shadowed by the type parameter of [Resolvers<Context>] *)
Definition resolver_reserved (o : ropts) : list str :=
  [s "Context"; s "Omit"; s "Pick"; s "Promise"; s "GraphQLResolveInfo"; s "__Resolver"; s "__TypeResolver";
   ro_ns o; ro_root o; ro_output o]
  (* the resolvers file has no renaming at all: the keywords the printer emits as types are captured too
     ([type null = Omit<…>], [Result = null | null]); /repo d4bb3a6 repaired this for the schema file only *)
  ++ EMITTED_KEYWORDS.

Definition resolver_scope_ok (o : ropts) (d : resolver_decls) : bool :=
  forallb (fun a => negb (mem (iname (fst a)) (resolver_reserved o))) (rd_aliases d).

Definition default_ropts : ropts := mkROpts (s "Resolvers") (s "ResolverOutput") (s "schema") (s "Schema").
Definition context_doc : tsdoc :=
  [TSType (TDScalar None pos0 (mkId (s "ID") pos0) [] (mkKw (s "scalar") pos0));
   TSType (TDObject None pos0 (mkId (s "Context") pos0) [] []
             [mkFieldDef None (mkId (s "id") pos0) None (TNamed (mkId (s "ID") pos0)) []] (mkKw (s "type") pos0))].

Lemma resolver_scope_refuted :
  exists d, resolver_structure default_ropts 0 context_doc = Ok d /\ resolver_scope_ok default_ropts d = false.
Proof. eexists. split; vm_compute; reflexivity. Qed.

Lemma resolver_scope_guarded o plugins doc d :
  resolver_structure o plugins doc = Ok d ->
  forallb (fun td => negb (mem (tname td) (resolver_reserved o))) (typedefs doc) = true ->
  resolver_scope_ok o d = true.
Proof.
  unfold resolver_structure. intros H Hg.
  apply bind_ok in H as (tm & _ & H). apply bind_ok in H as (al & Hal & H). inversion H; subst d. clear H.
  unfold resolver_scope_ok. cbn [rd_aliases]. apply mapM_ok in Hal. fold (resolver_doc plugins doc) in Hal.
  rewrite forallb_forall. intros a Ha.
  destruct (Forall2_in_r _ _ _ _ Hal Ha) as (td & Htd & Hr).
  apply filter_In in Htd as [Htd _].
  destruct (assoc (tname td) tm); [|discriminate]. inversion Hr; subst a. cbn [fst].
  assert (Hn : In (tname td) (map tname (typedefs doc))).
  { rewrite <- (names_resolver_doc plugins doc). apply in_map. exact Htd. }
  apply in_map_iff in Hn as (td0 & He & Hin0).
  rewrite forallb_forall in Hg. specialize (Hg _ Hin0). unfold tname in *. rewrite He in Hg. exact Hg.
Qed.
