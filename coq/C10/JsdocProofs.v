(** C10 — the JSDoc block printed for ANY description is exactly one ECMAScript MultiLineComment
    followed by a newline: the comment cannot be closed early whatever the description contains
    (theorem about the shared [Ts.TsType.print_description], which the correspondence run ties to
    jsdoc.rs). *)
From V Require Import Base.Util Gql.Ast Writer.Wop Ts.TsType.

(** ** spec side: scanning a MultiLineComment ("/*", then everything up to the first "*/") *)
Fixpoint after_close (l : str) : option str :=
  match l with
  | a :: ((b :: r) as t) => if N.eqb a STAR && N.eqb b SLASHC then Some r else after_close t
  | _ => None
  end.
Definition scan_block_comment (l : str) : option str :=
  match l with
  | a :: b :: r => if N.eqb a SLASHC && N.eqb b STAR then after_close r else None
  | _ => None
  end.

(** contains "*/" *)
Fixpoint has_close (l : str) : bool :=
  match l with
  | a :: ((b :: _) as t) => (N.eqb a STAR && N.eqb b SLASHC) || has_close t
  | _ => false
  end.

Definition last_is_star (l : str) : bool := match rev l with c :: _ => N.eqb c STAR | [] => false end.
Definition head_is_slash (l : str) : bool := match l with c :: _ => N.eqb c SLASHC | [] => false end.

Lemma has_close_cons a l : has_close (a :: l) = (N.eqb a STAR && head_is_slash l) || has_close l.
Proof. destruct l as [|b r]; cbn; [rewrite andb_false_r|]; reflexivity. Qed.

Lemma head_is_slash_app x y : head_is_slash (x ++ y) = match x with [] => head_is_slash y | _ => head_is_slash x end.
Proof. destruct x; reflexivity. Qed.

Lemma last_is_star_cons a l : l <> [] -> last_is_star (a :: l) = last_is_star l.
Proof.
  unfold last_is_star. intros H. cbn [rev].
  destruct (rev l) as [|c r] eqn:Hr.
  - exfalso. apply H. apply (f_equal (@rev N)) in Hr. rewrite rev_involutive in Hr. exact Hr.
  - reflexivity.
Qed.

(** no close in [x], none in [y], and none formed at the junction *)
Lemma has_close_app x y :
  has_close x = false -> has_close y = false -> last_is_star x && head_is_slash y = false ->
  has_close (x ++ y) = false.
Proof.
  induction x as [|a x IH]; intros Hx Hy Hj; [exact Hy|].
  cbn [app]. rewrite has_close_cons in *. apply orb_false_iff in Hx as [Hx1 Hx2].
  apply orb_false_iff. split.
  - rewrite head_is_slash_app. destruct x as [|b x]; [|exact Hx1].
    unfold last_is_star in Hj. cbn in Hj. exact Hj.
  - destruct x as [|b x]; [exact Hy|].
    apply IH; [exact Hx2|exact Hy|]. rewrite last_is_star_cons in Hj by discriminate. exact Hj.
Qed.

Lemma after_close_cons a l :
  after_close (a :: l) = match l with
                         | b :: r => if N.eqb a STAR && N.eqb b SLASHC then Some r else after_close l
                         | [] => None
                         end.
Proof. destruct l; reflexivity. Qed.

Lemma after_close_app x y :
  has_close (x ++ [STAR]) = false -> after_close (x ++ STAR :: SLASHC :: y) = Some y.
Proof.
  induction x as [|a x IH]; intros H.
  - reflexivity.
  - cbn [app] in *. rewrite has_close_cons in H. apply orb_false_iff in H as [H1 H2].
    rewrite after_close_cons.
    destruct x as [|b x'].
    + cbn [app] in *. replace (N.eqb STAR SLASHC) with false by reflexivity. rewrite andb_false_r.
      apply IH. exact H2.
    + cbn [app] in *. cbn [head_is_slash] in H1. rewrite H1. apply IH. exact H2.
Qed.

(** ** [escape_close] leaves no "*/" and keeps the first character *)
Lemma escape_close_eq a b r :
  escape_close (a :: b :: r) =
  if N.eqb a STAR && N.eqb b SLASHC then STAR :: BSLASH :: SLASHC :: escape_close r else a :: escape_close (b :: r).
Proof. reflexivity. Qed.

Lemma escape_close_head l : head_is_slash (escape_close l) = head_is_slash l.
Proof.
  destruct l as [|a [|b r]]; try reflexivity.
  rewrite escape_close_eq. destruct (N.eqb a STAR && N.eqb b SLASHC) eqn:He; [|reflexivity].
  apply andb_true_iff in He as [Ha _]. apply N.eqb_eq in Ha. subst a. reflexivity.
Qed.

Lemma escape_close_no_close_len n : forall l, length l <= n -> has_close (escape_close l) = false.
Proof.
  induction n as [|n IH]; intros l Hl.
  - destruct l; [reflexivity|cbn in Hl; lia].
  - destruct l as [|a [|b r]]; try reflexivity.
    rewrite escape_close_eq. destruct (N.eqb a STAR && N.eqb b SLASHC) eqn:He.
    + rewrite !has_close_cons. cbn [head_is_slash].
      replace (N.eqb BSLASH SLASHC) with false by reflexivity.
      replace (N.eqb BSLASH STAR) with false by reflexivity.
      replace (N.eqb SLASHC STAR) with false by reflexivity.
      rewrite andb_false_r. cbn [andb orb].
      apply IH. cbn in Hl. lia.
    + rewrite has_close_cons, escape_close_head. cbn [head_is_slash]. rewrite He. cbn [orb].
      apply IH. cbn in Hl |- *. lia.
Qed.
Lemma escape_close_no_close l : has_close (escape_close l) = false.
Proof. apply (escape_close_no_close_len (length l)). lia. Qed.

(** ** the printed block *)
Definition jsdoc_body (ls : list str) : str :=
  flat_map (fun l => s " * " ++ escape_close (strip_cr l) ++ [10%N]) ls.

Lemma raw_text_app a b : raw_text (a ++ b) = raw_text a ++ raw_text b.
Proof. unfold raw_text. apply flat_map_app. Qed.

Lemma raw_text_single c : raw_text [W c] = c.
Proof. unfold raw_text. cbn. apply app_nil_r. Qed.

Lemma raw_text_description d :
  raw_text (print_description d) = (s "/**" ++ [10%N]) ++ jsdoc_body (dedent_lines d) ++ (s " */" ++ [10%N]).
Proof.
  unfold print_description. rewrite !raw_text_app, !raw_text_single. f_equal. f_equal.
  unfold jsdoc_body. induction (dedent_lines d) as [|l ls IH]; [reflexivity|].
  cbn [flat_map]. rewrite raw_text_app, IH. f_equal.
Qed.

Lemma body_line_ok e : has_close e = false ->
  has_close (s " * " ++ e ++ [10%N]) = false /\ last_is_star (s " * " ++ e ++ [10%N]) = false
  /\ head_is_slash (s " * " ++ e ++ [10%N]) = false.
Proof.
  intros He. split; [|split].
  - apply has_close_app; [reflexivity| |reflexivity].
    apply has_close_app; [exact He|reflexivity|]. cbn. apply andb_false_r.
  - unfold last_is_star. rewrite app_assoc, rev_app_distr. reflexivity.
  - reflexivity.
Qed.

Lemma jsdoc_body_ok ls :
  has_close (jsdoc_body ls) = false /\ last_is_star (jsdoc_body ls) = false /\ head_is_slash (jsdoc_body ls) = false.
Proof.
  induction ls as [|l ls (IH1 & IH2 & IH3)]; [repeat split|].
  unfold jsdoc_body. cbn [flat_map]. fold (jsdoc_body ls).
  destruct (body_line_ok (escape_close (strip_cr l)) (escape_close_no_close _)) as (H1 & H2 & H3).
  split; [|split].
  - apply has_close_app; [exact H1|exact IH1|]. rewrite H2. reflexivity.
  - destruct ls as [|l' ls']; [cbn [jsdoc_body flat_map]; rewrite app_nil_r; exact H2|].
    unfold last_is_star in *. rewrite rev_app_distr.
    destruct (rev (jsdoc_body (l' :: ls'))) eqn:Hr; [|exact IH2].
    exfalso. apply (f_equal (@rev N)) in Hr. rewrite rev_involutive in Hr. cbn in Hr. discriminate.
  - reflexivity.
Qed.

(** whatever the description, the printed text is "/*" + a body without "*/" + "*/" + "\n" *)
Theorem jsdoc_wellformed d : scan_block_comment (raw_text (print_description d)) = Some [10%N].
Proof.
  rewrite raw_text_description.
  change ((s "/**" ++ [10%N]) ++ jsdoc_body (dedent_lines d) ++ (s " */" ++ [10%N]))
    with (SLASHC :: STAR :: ([STAR; 10%N] ++ jsdoc_body (dedent_lines d) ++ [32%N] ++ STAR :: SLASHC :: [10%N])).
  cbn [scan_block_comment]. replace (N.eqb SLASHC SLASHC && N.eqb STAR STAR) with true by reflexivity.
  rewrite !app_assoc. apply after_close_app.
  destruct (jsdoc_body_ok (dedent_lines d)) as (H1 & H2 & H3).
  rewrite <- !app_assoc.
  apply has_close_app; [reflexivity| |reflexivity].
  apply has_close_app; [exact H1|reflexivity|]. rewrite H2. reflexivity.
Qed.

(** the escaping is needed: without it the comment would be closed early (the defect the property
    text reports, since repaired in /repo) *)
Example jsdoc_unescaped_would_break :
  scan_block_comment (s "/**" ++ [10%N] ++ s " * a */ b" ++ [10%N] ++ s " */" ++ [10%N]) <> Some [10%N].
Proof. vm_compute. discriminate. Qed.
Example jsdoc_escaped_example :
  raw_text (print_description (s "a */ b")) = s "/**" ++ [10%N] ++ s " * a *\/ b" ++ [10%N] ++ s " */" ++ [10%N].
Proof. vm_compute. reflexivity. Qed.
