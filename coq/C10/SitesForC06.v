(** C10 — the [write_for] call sites of the schema declaration printer, for C06
    ([definitions_are_mapped] on schema.d.ts): whenever [print_schema] succeeds, its operation list
    contains, for every type definition, a [WF] at the position of the definition's NAME (text =
    the local name, which is the schema name unless the type was renamed to [__tmp_…]; mapped name
    = the schema name), a [WF] at the position of its KEYWORD, and for every field of every object
    type / input object type a [WF name pos (Some name)] at the position of the field's name.
    No well-formedness hypothesis is needed. *)
From V Require Import Base.Util Gql.Ast Writer.Wop Ts.TsType Ts.TsDen
  C10.Model C10.Spec C10.DenLemmas C10.Proofs C10.Proofs2.

(** the identifiers the scalar mappings in use mention (the printer's "bag") *)
Definition schema_bag (o : sopts) (doc : tsdoc) : list str := get_bag_of_identifiers (get_scalar_types o doc).
(** the name a type is declared under inside the namespaces *)
Definition declared_name (o : sopts) (doc : tsdoc) (n : str) : str := local_name (schema_bag o doc) n.

Lemma declared_name_plain o doc n :
  mem n (schema_bag o doc) = false -> mem n EMITTED_KEYWORDS = false -> declared_name o doc n = n.
Proof. unfold declared_name, local_name. intros -> ->. reflexivity. Qed.

(** * [print_type] of an object type maps every raw-identifier key *)
Fixpoint obj_ops (l : list tsfield) : list wop :=
  match l with
  | [] => []
  | mkField k kp ty ro opt d :: r =>
      (match d with Some d => print_description d | None => [] end)
      ++ (if ro then [W (s "readonly ")] else [])
      ++ (if is_raw_ident k then [WF k kp (Some k)] else [W (s """"); W k; W (s """")])
      ++ (if opt then [W (s "?")] else [])
      ++ [W (s ": ")] ++ print_type ty ++ [W (s ";" ++ [10%N])]
      ++ obj_ops r
  end.

Lemma print_object_eq f fs :
  print_type (TObject (f :: fs)) = [W (s "{" ++ [10%N]); Indent] ++ obj_ops (f :: fs) ++ [Dedent; W (s "}")].
Proof. reflexivity. Qed.

Lemma obj_ops_key k kp ty ro opt d l :
  In (mkField k kp ty ro opt d) l -> is_raw_ident k = true -> In (WF k kp (Some k)) (obj_ops l).
Proof.
  intros Hin Hraw. induction l as [|[k' kp' ty' ro' opt' d'] l IH]; [destruct Hin|].
  cbn [obj_ops]. destruct Hin as [He|H].
  - inversion He; subst. rewrite Hraw.
    apply in_or_app; right. apply in_or_app; right. apply in_or_app; left. left; reflexivity.
  - apply in_or_app; right. apply in_or_app; right. apply in_or_app; right. apply in_or_app; right.
    apply in_or_app; right. apply in_or_app; right. right. exact (IH H).
Qed.

Lemma print_object_key k kp ty ro opt d fields :
  In (mkField k kp ty ro opt d) fields -> is_raw_ident k = true ->
  In (WF k kp (Some k)) (print_type (TObject fields)).
Proof.
  intros Hin Hraw. destruct fields as [|f0 fs0]; [destruct Hin|].
  rewrite print_object_eq. apply in_or_app; right. apply in_or_app; left. eapply obj_ops_key; eassumption.
Qed.

(** * members and namespaces inside the printed list *)
Lemma print_member_name m : In (WF (m_local m) (ipos (m_name m)) (Some (iname (m_name m)))) (print_member m).
Proof.
  unfold print_member, export_type. apply in_or_app; right.
  destruct (str_eqb (iname (m_name m)) (m_local m)); right; left; reflexivity.
Qed.
Lemma print_member_keyword m :
  exists text, In (WF text (kw_pos (m_kw m)) (Some (kw_name (m_kw m)))) (print_member m).
Proof.
  unfold print_member, export_type.
  destruct (str_eqb (iname (m_name m)) (m_local m)); eexists; apply in_or_app; right; left; reflexivity.
Qed.
Lemma print_member_body m t x : m_body m = BType t -> In x (print_type t) -> In x (print_member m).
Proof.
  intros Hb Hx. unfold print_member, export_type. apply in_or_app; right. rewrite Hb.
  destruct (str_eqb (iname (m_name m)) (m_local m)); cbn [print_body app];
    right; right; right; apply in_or_app; left; exact Hx.
Qed.

Lemma in_print_namespace t ms m x : In (Some m) ms -> In x (print_member m) -> In x (print_namespace (t, ms)).
Proof.
  intros Hm Hx. unfold print_namespace. cbn [fst snd]. apply in_or_app; right.
  apply in_or_app; left. apply in_flat_map. exists (Some m). split; [exact Hm|].
  apply in_or_app; left. exact Hx.
Qed.

Lemma schema_decls_in o doc nss t :
  schema_decls o doc = Ok nss -> In (t, namespace_of nss t) nss /\ namespace_members o doc t = Ok (namespace_of nss t).
Proof.
  intros H. split; [|apply namespace_of_decls; exact H].
  unfold schema_decls, all_targets in H. apply mapM_ok in H.
  repeat match goal with
         | H : Forall2 _ (_ :: _) _ |- _ => inversion H; clear H; subst
         | H : Forall2 _ [] _ |- _ => inversion H; clear H; subst
         | H : bind _ _ = Ok _ |- _ => apply bind_ok in H as (? & ? & H); inversion H; clear H; subst
         end.
  destruct t; cbn; auto 6.
Qed.

Section Sites.
  Variables (o : sopts) (doc : tsdoc) (ops : list wop).
  Hypothesis Hprint : print_schema o doc = Ok ops.

  Lemma print_schema_parts :
    exists nss reps, schema_decls o doc = Ok nss /\ print_representatives o doc = Ok reps /\
                     ops = print_prelude o doc ++ flat_map print_namespace nss ++ reps.
  Proof.
    unfold print_schema in Hprint. apply bind_ok in Hprint as (nss & Hn & H).
    apply bind_ok in H as (reps & Hr & H). inversion H. eauto.
  Qed.

  Lemma bag_of_ctx t : c_bag (make_ctx o doc t) = schema_bag o doc.
  Proof. reflexivity. Qed.

  (** every type definition: its NAME is mapped (by the top-level representative, present for every kind) *)
  Theorem definition_name_mapped td : In td (typedefs doc) ->
    In (WF (declared_name o doc (tname td)) (ipos (typedef_name td)) (Some (tname td))) ops.
  Proof.
    intros Hin. destruct print_schema_parts as (nss & reps & _ & Hr & ->).
    apply in_or_app; right. apply in_or_app; right.
    unfold print_representatives in Hr. apply bind_ok in Hr as (l & Hl & Hr). inversion Hr; subst reps. clear Hr.
    apply mapM_ok in Hl. apply in_typedefs in Hin.
    destruct (Forall2_in_l _ _ _ _ Hl Hin) as (y & Hy & Hd). cbn in Hd.
    apply bind_ok in Hd as (r & Hrep & Hd). inversion Hd; subst y. clear Hd.
    apply in_concat. eexists. split; [exact Hy|]. apply in_or_app; left.
    unfold print_representative in Hrep. apply bind_ok in Hrep as (l0 & Hl0 & Hrep). inversion Hrep; subst r. clear Hrep.
    apply (ltn_ok o doc OpOut) in Hl0. subst l0.
    apply in_or_app; left. unfold export_representative, declared_name. rewrite bag_of_ctx.
    destruct (str_eqb _ _); right; left; reflexivity.
  Qed.

  (** … and its KEYWORD *)
  Theorem definition_keyword_mapped td : In td (typedefs doc) ->
    exists text, In (WF text (kw_pos (typedef_kw td)) (Some (kw_name (typedef_kw td)))) ops.
  Proof.
    intros Hin. destruct print_schema_parts as (nss & reps & _ & Hr & ->).
    unfold print_representatives in Hr. apply bind_ok in Hr as (l & Hl & Hr). inversion Hr; subst reps. clear Hr.
    apply mapM_ok in Hl. apply in_typedefs in Hin.
    destruct (Forall2_in_l _ _ _ _ Hl Hin) as (y & Hy & Hd). cbn in Hd.
    apply bind_ok in Hd as (r & Hrep & Hd). inversion Hd; subst y. clear Hd.
    unfold print_representative in Hrep. apply bind_ok in Hrep as (l0 & Hl0 & Hrep). inversion Hrep; subst r. clear Hrep.
    assert (Hk : exists text, In (WF text (kw_pos (typedef_kw td)) (Some (kw_name (typedef_kw td))))
                                (export_representative (typedef_kw td) (typedef_name td) l0 (representative_target td))).
    { unfold export_representative. destruct (str_eqb _ _); eexists; left; reflexivity. }
    destruct Hk as (text & Hk). exists text.
    apply in_or_app; right. apply in_or_app; right. apply in_concat. eexists. split; [exact Hy|].
    apply in_or_app; left. apply in_or_app; left. exact Hk.
  Qed.

  (** the declaration inside a namespace maps the name as well *)
  Theorem namespace_declaration_mapped t nss td m :
    schema_decls o doc = Ok nss -> In td (typedefs doc) -> type_member (make_ctx o doc t) td = Ok (Some m) ->
    In (WF (declared_name o doc (tname td)) (ipos (typedef_name td)) (Some (tname td))) (flat_map print_namespace nss).
  Proof.
    intros Hn Hin Hm. destruct (schema_decls_in o doc nss t Hn) as [Hns Hms].
    destruct (member_of o doc t _ Hms td Hin) as (mo & Hmo & Hsome). rewrite Hm in Hmo. inversion Hmo; subst mo.
    specialize (Hsome m eq_refl). apply In_somes in Hsome.
    apply in_flat_map. eexists. split; [exact Hns|]. eapply in_print_namespace; [exact Hsome|].
    destruct (member_names o doc t td m Hm) as [Hl Hname]. pose proof (print_member_name m) as H.
    rewrite Hl, Hname in H. exact H.
  Qed.

  (** every field of an object type: mapped at the field name's position (in the output namespaces) *)
  Theorem object_field_mapped d p n impls dirs fields kw fd :
    In (TDObject d p n impls dirs fields kw) (typedefs doc) -> In fd fields ->
    is_raw_ident (iname (fd_name fd)) = true ->
    In (WF (iname (fd_name fd)) (ipos (fd_name fd)) (Some (iname (fd_name fd)))) ops.
  Proof.
    intros Hin Hfd Hraw. destruct print_schema_parts as (nss & reps & Hn & _ & ->).
    apply in_or_app; right. apply in_or_app; left.
    destruct (schema_decls_in o doc nss OpOut Hn) as [Hns Hms].
    destruct (member_of o doc OpOut _ Hms _ Hin) as (mo & Hmo & Hsome).
    cbn [type_member] in Hmo. cbn [is_input is_output c_target make_ctx negb] in Hmo.
    apply bind_ok in Hmo as (fs & Hfs & Hmo). apply bind_ok in Hmo as (l & _ & Hmo). inversion Hmo; subst mo. clear Hmo.
    specialize (Hsome _ eq_refl). apply In_somes in Hsome.
    apply in_flat_map. eexists. split; [exact Hns|]. eapply in_print_namespace; [exact Hsome|].
    eapply print_member_body; [reflexivity|].
    apply mapM_ok in Hfs. destruct (Forall2_in_l _ _ _ _ Hfs Hfd) as (fl & Hfl & Hr). cbv beta in Hr.
    apply bind_ok in Hr as (ty & _ & Hr). inversion Hr; subst fl.
    eapply print_object_key; [right; exact Hfl|exact Hraw].
  Qed.

  (** every field of an input object type (in the input namespaces); a missing schema field makes the
      printer panic, so success implies the field was printed *)
  Theorem input_field_mapped d p n dirs fields kw iv :
    In (TDInput d p n dirs fields kw) (typedefs doc) -> In iv fields ->
    is_raw_ident (iname (iv_name iv)) = true ->
    In (WF (iname (iv_name iv)) (ipos (iv_name iv)) (Some (iname (iv_name iv)))) ops.
  Proof.
    intros Hin Hiv Hraw. destruct print_schema_parts as (nss & reps & Hn & _ & ->).
    apply in_or_app; right. apply in_or_app; left.
    destruct (schema_decls_in o doc nss OpIn Hn) as [Hns Hms].
    destruct (member_of o doc OpIn _ Hms _ Hin) as (mo & Hmo & Hsome).
    cbn [type_member] in Hmo. cbn [is_input is_output c_target make_ctx negb] in Hmo.
    apply bind_ok in Hmo as (fs & Hfs & Hmo). apply bind_ok in Hmo as (l & _ & Hmo). inversion Hmo; subst mo. clear Hmo.
    specialize (Hsome _ eq_refl). apply In_somes in Hsome.
    apply in_flat_map. eexists. split; [exact Hns|]. eapply in_print_namespace; [exact Hsome|].
    eapply print_member_body; [reflexivity|].
    apply mapM_ok in Hfs. destruct (Forall2_in_l _ _ _ _ Hfs Hiv) as (fl & Hfl & Hr). cbv beta in Hr.
    destruct (schema_input_field_deprecation _ _ _); [|discriminate].
    apply bind_ok in Hr as (ty & _ & Hr). inversion Hr; subst fl.
    eapply print_object_key; [exact Hfl|exact Hraw].
  Qed.
End Sites.

(** GraphQL names are raw identifiers, so the side condition holds for every parsed schema *)
Example graphql_name_is_raw : is_raw_ident (s "_field9") = true.
Proof. reflexivity. Qed.
