(** C10 — a reader of the emitted schema declaration text (the emitted subset of TypeScript):
    comments, `export declare namespace N { … }`, type alias declarations, `export type { L as N }`,
    object types with readonly / optional members, arrays `(T)[]`, `readonly (T)[]`, unions, string
    literal types, `null`/`undefined`/`never`/`unknown`, identifiers.  Spec side: used by [holds] to
    read the IMPLEMENTATION's output back into namespaces whose denotation is compared with
    [Ref]; a text outside this grammar makes the reader return [None] (= not well-formed).
    Scannerless, fuelled; every function first skips white space and block comments. *)
From V Require Import Base.Util Gql.Ast Writer.Wop Ts.TsType Ts.TsDen C10.Model C10.Spec C10.JsdocProofs.

Fixpoint strip_prefix (p l : str) : option str :=
  match p, l with
  | [], _ => Some l
  | a :: p', b :: l' => if N.eqb a b then strip_prefix p' l' else None
  | _ :: _, [] => None
  end.

Definition is_space (c : N) : bool := (N.eqb c 32 || N.eqb c 10 || N.eqb c 9 || N.eqb c 13)%N.
Definition is_id_char (c : N) : bool := is_ascii_ident_char c || N.eqb c 36.

(** white space and block comments; [None] = unterminated comment *)
Fixpoint skip (fuel : nat) (l : str) : option str :=
  match fuel with
  | O => Some l
  | S f =>
      match l with
      | c :: r =>
          if is_space c then skip f r
          else match strip_prefix (s "/*") l with
               | Some r' => match after_close r' with Some r'' => skip f r'' | None => None end
               | None => Some l
               end
      | [] => Some l
      end
  end.

Fixpoint take_while (p : N -> bool) (l : str) : str * str :=
  match l with
  | c :: r => if p c then let '(a, b) := take_while p r in (c :: a, b) else ([], l)
  | [] => ([], [])
  end.

Definition sk (l : str) : option str := skip (length l) l.

(** an identifier (after skipping) *)
Definition p_ident (l : str) : option (str * str) :=
  match sk l with
  | Some l' =>
      match take_while is_id_char l' with
      | ([], _) => None
      | (i, r) => Some (i, r)
      end
  | None => None
  end.
(** a fixed piece of punctuation / keyword (after skipping); keywords must not continue as identifier *)
Definition p_lit (lit : str) (l : str) : option str :=
  match sk l with Some l' => strip_prefix lit l' | None => None end.
Definition p_kw (kw : str) (l : str) : option str :=
  match p_ident l with Some (i, r) => if str_eqb i kw then Some r else None | None => None end.
Definition peek_lit (lit : str) (l : str) : bool := match p_lit lit l with Some _ => true | None => false end.

(** everything up to (excluding) the first occurrence of ";\n" *)
Fixpoint until_semi_nl (l : str) : option (str * str) :=
  match l with
  | a :: ((b :: r) as t) =>
      if N.eqb a 59 && N.eqb b 10 then Some ([], r)
      else match until_semi_nl t with Some (x, y) => Some (a :: x, y) | None => None end
  | _ => None
  end.

(** [. ident]* after a first identifier *)
Fixpoint p_path (n : nat) (acc : list str) (l : str) : list str * str :=
  match n with
  | O => (acc, l)
  | S n' =>
      match p_lit (s ".") l with
      | Some r => match p_ident r with Some (j, r') => p_path n' (acc ++ [j]) r' | None => (acc, l) end
      | None => (acc, l)
      end
  end.

Fixpoint p_type (fuel : nat) (l : str) {struct fuel} : option (tstype * str) :=
  match fuel with
  | O => None
  | S f =>
      match p_atom f l with
      | Some (t, r) =>
          (fix more (n : nat) (acc : list tstype) (r : str) {struct n} : option (tstype * str) :=
             match n with
             | O => None
             | S n' =>
                 match p_lit (s "|") r with
                 | Some r' => match p_atom f r' with Some (t', r'') => more n' (acc ++ [t']) r'' | None => None end
                 | None => Some (match acc with [x] => x | _ => TUnion acc end, r)
                 end
             end) f [t] r
      | None => None
      end
  end
with p_atom (fuel : nat) (l : str) {struct fuel} : option (tstype * str) :=
  match fuel with
  | O => None
  | S f =>
      if peek_lit (s "(") l then
        match p_lit (s "(") l with
        | Some r =>
            match p_type f r with
            | Some (t, r') =>
                match p_lit (s ")") r' with
                | Some r'' => match p_lit (s "[]") r'' with Some r3 => Some (TArray t, r3) | None => Some (t, r'') end
                | None => None
                end
            | None => None
            end
        | None => None
        end
      else if peek_lit (s """") l then
        match p_lit (s """") l with
        | Some r => let '(v, r') := take_while (fun c => negb (N.eqb c 34)) r in
                    match r' with _ :: r'' => Some (TStrLit v, r'') | [] => None end
        | None => None
        end
      else if peek_lit (s "{") l then
        match p_lit (s "{") l with
        | Some r => match p_fields f r with Some (fs, r') => Some (TObject fs, r') | None => None end
        | None => None
        end
      else
        match p_ident l with
        | Some (i, r) =>
            if str_eqb i (s "readonly") then
              match p_lit (s "(") r with
              | Some r1 =>
                  match p_type f r1 with
                  | Some (t, r2) =>
                      match p_lit (s ")") r2 with
                      | Some r3 => match p_lit (s "[]") r3 with Some r4 => Some (TRoArray t, r4) | None => None end
                      | None => None
                      end
                  | None => None
                  end
              | None => None
              end
            else if str_eqb i (s "null") then Some (TNull, r)
            else if str_eqb i (s "undefined") then Some (TUndefined, r)
            else if str_eqb i (s "never") then Some (TNever, r)
            else if str_eqb i (s "unknown") then Some (TUnknown, r)
            else
              (* qualified name N.K / N.K1.K2 and type arguments F<A, B> (resolvers file) *)
              let '(path, r1) := p_path 3 [i] r in
              let base := match path with
                          | [a; b] => TNs a b
                          | [a; b; c] => TNs3 a b c
                          | _ => TVar i pos0
                          end in
              if peek_lit (s "<") r1 then
                match p_lit (s "<") r1 with
                | Some r2 => match p_targs f r2 with Some (args, r3) => Some (TFunc base args, r3) | None => None end
                | None => None
                end
              else Some (base, r1)
        | None => None
        end
  end
with p_targs (fuel : nat) (l : str) {struct fuel} : option (list tstype * str) :=
  match fuel with
  | O => None
  | S f =>
      match p_type f l with
      | Some (t, r) =>
          match p_lit (s ",") r with
          | Some r' => match p_targs f r' with Some (ts, r'') => Some (t :: ts, r'') | None => None end
          | None => match p_lit (s ">") r with Some r' => Some ([t], r') | None => None end
          end
      | None => None
      end
  end
with p_fields (fuel : nat) (l : str) {struct fuel} : option (list tsfield * str) :=
  match fuel with
  | O => None
  | S f =>
      match p_lit (s "}") l with
      | Some r => Some ([], r)
      | None =>
          (* [readonly] key [?] : type ; *)
          match p_ident l with
          | Some (i, r) =>
              let is_mod := str_eqb i (s "readonly") && negb (peek_lit (s ":") r) && negb (peek_lit (s "?") r) in
              match (if is_mod then p_ident r else Some (i, r)) with
              | Some (k, r1) =>
                  let opt := peek_lit (s "?") r1 in
                  match (if opt then p_lit (s "?") r1 else Some r1) with
                  | Some r2 =>
                      match p_lit (s ":") r2 with
                      | Some r3 =>
                          match p_type f r3 with
                          | Some (t, r4) =>
                              match p_lit (s ";") r4 with
                              | Some r5 =>
                                  match p_fields f r5 with
                                  | Some (fs, r6) => Some (mkField k pos0 t is_mod opt None :: fs, r6)
                                  | None => None
                                  end
                              | None => None
                              end
                          | None => None
                          end
                      | None => None
                      end
                  | None => None
                  end
              | None => None
              end
          | None => None
          end
      end
  end.

(** one declaration of a namespace: (exported name, local name, body); [raw_local]: the local names
    whose body is a scalar's verbatim text (everything up to ";\n") *)
Definition p_member (fuel : nat) (raw_local : str -> bool) (l : str) : option ((str * str * tstype) * str) :=
  let '(exported, l1) := match p_kw (s "export") l with Some r => (true, r) | None => (false, l) end in
  match p_kw (s "type") l1 with
  | Some l2 =>
      match p_ident l2 with
      | Some (local, l3) =>
          match p_lit (s "= ") l3 with
          | Some l4 =>
              match (if raw_local local
                     then match until_semi_nl l4 with Some (raw, r) => Some (TRaw raw, r) | None => None end
                     else match p_type fuel l4 with
                          | Some (t, r) => match p_lit (s ";") r with Some r' => Some (t, r') | None => None end
                          | None => None
                          end) with
              | Some (body, l5) =>
                  if exported then Some ((local, local, body), l5)
                  else (* export type { local as N }; *)
                    match p_kw (s "export") l5 with
                    | Some a => match p_kw (s "type") a with
                      | Some b => match p_lit (s "{") b with
                        | Some c => match p_ident c with
                          | Some (l', d) => match p_kw (s "as") d with
                            | Some e => match p_ident e with
                              | Some (n, f0) => match p_lit (s "}") f0 with
                                | Some g => match p_lit (s ";") g with
                                  | Some h => if str_eqb l' local then Some ((n, local, body), h) else None
                                  | None => None end
                                | None => None end
                              | None => None end
                            | None => None end
                          | None => None end
                        | None => None end
                      | None => None end
                    | None => None
                    end
              | None => None
              end
          | None => None
          end
      | None => None
      end
  | None => None
  end.

Fixpoint p_members (n : nat) (fuel : nat) (raw_local : str -> bool) (l : str) : option (list (str * str * tstype) * str) :=
  match n with
  | O => None
  | S n' =>
      match p_lit (s "}") l with
      | Some r => Some ([], r)
      | None =>
          match p_member fuel raw_local l with
          | Some (m, r) => match p_members n' fuel raw_local r with Some (ms, r') => Some (m :: ms, r') | None => None end
          | None => None
          end
      end
  end.

(** drop everything before the first "export declare namespace" *)
Fixpoint find_from (p : str) (n : nat) (l : str) : option str :=
  match n with
  | O => None
  | S n' => match strip_prefix p l with
            | Some _ => Some l
            | None => match l with _ :: r => find_from p n' r | [] => None end
            end
  end.

Fixpoint p_namespaces (k : nat) (fuel : nat) (raw_local : str -> bool) (l : str) : option (list (str * list (str * str * tstype))) :=
  match k with
  | O => Some []
  | S k' =>
      match p_kw (s "export") l with
      | Some a => match p_kw (s "declare") a with
        | Some b => match p_kw (s "namespace") b with
          | Some c => match p_ident c with
            | Some (name, d) => match p_lit (s "{") d with
              | Some e => match p_members fuel fuel raw_local e with
                | Some (ms, f0) => match p_namespaces k' fuel raw_local f0 with
                  | Some rest => Some ((name, ms) :: rest)
                  | None => None end
                | None => None end
              | None => None end
            | None => None end
          | None => None end
        | None => None end
      | None => None
      end
  end.

(** the four namespaces of a schema declaration text *)
Definition parse_schema_text (raw_local : str -> bool) (text : str) : option (list (str * list (str * str * tstype))) :=
  match find_from (s "export declare namespace") (S (length text)) text with
  | Some l => p_namespaces 4 (length text) raw_local l
  | None => None
  end.

(** parsed declarations as namespace members (keyword and positions are irrelevant to the denotation) *)
Definition as_member (d : str * str * tstype) : option member :=
  let '(n, l, b) := d in Some (mkMember (mkKw [] pos0) (mkId n pos0) l None (BType b)).

(** the local names whose declaration body is a scalar's verbatim TypeScript text *)
Definition raw_local (doc : tsdoc) (l : str) : bool :=
  existsb (fun td => match td with
                     | TDScalar _ _ n _ _ => str_eqb l (iname n) || str_eqb l (TMP_PREFIX ++ iname n)
                     | _ => false
                     end) (typedefs doc).

(** ** the resolvers declaration: the module aliases [type T = …;] that follow the two helper
    declarations, and the body of [export type R<Context> = …;] *)
Fixpoint skip_line (l : str) : str := match l with c :: r => if N.eqb c 10 then r else skip_line r | [] => [] end.

Fixpoint p_aliases (n fuel : nat) (l : str) : option (list (str * tstype) * str) :=
  match n with
  | O => None
  | S n' =>
      match p_kw (s "type") l with
      | Some l1 =>
          match p_ident l1 with
          | Some (name, l2) =>
              match p_lit (s "=") l2 with
              | Some l3 =>
                  match p_type fuel l3 with
                  | Some (t, l4) =>
                      match p_lit (s ";") l4 with
                      | Some l5 => match p_aliases n' fuel l5 with Some (r, rest) => Some ((name, t) :: r, rest) | None => None end
                      | None => None
                      end
                  | None => None
                  end
              | None => None
              end
          | None => None
          end
      | None => Some ([], l)
      end
  end.

Definition parse_resolvers_text (text : str) : option (list (str * tstype) * tstype) :=
  match find_from (s "type __TypeResolver") (S (length text)) text with
  | Some l =>
      match p_aliases (length text) (length text) (skip_line l) with
      | Some (aliases, l1) =>
          match p_kw (s "export") l1 with
          | Some a => match p_kw (s "type") a with
            | Some b => match p_ident b with
              | Some (_, c) => match p_lit (s "<") c with
                | Some d => match p_ident d with
                  | Some (_, e) => match p_lit (s ">") e with
                    | Some f0 => match p_lit (s "=") f0 with
                      | Some g => match p_type (length text) g with
                        | Some (root, h) => match p_lit (s ";") h with Some _ => Some (aliases, root) | None => None end
                        | None => None end
                      | None => None end
                    | None => None end
                  | None => None end
                | None => None end
              | None => None end
            | None => None end
          | None => None
          end
      | None => None
      end
  | None => None
  end.
