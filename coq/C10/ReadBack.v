(** C10 — the spec-side reader ([Parse.v]) against the model: reading the MODEL's printed text back
    gives the model's own structured declarations (up to positions, descriptions and the nesting of
    unions, none of which the denotation sees).  This is what connects [holds] — which reads the
    implementation's text, equal to the model's by [agree] — to the theorems, which speak about the
    structured output.  Evaluated on every run ([readback_schema_ok], [readback_resolvers_ok]); the
    unbounded statements are kept as [readback_schema_full] / [readback_resolvers_full] (not proved:
    a correctness proof of the reader over all printed texts). *)
From V Require Import Base.Util Gql.Ast Writer.Wop Ts.TsType Ts.TsDen C10.Model C10.Spec C10.Parse.

(** nested unions flattened, [A] for a one-member union, [never] for the empty one *)
Fixpoint norm_ts (t : tstype) : tstype :=
  match t with
  | TUnion ts =>
      match flat_map (fun x => match norm_ts x with TUnion ys => ys | y => [y] end) ts with
      | [] => TNever
      | [x] => x
      | l => TUnion l
      end
  | TArray x => TArray (norm_ts x)
  | TRoArray x => TRoArray (norm_ts x)
  | TObject fs => TObject (map (fun f => match f with mkField k p ty ro opt d => mkField k p (norm_ts ty) ro opt d end) fs)
  | TFunc f args => TFunc (norm_ts f) (map norm_ts args)
  | TInter ts => TInter (map norm_ts ts)
  | t => t
  end.

Fixpoint list_eqb2 {A B} (eqb : A -> B -> bool) (a : list A) (b : list B) : bool :=
  match a, b with
  | [], [] => true
  | x :: a', y :: b' => eqb x y && list_eqb2 eqb a' b'
  | _, _ => false
  end.

Definition decl_eqb (a b : str * str * tstype) : bool :=
  str_eqb (fst (fst a)) (fst (fst b)) && str_eqb (snd (fst a)) (snd (fst b)) && tstype_eqb (norm_ts (snd a)) (norm_ts (snd b)).

Definition member_decl (m : member) : str * str * tstype := (iname (m_name m), m_local m, body_type (m_body m)).

Definition readback_schema_ok (o : sopts) (doc : tsdoc) : bool :=
  match print_schema o doc, schema_decls o doc with
  | Ok ops, Ok nss =>
      match parse_schema_text (raw_local doc) (raw_text ops) with
      | Some parsed =>
          list_eqb2 (fun (a : target * list (option member)) (b : str * list (str * str * tstype)) =>
                      str_eqb (target_str (fst a)) (fst b)
                      && list_eqb decl_eqb (map member_decl (somes (snd a))) (snd b)) nss parsed
      | None => false
      end
  | _, _ => true
  end.

Definition readback_resolvers_ok (ro : ropts) (doc : tsdoc) : bool :=
  match resolver_structure ro 0 doc with
  | Ok d =>
      match parse_resolvers_text (raw_text (print_resolver_decls ro d)) with
      | Some (aliases, root) =>
          list_eqb2 (fun (a : ident * tstype) (b : str * tstype) =>
                      str_eqb (iname (fst a)) (fst b) && tstype_eqb (norm_ts (snd a)) (norm_ts (snd b)))
                   (rd_aliases d) aliases
          && tstype_eqb (norm_ts (rd_root d)) (norm_ts root)
      | None => false
      end
  | _ => true
  end.

(** no scalar text contains the two characters that end a declaration *)
Definition scalar_texts_plain (o : sopts) (doc : tsdoc) : bool :=
  forallb (fun kv => forallb (fun t => match until_semi_nl t with Some _ => false | None => true end)
                             (cfg_type_names (snd kv))) (get_scalar_types o doc).

Definition readback_schema_full : Prop :=
  forall o doc, wf_schema o doc = true -> scalar_texts_plain o doc = true -> readback_schema_ok o doc = true.
(** the resolvers file declares every type under its schema name, so a type named like a keyword the
    reader knows is read as that keyword (the known finding resolver-file-name-capture) *)
Definition no_keyword_type_names (doc : tsdoc) : bool :=
  forallb (fun td => negb (mem (tname td) EMITTED_KEYWORDS)) (typedefs doc).
Definition readback_resolvers_full : Prop :=
  forall ro doc, nodup_keys (map tname (typedefs doc)) = true -> no_keyword_type_names doc = true ->
                 readback_resolvers_ok ro doc = true.
