(** C10 — property theorems only.  Each is closed by [exact] of a lemma in the proof files and
    followed by [Print Assumptions]. *)
From V Require Import Base.Util Gql.Ast Writer.Wop Ts.TsType Ts.TsDen
  C10.Model C10.Spec C10.DenLemmas C10.Decide C10.Proofs C10.Proofs3 C10.Proofs2 C10.JsdocProofs C10.NameProofs C10.NameProofs2 C10.ResolverProofs C10.WrapGen C10.ResolverArgs C10.ResolverDen C10.ResolverMain.

(** [[alias T in namespace t]] = Ref_t(T): whenever the TypeScript reading of the alias the schema
    declaration exports for [T] in the namespace of target [t] decides membership of a value, it
    decides it exactly like the reference denotation — all six kinds, all four targets, any
    wrapper nesting, renamed locals included. *)
Theorem C10_alias_exact : forall o doc nss t T body f v b,
  wf_schema o doc = true -> schema_decls o doc = Ok nss ->
  applicable doc t T = true -> alias_of (namespace_of nss t) T = Some body ->
  has_type_b (ns_env (namespace_of nss t)) f body v = Some b -> Ref o doc t T v = b.
Proof. exact alias_exact. Qed.
Print Assumptions C10_alias_exact.

(** … and it does decide: for every value the alias admits it (for some fuel) iff it is in the
    reference denotation, and rejects it iff it is not — [[alias T in namespace t]] = Ref_t(T) *)
Theorem C10_alias_exact_iff : forall o doc nss t T body v,
  wf_schema o doc = true -> schema_decls o doc = Ok nss ->
  applicable doc t T = true -> alias_of (namespace_of nss t) T = Some body ->
  (In_type (ns_env (namespace_of nss t)) body v <-> Ref o doc t T v = true)
  /\ (NotIn_type (ns_env (namespace_of nss t)) body v <-> Ref o doc t T v = false).
Proof. exact alias_exact_equiv. Qed.
Print Assumptions C10_alias_exact_iff.

(** a namespace exports an alias for exactly the types that exist for that target *)
Theorem C10_alias_present : forall o doc nss t T td,
  wf_schema o doc = true -> schema_decls o doc = Ok nss -> get_type doc T = Some td ->
  (applicable doc t T = true <-> exists body, alias_of (namespace_of nss t) T = Some body).
Proof. exact alias_present. Qed.
Print Assumptions C10_alias_present.

(** on a well-formed schema the printer neither returns an error nor panics *)
Theorem C10_schema_decls_total : forall o doc,
  wf_schema o doc = true -> exists nss, schema_decls o doc = Ok nss.
Proof. exact schema_decls_total. Qed.
Print Assumptions C10_schema_decls_total.

(** wrapper-exact nullability of [get_ts_type_of_type], for any leaf mapping and leaf denotation *)
Theorem C10_wrappers_exact : forall (E : tsenv) (P : str -> val -> bool),
  (forall n, P n VNull = false) ->
  forall (mapn : ident -> tstype) (ty : ty) (f : nat),
  LeafOKg E P mapn f (ty_unwrapped ty) ->
  forall v b, has_type_b E f (get_ts_type_of_type mapn ty) v = Some b ->
              wrap_den P v (is_nonnull ty) (ty_norm ty) = b.
Proof. exact get_okg. Qed.
Print Assumptions C10_wrappers_exact.

(** the JSDoc block of ANY description is one comment: it cannot be closed early *)
Theorem C10_jsdoc_wellformed : forall d, scan_block_comment (raw_text (print_description d)) = Some [10%N].
Proof. exact jsdoc_wellformed. Qed.
Print Assumptions C10_jsdoc_wellformed.

(** local names: distinct types get distinct local names, a local name is never an identifier of
    a scalar's TypeScript type (guard: the bag does not contain both i and __tmp_i) nor a keyword
    the printer emits (unconditionally, since /repo d4bb3a6 adds them to the bag) *)
Theorem C10_local_names_injective : forall bag a b,
  starts_with UNSCO a = false -> starts_with UNSCO b = false ->
  local_name bag a = local_name bag b -> a = b.
Proof. exact local_name_inj. Qed.
Print Assumptions C10_local_names_injective.

Theorem C10_local_names_no_capture : forall bag n, bag_ok bag = true -> mem (local_name bag n) bag = false.
Proof. exact local_name_not_in_bag. Qed.
Print Assumptions C10_local_names_no_capture.

Theorem C10_local_names_not_keyword : forall bag n, mem (local_name bag n) EMITTED_KEYWORDS = false.
Proof. exact local_name_not_keyword. Qed.
Print Assumptions C10_local_names_not_keyword.

Theorem C10_local_names_capture_refuted :
  wf_schema capture_opts capture_doc = true /\
  let bag := get_bag_of_identifiers (get_scalar_types capture_opts capture_doc) in
  mem (local_name bag (s "Date")) bag = true.
Proof. exact local_names_capture_refuted. Qed.
Print Assumptions C10_local_names_capture_refuted.

Theorem C10_keyword_name_renamed :
  wf_schema keyword_opts keyword_doc = true /\
  exists ms m, namespace_members keyword_opts keyword_doc OpOut = Ok ms /\ In (Some m) ms /\
               iname (m_name m) = s "null" /\ m_local m = s "__tmp_null" /\
               mem (m_local m) EMITTED_KEYWORDS = false.
Proof. exact keyword_name_renamed. Qed.
Print Assumptions C10_keyword_name_renamed.

(** resolvers: the entry of [Resolvers<Context>] under a type's name is that type's resolver type,
    which is, kind by kind, the reference *)
Theorem C10_resolvers_entry : forall o plugins doc d td,
  nodup_keys (map tname (typedefs doc)) = true ->
  resolver_structure o plugins doc = Ok d ->
  In td (typedefs (resolver_doc plugins doc)) ->
  assoc (tname td) (root_pairs d) =
  option_map (fun rt => mkField (tname td) (ipos (typedef_name td)) rt false (is_empty_object rt) None)
             (get_resolver_type o doc td).
Proof. exact resolvers_entry. Qed.
Print Assumptions C10_resolvers_entry.

Theorem C10_resolvers_exact : forall o doc td,
  get_resolver_type o doc td =
  match td with
  | TDObject _ _ n _ _ fields _ =>
      Some (TObject (map (fun fd => mkField (iname (fd_name fd)) (ipos (fd_name fd)) (ref_resolver_field o n fd) false false None) fields))
  | TDInterface _ _ n _ _ _ _ => Some (ref_type_resolver (interface_implementers doc (iname n)))
  | TDUnion _ _ _ _ members _ => Some (ref_type_resolver members)
  | _ => None
  end.
Proof. exact resolver_type_by_kind. Qed.
Print Assumptions C10_resolvers_exact.

Theorem C10_type_resolver_possible : forall doc T,
  nodup_keys (map tname (typedefs doc)) = true ->
  map iname (interface_implementers doc T) = possible_of_interface doc T.
Proof. exact type_resolver_possible. Qed.
Print Assumptions C10_type_resolver_possible.

Theorem C10_model_plugin_fields : forall doc, typedefs (resolver_doc 1 doc) = map model_td (typedefs doc).
Proof. exact resolver_doc_one. Qed.
Print Assumptions C10_model_plugin_fields.

Theorem C10_resolver_scope_guarded : forall o plugins doc d,
  resolver_structure o plugins doc = Ok d ->
  forallb (fun td => negb (mem (tname td) (resolver_reserved o))) (typedefs doc) = true ->
  resolver_scope_ok o d = true.
Proof. exact resolver_scope_guarded. Qed.
Print Assumptions C10_resolver_scope_guarded.

Theorem C10_resolver_scope_refuted :
  exists d, resolver_structure default_ropts 0 context_doc = Ok d /\ resolver_scope_ok default_ropts d = false.
Proof. exact resolver_scope_refuted. Qed.
Print Assumptions C10_resolver_scope_refuted.

(** resolvers, denotationally.  [Args]: read against the schema declaration's `__ResolverInput`
    namespace, the Args type of a field resolver admits exactly the records giving every declared
    argument a value of Ref_ResolverInput of its type *)
Theorem C10_resolver_args_exact_iff : forall o doc ms,
  wf_schema o doc = true -> namespace_members o doc ResIn = Ok ms ->
  forall ro args v, args_wf doc args = true ->
  (In_type (res_in_env ms) (arguments_definition_to_ts ro args) v <-> args_ref o doc args v = true)
  /\ (NotIn_type (res_in_env ms) (arguments_definition_to_ts ro args) v <-> args_ref o doc args v = false).
Proof. exact args_exact_iff. Qed.
Print Assumptions C10_resolver_args_exact_iff.

(** under the local denotation [mt] of the resolvers file (module aliases unfolded, [Omit] over exact
    object types, function types opaque; no plugin): every module alias [type T = …] denotes the
    resolver-side reference of T — objects: exactly the fields, each in Ref_ResolverOutput of its
    type, no __typename; interfaces/unions: the union over their possible object types;
    scalars/enums: Ref_ResolverOutput *)
Theorem C10_resolver_alias_exact_iff : forall o ro doc ms d,
  wf_schema o doc = true -> namespace_members o doc ResOut = Ok ms -> resolver_structure ro 0 doc = Ok d ->
  forall td pp v, In td (typedefs doc) -> is_input_def td = false ->
  ((exists f, mt ms (module_aliases d) f (TVar (tname td) pp) v = Some true) <-> resolver_ref o doc (tname td) v = true)
  /\ ((exists f, mt ms (module_aliases d) f (TVar (tname td) pp) v = Some false) <-> resolver_ref o doc (tname td) v = false).
Proof. exact module_alias_exact_iff. Qed.
Print Assumptions C10_resolver_alias_exact_iff.

(** … and the Result type of a field resolver is the wrapper-exact type over them *)
Theorem C10_resolver_result_exact_iff : forall o ro doc ms d,
  wf_schema o doc = true -> namespace_members o doc ResOut = Ok ms -> resolver_structure ro 0 doc = Ok d ->
  forall ty v, result_wf doc ty = true ->
  ((exists f, mt ms (module_aliases d) f (get_ts_type_of_type tvar_id ty) v = Some true)
     <-> wrap_den (resolver_ref o doc) v (is_nonnull ty) (ty_norm ty) = true)
  /\ ((exists f, mt ms (module_aliases d) f (get_ts_type_of_type tvar_id ty) v = Some false)
     <-> wrap_den (resolver_ref o doc) v (is_nonnull ty) (ty_norm ty) = false).
Proof. exact result_exact_iff. Qed.
Print Assumptions C10_resolver_result_exact_iff.

(** the resolvers declaration in one theorem: outside the known-finding class (no type named like an
    identifier the resolvers file uses otherwise), for every object type O and field f the root type
    has under O, under f, the type __Resolver<Parent, Args, Context, Result> with
    [[Args]] = Ref_ResolverInput(args f), [[Result]] = the wrapper-exact resolver-side type of f's type,
    [[Parent]] = the resolver-side reference of O (no plugin) *)
Theorem C10_resolvers_field_exact : forall o ro doc ms_in ms_out d,
  resolvers_guard o ro doc = true ->
  namespace_members o doc ResIn = Ok ms_in -> namespace_members o doc ResOut = Ok ms_out ->
  resolver_structure ro 0 doc = Ok d ->
  forall dd p n impls dirs fields kw fd,
  In (TDObject dd p n impls dirs fields kw) (typedefs doc) -> In fd fields ->
  exists entry objfields fl A R,
    assoc (iname n) (root_pairs d) = Some entry /\ f_ty entry = TObject objfields /\
    find (fun x => str_eqb (f_key x) (iname (fd_name fd))) objfields = Some fl /\ f_optional fl = false /\
    f_ty fl = TFunc (TVar (s "__Resolver") pos0) [TVar (iname n) (ipos n); A; TVar (s "Context") pos0; R] /\
    (forall v, (In_type (res_in_env ms_in) A v <-> args_ref o doc (args_of fd) v = true)
               /\ (NotIn_type (res_in_env ms_in) A v <-> args_ref o doc (args_of fd) v = false)) /\
    (forall v, ((exists f, mt ms_out (module_aliases d) f R v = Some true)
                  <-> wrap_den (resolver_ref o doc) v (is_nonnull (fd_type fd)) (ty_norm (fd_type fd)) = true)
               /\ ((exists f, mt ms_out (module_aliases d) f R v = Some false)
                  <-> wrap_den (resolver_ref o doc) v (is_nonnull (fd_type fd)) (ty_norm (fd_type fd)) = false)) /\
    (forall pp v, ((exists f, mt ms_out (module_aliases d) f (TVar (iname n) pp) v = Some true) <-> resolver_ref o doc (iname n) v = true)
                  /\ ((exists f, mt ms_out (module_aliases d) f (TVar (iname n) pp) v = Some false) <-> resolver_ref o doc (iname n) v = false)).
Proof. exact resolvers_field_exact. Qed.
Print Assumptions C10_resolvers_field_exact.

(** without plugins the resolver printer has no failure path *)
Theorem C10_resolver_structure_total : forall ro doc, exists d, resolver_structure ro 0 doc = Ok d.
Proof. exact resolver_structure_total0. Qed.
Print Assumptions C10_resolver_structure_total.

(** inside a namespace no identifier of a scalar alias' verbatim text is a declared local name *)
Theorem C10_namespace_no_capture : forall o doc t ms m m' r i,
  namespace_members o doc t = Ok ms ->
  bag_ok (get_bag_of_identifiers (get_scalar_types o doc)) = true ->
  In (Some m) ms -> In (Some m') ms -> m_body m = BText r -> In i (idents_of r) -> m_local m' <> i.
Proof. exact namespace_no_capture. Qed.
Print Assumptions C10_namespace_no_capture.
