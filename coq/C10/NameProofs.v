(** C10 — local-name resolution: the declarations of a namespace never capture an identifier used
    by a scalar's TypeScript type, and never collide with each other or with a keyword the printer
    itself emits in type position; plus the refutations for the corner cases where the current
    code does. *)
From V Require Import Base.Util Gql.Ast Writer.Wop Ts.TsType Ts.TsDen C10.Model C10.Spec C10.DenLemmas C10.Proofs.

(** for every identifier [i] of the bag or keyword, "__tmp_"+i is not in the bag as well *)
Definition bag_ok (bag : list str) : bool := forallb (fun i => negb (mem (TMP_PREFIX ++ i) bag)) (bag ++ EMITTED_KEYWORDS).

Lemma local_name_not_in_bag bag n : bag_ok bag = true -> mem (local_name bag n) bag = false.
Proof.
  intros H. unfold local_name. unfold bag_ok in H. rewrite forallb_forall in H.
  destruct (mem n bag) eqn:Hn.
  - cbn [orb]. apply mem_In in Hn. specialize (H n (in_or_app _ _ _ (or_introl Hn))). apply negb_true_iff in H. exact H.
  - cbn [orb]. destruct (mem n EMITTED_KEYWORDS) eqn:Hk; [|exact Hn].
    apply mem_In in Hk. specialize (H n (in_or_app _ _ _ (or_intror Hk))). apply negb_true_iff in H. exact H.
Qed.

(** a declaration is never named like a word the printers emit as a type ([type null = …] would not
    be a type alias declaration and would change the meaning of [T | null]) *)
Definition no_keyword_names (doc : tsdoc) : bool :=
  forallb (fun td => negb (mem (tname td) EMITTED_KEYWORDS)) (typedefs doc).

Lemma local_name_not_keyword bag n : mem (local_name bag n) EMITTED_KEYWORDS = false.
Proof.
  unfold local_name. destruct (mem n EMITTED_KEYWORDS) eqn:Hk.
  - rewrite orb_true_r. unfold mem, EMITTED_KEYWORDS, TMP_PREFIX. cbn [existsb].
    repeat match goal with |- context [str_eqb ?a ?b] =>
      let E := fresh in destruct (str_eqb_spec a b) as [E|E]; [vm_compute in E; discriminate|] end.
    reflexivity.
  - rewrite orb_false_r. destruct (mem n bag); [|exact Hk].
    unfold mem, EMITTED_KEYWORDS, TMP_PREFIX. cbn [existsb].
    repeat match goal with |- context [str_eqb ?a ?b] =>
      let E := fresh in destruct (str_eqb_spec a b) as [E|E]; [vm_compute in E; discriminate|] end.
    reflexivity.
Qed.

(** ** witnesses (current behaviour) *)
Definition P0' := pos0.
Definition kw0 (k : String.string) : keyword := mkKw (s k) pos0.
Arguments kw0 k%string_scope.
Definition id0 (k : String.string) : ident := mkId (s k) pos0.
Arguments id0 k%string_scope.

(** [scalar S] configured as "__tmp_Date | Date" next to [type Date { a: S }] *)
Definition capture_doc : tsdoc :=
  [TSType (TDScalar None pos0 (id0 "S") [] (kw0 "scalar"));
   TSType (TDObject None pos0 (id0 "Date") [] [] [mkFieldDef None (id0 "a") None (TNamed (id0 "S")) []] (kw0 "type"))].
Definition capture_opts : sopts := mkSOpts [(s "S", ScSingle (s "__tmp_Date | Date"))] (s "__nitrogql_schema") true false.

Lemma local_names_capture_refuted :
  wf_schema capture_opts capture_doc = true /\
  let bag := get_bag_of_identifiers (get_scalar_types capture_opts capture_doc) in
  mem (local_name bag (s "Date")) bag = true.
Proof. vm_compute. split; reflexivity. Qed.

(** [type null { a: Int }] : accepted by [check] *)
Definition keyword_doc : tsdoc :=
  [TSType (TDScalar None pos0 (id0 "Int") [] (kw0 "scalar"));
   TSType (TDObject None pos0 (id0 "null") [] [] [mkFieldDef None (id0 "a") None (TNamed (id0 "Int")) []] (kw0 "type"))].
Definition keyword_opts : sopts := mkSOpts [(s "Int", ScSingle (s "number"))] (s "__nitrogql_schema") true false.

(** since /repo d4bb3a6 such a type is declared under [__tmp_null] and re-exported as [null] *)
Lemma keyword_name_renamed :
  wf_schema keyword_opts keyword_doc = true /\
  exists ms m, namespace_members keyword_opts keyword_doc OpOut = Ok ms /\ In (Some m) ms /\
               iname (m_name m) = s "null" /\ m_local m = s "__tmp_null" /\
               mem (m_local m) EMITTED_KEYWORDS = false.
Proof.
  split; [vm_compute; reflexivity|].
  eexists. eexists. split; [vm_compute; reflexivity|]. split; [right; left; reflexivity|].
  repeat split; vm_compute; reflexivity.
Qed.
