(** C10 — local-name resolution: the declarations of a namespace never capture an identifier used
    by a scalar's TypeScript type, and never collide with each other or with a keyword the printer
    itself emits in type position; plus the refutations for the corner cases where the current
    code does. *)
From V Require Import Base.Util Gql.Ast Writer.Wop Ts.TsType Ts.TsDen C10.Model C10.Spec C10.DenLemmas C10.Proofs.

(** for every identifier [i] of the bag, "__tmp_"+i is not in the bag as well *)
Definition bag_ok (bag : list str) : bool := forallb (fun i => negb (mem (TMP_PREFIX ++ i) bag)) bag.

Lemma local_name_not_in_bag bag n : bag_ok bag = true -> mem (local_name bag n) bag = false.
Proof.
  intros H. unfold local_name. destruct (mem n bag) eqn:Hn; [|exact Hn].
  unfold bag_ok in H. rewrite forallb_forall in H.
  apply mem_In in Hn. specialize (H _ Hn). apply negb_true_iff in H. exact H.
Qed.

(** the words the printers emit as types; a declaration with such a name would not be a type alias
    declaration ([type null = …] is a syntax error) and would change the meaning of [T | null] *)
Definition EMITTED_KEYWORDS : list str := [s "null"; s "undefined"; s "never"; s "unknown"].

Definition no_keyword_names (doc : tsdoc) : bool :=
  forallb (fun td => negb (mem (tname td) EMITTED_KEYWORDS)) (typedefs doc).

Lemma local_name_not_keyword bag n : mem n EMITTED_KEYWORDS = false -> mem (local_name bag n) EMITTED_KEYWORDS = false.
Proof.
  intros H. unfold local_name. destruct (mem n bag); [|exact H].
  unfold mem, EMITTED_KEYWORDS, TMP_PREFIX. cbn [existsb].
  repeat match goal with |- context [str_eqb ?a ?b] =>
    let E := fresh in destruct (str_eqb_spec a b) as [E|E]; [vm_compute in E; discriminate|] end.
  reflexivity.
Qed.

(** ** refutations (current behaviour) *)
Definition P0' := pos0.
Definition kw0 (k : String.string) : keyword := mkKw (s k) pos0.
Arguments kw0 k%string_scope.
Definition id0 (k : String.string) : ident := mkId (s k) pos0.
Arguments id0 k%string_scope.

(** [scalar S] configured as "__tmp_Date | Date" next to [type Date { a: S }] *)
Definition capture_doc : tsdoc :=
  [TSType (TDScalar None pos0 (id0 "S") [] (kw0 "scalar"));
   TSType (TDObject None pos0 (id0 "Date") [] [] [mkFieldDef None (id0 "a") None (TNamed (id0 "S")) []] (kw0 "type"))].
Definition capture_opts : sopts := mkSOpts [(s "S", ScSingle (s "__tmp_Date | Date"))] (s "__nitrogql_schema") true false.

Lemma local_names_capture_refuted :
  wf_schema capture_opts capture_doc = true /\
  let bag := get_bag_of_identifiers (get_scalar_types capture_opts capture_doc) in
  mem (local_name bag (s "Date")) bag = true.
Proof. vm_compute. split; reflexivity. Qed.

(** [type null { a: Int }] : accepted by [check], declared as [export type null = …] *)
Definition keyword_doc : tsdoc :=
  [TSType (TDScalar None pos0 (id0 "Int") [] (kw0 "scalar"));
   TSType (TDObject None pos0 (id0 "null") [] [] [mkFieldDef None (id0 "a") None (TNamed (id0 "Int")) []] (kw0 "type"))].
Definition keyword_opts : sopts := mkSOpts [(s "Int", ScSingle (s "number"))] (s "__nitrogql_schema") true false.

Lemma keyword_name_refuted :
  wf_schema keyword_opts keyword_doc = true /\
  exists ms m, namespace_members keyword_opts keyword_doc OpOut = Ok ms /\ In (Some m) ms /\
               mem (m_local m) EMITTED_KEYWORDS = true.
Proof.
  split; [vm_compute; reflexivity|].
  eexists. eexists. split; [vm_compute; reflexivity|]. split; [right; left; reflexivity|]. vm_compute. reflexivity.
Qed.
