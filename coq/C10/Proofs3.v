(** C10 — decidedness: for every value there is a fuel from which the TypeScript reading of an
    emitted alias decides; with [Proofs.alias_exact_sound] this turns "whenever it decides" into an
    equivalence with the reference denotation. *)
From V Require Import Base.Util Gql.Ast Writer.Wop Ts.TsType Ts.TsDen
  C10.Model C10.Spec C10.DenLemmas C10.Decide C10.Proofs.

Lemma vsize_pos v : 1 <= vsize v.
Proof. destruct v; cbn; lia. Qed.

Section NSDec.
  Variables (o : sopts) (doc : tsdoc) (t : target) (ms : list (option member)).
  Hypothesis Hwf : wf_schema o doc = true.
  Hypothesis Hms : namespace_members o doc t = Ok ms.
  Variable E : tsenv.
  Hypothesis Henv : forall n, env_var E n = env_var (ns_env ms) n.

  Let c := make_ctx o doc t.
  Notation lname := (local_name (c_bag c)).
  Notation D := (Dec E).

  Definition DecVar (k : nat) : Prop :=
    forall v, vsize v <= k -> forall T td p, get_type doc T = Some td -> applicable doc t T = true ->
      D (TVar (lname T) p) v.

  Lemma dec_var_of_body td m v p :
    In td (typedefs doc) -> type_member c td = Ok (Some m) -> D (body_type (m_body m)) v ->
    D (TVar (lname (tname td)) p) v.
  Proof.
    intros Hin Hm Hb. eapply Dec_var; [|exact Hb].
    apply (env_lookup o doc t ms Hwf Hms E Henv td m Hin Hm).
  Qed.

  (** the wrapped type of a field whose named type is applicable decides on every small value *)
  Lemma dec_field_type k ty :
    DecVar k -> (exists td, get_type doc (iname (ty_unwrapped ty)) = Some td) ->
    applicable doc t (iname (ty_unwrapped ty)) = true ->
    forall x, vsize x <= k ->
      D (get_ts_type_of_type (fun _ => TVar (lname (iname (ty_unwrapped ty))) pos0) ty) x.
  Proof.
    intros HD (td & Hg) Happ x Hx.
    apply (Dec_get E (fun _ => TVar (lname (iname (ty_unwrapped ty))) pos0) ty k); [|exact Hx].
    intros v' Hv'. eapply HD; eassumption.
  Qed.

  Lemma dec_concrete k v td m :
    DecVar k -> vsize v <= S k -> In td (typedefs doc) -> type_member c td = Ok (Some m) ->
    match td with TDInterface _ _ _ _ _ _ _ | TDUnion _ _ _ _ _ _ => False | _ => True end ->
    D (body_type (m_body m)) v.
  Proof.
    intros HD Hv Hin Hm Hk. pose proof (Hwfd o doc Hwf td Hin) as Hw. unfold wf_typedef in Hw.
    apply andb_true_iff in Hw as [_ Hw].
    destruct td; try contradiction; cbn [type_member] in Hm.
    - (* scalar *)
      destruct (assoc _ _); [|discriminate]. inv_bind Hm. inversion Hm; subst m. cbn. apply Dec_raw.
    - (* object *)
      destruct (is_input (c_target c)) eqn:Hinp; [discriminate|].
      change (c_target c) with t in Hinp. apply (is_output_of_input t) in Hinp.
      inv_bind Hm. inversion Hm; subst m. clear Hm. cbn [m_body body_type]. rename a into fs.
      apply mapM_ok in Ha. apply Dec_object. intros kvs fl x -> Hfl Hx.
      destruct Hfl as [<-|Hfl]; [cbn; apply Dec_strlit|].
      destruct (Forall2_in_r _ _ _ _ Ha Hfl) as (fd & Hfd & Hr). cbv beta in Hr.
      inv_bind Hr. inversion Hr; subst fl. clear Hr. cbn [f_ty f_key] in *.
      apply (ts_local_ok o doc t) in Ha1. subst a.
      rewrite forallb_forall in Hw. specialize (Hw _ Hfd). apply andb_true_iff in Hw as [_ Hw].
      destruct (kind_output doc t _ Hw Hinp) as (td' & Hg' & Happ').
      apply (dec_field_type k); [exact HD|eauto|exact Happ'|].
      pose proof (vsize_obj_assoc _ _ _ Hx). lia.
    - (* enum *)
      inv_bind Hm. inversion Hm; subst m. cbn [m_body body_type]. apply Dec_union.
      intros x Hx. apply in_map_iff in Hx as (ev & <- & _). apply Dec_strlit.
    - (* input object *)
      destruct (is_output (c_target c)) eqn:Hout; [discriminate|].
      change (c_target c) with t in Hout.
      assert (Hinp : is_input t = true) by (unfold is_input; rewrite Hout; reflexivity).
      inv_bind Hm. inversion Hm; subst m. clear Hm. cbn [m_body body_type]. rename a into fs.
      apply mapM_ok in Ha. apply Dec_object. intros kvs fl x -> Hfl Hx.
      destruct (Forall2_in_r _ _ _ _ Ha Hfl) as (iv & Hiv & Hr). cbv beta in Hr.
      destruct (schema_input_field_deprecation _ _ _); [|discriminate].
      inv_bind Hr. inversion Hr; subst fl. clear Hr. cbn [f_ty f_key] in *.
      apply (ts_local_ok o doc t) in Ha1. subst a.
      rewrite forallb_forall in Hw. specialize (Hw _ Hiv).
      destruct (kind_input doc t _ Hw Hinp) as (td' & Hg' & Happ').
      assert (Hro : D (into_readonly (get_ts_type_of_type (fun _ => TVar (lname (iname (ty_unwrapped (iv_type iv)))) pos0) (iv_type iv))) x).
      { eapply Dec_ext; [intros f; apply ro_get; reflexivity|].
        apply (dec_field_type k); [exact HD|eauto|exact Happ'|].
        pose proof (vsize_obj_assoc _ _ _ Hx). lia. }
      change (c_opts c) with o. destruct (so_optional o && negb (is_nonnull (iv_type iv))); [|exact Hro].
      apply Dec_union. intros y [<-|[<-|[]]]; [exact Hro|apply Dec_undef].
  Qed.

  Lemma dec_object_var k v oi d p impls dirs fields kw pp :
    DecVar k -> vsize v <= S k -> In (TDObject d p oi impls dirs fields kw) (typedefs doc) -> is_output t = true ->
    D (TVar (lname (iname oi)) pp) v.
  Proof.
    intros HD Hv Hin Ho.
    assert (Happ : applicable doc t (iname oi) = true).
    { unfold applicable. rewrite (get_type_of_in doc _ (Hnd o doc Hwf) Hin : get_type doc (iname oi) = _). exact Ho. }
    destruct (applicable_member o doc t ms Hwf Hms _ Hin Happ) as (m & Hm).
    apply (dec_var_of_body _ m v pp Hin Hm). eapply dec_concrete; try eassumption. exact I.
  Qed.

  Lemma dec_step k : DecVar k -> DecVar (S k).
  Proof.
    intros HD v Hv T td p Hg Happ.
    destruct (get_type_spec _ _ _ Hg) as [Hin <-].
    destruct (applicable_member o doc t ms Hwf Hms _ Hin Happ) as (m & Hm).
    apply (dec_var_of_body td m v p Hin Hm).
    destruct td eqn:Htd; try (eapply dec_concrete; try eassumption; exact I).
    - (* interface *)
      fold c in Hm. cbn [type_member] in Hm. destruct (is_input (c_target c)) eqn:Hinp; [discriminate|].
      change (c_target c) with t in Hinp. apply (is_output_of_input t) in Hinp.
      inv_bind Hm. inversion Hm; subst m. cbn [m_body body_type].
      apply Dec_ts_union. intros x Hx. apply in_map_iff in Hx as (oi & <- & Hoi).
      destruct (implementer_object o doc Hwf _ _ Hoi) as (d' & p' & impls' & dirs' & fields' & kw' & Hino).
      pose proof (ltn_defined o doc t _ Hino) as Hl. unfold tname in Hl; cbn [typedef_name] in Hl. fold c in Hl. rewrite Hl.
      eapply dec_object_var; eassumption.
    - (* union *)
      fold c in Hm. cbn [type_member] in Hm. destruct (is_input (c_target c)) eqn:Hinp; [discriminate|].
      change (c_target c) with t in Hinp. apply (is_output_of_input t) in Hinp.
      inv_bind Hm. inversion Hm; subst m. cbn [m_body body_type].
      apply Dec_ts_union. intros x Hx. apply in_map_iff in Hx as (mi & <- & Hmi).
      pose proof (Hwfd o doc Hwf _ Hin) as Hw. unfold wf_typedef in Hw. apply andb_true_iff in Hw as [_ Hw].
      rewrite forallb_forall in Hw. specialize (Hw _ Hmi).
      destruct (kind_object doc _ Hw) as (d' & p' & nm & impls' & dirs' & fields' & kw' & Hg').
      destruct (get_type_spec _ _ _ Hg') as [Hino Hnm]. unfold tname in Hnm; cbn [typedef_name] in Hnm.
      pose proof (ltn_defined o doc t _ Hino) as Hl. unfold tname in Hl; cbn [typedef_name] in Hl. fold c in Hl.
      rewrite Hnm in Hl. rewrite Hl. rewrite <- Hnm.
      destruct (str_eqb (lname (iname nm)) (iname nm)) eqn:He.
      + apply str_eqb_eq in He. rewrite <- He. eapply dec_object_var; eassumption.
      + eapply dec_object_var; eassumption.
  Qed.

  Lemma dec_all : forall k, DecVar k.
  Proof.
    induction k as [|k IH]; [|apply dec_step; exact IH].
    intros v Hv. pose proof (vsize_pos v). lia.
  Qed.

  (** the alias of every applicable type decides every value, from some fuel on *)
  Theorem alias_decides T body v :
    applicable doc t T = true -> alias_of ms T = Some body -> Dec E body v.
  Proof.
    intros Happ Hal.
    assert (Hg : exists td, get_type doc T = Some td).
    { unfold applicable in Happ. destruct (get_type doc T); [eauto|discriminate]. }
    destruct Hg as (td & Hg). destruct (get_type_spec _ _ _ Hg) as [Hin <-].
    destruct (applicable_member o doc t ms Hwf Hms _ Hin Happ) as (m & Hm).
    rewrite (alias_lookup o doc t ms Hwf Hms td m Hin Hm) in Hal. inversion Hal; subst body.
    (* body decides: same case analysis as one step *)
    pose proof (dec_all (vsize v) v (le_n _) (tname td) td pos0 Hg Happ) as (F & HF).
    exists F. intros f Hf. specialize (HF (S f) ltac:(lia)).
    pose proof (env_lookup o doc t ms Hwf Hms E Henv td m Hin Hm) as Hel.
    rewrite ht_var in HF. unfold c in HF. rewrite Hel in HF. exact HF.
  Qed.

  (** the equivalence: the alias admits [v] iff [v] is in the reference denotation *)
  Theorem alias_exact_iff T body v :
    applicable doc t T = true -> alias_of ms T = Some body ->
    (In_type E body v <-> Ref o doc t T v = true) /\ (NotIn_type E body v <-> Ref o doc t T v = false).
  Proof.
    intros Happ Hal.
    destruct (alias_decides T body v Happ Hal) as (F & HF).
    assert (Hs := fun f b => alias_exact_sound o doc t ms Hwf Hms E Henv T body f v b Happ Hal).
    specialize (HF F (le_n _)). destruct (has_type_b E F body v) as [b|] eqn:Hb; [|congruence].
    pose proof (Hs _ _ Hb) as Hr. split; split.
    - intros (f & Hf). apply (Hs f true Hf).
    - intros H. exists F. rewrite Hb. congruence.
    - intros (f & Hf). apply (Hs f false Hf).
    - intros H. exists F. rewrite Hb. congruence.
  Qed.
End NSDec.
