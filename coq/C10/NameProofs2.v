(** C10 — no capture inside a namespace, as one statement about the emitted declarations: whenever the
    bag is [bag_ok], no identifier occurring in the verbatim text of a scalar alias of a namespace is
    the local name of a declaration of that namespace (what C09's / C10's per-run [captured] /
    declared-name checks look for on the implementation's text). *)
From V Require Import Base.Util Gql.Ast Writer.Wop Ts.TsType Ts.TsDen
  C10.Model C10.Spec C10.DenLemmas C10.Proofs C10.NameProofs.

Lemma cfg_get_type_in cfg t : In (cfg_get_type cfg t) (cfg_type_names cfg).
Proof. destruct cfg, t; cbn; auto 6. Qed.

Lemma assoc_some_in' {A} k (l : list (str * A)) v : assoc k l = Some v -> exists k', In (k', v) l.
Proof.
  induction l as [|[k' x] l IH]; cbn; [discriminate|].
  destruct (str_eqb k k'); intros H; [inversion H; subst; eexists; left; reflexivity|].
  destruct (IH H) as (k'' & Hin). eexists; right; exact Hin.
Qed.

Theorem namespace_no_capture o doc t ms m m' r i :
  namespace_members o doc t = Ok ms ->
  bag_ok (get_bag_of_identifiers (get_scalar_types o doc)) = true ->
  In (Some m) ms -> In (Some m') ms -> m_body m = BText r -> In i (idents_of r) -> m_local m' <> i.
Proof.
  intros Hms Hbag Hm Hm' Hb Hi He.
  destruct (member_in o doc t ms Hms m (proj2 (In_somes ms m) Hm)) as (td & Htd & Htm).
  destruct (member_in o doc t ms Hms m' (proj2 (In_somes ms m') Hm')) as (td' & Htd' & Htm').
  destruct (member_names o doc t td' m' Htm') as [Hl' _].
  (* the text is one of the configured texts of a scalar in use, so its identifiers are in the bag *)
  assert (Hin : mem i (get_bag_of_identifiers (get_scalar_types o doc)) = true).
  { apply mem_In. destruct td; cbn [type_member] in Htm;
      try (destruct (is_input _); [discriminate|]); try (destruct (is_output _); [discriminate|]);
      try (inv_bind Htm; inversion Htm; subst m; cbn in Hb; discriminate).
    destruct (assoc (iname name) (c_scalars (make_ctx o doc t))) as [cfg|] eqn:Hc; [|discriminate].
    inv_bind Htm. inversion Htm; subst m. cbn in Hb. inversion Hb; subst r. clear Hb.
    cbn [c_scalars make_ctx] in Hc. destruct (assoc_some_in' _ _ _ Hc) as (k' & Hk).
    unfold get_bag_of_identifiers. apply in_flat_map. exists (k', cfg). split; [exact Hk|].
    apply in_flat_map. eexists. split; [apply cfg_get_type_in|exact Hi]. }
  rewrite <- He, Hl' in Hin. change (c_bag (make_ctx o doc t)) with (get_bag_of_identifiers (get_scalar_types o doc)) in Hin.
  rewrite (local_name_not_in_bag _ _ Hbag) in Hin. discriminate.
Qed.
