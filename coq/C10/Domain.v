(** C10/C09 — a finite abstract value domain derived from a schema: for every type a list of
    candidate values containing members AND near misses (missing / extra / duplicated keys, wrong
    [__typename], null or undefined in non-null positions, wrong atoms).  Used by [holds] to compare
    the denotation of emitted types with the reference denotation.  The reference denotation itself
    ([Spec.Ref_ty]) is used only to pick a "good" value for the other fields of a record while one
    field is varied; the candidates are then judged by both sides independently. *)
From V Require Import Base.Util Gql.Ast Writer.Wop Ts.TsType Ts.TsDen C10.Model C10.Spec.

Definition base_vals : list val :=
  [VNull; VUndef; VStr (s "x"); VNum; VBool true; VAtom (s "Date"); VList []; VObj []].

Section Dom.
  Variables (o : sopts) (doc : tsdoc) (t : target).

  Definition good (ty : ty) (cands : list val) : option val :=
    find (fun v => Ref_ty o doc t ty v) cands.

  Fixpoint replace_key (k : str) (v : val) (kvs : list (str * val)) : list (str * val) :=
    match kvs with
    | [] => []
    | (k', x) :: r => if str_eqb k k' then (k, v) :: r else (k', x) :: replace_key k v r
    end.
  Definition remove_key (k : str) (kvs : list (str * val)) : list (str * val) :=
    filter (fun kv => negb (str_eqb (fst kv) k)) kvs.

  (** variants of a canonical record [kvs]: itself, each key dropped, an extra key, a duplicated
      key, and for each of the first [width] keys every candidate of that position *)
  Definition record_variants (width : nat) (kvs : list (str * val)) (cands : str -> list val) : list val :=
    [VObj kvs; VObj (kvs ++ [(s "zzExtra", VNum)])]
    ++ match kvs with kv :: _ => [VObj (kv :: kvs)] | [] => [] end
    ++ map (fun kv => VObj (remove_key (fst kv) kvs)) kvs
    ++ flat_map (fun kv => map (fun v => VObj (replace_key (fst kv) v kvs)) (cands (fst kv))) (firstn width kvs).

  Fixpoint vals (fuel : nat) (ty : nty) {struct fuel} : list val :=
    match fuel with
    | O => base_vals
    | S fuel' =>
        let vals_of (x : Ast.ty) := vals fuel' (ty_norm x) in
        let object_vals (n : str) (fields : list fielddef) : list val :=
          let canon := (TYPENAME, VStr n)
                       :: flat_map (fun fd => match good (fd_type fd) (vals_of (fd_type fd)) with
                                              | Some v => [(iname (fd_name fd), v)]
                                              | None => []
                                              end) fields in
          record_variants 5 canon
            (fun k => if str_eqb k TYPENAME then [VStr (s "Other"); VNull]
                      else match find (fun fd => str_eqb (iname (fd_name fd)) k) fields with
                           | Some fd => firstn 12 (vals_of (fd_type fd))
                           | None => []
                           end) in
        let named_object (n : str) : list val :=
          match get_type doc n with
          | Some (TDObject _ _ _ _ _ fields _) => object_vals n fields
          | _ => []
          end in
        match ty with
        | NList en et =>
            (* structured candidates first (callers take a prefix), the generic ones last *)
            let es := vals fuel' et in
            [VList [VNull]; VList []; VNull]
            ++ map (fun v => VList [v]) (firstn 6 es)
            ++ match es with a :: b :: _ => [VList [a; VNull]; VList [b; a]; VList [VUndef]] | _ => [] end
            ++ base_vals
        | NNamed n =>
            (fun specific => specific ++ base_vals)
            match get_type doc n with
            | Some (TDScalar _ _ _ dirs _) =>
                [VStr (s "s"); VBool false]
                ++ match scalar_config o n dirs with Some c => map VAtom (cfg_type_names c) | None => [] end
            | Some (TDEnum _ _ _ _ evs _) => map (fun ev => VStr (iname (ev_name ev))) evs
            | Some (TDObject _ _ _ _ _ fields _) => object_vals n fields
            | Some (TDInterface _ _ _ _ _ _ _) => flat_map named_object (possible_of_interface doc n)
            | Some (TDUnion _ _ _ _ members _) => flat_map (fun m => named_object (iname m)) members
            | Some (TDInput _ _ _ _ fields _) =>
                let canon := flat_map (fun iv => match good (iv_type iv) (vals_of (iv_type iv)) with
                                                 | Some v => [(iname (iv_name iv), v)]
                                                 | None => []
                                                 end) fields in
                record_variants 5 canon
                  (fun k => match find (fun iv => str_eqb (iname (iv_name iv)) k) fields with
                            | Some iv => firstn 12 (vals_of (iv_type iv))
                            | None => []
                            end)
            | None => []
            end
        end
    end.
End Dom.
