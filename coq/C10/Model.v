(** C10 — executable model of nitrogql's schema declaration printer
    (crates/printer/src/schema_type_printer/{printer,type_printer,context}.rs), of the resolver
    declaration printer (resolver_type_printer/{printer,visitor}.rs), of the model plugin's two
    transforms (crates/plugin/src/model_plugin/mod.rs), of [ScalarTypeConfig::get_type]/[type_names]
    (crates/config-file/src/scalar_type.rs) and of the parts of [ast_to_type_system] /
    [interface_implementers] the printers consult.

    The printers are modelled in two steps so that the emitted declarations are available as DATA:
      [schema_decls]  : options -> document -> structured namespaces (list of members with TSType bodies)
      [print_schema]  : prints that structure as writer operations ([list wop]), which is what the
                        correspondence run compares with the recording writer on the Rust side.
    Definitions only. *)
From V Require Import Base.Util Gql.Ast Writer.Wop Ts.TsType Ts.TsDen.

(** * Results: the Rust printers return [Err(ScalarTypeNotProvided)] or panic ([expect]) *)
Inductive res (A : Type) :=
| Ok (a : A)
| ErrScalar (name : str) (p : pos)     (* SchemaTypePrinterError::ScalarTypeNotProvided *)
| Panic (site : N).                    (* 1 "Local type name not generated", 2 "Type system error",
                                          3 "'type' argument is required", 4 "object not found" / unwrap *)
Arguments Ok {A} a.
Arguments ErrScalar {A} name p.
Arguments Panic {A} site.

Definition bind {A B} (r : res A) (f : A -> res B) : res B :=
  match r with Ok a => f a | ErrScalar n p => ErrScalar n p | Panic k => Panic k end.

Fixpoint mapM {A B} (f : A -> res B) (l : list A) : res (list B) :=
  match l with
  | [] => Ok []
  | x :: r => bind (f x) (fun y => bind (mapM f r) (fun ys => Ok (y :: ys)))
  end.

(** * config-file: TypeTarget, ScalarTypeConfig *)
Inductive target := OpIn | OpOut | ResIn | ResOut.
Definition all_targets : list target := [OpIn; OpOut; ResIn; ResOut].   (* order of print_document *)

Definition target_str (t : target) : str :=
  match t with
  | OpIn => s "__OperationInput" | OpOut => s "__OperationOutput"
  | ResIn => s "__ResolverInput" | ResOut => s "__ResolverOutput"
  end.
Definition is_output (t : target) : bool := match t with OpOut | ResOut => true | _ => false end.
Definition is_input (t : target) : bool := negb (is_output t).
Definition target_eqb (a b : target) : bool :=
  match a, b with OpIn, OpIn | OpOut, OpOut | ResIn, ResIn | ResOut, ResOut => true | _, _ => false end.

Inductive scalar_cfg :=
| ScSingle (t : str)
| ScSendRecv (send recv : str)
| ScSeparate (res_out res_in op_out op_in : str).

(** [ScalarTypeConfig::get_type] *)
Definition cfg_get_type (c : scalar_cfg) (t : target) : str :=
  match c with
  | ScSingle x => x
  | ScSendRecv send recv =>
      match t with ResOut => send | ResIn => recv | OpOut => recv | OpIn => send end
  | ScSeparate ro ri oo oi =>
      match t with ResOut => ro | ResIn => ri | OpOut => oo | OpIn => oi end
  end.
(** [ScalarTypeConfig::type_names] *)
Definition cfg_type_names (c : scalar_cfg) : list str :=
  match c with
  | ScSingle x => [x]
  | ScSendRecv send recv => [send; recv]
  | ScSeparate ro ri oo oi => [ro; ri; oo; oi]
  end.

(** [SchemaTypePrinterOptions] *)
Record sopts := mkSOpts {
  so_scalars : list (str * scalar_cfg);   (* HashMap, keys unique; only [get] is used *)
  so_meta : str;                          (* schema_metadata_type *)
  so_optional : bool;                     (* input_nullable_field_is_optional *)
  so_runtime : bool }.                    (* emit_schema_runtime *)

(** * The document as the printers see it *)
Definition typedefs (doc : tsdoc) : list typedef :=
  flat_map (fun d => match d with TSType t => [t] | _ => [] end) doc.
Definition tname (t : typedef) : str := iname (typedef_name t).

Definition mem (x : str) (l : list str) : bool := existsb (str_eqb x) l.

(** [Schema::get_type]: [SchemaBuilder::extend] keeps the FIRST definition of a name *)
Definition get_type (doc : tsdoc) (n : str) : option typedef :=
  find (fun t => str_eqb (tname t) n) (typedefs doc).

(** [Schema::iter_types]: names in first-insertion order, each with its (first) definition *)
Fixpoint first_defs_aux (seen : list str) (l : list typedef) : list typedef :=
  match l with
  | [] => []
  | t :: r => if mem (tname t) seen then first_defs_aux seen r
              else t :: first_defs_aux (tname t :: seen) r
  end.
Definition iter_types (doc : tsdoc) : list typedef := first_defs_aux [] (typedefs doc).

(** [utils::interface_implementers]: the object types (in [iter_types] order) that list the interface *)
Definition interface_implementers (doc : tsdoc) (iface : str) : list ident :=
  flat_map (fun t => match t with
                     | TDObject _ _ n impls _ _ _ =>
                         if existsb (fun i => str_eqb (iname i) iface) impls then [n] else []
                     | _ => []
                     end) (iter_types doc).

(** [ast_to_type_system::convert_deprecation] *)
Definition DEPRECATED : str := s "deprecated".
Definition NO_LONGER : str := s "No longer supported".
Definition convert_deprecation (dirs : list directive) : option str :=
  match find (fun d => str_eqb (iname (dir_name d)) DEPRECATED) dirs with
  | None => None
  | Some d =>
      let args := match dir_args d with Some a => args_list a | None => [] end in
      Some (match find (fun kv => str_eqb (iname (fst kv)) (s "reason")) args with
            | Some (_, VString _ v) => v
            | _ => NO_LONGER
            end)
  end.

(** deprecation of field [f] of the schema's object type named [n] (None if not an object / no such field) *)
Definition schema_object_field_deprecation (doc : tsdoc) (n f : str) : option str :=
  match get_type doc n with
  | Some (TDObject _ _ _ _ _ fields _) =>
      match find (fun fd => str_eqb (iname (fd_name fd)) f) fields with
      | Some fd => convert_deprecation (fd_dirs fd)
      | None => None
      end
  | _ => None
  end.
(** [Some dep] = the schema's input object [n] has field [f] (with deprecation [dep]); [None] makes
    the printer panic ("Type system error") *)
Definition schema_input_field_deprecation (doc : tsdoc) (n f : str) : option (option str) :=
  match get_type doc n with
  | Some (TDInput _ _ _ _ fields _) =>
      match find (fun iv => str_eqb (iname (iv_name iv)) f) fields with
      | Some iv => Some (convert_deprecation (iv_dirs iv))
      | None => None
      end
  | _ => None
  end.

(** * context.rs *)
Definition TS_TYPE_DIRECTIVE : str := s "nitrogql_ts_type".

Definition as_string (v : value) : option str := match v with VString _ x => Some x | _ => None end.

(** the [@nitrogql_ts_type] directive of a scalar definition *)
Definition directive_ts_type (dirs : list directive) : option scalar_cfg :=
  match find (fun d => str_eqb (iname (dir_name d)) TS_TYPE_DIRECTIVE) dirs with
  | None => None
  | Some d =>
      match dir_args d with
      | None => None
      | Some a =>
          let pick (k : str) : option value :=
            (* the loop overwrites: the LAST argument with that name *)
            fold_left (fun acc kv => if str_eqb (iname (fst kv)) k then Some (snd kv) else acc) (args_list a) None in
          let get k := match pick k with Some v => as_string v | None => None end in
          match get (s "resolverInput"), get (s "resolverOutput"), get (s "operationInput"), get (s "operationOutput") with
          | Some ri, Some ro, Some oi, Some oo => Some (ScSeparate ro ri oo oi)
          | _, _, _, _ => None
          end
      end
  end.

(** [get_scalar_types]: one entry per scalar definition that has a type, collected into a HashMap
    (a later definition of the same name replaces an earlier one) *)
Definition scalar_entries (o : sopts) (doc : tsdoc) : list (str * scalar_cfg) :=
  flat_map (fun t => match t with
                     | TDScalar _ _ n dirs _ =>
                         match Ts.TsDen.assoc (iname n) (so_scalars o) with
                         | Some c => [(iname n, c)]
                         | None => match directive_ts_type dirs with Some c => [(iname n, c)] | None => [] end
                         end
                     | _ => []
                     end) (typedefs doc).
Fixpoint dedup_last {A} (l : list (str * A)) : list (str * A) :=
  match l with
  | [] => []
  | (k, v) :: r => if mem k (map fst r) then dedup_last r else (k, v) :: dedup_last r
  end.
Definition get_scalar_types (o : sopts) (doc : tsdoc) : list (str * scalar_cfg) :=
  dedup_last (scalar_entries o doc).

Definition is_ascii_alpha (c : N) : bool := ((97 <=? c) && (c <=? 122) || (65 <=? c) && (c <=? 90))%N.
Definition is_ascii_alnum (c : N) : bool := (is_ascii_alpha c || (48 <=? c) && (c <=? 57))%N.
Definition UNDERSCORE : N := 95.

(** the identifier scanner of [get_bag_of_identifiers]; [cur] is the current identifier reversed *)
Fixpoint scan_idents (in_id : bool) (cur : str) (l : str) : list str :=
  match l with
  | [] => if in_id then [rev cur] else []
  | c :: r =>
      if in_id then
        if is_ascii_alnum c || N.eqb c UNDERSCORE then scan_idents true (c :: cur) r
        else rev cur :: scan_idents false [] r
      else if is_ascii_alpha c || N.eqb c UNDERSCORE then scan_idents true [c] r
      else scan_idents false [] r
  end.
Definition idents_of (ts_text : str) : list str := scan_idents false [] ts_text.

Definition get_bag_of_identifiers (scalars : list (str * scalar_cfg)) : list str :=
  flat_map (fun kv => flat_map idents_of (cfg_type_names (snd kv))) scalars.

Definition TMP_PREFIX : str := s "__tmp_".
(** the words [make_local_type_names] adds to its bag (since /repo d4bb3a6): the keywords the printer
    itself writes in type position *)
Definition EMITTED_KEYWORDS : list str := [s "null"; s "undefined"; s "never"; s "unknown"].
(** the value [make_local_type_names] stores for a schema name.  [bag] is the result of
    [get_bag_of_identifiers] (the identifiers of the scalar mappings, kept in the context as [c_bag]);
    the bag the Rust function consults is that set extended with [EMITTED_KEYWORDS] *)
Definition local_name (bag : list str) (n : str) : str :=
  if mem n bag || mem n EMITTED_KEYWORDS then TMP_PREFIX ++ n else n.

Record ctx := mkCtx {
  c_opts : sopts; c_doc : tsdoc; c_target : target;
  c_scalars : list (str * scalar_cfg);       (* context.scalar_types *)
  c_bag : list str }.
Definition make_ctx (o : sopts) (doc : tsdoc) (t : target) : ctx :=
  let sc := get_scalar_types o doc in mkCtx o doc t sc (get_bag_of_identifiers sc).

(** [context.local_type_names.get(n)] *)
Definition local_type_name (c : ctx) (n : str) : option str :=
  if existsb (fun t => str_eqb (tname t) n) (typedefs (c_doc c)) then Some (local_name (c_bag c) n) else None.
Definition local_type_name_or_panic (c : ctx) (n : str) : res str :=
  match local_type_name c n with Some l => Ok l | None => Panic 1 end.

(** * type_printer.rs *)

(** one declaration inside a namespace *)
Inductive body := BType (t : tstype) | BText (raw : str).   (* scalars write their configured text verbatim *)
Record member := mkMember {
  m_kw : keyword; m_name : ident; m_local : str; m_descr : option str; m_body : body }.

Definition make_ts_description (d : option desc) (dep : option str) : option str :=
  match d, dep with
  | Some d, Some dep => Some (desc_value d ++ [10; 10]%N ++ s "@deprecated " ++ dep)
  | Some d, None => Some (desc_value d)
  | None, Some dep => Some (s "@deprecated " ++ dep)
  | None, None => None
  end.

Definition TYPENAME : str := s "__typename".

(** [get_ts_type_of_type] with a fallible name mapping: the mapping is called exactly once (one named
    type per GraphQL type), so failing first and mapping afterwards is the same *)
Definition ts_of_type_local (c : ctx) (t : ty) : res tstype :=
  bind (local_type_name_or_panic c (iname (ty_unwrapped t)))
       (fun l => Ok (get_ts_type_of_type (fun _ => TVar l pos0) t)).

Definition is_nonnull (t : ty) : bool := match t with TNonNull _ => true | _ => false end.

Definition descr_value (d : option desc) : option str := option_map desc_value d.

(** [TypeDefinition::print_type] up to the point where text is written: [Ok None] = nothing printed *)
Definition type_member (c : ctx) (t : typedef) : res (option member) :=
  match t with
  | TDScalar d p n dirs kw =>
      match Ts.TsDen.assoc (iname n) (c_scalars c) with
      | None => ErrScalar (iname n) p
      | Some cfg =>
          bind (local_type_name_or_panic c (iname n)) (fun l =>
          Ok (Some (mkMember kw n l (descr_value d) (BText (cfg_get_type cfg (c_target c))))))
      end
  | TDObject d p n impls dirs fields kw =>
      if is_input (c_target c) then Ok None else
      bind (mapM (fun fd =>
              bind (ts_of_type_local c (fd_type fd)) (fun t =>
              Ok (mkField (iname (fd_name fd)) (ipos (fd_name fd)) t false false
                    (make_ts_description (fd_desc fd)
                       (schema_object_field_deprecation (c_doc c) (iname n) (iname (fd_name fd))))))) fields)
           (fun fs =>
      bind (local_type_name_or_panic c (iname n)) (fun l =>
      Ok (Some (mkMember kw n l (descr_value d)
                  (BType (TObject (mkField TYPENAME pos0 (TStrLit (iname n)) false false None :: fs)))))))
  | TDInterface d p n impls dirs fields kw =>
      if is_input (c_target c) then Ok None else
      let cs := map (fun o => TVar (match local_type_name c (iname o) with Some l => l | None => iname o end) pos0)
                    (interface_implementers (c_doc c) (iname n)) in
      bind (local_type_name_or_panic c (iname n)) (fun l =>
      Ok (Some (mkMember kw n l (descr_value d) (BType (ts_union cs)))))
  | TDUnion d p n dirs members kw =>
      if is_input (c_target c) then Ok None else
      let cs := map (fun m => match local_type_name c (iname m) with
                              | Some l => if str_eqb l (iname m) then TVar (iname m) (ipos m) else TVar l pos0
                              | None => TVar (iname m) (ipos m)
                              end) members in
      bind (local_type_name_or_panic c (iname n)) (fun l =>
      Ok (Some (mkMember kw n l (descr_value d) (BType (ts_union cs)))))
  | TDEnum d p n dirs vals kw =>
      bind (local_type_name_or_panic c (iname n)) (fun l =>
      Ok (Some (mkMember kw n l (descr_value d)
                  (BType (TUnion (map (fun v => TStrLit (iname (ev_name v))) vals))))))
  | TDInput d p n dirs fields kw =>
      if is_output (c_target c) then Ok None else
      bind (mapM (fun iv =>
              match schema_input_field_deprecation (c_doc c) (iname n) (iname (iv_name iv)) with
              | None => Panic 2
              | Some dep =>
                  bind (ts_of_type_local c (iv_type iv)) (fun t =>
                  let t := into_readonly t in
                  let opt := so_optional (c_opts c) && negb (is_nonnull (iv_type iv)) in
                  Ok (mkField (iname (iv_name iv)) (ipos (iv_name iv))
                        (if opt then TUnion [t; TUndefined] else t) true opt
                        (make_ts_description (iv_desc iv) dep)))
              end) fields)
           (fun fs =>
      bind (local_type_name_or_panic c (iname n)) (fun l =>
      Ok (Some (mkMember kw n l (descr_value d) (BType (TObject fs))))))
  end.

Definition def_member (c : ctx) (d : tsdef) : res (option member) :=
  match d with TSType t => type_member c t | _ => Ok None end.

Definition opt_description (d : option str) : list wop :=
  match d with Some d => print_description d | None => [] end.

Definition print_body (b : body) : list wop :=
  match b with BType t => print_type t | BText r => [W r] end.

Definition kw_wf (text : str) (kw : keyword) : wop := WF text (kw_pos kw) (Some (kw_name kw)).
Definition id_wf (text : str) (i : ident) : wop := WF text (ipos i) (Some (iname i)).

(** [export_type] *)
Definition export_type (kw : keyword) (name : ident) (l : str) (b : body) : list wop :=
  if str_eqb (iname name) l then
    [kw_wf (s "export type ") kw; id_wf l name; W (s " = ")] ++ print_body b ++ [W (s ";" ++ [10%N])]
  else
    [kw_wf (s "type ") kw; id_wf l name; W (s " = ")] ++ print_body b
    ++ [W (s ";" ++ [10%N] ++ s "export type { "); W l; W (s " as "); W (iname name); W (s "};" ++ [10%N])].

Definition print_member (m : member) : list wop :=
  opt_description (m_descr m) ++ export_type (m_kw m) (m_name m) (m_local m) (m_body m).

Definition print_opt_member (m : option member) : list wop :=
  match m with Some m => print_member m | None => [] end.

(** [export_representative] *)
Definition export_representative (kw : keyword) (name : ident) (l : str) (t : target) : list wop :=
  if str_eqb (iname name) l then
    [kw_wf (s "export type ") kw; id_wf l name; W (s " = " ++ target_str t ++ s "." ++ l ++ s ";" ++ [10%N])]
  else
    [kw_wf (s "type ") kw; id_wf l name; W (s " = " ++ target_str t ++ s "." ++ iname name ++ s ";" ++ [10%N]);
     W (s "export type { " ++ l ++ s " as " ++ iname name ++ s " };" ++ [10%N])].

Definition representative_target (t : typedef) : target :=
  match t with TDInput _ _ _ _ _ _ => ResIn | _ => OpOut end.

Definition typedef_kw (t : typedef) : keyword :=
  match t with
  | TDScalar _ _ _ _ kw | TDObject _ _ _ _ _ _ kw | TDInterface _ _ _ _ _ _ kw
  | TDUnion _ _ _ _ _ kw | TDEnum _ _ _ _ _ kw | TDInput _ _ _ _ _ kw => kw
  end.

Definition enum_runtime (kw : keyword) (n : ident) (vals : list enumvaldef) : list wop :=
  [kw_wf (s "export const ") kw; id_wf (iname n) n; W (s " = {" ++ [10%N]); Indent]
  ++ flat_map (fun v => let i := ev_name v in
                        [id_wf (iname i) i; W (s ": """); id_wf (iname i) i; W (s """," ++ [10%N])]) vals
  ++ [Dedent; W (s "} as const;" ++ [10%N])].

(** [TypeDefinition::print_representative] *)
Definition print_representative (c : ctx) (t : typedef) : res (list wop) :=
  bind (local_type_name_or_panic c (tname t)) (fun l =>
  Ok (export_representative (typedef_kw t) (typedef_name t) l (representative_target t)
      ++ match t with
         | TDEnum _ _ n _ vals kw => if so_runtime (c_opts c) then enum_runtime kw n vals else []
         | _ => []
         end)).

(** * printer.rs *)
Definition optype_str (o : optype) : str :=
  match o with Query => s "query" | Mutation => s "mutation" | Subscription => s "subscription" end.

Definition get_schema_metadata_type (doc : tsdoc) : tstype :=
  match find (fun d => match d with TSSchema _ => true | _ => false end) doc with
  | Some (TSSchema sd) =>
      TObject (map (fun oi => mkField (optype_str (fst oi)) pos0 (TVar (iname (snd oi)) (ipos (snd oi))) false false
                                      (descr_value (sd_desc sd))) (sd_ops sd))
  | _ =>
      TObject (flat_map (fun t => match t with
                                  | TDObject _ _ n _ _ _ _ =>
                                      let f (k : str) := [mkField k pos0 (TVar (iname n) (ipos n)) false false None] in
                                      if str_eqb (iname n) (s "Query") then f (s "query")
                                      else if str_eqb (iname n) (s "Mutation") then f (s "mutation")
                                      else if str_eqb (iname n) (s "Subscription") then f (s "subscription")
                                      else []
                                  | _ => []
                                  end) (typedefs doc))
  end.

Definition nl : str := [10%N].
Definition UTILITY_TYPES : str :=
  s "type __Beautify<Obj> = { [K in keyof Obj]: Obj[K] } & {};" ++ nl
  ++ s "export type __SelectionSet<Orig, Obj, Others> =" ++ nl
  ++ s "  __Beautify<Pick<{" ++ nl
  ++ s "    [K in keyof Orig]: Obj extends { [P in K]?: infer V } ? V : unknown" ++ nl
  ++ s "  }, Extract<keyof Orig, keyof Obj>> & Others>;" ++ nl ++ nl.

Definition print_prelude (o : sopts) (doc : tsdoc) : list wop :=
  [W (s "export type "); W (so_meta o); W (s " = ")] ++ print_type (get_schema_metadata_type doc)
  ++ [W (s ";" ++ nl ++ nl); W UTILITY_TYPES].

(** the structured content of one namespace: one entry per definition of the document *)
Definition namespace_members (o : sopts) (doc : tsdoc) (t : target) : res (list (option member)) :=
  mapM (def_member (make_ctx o doc t)) doc.

(** the four namespaces as data *)
Definition schema_decls (o : sopts) (doc : tsdoc) : res (list (target * list (option member))) :=
  mapM (fun t => bind (namespace_members o doc t) (fun ms => Ok (t, ms))) all_targets.

Definition print_namespace (tm : target * list (option member)) : list wop :=
  [W (s "export declare namespace " ++ target_str (fst tm) ++ s " {" ++ nl); Indent]
  ++ flat_map (fun m => print_opt_member m ++ [W nl]) (snd tm)
  ++ [Dedent; W (s "}" ++ nl ++ nl)].

Definition print_representatives (o : sopts) (doc : tsdoc) : res (list wop) :=
  let c := make_ctx o doc OpOut in
  bind (mapM (fun d => match d with
                       | TSType t => bind (print_representative c t) (fun ops => Ok (ops ++ [W nl]))
                       | _ => Ok [W nl]
                       end) doc) (fun l => Ok (concat l)).

(** [SchemaTypePrinter::print_document] *)
Definition print_schema (o : sopts) (doc : tsdoc) : res (list wop) :=
  bind (schema_decls o doc) (fun nss =>
  bind (print_representatives o doc) (fun reps =>
  Ok (print_prelude o doc ++ flat_map print_namespace nss ++ reps))).

(** * resolver_type_printer *)
Record ropts := mkROpts {
  ro_root : str;        (* root_resolver_type *)
  ro_output : str;      (* resolver_output_type *)
  ro_source : str;      (* schema_source *)
  ro_ns : str }.        (* schema_root_namespace *)

Definition tvar0 (n : String.string) : tstype := TVar (s n) pos0.
Arguments tvar0 n%string_scope.
Definition tvar_id (i : ident) : tstype := TVar (iname i) (ipos i).

(** [visitor::get_ts_type_for_resolver_output] *)
Definition resolver_output_type (o : ropts) (doc : tsdoc) (t : typedef) : tstype :=
  let base := TNs3 (ro_ns o) (target_str ResOut) (tname t) in
  match t with
  | TDObject _ _ _ _ _ _ _ => TFunc (tvar0 "Omit") [base; TStrLit TYPENAME]
  | TDInterface _ _ n _ _ _ _ => ts_union (map tvar_id (interface_implementers doc (iname n)))
  | TDUnion _ _ _ _ members _ => ts_union (map tvar_id members)
  | _ => base
  end.

Definition arguments_definition_to_ts (o : ropts) (args : list inputvaldef) : tstype :=
  into_readonly
    (TObject (map (fun iv =>
       mkField (iname (iv_name iv)) (ipos (iv_name iv))
               (get_ts_type_of_type (fun n => TNs3 (ro_ns o) (target_str ResIn) (iname n)) (iv_type iv))
               false false (descr_value (iv_desc iv))) args)).

Definition type_resolver (parents results : list tstype) : tstype :=
  TObject [mkField (s "__resolveType") pos0
             (TFunc (tvar0 "__TypeResolver") [ts_union parents; tvar0 "Context"; ts_union results])
             false false None].

(** [visitor::get_resolver_type] *)
Definition get_resolver_type (o : ropts) (doc : tsdoc) (t : typedef) : option tstype :=
  match t with
  | TDObject _ _ n _ _ fields _ =>
      Some (TObject (map (fun fd =>
        mkField (iname (fd_name fd)) (ipos (fd_name fd))
          (TFunc (tvar0 "__Resolver")
             [tvar_id n;
              match fd_args fd with None => TObject [] | Some a => arguments_definition_to_ts o a end;
              tvar0 "Context";
              get_ts_type_of_type tvar_id (fd_type fd)])
          false false None) fields))
  | TDInterface _ _ n _ _ _ _ =>
      let impls := interface_implementers doc (iname n) in
      Some (type_resolver (map tvar_id impls) (map (fun i => TStrLit (iname i)) impls))
  | TDUnion _ _ _ _ members _ =>
      Some (type_resolver (map tvar_id members) (map (fun i => TStrLit (iname i)) members))
  | _ => None
  end.

(** ** model plugin *)
Definition MODEL : str := s "model".
Definition has_model (dirs : list directive) : bool := existsb (fun d => str_eqb (iname (dir_name d)) MODEL) dirs.

(** HashMap<&str, TSType> as an association list read from the front *)
Definition tymap := list (str * tstype).

(** [ModelPlugin::transform_resolver_output_types] *)
Fixpoint model_transform_types (o : ropts) (defs : list typedef) (base : tymap) : res tymap :=
  match defs with
  | [] => Ok base
  | TDObject _ _ n _ dirs fields _ :: r =>
      match find (fun d => str_eqb (iname (dir_name d)) MODEL) dirs with
      | Some d =>
          let args := match dir_args d with Some a => args_list a | None => [] end in
          match find (fun kv => str_eqb (iname (fst kv)) (s "type")) args with
          | None => Panic 3
          | Some (_, VString _ v) => model_transform_types o r ((iname n, TRaw v) :: base)
          | Some _ => model_transform_types o r base
          end
      | None =>
          let names := flat_map (fun fd => if has_model (fd_dirs fd) then [TStrLit (iname (fd_name fd))] else []) fields in
          model_transform_types o r
            ((iname n, TFunc (tvar0 "Pick") [TNs3 (ro_ns o) (target_str ResOut) (iname n); ts_union names]) :: base)
      end
  | _ :: r => model_transform_types o r base
  end.

(** [ModelPlugin::transform_document_for_resolvers] *)
Definition model_transform_doc (doc : tsdoc) : tsdoc :=
  map (fun d => match d with
                | TSType (TDObject ds p n impls dirs fields kw) =>
                    if has_model dirs then d
                    else TSType (TDObject ds p n impls dirs (filter (fun fd => negb (has_model (fd_dirs fd))) fields) kw)
                | _ => d
                end) doc.

Definition is_input_def (t : typedef) : bool := match t with TDInput _ _ _ _ _ _ => true | _ => false end.
Definition is_empty_object (t : tstype) : bool := match t with TObject [] => true | _ => false end.

(** the resolvers file as data *)
Record resolver_decls := mkRDecls {
  rd_aliases : list (ident * tstype);       (* type N = … *)
  rd_root : tstype;                         (* Resolvers<Context> *)
  rd_names : tstype;                        (* T extends … *)
  rd_output : tstype }.                     (* {…}[T] *)

(** [plugins] : number of model-plugin instances configured (0 or 1 in practice) *)
Definition resolver_structure (o : ropts) (plugins : nat) (doc : tsdoc) : res resolver_decls :=
  let base : tymap := fold_left (fun acc t => (tname t, resolver_output_type o doc t) :: acc) (typedefs doc) [] in
  bind (nat_rect (fun _ => res tymap) (Ok base)
          (fun _ acc => bind acc (model_transform_types o (typedefs doc))) plugins) (fun ts_types =>
  let doc' := nat_rect (fun _ => tsdoc) doc (fun _ d => model_transform_doc d) plugins in
  let defs := typedefs doc' in
  let out_defs := filter (fun t => negb (is_input_def t)) defs in
  bind (mapM (fun t => match Ts.TsDen.assoc (tname t) ts_types with
                       | Some ty => Ok (typedef_name t, ty)
                       | None => Panic 4
                       end) out_defs) (fun aliases =>
  Ok (mkRDecls aliases
        (TObject (flat_map (fun t => match get_resolver_type o doc t with
                                     | Some rt => [mkField (tname t) (ipos (typedef_name t)) rt false (is_empty_object rt) None]
                                     | None => []
                                     end) defs))
        (ts_union (map (fun t => TStrLit (tname t)) out_defs))
        (TObject (map (fun t => mkField (tname t) (ipos (typedef_name t)) (tvar_id (typedef_name t)) false false None)
                      out_defs))))).

Definition RESOLVER_HELPER : str :=
  s "type __Resolver<Parent, Args, Context, Result> = (parent: Parent, args: Args, context: Context, info: GraphQLResolveInfo) => Result | Promise<Result>;" ++ nl.
Definition TYPE_RESOLVER_HELPER : str :=
  s "type __TypeResolver<Obj, Context, Result> = (object: Obj, context: Context, info: GraphQLResolveInfo) => Result | Promise<Result>;" ++ nl.

Definition print_resolver_decls (o : ropts) (d : resolver_decls) : list wop :=
  [W (s "import type { GraphQLResolveInfo } from ""graphql"";" ++ nl);
   W (s "import type * as " ++ ro_ns o ++ s " from """ ++ ro_source o ++ s """;" ++ nl);
   W RESOLVER_HELPER; W TYPE_RESOLVER_HELPER]
  ++ flat_map (fun a => [W (s "type "); id_wf (iname (fst a)) (fst a); W (s " = ")] ++ print_type (snd a) ++ [W (s ";" ++ nl)])
              (rd_aliases d)
  ++ [W (s "export type " ++ ro_root o ++ s "<Context> = ")] ++ print_type (rd_root d) ++ [W (s ";" ++ nl)]
  ++ [W (s "export type " ++ ro_output o ++ s "<T extends ")] ++ print_type (rd_names d) ++ [W (s "> = " ++ nl)]
  ++ print_type (rd_output d) ++ [W (s "[T];" ++ nl)].

(** [ResolverTypePrinter::print_document] *)
Definition print_resolvers (o : ropts) (plugins : nat) (doc : tsdoc) : res (list wop) :=
  bind (resolver_structure o plugins doc) (fun d => Ok (print_resolver_decls o d)).
